(* C14: the DFA closure constructions of Model/DFAOps.v realise the corresponding language operations. *)
From GT Require Import Base.Prelude Model.DFA Model.NFA Model.DFAOps.
Set Implicit Arguments.

(* ---------- generic facts on association lists ---------- *)
Section AssocFacts.
  Context {K V : Type} `{Eqb K}.

  Lemma lookup_app (k : K) (m1 m2 : list (K * V)) :
    lookup k (m1 ++ m2) = match lookup k m1 with Some v => Some v | None => lookup k m2 end.
  Proof.
    induction m1 as [|[k' v'] m1 IH]; cbn [lookup app]; [reflexivity|].
    destruct (eqb k k'); [reflexivity | exact IH].
  Qed.

  Lemma lookup_filter_key (P : K -> bool) (k : K) (m : list (K * V)) :
    lookup k (filter (fun e => P (fst e)) m) = if P k then lookup k m else None.
  Proof.
    induction m as [|[k' v'] m IH]; cbn [lookup filter fst].
    - destruct (P k); reflexivity.
    - destruct (P k') eqn:Ek'; cbn [lookup].
      + destruct (eqb k k') eqn:E; [|exact IH].
        apply eqb_true in E. subst k'. rewrite Ek'. reflexivity.
      + rewrite IH. destruct (eqb k k') eqn:E; [|reflexivity].
        apply eqb_true in E. subst k'. rewrite Ek'. reflexivity.
  Qed.

  Lemma lookup_map_val {V2} (g : V -> V2) (k : K) (m : list (K * V)) :
    lookup k (map (fun e => (fst e, g (snd e))) m) = match lookup k m with Some v => Some (g v) | None => None end.
  Proof.
    induction m as [|[k' v'] m IH]; cbn [lookup map fst snd]; [reflexivity|].
    destruct (eqb k k'); [reflexivity | exact IH].
  Qed.

  Lemma lookup_const (c : V) (k : K) (l : list K) :
    lookup k (map (fun x => (x, c)) l) = if mem k l then Some c else None.
  Proof.
    induction l as [|x l IH]; cbn [lookup map]; [reflexivity|].
    unfold mem. cbn [existsb]. fold (mem k l).
    destruct (eqb k x); cbn [orb]; [reflexivity | exact IH].
  Qed.

  Lemma lookup_not_None (k : K) (v : V) (m : list (K * V)) : In (k, v) m -> lookup k m <> None.
  Proof. intros Hi Hc. rewrite lookup_None in Hc. exact (Hc v Hi). Qed.

  Lemma lookup_NoDup (k : K) (v : V) (m : list (K * V)) :
    NoDup (map fst m) -> In (k, v) m -> lookup k m = Some v.
  Proof.
    induction m as [|[k' v'] m IH]; intros Hnd Hi; [destruct Hi|].
    cbn [map fst] in Hnd. inversion Hnd as [|x xs Hnin Hnd']; subst.
    cbn [lookup]. destruct Hi as [Hi|Hi].
    - inversion Hi; subst. rewrite eqb_refl. reflexivity.
    - destruct (eqb k k') eqn:E.
      + apply eqb_true in E. subst k'. exfalso. apply Hnin.
        apply in_map_iff. exists (k, v). split; [reflexivity | exact Hi].
      + apply IH; assumption.
  Qed.
End AssocFacts.

(* ---------- all_some ---------- *)
Section AllSome.
  Context {X Y : Type}.
  Lemma all_some_map_Some (g : X -> option Y) (l : list X) :
    (forall x, In x l -> g x <> None) -> exists r, all_some (map g l) = Some r.
  Proof.
    induction l as [|x l IH]; intros Hg; cbn [map all_some]; [exists []; reflexivity|].
    destruct (g x) as [y|] eqn:E; [|exfalso; apply (Hg x); [left; reflexivity | exact E]].
    destruct IH as [r Hr]; [intros x' Hx'; apply Hg; right; exact Hx'|].
    rewrite Hr. exists (y :: r). reflexivity.
  Qed.

  Lemma all_some_map_In (g : X -> option Y) (l : list X) (r : list Y) :
    all_some (map g l) = Some r -> forall y, In y r <-> exists x, In x l /\ g x = Some y.
  Proof.
    revert r. induction l as [|x l IH]; intros r Hr y; cbn [map all_some] in Hr.
    - inversion Hr; subst. cbn. split; [tauto | intros [x [[] _]]].
    - destruct (g x) as [y0|] eqn:E; [|discriminate].
      destruct (all_some (map g l)) as [r0|] eqn:E0; [|discriminate].
      inversion Hr; subst. cbn [In]. rewrite (IH r0 eq_refl y). split.
      + intros [<-|[x' [Hx' Hg']]]; [exists x; auto | exists x'; auto].
      + intros [x' [[<-|Hx'] Hg']]; [left; congruence | right; exists x'; auto].
  Qed.
End AllSome.

Lemma all_some_map_lookup {K V : Type} `{Eqb K} (g : K -> option (K * V)) (l : list K) (r : list (K * V)) :
  all_some (map g l) = Some r -> (forall x y, g x = Some y -> fst y = x) ->
  forall k, In k l -> exists v, g k = Some (k, v) /\ lookup k r = Some v.
Proof.
  revert r. induction l as [|x l IH]; intros r Hr Hfst k Hk; [destruct Hk|].
  cbn [map all_some] in Hr.
  destruct (g x) as [[x' v0]|] eqn:E; [|discriminate].
  destruct (all_some (map g l)) as [r0|] eqn:E0; [|discriminate].
  inversion Hr; subst. pose proof (Hfst _ _ E) as Hx. cbn in Hx. subst x'.
  cbn [lookup]. destruct (eqb k x) eqn:Ek.
  - apply eqb_true in Ek. subst k. exists v0. auto.
  - destruct Hk as [Hk|Hk]; [subst k; rewrite eqb_refl in Ek; discriminate|].
    apply (IH r0 eq_refl Hfst k Hk).
Qed.

(* ---------- runs of a DFA ---------- *)
Section Runs.
  Context {A : Type} `{Eqb A}.

  Lemma dfa_path_run (D : dfa A) (w : word) : forall q q', dfa_path D q w q' <-> dfa_run D q w = Some q'.
  Proof.
    induction w as [|a w IH]; intros q q'; cbn [dfa_run].
    - split; [intros Hp; inversion Hp; reflexivity | intros E; inversion E; constructor].
    - split.
      + intros Hp. inversion Hp as [|q0 a0 q1 w0 q2 Hd Hp']; subst. rewrite Hd. apply IH. exact Hp'.
      + destruct (ddelta D q a) as [q1|] eqn:Hd; [|discriminate].
        intros E. apply dp_cons with q1; [exact Hd | apply IH; exact E].
  Qed.

  Lemma dfa_path_fun (D : dfa A) q w p1 p2 : dfa_path D q w p1 -> dfa_path D q w p2 -> p1 = p2.
  Proof. rewrite !dfa_path_run. congruence. Qed.

  Lemma dfa_path_app (D : dfa A) (w1 w2 : word) : forall q q',
    dfa_path D q (w1 ++ w2) q' <-> exists p, dfa_path D q w1 p /\ dfa_path D p w2 q'.
  Proof.
    induction w1 as [|a w1 IH]; intros q q'; cbn [app].
    - split.
      + intros Hp. exists q. split; [constructor | exact Hp].
      + intros [p [H1 H2]]. inversion H1; subst. exact H2.
    - split.
      + intros Hp. inversion Hp as [|q0 a0 q1 w0 q2 Hd Hp']; subst.
        apply IH in Hp'. destruct Hp' as [p [H1 H2]]. exists p. split; [|exact H2].
        apply dp_cons with q1; assumption.
      + intros [p [H1 H2]]. inversion H1 as [|q0 a0 q1 w0 q2 Hd Hp']; subst.
        apply dp_cons with q1; [exact Hd|]. apply IH. exists p. auto.
  Qed.

  Lemma dfa_wf_step (D : dfa A) q a : dfa_wf D -> In q (dQ D) -> In a (dS D) ->
    ddelta D q a = Some (dstep D q a) /\ In (dstep D q a) (dQ D).
  Proof.
    intros [_ [_ [Hd Ht]]] Hq Ha. unfold dstep.
    destruct (ddelta D q a) as [q1|] eqn:E; [|exfalso; exact (Ht q a Hq Ha E)].
    split; [reflexivity|]. apply lookup_In in E. apply Hd in E. tauto.
  Qed.

  Lemma ddelta_wf (D : dfa A) q a q1 : dfa_wf D -> ddelta D q a = Some q1 ->
    In q (dQ D) /\ In a (dS D) /\ In q1 (dQ D).
  Proof. intros [_ [_ [Hd _]]] E. apply lookup_In in E. exact (Hd _ _ _ E). Qed.

  Lemma drun_In (D : dfa A) (w : word) : dfa_wf D -> Forall (fun a => In a (dS D)) w ->
    forall q, In q (dQ D) -> In (drun D q w) (dQ D).
  Proof.
    intros Hwf Hw. induction Hw as [|a w Ha Hw IH]; intros q Hq; cbn [drun]; [exact Hq|].
    apply IH. apply (dfa_wf_step q a); assumption.
  Qed.

  Lemma dfa_run_drun (D : dfa A) (w : word) : dfa_wf D -> Forall (fun a => In a (dS D)) w ->
    forall q, In q (dQ D) -> dfa_run D q w = Some (drun D q w).
  Proof.
    intros Hwf Hw. induction Hw as [|a w Ha Hw IH]; intros q Hq; cbn [drun dfa_run]; [reflexivity|].
    destruct (dfa_wf_step q a Hwf Hq Ha) as [E Hi]. rewrite E. apply IH. exact Hi.
  Qed.

  Lemma dfa_path_drun (D : dfa A) (w : word) q p : dfa_wf D -> Forall (fun a => In a (dS D)) w -> In q (dQ D) ->
    (dfa_path D q w p <-> p = drun D q w).
  Proof.
    intros Hwf Hw Hq. rewrite dfa_path_run, (dfa_run_drun Hwf Hw q Hq).
    split; [intros E; inversion E; reflexivity | intros ->; reflexivity].
  Qed.

  Lemma dfa_lang_drun (D : dfa A) (w : word) : dfa_wf D -> Forall (fun a => In a (dS D)) w ->
    (dfa_lang D w <-> In (drun D (dq0 D) w) (dF D)).
  Proof.
    intros Hwf Hw. pose proof Hwf as [Hq0 _]. unfold dfa_lang. split.
    - intros [qf [Hp Hf]]. apply (dfa_path_drun _ _ Hwf Hw Hq0) in Hp. subst qf. exact Hf.
    - intros Hf. exists (drun D (dq0 D) w). split; [|exact Hf].
      apply (dfa_path_drun _ _ Hwf Hw Hq0). reflexivity.
  Qed.

  Lemma drun_app (D : dfa A) (w1 w2 : word) : forall q, drun D q (w1 ++ w2) = drun D (drun D q w1) w2.
  Proof. induction w1 as [|a w1 IH]; intros q; cbn [drun app]; [reflexivity | apply IH]. Qed.

  (* a path of a well-formed automaton reads only alphabet symbols and stays inside Q *)
  Lemma dfa_path_wf (D : dfa A) q w p : dfa_wf D -> dfa_path D q w p -> In q (dQ D) ->
    Forall (fun a => In a (dS D)) w /\ In p (dQ D).
  Proof.
    intros Hwf Hp. induction Hp as [q|q a q1 w q2 Hd Hp IH]; intros Hq.
    - split; [constructor | exact Hq].
    - destruct (ddelta_wf _ _ Hwf Hd) as [_ [Ha Hq1]]. destruct (IH Hq1) as [Hw Hq2].
      split; [constructor; assumption | exact Hq2].
  Qed.

  Lemma In_dec_mem (x : A) (l : list A) : In x l \/ ~ In x l.
  Proof. destruct (mem x l) eqn:E; [left; apply mem_In; exact E | right; apply mem_nIn; exact E]. Qed.
End Runs.

Section S.
  Context {A B : Type} `{Eqb A} `{Eqb B}.

  (* ---------------- complement ---------------- *)
  Theorem complement_correct (D : dfa A) : dfa_wf D ->
    dfa_wf (dfa_complement D) /\ dS (dfa_complement D) = dS D /\
    forall w, Forall (fun a => In a (dS D)) w -> (dfa_lang (dfa_complement D) w <-> ~ dfa_lang D w).
  Proof.
    intros Hwf.
    assert (Hwf' : dfa_wf (dfa_complement D)).
    { destruct Hwf as [Hq0 [HF [Hd Ht]]]. unfold dfa_wf, dfa_complement; cbn [dQ dS dD dq0 dF].
      split; [exact Hq0|]. split; [intros x Hx; apply diff_In in Hx; tauto|].
      split; [exact Hd | exact Ht]. }
    split; [exact Hwf'|]. split; [reflexivity|].
    intros w Hw. rewrite (dfa_lang_drun Hwf Hw).
    assert (Hw' : Forall (fun a => In a (dS (dfa_complement D))) w) by exact Hw.
    rewrite (dfa_lang_drun Hwf' Hw').
    assert (E : drun (dfa_complement D) (dq0 (dfa_complement D)) w = drun D (dq0 D) w).
    { cbn [dfa_complement dq0]. generalize (dq0 D). induction w as [|a w IH]; intros q; cbn [drun]; [reflexivity|].
      inversion Hw; subst. apply IH; assumption. }
    rewrite E. cbn [dfa_complement dF]. rewrite diff_In.
    pose proof Hwf as [Hq0 _]. pose proof (drun_In Hwf Hw _ Hq0) as Hin. tauto.
  Qed.
  (* ---------------- product ---------------- *)
  Theorem product_correct (ptype : nat) (D1 : dfa A) (D2 : dfa B) : dfa_wf D1 -> dfa_wf D2 -> seteq (dS D1) (dS D2) ->
    exists D, dfa_product ptype D1 D2 = Some D /\ dfa_wf D /\ dS D = dS D1 /\
    forall w, Forall (fun a => In a (dS D1)) w ->
      (dfa_lang D w <-> match ptype with
                        | 0 => dfa_lang D1 w \/ dfa_lang D2 w
                        | 1 => dfa_lang D1 w /\ dfa_lang D2 w
                        | _ => (dfa_lang D1 w /\ ~ dfa_lang D2 w) \/ (~ dfa_lang D1 w /\ dfa_lang D2 w)
                        end).
  Proof.
    intros Hwf1 Hwf2 Hse. unfold dfa_product.
    assert (Eseq : seteqb (dS D1) (dS D2) = true) by (apply seteqb_seteq; exact Hse).
    rewrite Eseq. cbn [negb].
    set (states := list_prod (dQ D1) (dQ D2)).
    set (g := fun pa : (A * B) * nat =>
                match ddelta D1 (fst (fst pa)) (snd pa), ddelta D2 (snd (fst pa)) (snd pa) with
                | Some x, Some y => Some (pa, (x, y))
                | _, _ => None
                end).
    assert (Hg : forall q1 q2 a, In q1 (dQ D1) -> In q2 (dQ D2) -> In a (dS D1) ->
                 g ((q1, q2), a) = Some (((q1, q2), a), (dstep D1 q1 a, dstep D2 q2 a))).
    { intros q1 q2 a Hq1 Hq2 Ha. unfold g; cbn [fst snd].
      destruct (dfa_wf_step q1 a Hwf1 Hq1 Ha) as [E1 _].
      assert (Ha2 : In a (dS D2)) by (apply Hse; exact Ha).
      destruct (dfa_wf_step q2 a Hwf2 Hq2 Ha2) as [E2 _]. rewrite E1, E2. reflexivity. }
    assert (Hgfst : forall x y, g x = Some y -> fst y = x).
    { intros x y. unfold g. destruct (ddelta D1 (fst (fst x)) (snd x)); [|discriminate].
      destruct (ddelta D2 (snd (fst x)) (snd x)); [|discriminate].
      intros E; inversion E; reflexivity. }
    destruct (all_some_map_Some g (list_prod states (dS D1))) as [delta Hdelta].
    { intros [[q1 q2] a] Hx. apply in_prod_iff in Hx. destruct Hx as [Hp Ha].
      apply in_prod_iff in Hp. destruct Hp as [Hq1 Hq2]. rewrite (Hg q1 q2 a Hq1 Hq2 Ha). discriminate. }
    rewrite Hdelta.
    set (D := mkDFA states (dS D1) delta (dq0 D1, dq0 D2) (filter (prod_final ptype D1 D2) states)).
    exists D. split; [reflexivity|].
    assert (Hstep : forall q1 q2 a, In q1 (dQ D1) -> In q2 (dQ D2) -> In a (dS D1) ->
                    ddelta D (q1, q2) a = Some (dstep D1 q1 a, dstep D2 q2 a)).
    { intros q1 q2 a Hq1 Hq2 Ha.
      assert (Hin : In ((q1, q2), a) (list_prod states (dS D1))).
      { apply in_prod_iff. split; [apply in_prod_iff; split; assumption | exact Ha]. }
      destruct (all_some_map_lookup g _ Hdelta Hgfst _ Hin) as [v [Hv Hl]].
      rewrite (Hg q1 q2 a Hq1 Hq2 Ha) in Hv. inversion Hv; subst v. exact Hl. }
    assert (HwfD : dfa_wf D).
    { pose proof Hwf1 as [Hq01 [HF1 [Hd1 Ht1]]]. pose proof Hwf2 as [Hq02 [HF2 [Hd2 Ht2]]].
      unfold dfa_wf; cbn [D dQ dS dD dq0 dF]. split; [apply in_prod_iff; split; assumption|].
      split; [intros x Hx; apply filter_In in Hx; tauto|]. split.
      - intros [q1 q2] a [x y] Hi.
        apply (all_some_map_In g _ Hdelta) in Hi. destruct Hi as [pa [Hpa Hgpa]].
        pose proof (Hgfst _ _ Hgpa) as Efst. cbn [fst] in Efst. subst pa.
        apply in_prod_iff in Hpa. destruct Hpa as [Hp Ha]. apply in_prod_iff in Hp. destruct Hp as [Hq1 Hq2].
        rewrite (Hg q1 q2 a Hq1 Hq2 Ha) in Hgpa. inversion Hgpa; subst x y.
        split; [apply in_prod_iff; split; assumption|]. split; [exact Ha|].
        apply in_prod_iff. split.
        + apply (dfa_wf_step q1 a); assumption.
        + apply (dfa_wf_step q2 a); [assumption | assumption | apply Hse; exact Ha].
      - intros [q1 q2] a Hq Ha. apply in_prod_iff in Hq. destruct Hq as [Hq1 Hq2].
        rewrite (Hstep q1 q2 a Hq1 Hq2 Ha). discriminate. }
    split; [exact HwfD|]. split; [reflexivity|].
    intros w Hw.
    assert (Hw2 : Forall (fun a => In a (dS D2)) w).
    { apply Forall_forall. intros a Ha. apply Hse. rewrite Forall_forall in Hw. apply Hw. exact Ha. }
    assert (HwD : Forall (fun a => In a (dS D)) w) by exact Hw.
    pose proof (dfa_lang_drun HwfD HwD) as HL. pose proof (dfa_lang_drun Hwf1 Hw) as HL1.
    pose proof (dfa_lang_drun Hwf2 Hw2) as HL2.
    assert (Hrun : forall q1 q2, In q1 (dQ D1) -> In q2 (dQ D2) ->
                   drun D (q1, q2) w = (drun D1 q1 w, drun D2 q2 w)).
    { clear HwD Hw2 HL HL1 HL2. induction Hw as [|a w Ha Hw IH]; intros q1 q2 Hq1 Hq2; cbn [drun]; [reflexivity|].
      assert (Es : dstep D (q1, q2) a = (dstep D1 q1 a, dstep D2 q2 a)).
      { unfold dstep at 1. rewrite (Hstep q1 q2 a Hq1 Hq2 Ha). reflexivity. }
      rewrite Es. apply IH.
      - apply (dfa_wf_step q1 a); assumption.
      - apply (dfa_wf_step q2 a); [assumption | assumption | apply Hse; exact Ha]. }
    pose proof Hwf1 as [Hq01 _]. pose proof Hwf2 as [Hq02 _].
    assert (HL' : dfa_lang D w <-> In (drun D1 (dq0 D1) w, drun D2 (dq0 D2) w) states /\
                  prod_final ptype D1 D2 (drun D1 (dq0 D1) w, drun D2 (dq0 D2) w) = true).
    { rewrite HL. cbn [D dq0 dF]. rewrite (Hrun _ _ Hq01 Hq02), filter_In. reflexivity. }
    clear HL. rename HL' into HL.
    pose proof (drun_In Hwf1 Hw _ Hq01) as Hi1. pose proof (drun_In Hwf2 Hw2 _ Hq02) as Hi2.
    assert (Hst : In (drun D1 (dq0 D1) w, drun D2 (dq0 D2) w) states)
      by (apply in_prod_iff; split; assumption).
    unfold prod_final in HL; cbn [fst snd] in HL.
    destruct (mem (drun D1 (dq0 D1) w) (dF D1)) eqn:E1;
      [apply mem_In in E1 | apply mem_nIn in E1];
      (destruct (mem (drun D2 (dq0 D2) w) (dF D2)) eqn:E2; [apply mem_In in E2 | apply mem_nIn in E2]);
      destruct ptype as [|[|n]]; cbn [orb andb xorb] in HL; rewrite HL, HL1, HL2; intuition discriminate.
  Qed.
  (* ---------------- make_total ---------------- *)
  Lemma make_total_delta (trap : A) (D : dfa A) q a :
    ddelta (dfa_make_total trap D) q a =
    match ddelta D q a with
    | Some x => Some x
    | None => if mem q (add trap (dQ D)) && mem a (dS D) then Some trap else None
    end.
  Proof.
    unfold ddelta at 1. unfold dfa_make_total; cbn [dD]. rewrite lookup_app. fold (ddelta D q a).
    destruct (ddelta D q a) as [x|] eqn:E; [reflexivity|].
    rewrite lookup_const.
    match goal with |- (if mem ?k ?l then _ else _) = _ => destruct (mem k l) eqn:Em end.
    - apply mem_In in Em. apply filter_In in Em. destruct Em as [Hp _].
      apply in_prod_iff in Hp. destruct Hp as [Hq Ha].
      apply mem_In in Hq. apply mem_In in Ha. rewrite Hq, Ha. reflexivity.
    - destruct (mem q (add trap (dQ D))) eqn:Eq; [|reflexivity].
      destruct (mem a (dS D)) eqn:Ea; [|reflexivity]. exfalso.
      apply mem_In in Eq. apply mem_In in Ea. apply mem_nIn in Em. apply Em.
      apply filter_In. cbn [fst snd]. rewrite E. split; [|reflexivity].
      apply in_prod_iff. split; assumption.
  Qed.

  Lemma make_total_fwd (trap : A) (D : dfa A) q w p :
    dfa_path D q w p -> dfa_path (dfa_make_total trap D) q w p.
  Proof.
    intros Hp. induction Hp as [q|q a q1 w q2 Hdl Hp IH]; [constructor|].
    apply dp_cons with q1; [|exact IH]. rewrite make_total_delta, Hdl. reflexivity.
  Qed.

  Lemma make_total_trap (trap : A) (D : dfa A) w p :
    (forall a, ddelta D trap a = None) -> dfa_path (dfa_make_total trap D) trap w p -> p = trap.
  Proof.
    intros Htd Hp. assert (G : forall q, dfa_path (dfa_make_total trap D) q w p -> q = trap -> p = trap).
    { clear Hp. intros q Hp. induction Hp as [q|q a q1 w q2 Hdl Hp IH]; intros Et; [exact Et|].
      subst q. rewrite make_total_delta, Htd in Hdl.
      destruct (mem trap (add trap (dQ D)) && mem a (dS D)); [|discriminate].
      inversion Hdl; subst q1. apply IH. reflexivity. }
    apply (G trap Hp eq_refl).
  Qed.

  Lemma make_total_bwd (trap : A) (D : dfa A) q w p :
    (forall a, ddelta D trap a = None) -> dfa_path (dfa_make_total trap D) q w p -> p <> trap -> dfa_path D q w p.
  Proof.
    intros Htd Hp Hne. induction Hp as [q|q a q1 w q2 Hdl Hp IH]; [constructor|].
    rewrite make_total_delta in Hdl. destruct (ddelta D q a) as [x|] eqn:E.
    - inversion Hdl; subst x. apply dp_cons with q1; [exact E | apply IH; exact Hne].
    - destruct (mem q (add trap (dQ D)) && mem a (dS D)); [|discriminate].
      inversion Hdl; subst q1. exfalso. apply Hne. apply (make_total_trap Htd Hp).
  Qed.

  (* the hypothesis NoDup (map fst (dD D)) is not needed *)
  Theorem make_total_correct (trap : A) (D : dfa A) : pdfa_wf D -> ~ In trap (dQ D) ->
    dfa_wf (dfa_make_total trap D) /\ dS (dfa_make_total trap D) = dS D /\
    forall w, Forall (fun a => In a (dS D)) w -> (dfa_lang (dfa_make_total trap D) w <-> dfa_lang D w).
  Proof.
    intros [Hq0 [HF Hd]] Htrap.
    assert (Htd : forall a, ddelta D trap a = None).
    { intros a. apply lookup_None. intros v Hc. apply Hd in Hc. tauto. }
    split; [|split; [reflexivity|]].
    - unfold dfa_wf. cbn [dfa_make_total dQ dS dq0 dF]. split; [apply add_In; right; exact Hq0|].
      split; [intros x Hx; apply add_In; right; apply HF; exact Hx|]. split.
      + intros q a q1 Hi. cbn [dD] in Hi. apply in_app_iff in Hi. destruct Hi as [Hi|Hi].
        * apply Hd in Hi. rewrite !add_In. tauto.
        * apply in_map_iff in Hi. destruct Hi as [[q' a'] [E Hi]]. inversion E; subst.
          apply filter_In in Hi. destruct Hi as [Hp _]. apply in_prod_iff in Hp. destruct Hp as [Hq Ha].
          split; [exact Hq|]. split; [exact Ha|]. apply add_In. left; reflexivity.
      + intros q a Hq Ha. fold (dfa_make_total trap D). rewrite make_total_delta.
        destruct (ddelta D q a); [discriminate|].
        apply mem_In in Hq. apply mem_In in Ha. rewrite Hq, Ha. discriminate.
    - intros w _. unfold dfa_lang. cbn [dfa_make_total dq0 dF]. fold (dfa_make_total trap D). split.
      + intros [qf [Hp Hf]]. exists qf. split; [|exact Hf].
        apply (make_total_bwd Htd Hp). intros ->. apply Htrap. apply HF. exact Hf.
      + intros [qf [Hp Hf]]. exists qf. split; [apply make_total_fwd; exact Hp | exact Hf].
  Qed.
  (* ---------------- no_prefix ---------------- *)
  Lemma Forall_firstn_W (P : nat -> Prop) (w : word) : Forall P w -> forall i, Forall P (firstn i w).
  Proof.
    intros Hw. induction Hw as [|a w Ha Hw IH]; intros [|i]; cbn [firstn]; try constructor; auto.
  Qed.

  Definition npN (eps : nat) (D : dfa A) : nfa A :=
    mkNFA (dQ D) (dS D)
          (map (fun e => (fst e, [snd e])) (filter (fun e => negb (mem (fst (fst e)) (dF D))) (dD D)))
          (dq0 D) (dF D) eps.

  Lemma npN_delta eps (D : dfa A) q a :
    ndelta (npN eps D) q a =
    if mem q (dF D) then [] else match ddelta D q a with Some x => [x] | None => [] end.
  Proof.
    unfold ndelta, npN; cbn [nD].
    rewrite (lookup_map_val (fun x : A => [x])).
    pose proof (lookup_filter_key (fun k : A * nat => negb (mem (fst k) (dF D))) (q, a) (dD D)) as E.
    cbn beta in E. rewrite E. cbn [fst]. fold (ddelta D q a).
    destruct (mem q (dF D)); cbn [negb]; [reflexivity|]. destruct (ddelta D q a); reflexivity.
  Qed.

  Lemma npN_eps eps (D : dfa A) q : dfa_wf D -> ~ In eps (dS D) -> ndelta (npN eps D) q eps = [].
  Proof.
    intros Hwf Heps. rewrite npN_delta. destruct (mem q (dF D)); [reflexivity|].
    destruct (ddelta D q eps) as [x|] eqn:E; [|reflexivity].
    apply (ddelta_wf _ _ Hwf) in E. tauto.
  Qed.

  Lemma npN_path eps (D : dfa A) : dfa_wf D -> ~ In eps (dS D) ->
    forall w, Forall (fun a => In a (dS D)) w -> forall q q', In q (dQ D) ->
    (nfa_path (npN eps D) q w q' <->
     q' = drun D q w /\ forall i, i < length w -> ~ In (drun D q (firstn i w)) (dF D)).
  Proof.
    intros Hwf Heps w Hw. induction Hw as [|a w Ha Hw IH]; intros q q' Hq.
    - split.
      + intros Hp. inversion Hp as [q1|q1 q2 w1 q3 Hin Hp'|]; subst.
        * split; [reflexivity|]. intros i Hi. cbn [length] in Hi. lia.
        * change (neps (npN eps D)) with eps in Hin. rewrite (@npN_eps eps D q Hwf Heps) in Hin. destruct Hin.
      + intros [-> _]. cbn [drun]. constructor.
    - destruct (dfa_wf_step q a Hwf Hq Ha) as [E Hq1]. split.
      + intros Hp. inversion Hp as [|q1 q2 w1 q3 Hin Hp'|q1 a1 q2 w1 q3 Hin Hp']; subst.
        * change (neps (npN eps D)) with eps in Hin. rewrite (@npN_eps eps D q Hwf Heps) in Hin. destruct Hin.
        * rewrite npN_delta in Hin. destruct (mem q (dF D)) eqn:Em; [destruct Hin|].
          rewrite E in Hin. destruct Hin as [<-|[]].
          apply (IH _ _ Hq1) in Hp'. destruct Hp' as [-> Hall].
          split; [reflexivity|]. intros [|i] Hi; cbn [firstn drun].
          -- apply mem_nIn. exact Em.
          -- apply Hall. cbn [length] in Hi. lia.
      + intros [-> Hall]. apply np_sym with (dstep D q a).
        * rewrite npN_delta.
          assert (Em : mem q (dF D) = false).
          { apply mem_nIn. apply (Hall 0). cbn [length]. lia. }
          rewrite Em, E. left; reflexivity.
        * cbn [drun]. apply (IH _ _ Hq1). split; [reflexivity|].
          intros i Hi. apply (Hall (S i)). cbn [length]. lia.
  Qed.

  Theorem no_prefix_correct (eps : nat) (D : dfa A) : dfa_wf D -> ~ In eps (dS D) ->
    exists N, dfa_no_prefix eps D = Some N /\ nfa_wf N /\ nS N = dS D /\
    forall w, Forall (fun a => In a (dS D)) w ->
      (nfa_lang N w <-> dfa_lang D w /\ forall i, i < length w -> ~ dfa_lang D (firstn i w)).
  Proof.
    intros Hwf Heps. exists (npN eps D). split.
    { unfold dfa_no_prefix. apply mem_nIn in Heps. rewrite Heps. reflexivity. }
    pose proof Hwf as [Hq0 [HF [Hd Ht]]].
    split; [|split; [reflexivity|]].
    - unfold nfa_wf, npN; cbn [nQ nS nD nq0 nF neps].
      split; [exact Hq0|]. split; [exact HF|]. split; [exact Heps|].
      intros q a s Hi. apply in_map_iff in Hi. destruct Hi as [[[q' a'] q1] [E Hi]].
      cbn [fst snd] in E. inversion E; subst. apply filter_In in Hi. destruct Hi as [Hi _].
      apply Hd in Hi. split; [tauto|]. split; [tauto|].
      intros x [<-|[]]. tauto.
    - intros w Hw. rewrite (dfa_lang_drun Hwf Hw). unfold nfa_lang. cbn [npN nq0 nF]. fold (npN eps D). split.
      + intros [qf [Hp Hf]]. apply (@npN_path eps D Hwf Heps w Hw _ _ Hq0) in Hp. destruct Hp as [-> Hall].
        split; [exact Hf|]. intros i Hi.
        rewrite (dfa_lang_drun Hwf (Forall_firstn_W Hw i)). apply Hall. exact Hi.
      + intros [Hf Hall]. exists (drun D (dq0 D) w). split; [|exact Hf].
        apply (@npN_path eps D Hwf Heps w Hw _ _ Hq0). split; [reflexivity|]. intros i Hi.
        rewrite <- (dfa_lang_drun Hwf (Forall_firstn_W Hw i)). apply Hall. exact Hi.
  Qed.
  (* ---------------- reverse ---------------- *)
  Definition rv_src (D : dfa A) (q1 : A) (a : nat) : list A :=
    dedup (map (fun e : (A * nat) * A => fst (fst e))
               (filter (fun e : (A * nat) * A => eqb (snd e) q1 && Nat.eqb (snd (fst e)) a) (dD D))).

  Definition rv_edges (D : dfa A) : list ((A * nat) * list A) :=
    flat_map (fun q1 => flat_map (fun a =>
      match rv_src D q1 a with [] => [] | _ => [((q1, a), rv_src D q1 a)] end) (dS D)) (dQ D).

  Definition rvN (fresh : A) (eps : nat) (D : dfa A) : nfa A :=
    mkNFA (add fresh (dQ D)) (dS D) (rv_edges D ++ [((fresh, eps), dF D)]) fresh [dq0 D] eps.

  Lemma rv_src_In (D : dfa A) q1 a x : In x (rv_src D q1 a) <-> In ((x, a), q1) (dD D).
  Proof.
    unfold rv_src. rewrite dedup_In, in_map_iff. split.
    - intros [[[x' a'] q1'] [E Hi]]. cbn [fst snd] in E. subst x'.
      apply filter_In in Hi. cbn [fst snd] in Hi. destruct Hi as [Hi Hb].
      apply andb_true_iff in Hb. destruct Hb as [Hb1 Hb2].
      apply eqb_true in Hb1. apply Nat.eqb_eq in Hb2. subst. exact Hi.
    - intros Hi. exists ((x, a), q1). split; [reflexivity|].
      apply filter_In. split; [exact Hi|]. cbn [fst snd].
      rewrite eqb_refl, Nat.eqb_refl. reflexivity.
  Qed.

  Lemma rv_entries fresh eps (D : dfa A) q a s :
    In ((q, a), s) (nD (rvN fresh eps D)) <->
    (In q (dQ D) /\ In a (dS D) /\ s = rv_src D q a /\ s <> []) \/ (q = fresh /\ a = eps /\ s = dF D).
  Proof.
    cbn [rvN nD]. rewrite in_app_iff. unfold rv_edges. rewrite in_flat_map. split.
    - intros [[q1 [Hq1 Hi]]|[E|[]]].
      + apply in_flat_map in Hi. destruct Hi as [a1 [Ha1 Hi]].
        destruct (rv_src D q1 a1) as [|y ys] eqn:E; [destruct Hi|].
        destruct Hi as [Hi|[]]. inversion Hi; subst. left.
        split; [exact Hq1|]. split; [exact Ha1|]. split; [symmetry; exact E | discriminate].
      + inversion E; subst. right. auto.
    - intros [[Hq [Ha [Es Hne]]]|[-> [-> ->]]].
      + left. exists q. split; [exact Hq|]. apply in_flat_map. exists a. split; [exact Ha|].
        rewrite <- Es. destruct s as [|y ys]; [contradiction|]. left; reflexivity.
      + right. left; reflexivity.
  Qed.

  Lemma rv_delta0 fresh eps (D : dfa A) q a x : ~ In fresh (dQ D) ->
    (In x (ndelta (rvN fresh eps D) q a) <->
     (In q (dQ D) /\ In a (dS D) /\ In x (rv_src D q a)) \/ (q = fresh /\ a = eps /\ In x (dF D))).
  Proof.
    intros Hfresh. unfold ndelta. split.
    - destruct (lookup (q, a) (nD (rvN fresh eps D))) as [s|] eqn:E; [|intros []].
      apply lookup_In in E. apply rv_entries in E. intros Hx.
      destruct E as [[Hq [Ha [-> _]]]|[-> [-> ->]]]; [left|right]; auto.
    - intros [[Hq [Ha Hx]]|[-> [-> Hx]]].
      + destruct (lookup (q, a) (nD (rvN fresh eps D))) as [s|] eqn:E.
        * apply lookup_In in E. apply rv_entries in E.
          destruct E as [[_ [_ [-> _]]]|[-> _]]; [exact Hx | contradiction].
        * exfalso. rewrite lookup_None in E. apply (E (rv_src D q a)). apply rv_entries. left.
          split; [exact Hq|]. split; [exact Ha|]. split; [reflexivity|].
          intros Hc. rewrite Hc in Hx. destruct Hx.
      + destruct (lookup (fresh, eps) (nD (rvN fresh eps D))) as [s|] eqn:E.
        * apply lookup_In in E. apply rv_entries in E.
          destruct E as [[Hq _]|[_ [_ ->]]]; [contradiction | exact Hx].
        * exfalso. rewrite lookup_None in E. apply (E (dF D)). apply rv_entries. right. auto.
  Qed.

  Lemma rv_delta fresh eps (D : dfa A) q a x : dfa_wf D -> NoDup (map fst (dD D)) -> ~ In fresh (dQ D) ->
    (In x (ndelta (rvN fresh eps D) q a) <-> ddelta D x a = Some q \/ (q = fresh /\ a = eps /\ In x (dF D))).
  Proof.
    intros Hwf Hnd Hfresh. rewrite (@rv_delta0 fresh eps D q a x Hfresh). split.
    - intros [[_ [_ Hx]]|Hr]; [left|right; exact Hr].
      apply rv_src_In in Hx. apply lookup_NoDup; assumption.
    - intros [E|Hr]; [left|right; exact Hr].
      destruct (ddelta_wf _ _ Hwf E) as [_ [Ha Hq]]. split; [exact Hq|]. split; [exact Ha|].
      apply rv_src_In. apply lookup_In. exact E.
  Qed.

  Lemma rv_path_fwd fresh eps (D : dfa A) : dfa_wf D -> NoDup (map fst (dD D)) -> ~ In fresh (dQ D) ->
    ~ In eps (dS D) ->
    forall q w q', nfa_path (rvN fresh eps D) q w q' -> q <> fresh -> dfa_path D q' (rev w) q.
  Proof.
    intros Hwf Hnd Hfresh Heps q w q' Hp.
    induction Hp as [q|q q1 w q2 Hin Hp IH|q a q1 w q2 Hin Hp IH]; intros Hne.
    - cbn [rev]. constructor.
    - change (neps (rvN fresh eps D)) with eps in Hin.
      apply (@rv_delta fresh eps D q eps q1 Hwf Hnd Hfresh) in Hin. destruct Hin as [E|[Hq _]]; [|contradiction].
      apply (ddelta_wf _ _ Hwf) in E. tauto.
    - apply (@rv_delta fresh eps D q a q1 Hwf Hnd Hfresh) in Hin. destruct Hin as [E|[Hq _]]; [|contradiction].
      assert (Hq1 : q1 <> fresh).
      { intros ->. apply (ddelta_wf _ _ Hwf) in E. tauto. }
      cbn [rev]. apply dfa_path_app. exists q1. split; [apply IH; exact Hq1|].
      apply dp_cons with q; [exact E | constructor].
  Qed.

  Lemma rv_path_bwd fresh eps (D : dfa A) : dfa_wf D -> NoDup (map fst (dD D)) -> ~ In fresh (dQ D) ->
    forall w q q', dfa_path D q' (rev w) q -> nfa_path (rvN fresh eps D) q w q'.
  Proof.
    intros Hwf Hnd Hfresh w. induction w as [|a w IH]; intros q q' Hp.
    - cbn [rev] in Hp. inversion Hp; subst. constructor.
    - cbn [rev] in Hp. apply dfa_path_app in Hp. destruct Hp as [p [Hp1 Hp2]].
      inversion Hp2 as [|q0 a0 q1 w0 q2 E Hp3]; subst. inversion Hp3; subst.
      apply np_sym with p; [|apply IH; exact Hp1].
      apply (@rv_delta fresh eps D q a p Hwf Hnd Hfresh). left. exact E.
  Qed.

  (* NoDup (map fst (dD D)) (uniqueness of the keys of the Python dict) is needed here:
     see reverse_needs_unique_keys below *)
  Theorem reverse_correct (fresh : A) (eps : nat) (D : dfa A) : dfa_wf D -> NoDup (map fst (dD D)) ->
    ~ In fresh (dQ D) -> ~ In eps (dS D) ->
    exists N, dfa_reverse fresh eps D = Some N /\ nfa_wf N /\ nS N = dS D /\ nq0 N = fresh /\
    forall w, Forall (fun a => In a (dS D)) w -> (nfa_lang N w <-> dfa_lang D (rev w)).
  Proof.
    intros Hwf Hnd Hfresh Heps. exists (rvN fresh eps D). split.
    { unfold dfa_reverse. apply mem_nIn in Heps. rewrite Heps. reflexivity. }
    pose proof Hwf as [Hq0 [HF [Hd Ht]]].
    split; [|split; [reflexivity|split; [reflexivity|]]].
    - unfold nfa_wf. split; [cbn [rvN nq0 nQ]; apply add_In; left; reflexivity|].
      split; [cbn [rvN nF nQ]; intros x [<-|[]]; apply add_In; right; exact Hq0|].
      split; [exact Heps|].
      intros q a s Hi. apply rv_entries in Hi. cbn [rvN nQ nS neps].
      destruct Hi as [[Hq [Ha [-> _]]]|[-> [-> ->]]].
      + split; [apply add_In; right; exact Hq|]. split; [left; exact Ha|].
        intros x Hx. apply rv_src_In in Hx. apply Hd in Hx. apply add_In. tauto.
      + split; [apply add_In; left; reflexivity|]. split; [right; reflexivity|].
        intros x Hx. apply add_In. right. apply HF. exact Hx.
    - intros w Hw. unfold nfa_lang, dfa_lang. cbn [rvN nq0 nF]. fold (rvN fresh eps D). split.
      + intros [qf [Hp [<-|[]]]].
        assert (Hne : fresh <> dq0 D) by (intros Hc; apply Hfresh; rewrite Hc; exact Hq0).
        inversion Hp as [q|q q1 w1 q2 Hin Hp'|q a q1 w1 q2 Hin Hp']; subst.
        * exfalso. apply Hne. reflexivity.
        * change (neps (rvN fresh eps D)) with eps in Hin.
          apply (@rv_delta fresh eps D fresh eps q1 Hwf Hnd Hfresh) in Hin. destruct Hin as [E|[_ [_ Hf]]].
          -- apply (ddelta_wf _ _ Hwf) in E. tauto.
          -- exists q1. split; [|exact Hf].
             apply (@rv_path_fwd fresh eps D Hwf Hnd Hfresh Heps _ _ _ Hp'). intros ->. apply Hfresh. apply HF. exact Hf.
        * apply (@rv_delta fresh eps D fresh a q1 Hwf Hnd Hfresh) in Hin. destruct Hin as [E|[_ [Ea _]]].
          -- apply (ddelta_wf _ _ Hwf) in E. tauto.
          -- subst a. inversion Hw; subst. contradiction.
      + intros [qf [Hp Hf]]. exists (dq0 D). split; [|left; reflexivity].
        apply np_eps with qf; [|apply (@rv_path_bwd fresh eps D Hwf Hnd Hfresh); exact Hp].
        change (neps (rvN fresh eps D)) with eps.
        apply (@rv_delta fresh eps D fresh eps qf Hwf Hnd Hfresh). right. auto.
  Qed.
  (* ---------------- reachable_states ---------------- *)
  Lemma NoDup_app_intro (l1 l2 : list A) :
    NoDup l1 -> NoDup l2 -> (forall x, In x l2 -> ~ In x l1) -> NoDup (l1 ++ l2).
  Proof.
    intros H1 H2 Hd. induction H1 as [|x l1 Hx H1 IH]; cbn [app]; [exact H2|].
    constructor.
    - rewrite in_app_iff. intros [Hc|Hc]; [contradiction|]. apply (Hd x Hc). left; reflexivity.
    - apply IH. intros y Hy Hc. apply (Hd y Hy). right; exact Hc.
  Qed.

  Lemma reach_layer_spec (D : dfa A) : dfa_wf D ->
    forall pairs disc vnext, (forall u a, In (u, a) pairs -> In u (dQ D) /\ In a (dS D)) ->
    exists new, reach_layer D pairs disc vnext = Some (disc ++ new, vnext ++ new) /\
      NoDup new /\ (forall x, In x new -> ~ In x disc) /\
      (forall x, In x new -> exists u a, In (u, a) pairs /\ ddelta D u a = Some x) /\
      (forall u a, In (u, a) pairs -> In (dstep D u a) (disc ++ new)).
  Proof.
    intros Hwf pairs. induction pairs as [|[u a] ps IH]; intros disc vnext Hps.
    - exists []. cbn [reach_layer]. rewrite !app_nil_r. split; [reflexivity|].
      split; [constructor|]. split; [intros x []|]. split; [intros x []|]. intros u a [].
    - destruct (Hps u a (or_introl eq_refl)) as [Hu Ha].
      destruct (dfa_wf_step u a Hwf Hu Ha) as [E Hv].
      assert (Hps' : forall u' a', In (u', a') ps -> In u' (dQ D) /\ In a' (dS D)).
      { intros u' a' Hi. apply Hps. right; exact Hi. }
      cbn [reach_layer]. rewrite E. destruct (mem (dstep D u a) disc) eqn:Em.
      + apply mem_In in Em. destruct (IH disc vnext Hps') as [new [Er [Hnd [Hdj [Hsrc Hall]]]]].
        exists new. split; [exact Er|]. split; [exact Hnd|]. split; [exact Hdj|]. split.
        * intros x Hx. destruct (Hsrc x Hx) as [u' [a' [Hi Hd]]]. exists u', a'. split; [right; exact Hi | exact Hd].
        * intros u' a' [Ei|Hi]; [inversion Ei; subst; apply in_app_iff; left; exact Em | apply Hall; exact Hi].
      + apply mem_nIn in Em.
        destruct (IH (disc ++ [dstep D u a]) (vnext ++ [dstep D u a]) Hps') as [new [Er [Hnd [Hdj [Hsrc Hall]]]]].
        exists (dstep D u a :: new). split; [rewrite Er, <- !app_assoc; reflexivity|]. split.
        * constructor; [|exact Hnd]. intros Hc. apply (Hdj _ Hc). apply in_app_iff. right. left; reflexivity.
        * split; [|split].
          -- intros x [<-|Hx]; [exact Em|]. intros Hc. apply (Hdj x Hx). apply in_app_iff. left; exact Hc.
          -- intros x [<-|Hx]; [exists u, a; split; [left; reflexivity | exact E]|].
             destruct (Hsrc x Hx) as [u' [a' [Hi Hd]]]. exists u', a'. split; [right; exact Hi | exact Hd].
          -- intros u' a' [Ei|Hi].
             ++ inversion Ei; subst. apply in_app_iff. right. left; reflexivity.
             ++ specialize (Hall u' a' Hi). rewrite <- app_assoc in Hall. exact Hall.
  Qed.

  Lemma reach_loop_spec (D : dfa A) : dfa_wf D ->
    forall fuel disc V, NoDup disc -> incl disc (dQ D) -> incl V (dQ D) ->
    (forall u, In u disc -> ~ In u V -> forall a, In a (dS D) -> In (dstep D u a) disc) ->
    length (dQ D) + 1 <= fuel + length disc ->
    exists R, reach_loop D fuel disc V = Some R /\ incl disc R /\
      (forall u a, In u R \/ In u V -> In a (dS D) -> In (dstep D u a) R) /\
      (forall p, In p R -> In p disc \/
         exists v w, In v V /\ Forall (fun a => In a (dS D)) w /\ w <> [] /\ dfa_path D v w p).
  Proof.
    intros Hwf fuel. induction fuel as [|f IH]; intros disc V Hnd Hdq HVq Hcl Hfuel.
    - pose proof (NoDup_incl_length Hnd Hdq) as Hlen. lia.
    - cbn [reach_loop].
      assert (Hps : forall u a, In (u, a) (list_prod V (dS D)) -> In u (dQ D) /\ In a (dS D)).
      { intros u a Hi. apply in_prod_iff in Hi. destruct Hi as [Hu Ha]. split; [apply HVq; exact Hu | exact Ha]. }
      destruct (reach_layer_spec Hwf (list_prod V (dS D)) disc [] Hps) as [new [Er [Hndn [Hdj [Hsrc Hall]]]]].
      rewrite Er. cbn [app].
      assert (HallV : forall u a, In u V -> In a (dS D) -> In (dstep D u a) (disc ++ new)).
      { intros u a Hu Ha. apply Hall. apply in_prod_iff. split; assumption. }
      assert (Hnewq : forall x, In x new -> In x (dQ D) /\
                exists u a, In u V /\ In a (dS D) /\ ddelta D u a = Some x).
      { intros x Hx. destruct (Hsrc x Hx) as [u [a [Hi Hd]]]. apply in_prod_iff in Hi. destruct Hi as [Hu Ha].
        split; [apply (ddelta_wf _ _ Hwf Hd)|]. exists u, a. auto. }
      destruct new as [|x new'].
      + rewrite app_nil_r in *. exists disc. split; [reflexivity|]. split; [apply incl_refl|]. split.
        * intros u a Hu Ha. destruct (In_dec_mem u V) as [HuV|HuV]; [apply HallV; assumption|].
          destruct Hu as [Hu|Hu]; [|contradiction]. apply Hcl; assumption.
        * intros p Hp. left; exact Hp.
      + set (new := x :: new') in *.
        destruct (IH (disc ++ new) new) as [R [ER [Hinc [HclR Hsound]]]].
        * apply NoDup_app_intro; assumption.
        * intros y Hy. apply in_app_iff in Hy. destruct Hy as [Hy|Hy]; [apply Hdq; exact Hy | apply Hnewq; exact Hy].
        * intros y Hy. apply Hnewq; exact Hy.
        * intros u Hu Hnu a Ha. apply in_app_iff in Hu. destruct Hu as [Hu|Hu]; [|contradiction].
          destruct (In_dec_mem u V) as [HuV|HuV]; [apply HallV; assumption|].
          apply in_app_iff. left. apply Hcl; assumption.
        * rewrite app_length. unfold new. cbn [length]. lia.
        * exists R. split; [exact ER|]. split; [|split].
          -- intros y Hy. apply Hinc. apply in_app_iff. left; exact Hy.
          -- intros u a [Hu|Hu] Ha; [apply HclR; [left; exact Hu | exact Ha]|].
             apply Hinc. apply HallV; assumption.
          -- intros p Hp. destruct (Hsound p Hp) as [Hpd|[v [w [Hv [Hw [Hne Hpath]]]]]].
             ++ apply in_app_iff in Hpd. destruct Hpd as [Hpd|Hpd]; [left; exact Hpd|]. right.
                destruct (Hnewq p Hpd) as [_ [u [a [Hu [Ha Hd]]]]].
                exists u, [a]. split; [exact Hu|]. split; [constructor; [exact Ha|constructor]|].
                split; [discriminate|]. apply dp_cons with p; [exact Hd | constructor].
             ++ right. destruct (Hnewq v Hv) as [_ [u [a [Hu [Ha Hd]]]]].
                exists u, (a :: w). split; [exact Hu|]. split; [constructor; assumption|].
                split; [discriminate|]. apply dp_cons with v; assumption.
  Qed.

  Lemma closed_path (D : dfa A) (R : list A) : dfa_wf D ->
    (forall u a, In u R -> In a (dS D) -> In (dstep D u a) R) ->
    forall u w p, dfa_path D u w p -> In u R -> In p R.
  Proof.
    intros Hwf Hcl u w p Hp. induction Hp as [q|q a q1 w q2 Hd Hp IH]; intros Hq; [exact Hq|].
    apply IH. destruct (ddelta_wf _ _ Hwf Hd) as [_ [Ha _]].
    specialize (Hcl q a Hq Ha). unfold dstep in Hcl. rewrite Hd in Hcl. exact Hcl.
  Qed.

  Theorem reachable_states_correct (D : dfa A) (q : A) (depth : nat) : dfa_wf D -> In q (dQ D) ->
    exists R, dfa_reachable_states D q depth = Some R /\
    forall p, In p R <-> exists w, Forall (fun a => In a (dS D)) w /\ (depth = 0 \/ w <> []) /\ dfa_path D q w p.
  Proof.
    intros Hwf Hq. unfold dfa_reachable_states.
    assert (HV : incl [q] (dQ D)) by (intros y [<-|[]]; exact Hq).
    destruct depth as [|d].
    - destruct (@reach_loop_spec D Hwf (S (S (length (dQ D)))) [q] [q]) as [R [ER [Hinc [Hcl Hsound]]]].
      + constructor; [intros []|constructor].
      + exact HV.
      + exact HV.
      + intros u Hu Hnu. contradiction.
      + cbn [length]. lia.
      + exists R. split; [exact ER|]. intros p. split.
        * intros Hp. destruct (Hsound p Hp) as [[<-|[]]|[v [w [[<-|[]] [Hw [Hne Hpath]]]]]].
          -- exists []. split; [constructor|]. split; [left; reflexivity | constructor].
          -- exists w. split; [exact Hw|]. split; [left; reflexivity | exact Hpath].
        * intros [w [Hw [_ Hpath]]].
          apply (@closed_path D R Hwf (fun u a Hu Ha => Hcl u a (or_introl Hu) Ha) q w p Hpath).
          apply Hinc. left; reflexivity.
    - destruct (@reach_loop_spec D Hwf (S (S (length (dQ D)))) [] [q]) as [R [ER [Hinc [Hcl Hsound]]]].
      + constructor.
      + intros y [].
      + exact HV.
      + intros u [].
      + cbn [length]. lia.
      + exists R. split; [exact ER|]. intros p. split.
        * intros Hp. destruct (Hsound p Hp) as [[]|[v [w [[<-|[]] [Hw [Hne Hpath]]]]]].
          exists w. split; [exact Hw|]. split; [right; exact Hne | exact Hpath].
        * intros [w [Hw [[Hc|Hne] Hpath]]]; [discriminate|].
          inversion Hpath as [|q0 a q1 w1 q2 Hd Hp1]; subst; [contradiction|].
          apply (@closed_path D R Hwf (fun u a Hu Ha => Hcl u a (or_introl Hu) Ha) q1 w1 p Hp1).
          destruct (ddelta_wf _ _ Hwf Hd) as [_ [Ha _]].
          specialize (Hcl q a (or_intror (or_introl eq_refl)) Ha).
          unfold dstep in Hcl. rewrite Hd in Hcl. exact Hcl.
  Qed.
  (* ---------------- remove_unreachable_states ---------------- *)
  (* NoDup (map fst (dD D)) is needed only for dfa_wf D': see remove_unreachable_needs_unique_keys below *)
  Lemma remove_unreachable_gen (D : dfa A) : dfa_wf D ->
    exists D', dfa_remove_unreachable_states D = Some D' /\ (NoDup (map fst (dD D)) -> dfa_wf D') /\ dS D' = dS D /\
    (forall w, Forall (fun a => In a (dS D)) w -> (dfa_lang D' w <-> dfa_lang D w)) /\
    (forall p, In p (dQ D') -> exists w, Forall (fun a => In a (dS D)) w /\ dfa_path D' (dq0 D') w p).
  Proof.
    intros Hwf. pose proof Hwf as [Hq0 [HF [Hd Ht]]].
    destruct (@reachable_states_correct D (dq0 D) 0 Hwf Hq0) as [R [ER HR]].
    unfold dfa_remove_unreachable_states. rewrite ER.
    set (D' := mkDFA R (dS D) (filter (fun e => mem (fst (fst e)) R) (dD D)) (dq0 D) (inter (dF D) R)).
    exists D'. split; [reflexivity|].
    assert (HRq0 : In (dq0 D) R).
    { apply HR. exists []. split; [constructor|]. split; [left; reflexivity | constructor]. }
    assert (HRcl : forall u a v, In u R -> ddelta D u a = Some v -> In v R).
    { intros u a v Hu E. apply HR in Hu. destruct Hu as [w [Hw [_ Hp]]]. apply HR. exists (w ++ [a]).
      split.
      { apply Forall_app. split; [exact Hw|]. constructor; [|constructor]. apply (ddelta_wf _ _ Hwf E). }
      split; [left; reflexivity|]. apply dfa_path_app. exists u. split; [exact Hp|].
      apply dp_cons with v; [exact E | constructor]. }
    assert (HRQ : incl R (dQ D)).
    { intros p Hp. apply HR in Hp. destruct Hp as [w [Hw [_ Hp]]]. apply (dfa_path_wf Hwf Hp Hq0). }
    assert (Hdel : forall u a, ddelta D' u a = if mem u R then ddelta D u a else None).
    { intros u a. unfold ddelta at 1. cbn [D' dD].
      pose proof (lookup_filter_key (fun k : A * nat => mem (fst k) R) (u, a) (dD D)) as E.
      cbn beta in E. rewrite E. reflexivity. }
    assert (Hfwd : forall u w p, dfa_path D u w p -> In u R -> dfa_path D' u w p).
    { intros u w p Hp. induction Hp as [q|q a q1 w q2 Hdl Hp IH]; intros Hu; [constructor|].
      apply dp_cons with q1; [|apply IH; apply (HRcl q a q1 Hu Hdl)].
      rewrite Hdel. apply mem_In in Hu. rewrite Hu. exact Hdl. }
    assert (Hbwd : forall u w p, dfa_path D' u w p -> dfa_path D u w p).
    { intros u w p Hp. induction Hp as [q|q a q1 w q2 Hdl Hp IH]; [constructor|].
      apply dp_cons with q1; [|exact IH]. rewrite Hdel in Hdl. destruct (mem q R); [exact Hdl | discriminate]. }
    split; [|split; [reflexivity|split]].
    - intros Hnd. unfold dfa_wf. cbn [D' dQ dS dD dq0 dF]. split; [exact HRq0|].
      split; [intros x Hx; apply inter_In in Hx; tauto|]. split.
      + intros q a q1 Hi. apply filter_In in Hi. cbn [fst] in Hi. destruct Hi as [Hi Hm].
        apply mem_In in Hm. split; [exact Hm|]. split; [apply (Hd _ _ _ Hi)|].
        apply (HRcl q a q1 Hm). apply lookup_NoDup; assumption.
      + intros q a Hq Ha. fold D'. rewrite Hdel. pose proof Hq as Hm. apply mem_In in Hm. rewrite Hm.
        apply Ht; [apply HRQ; exact Hq | exact Ha].
    - intros w Hw. unfold dfa_lang. cbn [D' dq0 dF]. fold D'. split.
      + intros [qf [Hp Hf]]. apply inter_In in Hf. exists qf. split; [apply Hbwd; exact Hp | tauto].
      + intros [qf [Hp Hf]]. exists qf. split; [apply Hfwd; [exact Hp | exact HRq0]|].
        apply inter_In. split; [exact Hf|]. apply HR. exists w. split; [exact Hw|]. split; [left; reflexivity | exact Hp].
    - intros p Hp. cbn [D' dQ] in Hp. cbn [D' dq0]. fold D'. apply HR in Hp. destruct Hp as [w [Hw [_ Hp]]].
      exists w. split; [exact Hw|]. apply Hfwd; [exact Hp | exact HRq0].
  Qed.

  Theorem remove_unreachable_correct (D : dfa A) : dfa_wf D -> NoDup (map fst (dD D)) ->
    exists D', dfa_remove_unreachable_states D = Some D' /\ dfa_wf D' /\ dS D' = dS D /\
    (forall w, Forall (fun a => In a (dS D)) w -> (dfa_lang D' w <-> dfa_lang D w)) /\
    (forall p, In p (dQ D') -> exists w, Forall (fun a => In a (dS D)) w /\ dfa_path D' (dq0 D') w p).
  Proof.
    intros Hwf Hnd. destruct (remove_unreachable_gen Hwf) as [D' [E [Hw [HS [HL HR]]]]].
    exists D'. split; [exact E|]. split; [exact (Hw Hnd)|]. split; [exact HS|]. split; [exact HL | exact HR].
  Qed.

  (* ---------------- no_extend ---------------- *)
  Lemma drun_ext (D1 D2 : dfa A) : dD D1 = dD D2 -> forall w q, drun D1 q w = drun D2 q w.
  Proof.
    intros E w. induction w as [|a w IH]; intros q; cbn [drun]; [reflexivity|].
    unfold dstep, ddelta. rewrite E. apply IH.
  Qed.

  Theorem no_extend_correct (D : dfa A) : dfa_wf D ->
    exists D', dfa_no_extend D = Some D' /\ dfa_wf D' /\ dS D' = dS D /\
    forall w, Forall (fun a => In a (dS D)) w ->
      (dfa_lang D' w <-> dfa_lang D w /\
         forall v, v <> [] -> Forall (fun a => In a (dS D)) v -> ~ dfa_lang D (w ++ v)).
  Proof.
    intros Hwf. pose proof Hwf as [Hq0 [HF [Hd Ht]]].
    unfold dfa_no_extend.
    set (g := fun qf => match dfa_reachable_states D qf 1 with
                        | None => None
                        | Some R => Some (qf, negb (meetsb R (dF D)))
                        end).
    destruct (all_some_map_Some g (dF D)) as [l Hl].
    { intros x Hx. unfold g. destruct (@reachable_states_correct D x 1 Hwf (HF x Hx)) as [R [ER _]].
      rewrite ER. discriminate. }
    rewrite Hl.
    set (D' := mkDFA (dQ D) (dS D) (dD D) (dq0 D) (map fst (filter snd l))).
    exists D'. split; [reflexivity|].
    assert (HF' : forall q, In q (dQ D) -> (In q (map fst (filter snd l)) <->
              In q (dF D) /\ forall v, v <> [] -> Forall (fun a => In a (dS D)) v -> ~ In (drun D q v) (dF D))).
    { intros q Hq. destruct (@reachable_states_correct D q 1 Hwf Hq) as [R [ER HR]].
      assert (Hgq : g q = Some (q, negb (meetsb R (dF D)))) by (unfold g; rewrite ER; reflexivity).
      rewrite in_map_iff. split.
      - intros [y [Ey Hy]]. apply filter_In in Hy. destruct Hy as [Hy Hs].
        apply (all_some_map_In g _ Hl) in Hy. destruct Hy as [x [Hx Hgx]].
        assert (Exq : x = q).
        { unfold g in Hgx. destruct (dfa_reachable_states D x 1); [|discriminate].
          inversion Hgx; subst y. exact Ey. }
        subst x. rewrite Hgq in Hgx. inversion Hgx; subst y. cbn [snd] in Hs.
        split; [exact Hx|]. intros v Hne Hv Hc.
        apply negb_true_iff in Hs.
        assert (Ht' : meetsb R (dF D) = true).
        { apply meetsb_spec. exists (drun D q v). split; [|exact Hc]. apply HR. exists v.
          split; [exact Hv|]. split; [right; exact Hne|]. apply (dfa_path_drun _ _ Hwf Hv Hq). reflexivity. }
        congruence.
      - intros [Hf Hall]. exists (q, negb (meetsb R (dF D))). split; [reflexivity|].
        apply filter_In. split; [apply (all_some_map_In g _ Hl); exists q; auto|].
        cbn [snd]. apply negb_true_iff. destruct (meetsb R (dF D)) eqn:Em; [|reflexivity]. exfalso.
        apply meetsb_spec in Em. destruct Em as [x [HxR HxF]].
        apply HR in HxR. destruct HxR as [v [Hv [[Hc|Hne] Hp]]]; [discriminate|].
        apply (dfa_path_drun _ _ Hwf Hv Hq) in Hp. subst x. exact (Hall v Hne Hv HxF). }
    assert (HwfD' : dfa_wf D').
    { unfold dfa_wf. cbn [D' dQ dS dD dq0 dF]. split; [exact Hq0|]. split; [|split; [exact Hd | exact Ht]].
      intros x Hx. apply in_map_iff in Hx. destruct Hx as [y [Ey Hy]]. apply filter_In in Hy. destruct Hy as [Hy _].
      apply (all_some_map_In g _ Hl) in Hy. destruct Hy as [x' [Hx' Hgx]].
      unfold g in Hgx. destruct (dfa_reachable_states D x' 1); [|discriminate].
      inversion Hgx; subst y. cbn [fst] in Ey. subst x'. apply HF. exact Hx'. }
    split; [exact HwfD'|]. split; [reflexivity|].
    intros w Hw.
    assert (Hw' : Forall (fun a => In a (dS D')) w) by exact Hw.
    rewrite (dfa_lang_drun HwfD' Hw'), (dfa_lang_drun Hwf Hw).
    assert (Er : drun D' (dq0 D') w = drun D (dq0 D) w) by (apply drun_ext; reflexivity).
    rewrite Er. cbn [D' dF].
    pose proof (drun_In Hwf Hw _ Hq0) as Hin.
    rewrite (HF' _ Hin). split.
    - intros [Hf Hall]. split; [exact Hf|]. intros v Hne Hv.
      assert (Hwv : Forall (fun a => In a (dS D)) (w ++ v)) by (apply Forall_app; auto).
      rewrite (dfa_lang_drun Hwf Hwv), drun_app. apply Hall; assumption.
    - intros [Hf Hall]. split; [exact Hf|]. intros v Hne Hv.
      assert (Hwv : Forall (fun a => In a (dS D)) (w ++ v)) by (apply Forall_app; auto).
      rewrite <- drun_app, <- (dfa_lang_drun Hwf Hwv). apply Hall; assumption.
  Qed.
End S.

(* ---------- why the key-uniqueness hypothesis is needed for reverse / remove_unreachable ---------- *)
(* A "dict" with a duplicated key (impossible in Python): lookup sees only the first entry, but the constructions
   that iterate over all entries see both. *)
Definition D_dupkey : dfa nat := mkDFA [0; 1] [5] [((0, 5), 0); ((0, 5), 1); ((1, 5), 1)] 0 [1].

Lemma D_dupkey_wf : dfa_wf D_dupkey.
Proof.
  unfold dfa_wf, D_dupkey; cbn [dQ dS dD dq0 dF]. split; [left; reflexivity|].
  split; [intros x [<-|[]]; right; left; reflexivity|]. split.
  - intros q a q1 [E|[E|[E|[]]]]; inversion E; subst; cbn; auto.
  - intros q a [<-|[<-|[]]] [<-|[]]; cbn; discriminate.
Qed.

Lemma reverse_needs_unique_keys :
  dfa_wf D_dupkey /\ ~ In 2 (dQ D_dupkey) /\ ~ In 9 (dS D_dupkey) /\
  exists N, dfa_reverse 2 9 D_dupkey = Some N /\ nfa_lang N [5] /\ ~ dfa_lang D_dupkey (rev [5]).
Proof.
  split; [exact D_dupkey_wf|].
  split; [cbn; intros [Hc|[Hc|[]]]; discriminate|].
  split; [cbn; intros [Hc|[]]; discriminate|].
  eexists. split; [vm_compute; reflexivity|]. split.
  - exists 0. split; [|left; reflexivity].
    apply np_eps with 1; [cbn; auto|]. apply np_sym with 0; [cbn; auto | constructor].
  - intros [qf [Hp Hf]]. apply dfa_path_run in Hp. cbn in Hp. inversion Hp; subst.
    cbn in Hf. destruct Hf as [Hf|[]]. discriminate.
Qed.

Lemma remove_unreachable_needs_unique_keys :
  dfa_wf D_dupkey /\ exists D', dfa_remove_unreachable_states D_dupkey = Some D' /\ ~ dfa_wf D'.
Proof.
  split; [exact D_dupkey_wf|]. eexists. split; [vm_compute; reflexivity|].
  intros [_ [_ [Hd _]]]. specialize (Hd 0 5 1). cbn in Hd.
  destruct Hd as [_ [_ [Hc|[]]]]; [right; left; reflexivity | discriminate].
Qed.

(* the main theorems take their automata explicitly *)
Arguments complement_correct {A H} D _.
Arguments product_correct {A B H H0} ptype D1 D2 _ _ _.
Arguments make_total_correct {A H} trap D _ _.
Arguments no_prefix_correct {A H} eps D _ _.
Arguments reverse_correct {A H} fresh eps D _ _ _ _.
Arguments reachable_states_correct {A H} D q depth _ _.
Arguments remove_unreachable_gen {A H} D _.
Arguments remove_unreachable_correct {A H} D _ _.
Arguments no_extend_correct {A H} D _.
