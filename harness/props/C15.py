"""C15 - simulation traces and derivations are genuine witnesses (verified witness checkers) and are always produced."""
import coqlit as L
import gen as G
import conv
from props.C01 import nfa_lit

COQ_IMPORTS = ['Model.DFA', 'Model.NFA', 'Model.PDA', 'Model.CFG', 'Model.Simulate', 'Model.Simulate2', 'Judge.Common', 'Judge.C15_judge', 'Judge.Extra_judge']
EXTRA_JUDGES = ['Extra']
RULE = ('DFAs (all 2x2, random <= 6 states) x all words <= 3 + random words: dfa_simulate_word; epsilon-NFAs (all 2-state 1-symbol, random <= 6 states with epsilon self-loops and cycles) x all words <= 3: nfa_simulate_word; '
        'random PDAs without pushing epsilon moves x words <= 3: pda_simulate_word; random CNF grammars x all non-empty words <= 4 x {leftmost, rightmost, any}: cfg_derive_word; '
        'under 4 (quick) / 16 (thorough) PYTHONHASHSEED values with a 3 s limit per call (a hang is a violation). Relation: the verified witness checker accepts the returned run / derivation, nothing is returned for rejected words, '
        'and a witness is returned for every accepted word. Non-trivial = at least one accepted word whose witness has >= 3 entries; distinct by object text.')
RULE += ' Added after the seeded rounds: multi-character stack symbols (spelling_pda), pushing epsilon loops under a small closure limit (a hang on a word the sound acceptance test accepts is a violation), cfg_derive_word compared with its model (informational).'
CODES = {9: 'generated object invalid (harness)', 8: 'internal: the model of nfa_simulate_word returns no valid run (machinery)', 1: 'PDA closure truncated: undecided',
         10: 'dfa_simulate_word raised', 11: 'dfa_simulate_word trace differs from the proved model', 12: 'dfa_simulate_word trace is not a run',
         20: 'nfa_simulate_word raised or did not terminate', 21: 'nfa_simulate_word returned something that is not an accepting run', 22: 'nfa_simulate_word returned a run for a rejected word', 23: 'nfa_simulate_word returned nothing for an accepted word',
         30: 'pda_simulate_word raised or did not terminate', 31: 'pda_simulate_word returned something that is not an accepting computation', 33: 'pda_simulate_word returned nothing for an accepted word',
         40: 'cfg_derive_word raised for a generated word', 41: 'cfg_derive_word returned an invalid derivation', 42: 'cfg_derive_word returned a derivation for a word outside the language'}
ASSUMPTIONS = ['objects valid; grammars in Chomsky normal form; non-empty words for cfg_derive_word']
RESIDUE = 'list/tuple construction of the traces; set iteration order sampled through PYTHONHASHSEED and covered by pick-quantified theorems'
SHARD = 40


def hashseeds(tier):
    return [0, 1, 2, 3] if tier == 'quick' else list(range(16))


def gen(rng, tier):
    quick = tier == 'quick'
    cases = []
    ds = (rng.sample(G.all_dfas(2, 'ab'), 30) if quick else G.all_dfas(2, 'ab')) + [G.random_dfa(rng, rng.randint(1, 6), rng.choice(['a', 'ab', 'abc'])) for _ in range(60 if quick else 1500)]
    for d in ds:
        cases.append({'kind': 'dfa', 'X': d, 'ws': G.words_str(d['Sigma'], 3)[:20] + G.random_words(rng, d['Sigma'], 3, 7)})
    ns = (rng.sample(G.all_nfas(2, 'a'), 150) if quick else G.all_nfas(2, 'a'))
    for _ in range(200 if quick else 3000):
        n = G.random_nfa(rng, rng.randint(1, 6), rng.choice(['a', 'ab']), rng.choice(['_', '', 'ε']), peps=rng.choice([0.3, 0.6]))
        ns.append(n)
    # F8 witness family: epsilon cycle reachable from several sources
    ns.append({'Q': ['r', 'a', 'f'], 'Sigma': ['x'], 'delta': [['r', '_', ['a']], ['a', '_', ['a', 'f']]], 'q0': 'r', 'F': ['f'], 'eps': '_'})
    for n in ns:
        cases.append({'kind': 'nfa', 'X': n, 'ws': G.words_str(n['Sigma'], 3)})
    for _ in range(120 if quick else 2000):
        p = G.random_pda(rng, rng.randint(1, 3), rng.choice(['a', 'ab']), rng.choice(['x', 'xy']), rng.choice(['_', 'ε']), ntrans=rng.randint(1, 7), pfinal=0.5)
        p['delta'] = [t for t in p['delta'] if not (t[1] == p['eps'] and t[4] != p['eps'])]
        cases.append({'kind': 'pda', 'X': p, 'ws': G.words_str(p['Sigma'], 3 if len(p['Sigma']) == 1 else 2), 'limit': 1000})
    # stack symbols of several characters whose concatenations coincide (['xy'] and ['x', 'y'] are different stacks)
    for _ in range(80 if quick else 1500):
        p = G.random_pda(rng, rng.randint(1, 3), rng.choice(['a', 'ab']), ['x', 'y', 'xy'], rng.choice(['_', '']), ntrans=rng.randint(3, 9), pfinal=0.5,
                         kinds=['push', 'pop', 'push', 'pop', 'noop'])
        p['delta'] = [t for t in p['delta'] if not (t[1] == p['eps'] and t[4] != p['eps'])]
        cases.append({'kind': 'pda', 'X': p, 'ws': G.words_str(p['Sigma'], 3 if len(p['Sigma']) == 1 else 2), 'limit': 1000})
    for _ in range(12 if quick else 100):
        p = G.spelling_pda(rng)
        cases.append({'kind': 'pda', 'X': p, 'ws': ['aab', 'aabb', 'aa', 'ab', 'aabbb', ''], 'limit': 1000})
    # pushing epsilon loops (infinitely many epsilon-reachable configurations): the closures are cut off at a small limit, the
    # path search of pda_simulate_word must still return for every word the acceptance test accepts
    for _ in range(80 if quick else 1500):
        p = G.random_pda(rng, rng.randint(2, 4), 'a', 'xy', '_', ntrans=rng.randint(3, 8), pfinal=0.4, kinds=['push', 'pop', 'noop', 'push'])
        if any(t[1] == p['eps'] and t[4] != p['eps'] for t in p['delta']):
            cases.append({'kind': 'pda', 'X': p, 'ws': ['', 'a', 'aa'], 'limit': rng.choice([30, 60])})
    for _ in range(150 if quick else 2500):
        g = G.random_cnf(rng, rng.randint(2, 5), 2, rng.randint(3, 9), start_eps=0.1)
        cases.append({'kind': 'cfg', 'X': g, 'ws': [w for w in G.all_words(2, 4 if not quick else 3) if w]})
    return cases


def observe(c):
    from implutil import safe, ok
    k = c['kind']
    x = c['X']
    out = []
    if k == 'dfa':
        from gambatools.dfa_algorithms import dfa_simulate_word
        D = conv.dfa_obj(x)
        for w in c['ws']:
            r = safe(dfa_simulate_word, D, w)
            out.append([[q, rem] for q, rem in r[1]] if ok(r) else None)
    elif k == 'nfa':
        from gambatools.nfa_algorithms import nfa_simulate_word
        N = conv.nfa_obj(x)
        for w in c['ws']:
            r = safe(nfa_simulate_word, N, w)
            out.append(None if not ok(r) else [None if r[1] is None else [[q, rem] for q, rem in r[1]]])
    elif k == 'pda':
        from gambatools.pda_algorithms import pda_simulate_word
        from gambatools.global_settings import GambaTools
        P = conv.pda_obj(x)
        old_limit = GambaTools.pda_epsilon_closure_max_iterations
        GambaTools.pda_epsilon_closure_max_iterations = c['limit']
        try:
            from gambatools.pda_algorithms import pda_accepts_word
            acc = []
            for w in c['ws']:
                r = safe(pda_simulate_word, P, w)
                out.append(None if not ok(r) else [None if r[1] is None else [[q, rem, list(st)] for q, rem, st in r[1]]])
                a = safe(pda_accepts_word, P, w)          # the library's own verdict under the same limit (used where a closure is truncated)
                acc.append(bool(a[1]) if ok(a) else None)
        finally:
            GambaTools.pda_epsilon_closure_max_iterations = old_limit
        return {'runs': out, 'acc': acc}
    else:
        from gambatools.cfg_algorithms import cfg_derive_word
        from gambatools.cfg import Variable
        Gm = conv.cfg_obj(x)
        for w in c['ws']:
            s = conv.word_str(w)
            for mode in ('leftmost', 'rightmost', 'any'):
                r = safe(cfg_derive_word, Gm, s, mode)
                out.append([[['V' if isinstance(y, Variable) else 'T', str(y)] for y in step] for step in r[1]] if ok(r) else None)
    return {'runs': out}


def encode(c, o):
    k = c['kind']
    x = c['X']
    if k == 'dfa':
        st, sy = L.state_names(x), L.symbol_names(x)
        W = lambda w: L.wordc(w, sy)
        runs = L.lst(L.pair(W(w), L.option(r, lambda r: L.lst(L.pair(L.nat(st(q)), W(rem)) for q, rem in r))) for w, r in zip(c['ws'], o['runs']))
        return 'judge_C15_dfa %s %s' % (L.dfa(x, st, sy), runs)
    if k == 'nfa':
        lit, st, f = nfa_lit(x)
        W = lambda w: L.nats(f(a) for a in w)
        R = lambda r: L.option(r, lambda r: L.option(r[0], lambda run: L.lst(L.pair(L.nat(st(q)), W(rem)) for q, rem in run)))
        return 'judge_C15_nfa %s %s' % (lit, L.lst(L.pair(W(w), R(r)) for w, r in zip(c['ws'], o['runs'])))
    if k == 'pda':
        st, sy, f = L.pda_names(x)
        W = lambda w: L.nats(f(a) for a in w)
        R = lambda r: L.option(r, lambda r: L.option(r[0], lambda run: L.lst(L.pair(L.nat(st(q)), W(rem), L.nats(f(s) for s in reversed(stk))) for q, rem, stk in run)))
        if o.get('acc') is not None and len(o['acc']) == len(o['runs']):
            accs = L.lst('None' if a is None else '(Some %s)' % L.boolean(a) for a in o['acc'])
            return 'judge_C15_pda2 %s %d %s %s' % (L.pda(x, st, f), c['limit'], L.lst(L.pair(W(w), R(r)) for w, r in zip(c['ws'], o['runs'])), accs)
        return 'judge_C15_pda %s %d %s' % (L.pda(x, st, f), c['limit'], L.lst(L.pair(W(w), R(r)) for w, r in zip(c['ws'], o['runs'])))
    nm = L.Names()
    for v in x['V']:
        nm(v)
    for t in ['a', 'b', 'c'] + x['Sigma']:
        nm(t)
    items = []
    i = 0
    for w in c['ws']:
        for mode in (0, 1, 0):
            r = o['runs'][i]
            i += 1
            items.append(L.pair(L.nats(nm(conv.sym(a)) for a in w), L.nat(mode), L.option(r, lambda steps: L.lst(L.lst(L.csym(s, nm) for s in step) for step in steps))))
    # second term per item: the derivation equals the one computed by the model of cfg_derive_word (Model/Simulate2.v); informational
    return ('(let G0 := %s in let items := %s in worst_code (judge_C15_cfg G0 items :: map (fun it => judge_derive_model G0 (fst (fst it)) (snd (fst it)) (snd it)) items))'
            % (L.cfg(x, nm), L.lst(items)))


def explain(c):
    if c['kind'] == 'nfa':
        lit, st, f = nfa_lit(c['X'])
        return 'explain_C15_nfa %s %s' % (lit, L.lst(L.nats(f(a) for a in w) for w in c['ws'][:6]))
    return '0'


def key(c):
    k = c['kind']
    return k + '|' + {'dfa': conv.dfa_text, 'nfa': conv.nfa_text, 'pda': conv.pda_text, 'cfg': conv.cfg_text}[k](c['X'])


def nontrivial(c, o):
    for r in o['runs']:
        if c['kind'] in ('nfa', 'pda'):
            if r and r[0] and len(r[0]) >= 3:
                return True
        elif r and len(r) >= 3:
            return True
    return False


def describe(c):
    return {'kind': c['kind'], 'object': key(c), 'words': c['ws'][:10]}


def reproduce(c):
    return 'from gambatools.%s_algorithms import *; X = <%s>; simulate / derive the words %r' % (c['kind'], key(c).replace('\n', ' ; '), c['ws'][:6])


def signature(c, o, code):
    return 'C15:code%d:%s' % (code, key(c))


def distribution(cases, obs):
    d = {'dfa': 0, 'nfa': 0, 'pda': 0, 'cfg': 0, 'witnesses': 0, 'none': 0, 'errors': 0, 'nfa_eps_cycles': 0}
    for c, o in zip(cases, obs):
        d[c['kind']] += 1
        if c['kind'] == 'nfa' and G.nfa_has_eps_cycle(c['X']):
            d['nfa_eps_cycles'] += 1
        for r in o['runs']:
            if r is None:
                d['errors'] += 1
            elif c['kind'] in ('nfa', 'pda') and r[0] is None:
                d['none'] += 1
            else:
                d['witnesses'] += 1
    return d


def shrink(c):
    out = []
    if len(c['ws']) > 1:
        for w in c['ws']:
            out.append(dict(c, ws=[w]))
    x = c['X']
    if c['kind'] in ('nfa', 'pda'):
        for i in range(len(x['delta'])):
            out.append(dict(c, X=dict(x, delta=x['delta'][:i] + x['delta'][i + 1:])))
    if c['kind'] == 'cfg':
        for i in range(len(x['R'])):
            out.append(dict(c, X=dict(x, R=x['R'][:i] + x['R'][i + 1:])))
    return out


LEVEL_TEXT = ('Coq theorems: the witness checkers (run_ok for DFA/NFA/PDA runs, derivation_ok for leftmost/rightmost derivations) are sound against the specification languages; the models of dfa_simulate_word and '
              'nfa_simulate_word (back-pointer search, every pick order) return a run accepted by the checker for every accepted word and nothing for rejected words (see evidence for _partial items). '
              'Tied to the Python by running the verified checkers inside Coq on every returned witness, with hangs and exceptions observed under several hash seeds.')
LEVEL_NOTE = 'Trusted: Coq kernel + vm_compute, models Model/Simulate.v (routines as repaired by fixes F7, F8, F13), harness (per-call time limit). No axioms.'
TECHNIQUE = 'verified witness checkers evaluated in Coq on implementation outputs + Coq proof of the back-pointer path reconstruction'
