(* Base definitions shared by all models: boolean equality class, lists used as finite sets,
   association lists used as Python dicts, words. Stdlib only, no axioms. *)
From Coq Require Export List Arith Bool Lia.
Export ListNotations.
Set Implicit Arguments.

Class Eqb (A : Type) := { eqb : A -> A -> bool; eqb_eq : forall x y, eqb x y = true <-> x = y }.

Lemma eqb_true {A} `{Eqb A} (x y : A) : eqb x y = true -> x = y.
Proof. apply eqb_eq. Qed.

Lemma eqb_refl {A} `{Eqb A} (x : A) : eqb x x = true.
Proof. apply eqb_eq; reflexivity. Qed.

Lemma eqb_neq {A} `{Eqb A} (x y : A) : eqb x y = false <-> x <> y.
Proof.
  split.
  - intros E Hc. subst y. rewrite eqb_refl in E. discriminate.
  - intros Hn. destruct (eqb x y) eqn:E; [apply eqb_true in E; contradiction | reflexivity].
Qed.

Lemma eqb_dec {A} `{Eqb A} (x y : A) : {x = y} + {x <> y}.
Proof. destruct (eqb x y) eqn:E; [left; apply eqb_true; exact E | right; apply eqb_neq; exact E]. Defined.

#[export] Instance Eqb_nat : Eqb nat := {| eqb := Nat.eqb; eqb_eq := Nat.eqb_eq |}.

#[export] Instance Eqb_bool : Eqb bool := {| eqb := Bool.eqb; eqb_eq := Bool.eqb_true_iff |}.

Section PairEqb.
  Context {A B : Type} `{Eqb A} `{Eqb B}.
  Definition pair_eqb (p q : A * B) : bool := eqb (fst p) (fst q) && eqb (snd p) (snd q).
  Lemma pair_eqb_eq p q : pair_eqb p q = true <-> p = q.
  Proof.
    destruct p as [a b], q as [c d]; unfold pair_eqb; cbn. rewrite andb_true_iff, !eqb_eq.
    split; [intros [-> ->]; reflexivity | intros E; inversion E; auto].
  Qed.
  #[export] Instance Eqb_pair : Eqb (A * B) := {| eqb := pair_eqb; eqb_eq := pair_eqb_eq |}.
End PairEqb.

Section ListEqb.
  Context {A : Type} `{Eqb A}.
  Fixpoint list_eqb (l1 l2 : list A) : bool :=
    match l1, l2 with
    | [], [] => true
    | x :: l1', y :: l2' => eqb x y && list_eqb l1' l2'
    | _, _ => false
    end.
  Lemma list_eqb_eq l1 : forall l2, list_eqb l1 l2 = true <-> l1 = l2.
  Proof.
    induction l1 as [|x l1 IH]; intros [|y l2]; cbn; try (split; [discriminate|discriminate]); try tauto.
    rewrite andb_true_iff, eqb_eq, IH. split; [intros [-> ->]; reflexivity | intros E; inversion E; auto].
  Qed.
  #[export] Instance Eqb_list : Eqb (list A) := {| eqb := list_eqb; eqb_eq := list_eqb_eq |}.
End ListEqb.

Section OptionEqb.
  Context {A : Type} `{Eqb A}.
  Definition option_eqb (o1 o2 : option A) : bool :=
    match o1, o2 with
    | None, None => true
    | Some x, Some y => eqb x y
    | _, _ => false
    end.
  Lemma option_eqb_eq o1 o2 : option_eqb o1 o2 = true <-> o1 = o2.
  Proof.
    destruct o1, o2; cbn; try (split; [discriminate|discriminate]); try tauto.
    rewrite eqb_eq. split; [intros ->; reflexivity | intros E; inversion E; auto].
  Qed.
  #[export] Instance Eqb_option : Eqb (option A) := {| eqb := option_eqb; eqb_eq := option_eqb_eq |}.
End OptionEqb.

(* ---- lists as finite sets ---- *)
Section Sets.
  Context {A : Type} `{Eqb A}.

  Definition mem (x : A) (l : list A) : bool := existsb (eqb x) l.

  Lemma mem_In x l : mem x l = true <-> In x l.
  Proof.
    unfold mem. rewrite existsb_exists. split.
    - intros [y [Hy He]]. apply eqb_true in He. subst; exact Hy.
    - intros Hi. exists x. split; [exact Hi | apply eqb_refl].
  Qed.

  Lemma mem_nIn x l : mem x l = false <-> ~ In x l.
  Proof.
    split.
    - intros E Hc. apply mem_In in Hc. congruence.
    - intros Hn. destruct (mem x l) eqn:E; [apply mem_In in E; contradiction | reflexivity].
  Qed.

  Definition subsetb (l1 l2 : list A) : bool := forallb (fun x => mem x l2) l1.
  Lemma subsetb_incl l1 l2 : subsetb l1 l2 = true <-> incl l1 l2.
  Proof.
    unfold subsetb. rewrite forallb_forall. split.
    - intros Hs x Hx. apply mem_In. apply Hs; exact Hx.
    - intros Hs x Hx. apply mem_In. apply Hs; exact Hx.
  Qed.

  Definition seteqb (l1 l2 : list A) : bool := subsetb l1 l2 && subsetb l2 l1.
  Definition seteq (l1 l2 : list A) : Prop := forall x, In x l1 <-> In x l2.
  Lemma seteqb_seteq l1 l2 : seteqb l1 l2 = true <-> seteq l1 l2.
  Proof.
    unfold seteqb, seteq. rewrite andb_true_iff, !subsetb_incl. unfold incl. firstorder.
  Qed.

  Definition disjointb (l1 l2 : list A) : bool := forallb (fun x => negb (mem x l2)) l1.
  Lemma disjointb_spec l1 l2 : disjointb l1 l2 = true <-> (forall x, In x l1 -> ~ In x l2).
  Proof.
    unfold disjointb. rewrite forallb_forall. split.
    - intros Hs x Hx Hc. specialize (Hs x Hx). apply negb_true_iff, mem_nIn in Hs. contradiction.
    - intros Hs x Hx. apply negb_true_iff, mem_nIn. apply Hs; exact Hx.
  Qed.

  (* intersection non-empty: Python's  not A.isdisjoint(B) *)
  Definition meetsb (l1 l2 : list A) : bool := existsb (fun x => mem x l2) l1.
  Lemma meetsb_spec l1 l2 : meetsb l1 l2 = true <-> exists x, In x l1 /\ In x l2.
  Proof.
    unfold meetsb. rewrite existsb_exists. split; intros [x [H1 H2]]; exists x; split; auto; apply mem_In; auto.
  Qed.

  (* add without duplicates *)
  Definition add (x : A) (l : list A) : list A := if mem x l then l else l ++ [x].
  Lemma add_In x y l : In y (add x l) <-> y = x \/ In y l.
  Proof.
    unfold add. destruct (mem x l) eqn:E.
    - apply mem_In in E. split; [auto | intros [->|Hy]; auto].
    - rewrite in_app_iff. cbn. intuition.
  Qed.

  Fixpoint union (l1 l2 : list A) : list A :=
    match l2 with [] => l1 | x :: l2' => union (add x l1) l2' end.
  Lemma union_In y l2 : forall l1, In y (union l1 l2) <-> In y l1 \/ In y l2.
  Proof.
    induction l2 as [|x l2 IH]; intros l1; cbn; [tauto|].
    rewrite IH, add_In. intuition.
  Qed.

  Definition diff (l1 l2 : list A) : list A := filter (fun x => negb (mem x l2)) l1.
  Lemma diff_In y l1 l2 : In y (diff l1 l2) <-> In y l1 /\ ~ In y l2.
  Proof. unfold diff. rewrite filter_In, negb_true_iff, mem_nIn. tauto. Qed.

  Definition inter (l1 l2 : list A) : list A := filter (fun x => mem x l2) l1.
  Lemma inter_In y l1 l2 : In y (inter l1 l2) <-> In y l1 /\ In y l2.
  Proof. unfold inter. rewrite filter_In, mem_In. tauto. Qed.

  Fixpoint dedup (l : list A) : list A :=
    match l with [] => [] | x :: l' => if mem x l' then dedup l' else x :: dedup l' end.
  Lemma dedup_In y l : In y (dedup l) <-> In y l.
  Proof.
    induction l as [|x l IH]; cbn; [tauto|].
    destruct (mem x l) eqn:E; cbn; rewrite IH; [apply mem_In in E|]; intuition (subst; auto).
  Qed.
  Lemma dedup_NoDup l : NoDup (dedup l).
  Proof.
    induction l as [|x l IH]; cbn; [constructor|].
    destruct (mem x l) eqn:E; [exact IH|]. constructor; [|exact IH].
    rewrite dedup_In. apply mem_nIn; exact E.
  Qed.

  Definition big_union (ls : list (list A)) : list A := fold_left union ls [].
  Lemma fold_union_In y ls : forall acc, In y (fold_left union ls acc) <-> In y acc \/ exists l, In l ls /\ In y l.
  Proof.
    induction ls as [|l ls IH]; intros acc; cbn.
    - split; [auto | intros [Hy|[l [[] _]]]; exact Hy].
    - rewrite IH, union_In. split.
      + intros [[Hy|Hy]|[l' [Hl Hy]]]; [left; exact Hy | right; exists l; auto | right; exists l'; auto].
      + intros [Hy|[l' [[<-|Hl] Hy]]]; [left; left; exact Hy | left; right; exact Hy | right; exists l'; auto].
  Qed.
  Lemma big_union_In y ls : In y (big_union ls) <-> exists l, In l ls /\ In y l.
  Proof. unfold big_union. rewrite fold_union_In. cbn. tauto. Qed.
End Sets.

(* ---- association lists as dicts ---- *)
Section Assoc.
  Context {K V : Type} `{Eqb K}.
  Fixpoint lookup (k : K) (m : list (K * V)) : option V :=
    match m with
    | [] => None
    | (k', v) :: m' => if eqb k k' then Some v else lookup k m'
    end.
  Lemma lookup_In k v m : lookup k m = Some v -> In (k, v) m.
  Proof.
    induction m as [|[k' v'] m IH]; cbn; [discriminate|].
    destruct (eqb k k') eqn:E.
    - apply eqb_true in E. subst. intros Ev; inversion Ev; auto.
    - auto.
  Qed.
  Lemma lookup_None k m : lookup k m = None <-> forall v, ~ In (k, v) m.
  Proof.
    induction m as [|[k' v'] m IH]; cbn.
    - split; [intros _ v [] | reflexivity].
    - destruct (eqb k k') eqn:E.
      + apply eqb_true in E. subst. split; [discriminate | intros Hn; exfalso; apply (Hn v'); auto].
      + apply eqb_neq in E. rewrite IH. split.
        * intros Hn v [Hc|Hc]; [inversion Hc; congruence | apply (Hn v); exact Hc].
        * intros Hn v Hc. apply (Hn v); auto.
  Qed.
  (* dict assignment d[k] = v : replace in place if present, append otherwise *)
  Fixpoint update (k : K) (v : V) (m : list (K * V)) : list (K * V) :=
    match m with
    | [] => [(k, v)]
    | (k', v') :: m' => if eqb k k' then (k, v) :: m' else (k', v') :: update k v m'
    end.
  Lemma lookup_update k v m k2 : lookup k2 (update k v m) = if eqb k2 k then Some v else lookup k2 m.
  Proof.
    induction m as [|[k' v'] m IH]; cbn.
    - reflexivity.
    - destruct (eqb k k') eqn:E; cbn.
      + apply eqb_true in E. subst k'. destruct (eqb k2 k); reflexivity.
      + rewrite IH. destruct (eqb k2 k') eqn:E2; [|reflexivity].
        apply eqb_true in E2. subst k2. destruct (eqb k' k) eqn:E3; [|reflexivity].
        apply eqb_true in E3. subst k'. rewrite eqb_refl in E. discriminate.
  Qed.
  Definition keys (m : list (K * V)) : list K := map fst m.
End Assoc.

Definition word := list nat.

(* firstn / skipn facts used by the matcher proofs *)
Lemma firstn_skipn_app {A} (k : nat) (w : list A) : firstn k w ++ skipn k w = w.
Proof. apply firstn_skipn. Qed.

(* all words over an alphabet of length exactly n / at most n (reference enumerations) *)
Fixpoint words_of_length (Sg : list nat) (n : nat) : list word :=
  match n with
  | 0 => [[]]
  | S n' => flat_map (fun a => map (cons a) (words_of_length Sg n')) Sg
  end.
Definition words_upto (Sg : list nat) (n : nat) : list word := flat_map (words_of_length Sg) (seq 0 (S n)).

Lemma words_of_length_spec Sg n w : In w (words_of_length Sg n) <-> length w = n /\ Forall (fun a => In a Sg) w.
Proof.
  revert w; induction n as [|n IH]; intros w; cbn.
  - split.
    + intros [<-|[]]. split; [reflexivity|constructor].
    + intros [Hl _]. destruct w; [auto|discriminate].
  - rewrite in_flat_map. split.
    + intros [a [Ha Hw]]. apply in_map_iff in Hw. destruct Hw as [w' [<- Hw']].
      apply IH in Hw'. destruct Hw' as [Hl Hf]. cbn. split; [lia | constructor; auto].
    + intros [Hl Hf]. destruct w as [|a w]; [discriminate|]. inversion Hf; subst.
      exists a. split; [assumption|]. apply in_map. apply IH. cbn in Hl. split; [lia|assumption].
Qed.

Lemma words_upto_spec Sg n w : In w (words_upto Sg n) <-> length w <= n /\ Forall (fun a => In a Sg) w.
Proof.
  unfold words_upto. rewrite in_flat_map. split.
  - intros [k [Hk Hw]]. apply in_seq in Hk. apply words_of_length_spec in Hw. destruct Hw as [<- Hf]. split; [lia|exact Hf].
  - intros [Hl Hf]. exists (length w). split; [apply in_seq; lia | apply words_of_length_spec; auto].
Qed.
