(* C04: the shared Myhill-Nerode theory used by the three minimiser proofs.
   - stable_partition_is_mn : a stable partition refining {F, Q\F} and coarser than MN-equivalence is the MN partition
   - mn_dec                 : two states are MN-equivalent or separated by a word (constructive)
   - quotient_correct       : the quotient automaton by the MN partition (language, distinguishability, classes)
   - minimal_when_reachable : reachable + pairwise distinguishable => fewest states
   - quotient_lower_bound, quotient_minimal : corollaries *)
From GT Require Import Base.Prelude Model.DFA Proofs.NFAProofs Proofs.DFAOpsProofs Proofs.PartitionDefs Base.Sort.

(* ---------- generic list facts ---------- *)
Section ListFacts.
  Context {X : Type}.

  Lemma filter_len_le (f g : X -> bool) (l : list X) :
    (forall x, In x l -> f x = true -> g x = true) -> length (filter f l) <= length (filter g l).
  Proof.
    induction l as [|x l IH]; intros Hfg; cbn [filter length]; [lia|].
    assert (IH' : length (filter f l) <= length (filter g l)).
    { apply IH. intros y Hy. apply Hfg. right; exact Hy. }
    destruct (f x) eqn:Ef.
    - rewrite (Hfg x (or_introl eq_refl) Ef). cbn [length]. lia.
    - destruct (g x); cbn [length]; lia.
  Qed.

  Lemma filter_len_lt (f g : X -> bool) (l : list X) (x0 : X) :
    (forall x, In x l -> f x = true -> g x = true) -> In x0 l -> f x0 = false -> g x0 = true ->
    length (filter f l) < length (filter g l).
  Proof.
    induction l as [|x l IH]; intros Hfg Hin Hf0 Hg0; [destruct Hin|].
    assert (Hfg' : forall y, In y l -> f y = true -> g y = true).
    { intros y Hy. apply Hfg. right; exact Hy. }
    cbn [filter]. destruct Hin as [->|Hin].
    - rewrite Hf0, Hg0. cbn [length]. pose proof (filter_len_le f g l Hfg'). lia.
    - specialize (IH Hfg' Hin Hf0 Hg0). destruct (f x) eqn:Ef.
      + rewrite (Hfg x (or_introl eq_refl) Ef). cbn [length]. lia.
      + destruct (g x); cbn [length]; lia.
  Qed.

  Lemma filter_len_bound (f : X -> bool) (l : list X) : length (filter f l) <= length l.
  Proof. induction l as [|x l IH]; cbn [filter length]; [lia|]. destruct (f x); cbn [length]; lia. Qed.

  Lemma forallb_false_ex (f : X -> bool) (l : list X) : forallb f l = false -> exists x, In x l /\ f x = false.
  Proof.
    induction l as [|x l IH]; cbn [forallb]; [discriminate|].
    destruct (f x) eqn:Ef; cbn [andb].
    - intros E. destruct (IH E) as [y [Hy Hfy]]. exists y. split; [right; exact Hy | exact Hfy].
    - intros _. exists x. split; [left; reflexivity | exact Ef].
  Qed.

  Lemma existsb_eq_on (f g : X -> bool) (l : list X) : (forall x, In x l -> f x = g x) -> existsb f l = existsb g l.
  Proof.
    induction l as [|x l IH]; intros Hfg; cbn [existsb]; [reflexivity|].
    rewrite (Hfg x (or_introl eq_refl)), IH; [reflexivity|]. intros y Hy. apply Hfg. right; exact Hy.
  Qed.

  Lemma existsb_false_In (f : X -> bool) (l : list X) x : existsb f l = false -> In x l -> f x = false.
  Proof.
    intros E Hx. destruct (f x) eqn:Ef; [|reflexivity].
    assert (Hc : existsb f l = true) by (apply existsb_exists; exists x; auto). congruence.
  Qed.

  (* pigeonhole in relational form: an injective total relation from a duplicate-free list into a list *)
  Lemma rel_image_length {Y : Type} (R : X -> Y -> Prop) (l : list X) (l2 : list Y) :
    NoDup l -> (forall x, In x l -> exists y, In y l2 /\ R x y) ->
    (forall x1 x2 y, In x1 l -> In x2 l -> R x1 y -> R x2 y -> x1 = x2) -> length l <= length l2.
  Proof.
    intros Hnd Htot Hinj.
    assert (G : exists l', length l' = length l /\ NoDup l' /\ incl l' l2 /\ forall y, In y l' -> exists x, In x l /\ R x y).
    { induction Hnd as [|x l Hx Hnd IH].
      - exists []. split; [reflexivity|]. split; [constructor|]. split; [intros y []|]. intros y [].
      - destruct IH as [l' [Hlen [Hnd' [Hinc Hsrc]]]].
        + intros x' Hx'. apply Htot. right; exact Hx'.
        + intros x1 x2 y H1 H2. apply Hinj; right; assumption.
        + destruct (Htot x (or_introl eq_refl)) as [y [Hy HR]].
          exists (y :: l'). split; [cbn [length]; lia|]. split; [|split].
          * constructor; [|exact Hnd']. intros Hc. destruct (Hsrc y Hc) as [x2 [Hx2 HR2]].
            assert (E : x = x2) by (apply (Hinj x x2 y); [left; reflexivity | right; exact Hx2 | exact HR | exact HR2]).
            subst x2. contradiction.
          * intros z [<-|Hz]; [exact Hy | apply Hinc; exact Hz].
          * intros z [<-|Hz]; [exists x; split; [left; reflexivity | exact HR]|].
            destruct (Hsrc z Hz) as [x2 [Hx2 HR2]]. exists x2. split; [right; exact Hx2 | exact HR2]. }
    destruct G as [l' [Hlen [Hnd' [Hinc _]]]]. rewrite <- Hlen. apply NoDup_incl_length; assumption.
  Qed.
End ListFacts.

Section Theory.
  Context {A : Type} `{Eqb A}.

  (* ---------- MN-equivalence is an equivalence compatible with the transitions ---------- *)
  Lemma mn_refl (D : dfa A) p : mn_equiv D p p.
  Proof. intros w _. tauto. Qed.
  Lemma mn_sym (D : dfa A) p q : mn_equiv D p q -> mn_equiv D q p.
  Proof. intros E w Hw. symmetry. apply E; exact Hw. Qed.
  Lemma mn_trans (D : dfa A) p q r : mn_equiv D p q -> mn_equiv D q r -> mn_equiv D p r.
  Proof. intros E1 E2 w Hw. rewrite (E1 w Hw). apply E2; exact Hw. Qed.
  Lemma mn_step (D : dfa A) p q a : In a (dS D) -> mn_equiv D p q -> mn_equiv D (dstep D p a) (dstep D q a).
  Proof. intros Ha E w Hw. apply (E (a :: w)). unfold over. constructor; assumption. Qed.
  Lemma mn_final (D : dfa A) p q : mn_equiv D p q -> (In p (dF D) <-> In q (dF D)).
  Proof. intros E. apply (E []). unfold over. constructor. Qed.
  Lemma mn_run (D : dfa A) p q w : over D w -> mn_equiv D p q -> mn_equiv D (drun D p w) (drun D q w).
  Proof. intros Hw E w2 Hw2. rewrite <- !drun_app. apply E. unfold over. apply Forall_app; split; assumption. Qed.

  (* the two states are separated by a word over the alphabet *)
  Definition separated (D : dfa A) (p q : A) : Prop :=
    exists w, over D w /\ ~ (In (drun D p w) (dF D) <-> In (drun D q w) (dF D)).

  Lemma separated_not_mn (D : dfa A) p q : separated D p q -> ~ mn_equiv D p q.
  Proof. intros [w [Hw Hn]] E. apply Hn. apply E; exact Hw. Qed.
  Lemma separated_sym (D : dfa A) p q : separated D p q -> separated D q p.
  Proof. intros [w [Hw Hn]]. exists w. split; [exact Hw | tauto]. Qed.
  Lemma separated_step (D : dfa A) p q a : In a (dS D) -> separated D (dstep D p a) (dstep D q a) -> separated D p q.
  Proof. intros Ha [w [Hw Hn]]. exists (a :: w). split; [unfold over; constructor; assumption | exact Hn]. Qed.

  (* ---------- 1. characterisation of the MN partition ---------- *)
  Theorem stable_partition_is_mn (D : dfa A) (P : list (list A)) : dfa_wf D ->
    (forall B, In B P -> B <> [] /\ incl B (dQ D)) -> (forall q, In q (dQ D) -> exists B, In B P /\ In q B) ->
    (forall B1 B2 q, In B1 P -> In B2 P -> In q B1 -> In q B2 -> B1 = B2) ->
    refines_F D P -> stable D P -> coarser_than_mn D P -> is_mn_partition D P.
  Proof.
    intros Hwf Hblk Hcov Hdisj HF Hst Hco.
    split; [exact Hblk|]. split; [exact Hcov|]. split.
    - intros B p q HB Hp Hq w Hw. revert B p q HB Hp Hq.
      induction Hw as [|a w Ha Hw IH]; intros B p q HB Hp Hq; cbn [drun].
      + apply (HF B); assumption.
      + assert (Hpq : In p (dQ D)) by (apply (Hblk B HB); exact Hp).
        destruct (dfa_wf_step p a Hwf Hpq Ha) as [_ Hp1].
        destruct (Hcov _ Hp1) as [C [HC HpC]].
        apply (IH C); [exact HC | exact HpC|]. apply (Hst B C a p q); assumption.
    - intros B1 B2 p q HB1 HB2 Hp Hq E.
      apply (Hdisj B1 B2 q); try assumption. apply (Hco B1 p q); try assumption. apply (Hblk B2 HB2); exact Hq.
  Qed.

  (* ---------- MN-equivalence is decidable, with a separating word in the negative case ---------- *)
  (* sepb D k p q : p and q are separated by a word of length <= k *)
  Fixpoint sepb (D : dfa A) (k : nat) (p q : A) : bool :=
    match k with
    | 0 => negb (Bool.eqb (mem p (dF D)) (mem q (dF D)))
    | S k' => sepb D k' p q || existsb (fun a => sepb D k' (dstep D p a) (dstep D q a)) (dS D)
    end.

  Lemma sepb_sound (D : dfa A) k : forall p q, sepb D k p q = true -> separated D p q.
  Proof.
    induction k as [|k IH]; intros p q E; cbn [sepb] in E.
    - exists []. split; [unfold over; constructor|]. cbn [drun]. rewrite <- !mem_In.
      destruct (mem p (dF D)), (mem q (dF D)); cbn in E; try discriminate E; intros [H1 H2];
        [discriminate (H1 eq_refl) | discriminate (H2 eq_refl)].
    - apply orb_true_iff in E. destruct E as [E|E]; [apply IH; exact E|].
      apply existsb_exists in E. destruct E as [a [Ha E]]. apply (separated_step D p q a Ha). apply IH; exact E.
  Qed.

  Lemma sepb_complete (D : dfa A) k : forall p q, sepb D k p q = false ->
    forall w, length w <= k -> over D w -> (In (drun D p w) (dF D) <-> In (drun D q w) (dF D)).
  Proof.
    induction k as [|k IH]; intros p q E w Hl Hw; cbn [sepb] in E.
    - destruct w as [|a w]; [|cbn [length] in Hl; lia]. cbn [drun]. rewrite <- !mem_In.
      apply negb_false_iff, eqb_prop in E. rewrite E. tauto.
    - apply orb_false_iff in E. destruct E as [E1 E2].
      destruct w as [|a w]; [apply (IH p q E1); [cbn [length]; lia | exact Hw]|].
      cbn [drun]. inversion Hw as [|a' w' Ha Hw']; subst.
      apply IH; [|cbn [length] in Hl; lia | exact Hw'].
      apply (existsb_false_In (fun a0 => sepb D k (dstep D p a0) (dstep D q a0)) (dS D) a E2 Ha).
  Qed.

  Lemma sepb_mono (D : dfa A) k p q : sepb D k p q = true -> sepb D (S k) p q = true.
  Proof. intros E. cbn [sepb]. rewrite E. reflexivity. Qed.

  Definition stab (D : dfa A) (k : nat) : Prop :=
    forall p q, In p (dQ D) -> In q (dQ D) -> sepb D (S k) p q = sepb D k p q.

  Lemma stab_S (D : dfa A) k : dfa_wf D -> stab D k -> stab D (S k).
  Proof.
    intros Hwf Hs p q Hp Hq. change (sepb D (S (S k)) p q) with
      (sepb D (S k) p q || existsb (fun a => sepb D (S k) (dstep D p a) (dstep D q a)) (dS D)).
    rewrite (existsb_eq_on (fun a => sepb D (S k) (dstep D p a) (dstep D q a))
                           (fun a => sepb D k (dstep D p a) (dstep D q a)) (dS D)).
    - change (sepb D (S k) p q) with
        (sepb D k p q || existsb (fun a => sepb D k (dstep D p a) (dstep D q a)) (dS D)).
      destruct (sepb D k p q), (existsb (fun a => sepb D k (dstep D p a) (dstep D q a)) (dS D)); reflexivity.
    - intros a Ha. apply Hs; apply (dfa_wf_step _ a Hwf); assumption.
  Qed.

  Lemma stab_plus (D : dfa A) k : dfa_wf D -> stab D k ->
    forall j p q, In p (dQ D) -> In q (dQ D) -> sepb D (j + k) p q = sepb D k p q.
  Proof.
    intros Hwf Hs j. assert (G : stab D (j + k) /\ forall p q, In p (dQ D) -> In q (dQ D) -> sepb D (j + k) p q = sepb D k p q).
    { induction j as [|j [IH1 IH2]]; cbn [Nat.add]; [split; [exact Hs | reflexivity]|].
      split; [apply stab_S; assumption|]. intros p q Hp Hq. rewrite (IH1 p q Hp Hq). apply IH2; assumption. }
    exact (proj2 G).
  Qed.

  Definition sep_cnt (D : dfa A) (k : nat) : nat :=
    length (filter (fun pq => sepb D k (fst pq) (snd pq)) (list_prod (dQ D) (dQ D))).

  Lemma stab_exists (D : dfa A) : dfa_wf D -> exists N, stab D N.
  Proof.
    intros Hwf.
    assert (G : forall m k, length (list_prod (dQ D) (dQ D)) <= sep_cnt D k + m -> exists N, stab D N).
    { induction m as [|m IH]; intros k Hk;
      (destruct (forallb (fun pq => Bool.eqb (sepb D (S k) (fst pq) (snd pq)) (sepb D k (fst pq) (snd pq)))
                         (list_prod (dQ D) (dQ D))) eqn:Eb;
       [exists k; intros p q Hp Hq; rewrite forallb_forall in Eb;
        specialize (Eb (p, q)); cbn [fst snd] in Eb; apply eqb_prop; apply Eb; apply in_prod_iff; split; assumption|]);
      apply forallb_false_ex in Eb; destruct Eb as [[p q] [Hin Hne]]; cbn [fst snd] in Hne;
      assert (Hlt : sep_cnt D k < sep_cnt D (S k))
        by (unfold sep_cnt;
            apply (filter_len_lt (fun pq => sepb D k (fst pq) (snd pq)) (fun pq => sepb D (S k) (fst pq) (snd pq)) _ (p, q));
            [intros x _; apply sepb_mono | exact Hin | |]; cbn [fst snd];
            destruct (sepb D k p q) eqn:E1; try reflexivity;
            try (rewrite (sepb_mono D k p q E1) in Hne; discriminate);
            destruct (sepb D (S k) p q); [reflexivity | discriminate]).
      - pose proof (filter_len_bound (fun pq => sepb D (S k) (fst pq) (snd pq)) (list_prod (dQ D) (dQ D))) as Hb.
        unfold sep_cnt in *. lia.
      - apply (IH (S k)). lia. }
    apply (G (length (list_prod (dQ D) (dQ D))) 0). lia.
  Qed.

  Theorem mn_dec (D : dfa A) p q : dfa_wf D -> In p (dQ D) -> In q (dQ D) -> mn_equiv D p q \/ separated D p q.
  Proof.
    intros Hwf Hp Hq. destruct (stab_exists D Hwf) as [N HN].
    destruct (sepb D N p q) eqn:E; [right; apply (sepb_sound D N); exact E|].
    left. intros w Hw. apply (sepb_complete D (length w + N)); [|lia | exact Hw].
    rewrite (stab_plus D N Hwf HN (length w) p q Hp Hq). exact E.
  Qed.

  Corollary not_mn_separated (D : dfa A) p q : dfa_wf D -> In p (dQ D) -> In q (dQ D) -> ~ mn_equiv D p q -> separated D p q.
  Proof. intros Hwf Hp Hq Hn. destruct (mn_dec D p q Hwf Hp Hq) as [E|Hs]; [contradiction | exact Hs]. Qed.

  (* ---------- 3. minimality ---------- *)
  Theorem minimal_when_reachable {B : Type} `{Eqb B} (D1 : dfa A) (D2 : dfa B) :
    dfa_wf D1 -> dfa_wf D2 -> dS D1 = dS D2 -> NoDup (dQ D1) ->
    (forall q, In q (dQ D1) -> exists w, over D1 w /\ drun D1 (dq0 D1) w = q) ->
    (forall p q, In p (dQ D1) -> In q (dQ D1) -> p <> q ->
       exists w, over D1 w /\ ~ (In (drun D1 p w) (dF D1) <-> In (drun D1 q w) (dF D1))) ->
    (forall w, over D1 w -> (dfa_lang D1 w <-> dfa_lang D2 w)) ->
    length (dQ D1) <= length (dQ D2).
  Proof.
    intros Hwf1 Hwf2 HS Hnd Hreach Hdist Hlang.
    assert (Hov : forall w, over D1 w -> over D2 w) by (intros w Hw; unfold over in *; rewrite <- HS; exact Hw).
    assert (Hacc : forall w, over D1 w -> (In (drun D1 (dq0 D1) w) (dF D1) <-> In (drun D2 (dq0 D2) w) (dF D2))).
    { intros w Hw. rewrite <- (dfa_lang_drun Hwf1 Hw), <- (dfa_lang_drun Hwf2 (Hov w Hw)). apply Hlang; exact Hw. }
    apply (rel_image_length (fun q y => exists w, over D1 w /\ drun D1 (dq0 D1) w = q /\ drun D2 (dq0 D2) w = y)); [exact Hnd| |].
    - intros q Hq. destruct (Hreach q Hq) as [w [Hw Ew]]. exists (drun D2 (dq0 D2) w). split.
      + apply (drun_In Hwf2 (Hov w Hw)). exact (proj1 Hwf2).
      + exists w. auto.
    - intros q1 q2 y Hq1 Hq2 [w1 [Hw1 [E1 F1]]] [w2 [Hw2 [E2 F2]]].
      destruct (eqb_dec q1 q2) as [E|Hne]; [exact E|]. exfalso.
      destruct (Hdist q1 q2 Hq1 Hq2 Hne) as [w [Hw Hn]]. apply Hn.
      assert (Ha1 : over D1 (w1 ++ w)) by (unfold over; apply Forall_app; split; assumption).
      assert (Ha2 : over D1 (w2 ++ w)) by (unfold over; apply Forall_app; split; assumption).
      pose proof (Hacc _ Ha1) as G1. pose proof (Hacc _ Ha2) as G2.
      rewrite !drun_app in G1, G2. rewrite E1, F1 in G1. rewrite E2, F2 in G2. tauto.
  Qed.
End Theory.

(* ---------- 2. the quotient automaton ---------- *)
Section Quot.
  Context {A : Type} `{Eqb A}.
  Variable canon : list A -> list A.
  Hypothesis canon_In : forall l y, In y (canon l) <-> In y l.

  Section Fixed.
  Variables (D : dfa A) (P : list (list A)) (D' : dfa (list A)).
  Hypothesis Hwf : dfa_wf D.
  Hypothesis HP : is_mn_partition D P.
  Hypothesis HQ : is_quotient_of canon D P D'.

  Lemma part_unique B1 B2 q : In B1 P -> In B2 P -> In q B1 -> In q B2 -> B1 = B2.
  Proof.
    intros H1 H2 Hq1 Hq2. destruct HP as [_ [_ [_ Hd]]]. apply (Hd B1 B2 q q); try assumption. apply mn_refl.
  Qed.

  Lemma part_canon_inj B1 B2 : In B1 P -> In B2 P -> canon B1 = canon B2 -> B1 = B2.
  Proof.
    intros H1 H2 E. destruct HP as [Hne _]. destruct (Hne B1 H1) as [Hn _].
    destruct B1 as [|x B1']; [contradiction|].
    apply (part_unique _ _ x H1 H2); [left; reflexivity|]. apply canon_In. rewrite <- E. apply canon_In. left; reflexivity.
  Qed.

  Lemma part_In_dQ B q : In B P -> In q B -> In q (dQ D).
  Proof. intros HB Hq. destruct HP as [Hne _]. apply (Hne B HB). exact Hq. Qed.

  Lemma quot_step B q a : In B P -> In q B -> In a (dS D) ->
    exists B', In B' P /\ In (dstep D q a) B' /\ ddelta D' (canon B) a = Some (canon B').
  Proof.
    intros HB Hq Ha. destruct HQ as [_ [_ [_ [_ [Hstep _]]]]].
    destruct (Hstep B a HB Ha) as [v [B' [Hv [HB' [Hv' Hd]]]]].
    exists B'. split; [exact HB'|]. split; [|exact Hd].
    pose proof HP as [_ [Hcov [Hsame Hdiff]]].
    assert (Hq1 : In (dstep D q a) (dQ D)) by (apply (dfa_wf_step q a Hwf); [apply (part_In_dQ B) |]; assumption).
    destruct (Hcov _ Hq1) as [B'' [HB'' Hq'']].
    assert (E : B'' = B').
    { apply (Hdiff B'' B' (dstep D q a) (dstep D v a)); try assumption. apply mn_step; [exact Ha|]. apply (Hsame B); assumption. }
    subst B''. exact Hq''.
  Qed.

  Lemma quot_run w : over D w -> forall B q, In B P -> In q B ->
    exists B', In B' P /\ In (drun D q w) B' /\ dfa_run D' (canon B) w = Some (canon B') /\ drun D' (canon B) w = canon B'.
  Proof.
    intros Hw. induction Hw as [|a w Ha Hw IH]; intros B q HB Hq.
    - exists B. cbn [drun dfa_run]. auto.
    - destruct (quot_step B q a HB Hq Ha) as [B1 [HB1 [Hq1 Hd]]].
      destruct (IH B1 _ HB1 Hq1) as [B' [HB' [Hq' [Hr1 Hr2]]]].
      exists B'. split; [exact HB'|]. split; [exact Hq'|]. cbn [drun dfa_run].
      assert (Es : dstep D' (canon B) a = canon B1) by (unfold dstep; rewrite Hd; reflexivity).
      rewrite Es, Hd. auto.
  Qed.

  Lemma quot_final B q : In B P -> In q B -> (In (canon B) (dF D') <-> In q (dF D)).
  Proof.
    intros HB Hq. destruct HQ as [_ [_ [_ [HF _]]]]. rewrite HF. pose proof HP as [_ [_ [Hsame _]]]. split.
    - intros [B1 [HB1 [E [q1 [Hq1 Hf]]]]]. apply (part_canon_inj B B1 HB HB1) in E. subst B1.
      apply (mn_final D q q1); [apply (Hsame B); assumption | exact Hf].
    - intros Hf. exists B. split; [exact HB|]. split; [reflexivity|]. exists q. auto.
  Qed.

  Lemma quot_states S1 : In S1 (dQ D') <-> exists B, In B P /\ S1 = canon B.
  Proof. destruct HQ as [HQ1 _]. apply HQ1. Qed.

  (* everything except well-formedness of D' follows from is_quotient_of *)
  Theorem quotient_correct_core :
    dS D' = dS D /\
    (forall w, over D w -> (dfa_lang D' w <-> dfa_lang D w)) /\
    (forall S1 S2, In S1 (dQ D') -> In S2 (dQ D') -> S1 <> S2 ->
       exists w, over D w /\ ~ (In (drun D' S1 w) (dF D') <-> In (drun D' S2 w) (dF D'))) /\
    (forall q, In q (dQ D) -> exists S1, In S1 (dQ D') /\ In q S1) /\
    (forall S1 p q, In S1 (dQ D') -> In p S1 -> In q S1 -> mn_equiv D p q) /\
    (forall S1 S2 p q, In S1 (dQ D') -> In S2 (dQ D') -> In p S1 -> In q S2 -> mn_equiv D p q -> S1 = S2).
  Proof.
    pose proof HP as [Hne [Hcov [Hsame Hdiff]]].
    split; [apply HQ|]. split; [|split; [|split; [|split]]].
    - intros w Hw. rewrite (dfa_lang_drun Hwf Hw).
      pose proof HQ as [_ [_ [[B0 [HB0 [Hq0 E0]]] _]]].
      destruct (quot_run w Hw B0 _ HB0 Hq0) as [B' [HB' [Hq' [Hr _]]]].
      rewrite <- (quot_final B' _ HB' Hq'). unfold dfa_lang. rewrite E0. split.
      + intros [qf [Hp Hf]]. apply dfa_path_run in Hp. rewrite Hr in Hp. inversion Hp; subst qf. exact Hf.
      + intros Hf. exists (canon B'). split; [apply dfa_path_run; exact Hr | exact Hf].
    - intros S1 S2 H1 H2 Hneq. apply quot_states in H1. apply quot_states in H2.
      destruct H1 as [B1 [HB1 ->]]. destruct H2 as [B2 [HB2 ->]].
      destruct (Hne B1 HB1) as [Hn1 _]. destruct (Hne B2 HB2) as [Hn2 _].
      destruct B1 as [|p B1']; [contradiction|]. destruct B2 as [|q B2']; [contradiction|].
      set (B1 := p :: B1') in *. set (B2 := q :: B2') in *.
      assert (Hp : In p B1) by (left; reflexivity). assert (Hq : In q B2) by (left; reflexivity).
      destruct (mn_dec D p q Hwf (part_In_dQ B1 p HB1 Hp) (part_In_dQ B2 q HB2 Hq)) as [E|[w [Hw Hn]]].
      + exfalso. apply Hneq. f_equal. apply (Hdiff B1 B2 p q); assumption.
      + exists w. split; [exact Hw|].
        destruct (quot_run w Hw B1 p HB1 Hp) as [B1e [HB1e [Hp' [_ Hr1]]]].
        destruct (quot_run w Hw B2 q HB2 Hq) as [B2e [HB2e [Hq' [_ Hr2]]]].
        rewrite Hr1, Hr2, (quot_final B1e _ HB1e Hp'), (quot_final B2e _ HB2e Hq'). exact Hn.
    - intros q Hq. destruct (Hcov q Hq) as [B [HB HqB]]. exists (canon B). split; [apply quot_states; exists B; auto|].
      apply canon_In. exact HqB.
    - intros S1 p q H1 Hp Hq. apply quot_states in H1. destruct H1 as [B [HB ->]].
      rewrite canon_In in Hp. rewrite canon_In in Hq. apply (Hsame B); assumption.
    - intros S1 S2 p q H1 H2 Hp Hq E. apply quot_states in H1. apply quot_states in H2.
      destruct H1 as [B1 [HB1 ->]]. destruct H2 as [B2 [HB2 ->]].
      rewrite canon_In in Hp. rewrite canon_In in Hq. f_equal. apply (Hdiff B1 B2 p q); assumption.
  Qed.

  (* well-formedness of D' needs that the targets of ALL entries of dD D' (also shadowed ones) are states of D';
     is_quotient_of only constrains the keys and the first entry of each key (see quotient_wf_needs_range below) *)
  Definition delta_range_ok : Prop := forall k S1, In (k, S1) (dD D') -> In S1 (dQ D').

  Lemma quotient_wf : delta_range_ok -> dfa_wf D'.
  Proof.
    intros Hrng. pose proof HQ as [HQ1 [HQ2 [[B0 [HB0 [Hq0 E0]]] [HQ4 [HQ5 HQ6]]]]].
    unfold dfa_wf. split; [|split; [|split]].
    - rewrite E0. apply quot_states. exists B0. auto.
    - intros S1 Hs. apply HQ4 in Hs. destruct Hs as [B [HB [-> _]]]. apply quot_states. exists B. auto.
    - intros S1 a S2 Hi. destruct (HQ6 _ _ Hi) as [B [HB [E Ha]]]. cbn [fst snd] in E, Ha.
      split; [apply quot_states; exists B; auto|]. split; [rewrite HQ2; exact Ha|]. apply (Hrng _ _ Hi).
    - intros S1 a Hs Ha. apply quot_states in Hs. destruct Hs as [B [HB ->]]. rewrite HQ2 in Ha.
      destruct (HQ5 B a HB Ha) as [v [B' [_ [_ [_ Hd]]]]]. rewrite Hd. discriminate.
  Qed.

  Lemma nodup_keys_range : NoDup (map fst (dD D')) -> delta_range_ok.
  Proof.
    intros Hnd [S1 a] S2 Hi. pose proof HQ as [_ [_ [_ [_ [HQ5 HQ6]]]]].
    destruct (HQ6 _ _ Hi) as [B [HB [E Ha]]]. cbn [fst snd] in E, Ha. subst S1.
    destruct (HQ5 B a HB Ha) as [v [B' [_ [HB' [_ Hd]]]]].
    unfold ddelta in Hd. rewrite (lookup_NoDup _ _ _ Hnd Hi) in Hd. inversion Hd; subst S2.
    apply quot_states. exists B'. auto.
  Qed.
  End Fixed.

  (* the requested statement, with the additional hypothesis on the entries of dD D' *)
  Theorem quotient_correct (D : dfa A) (P : list (list A)) (D' : dfa (list A)) :
    dfa_wf D -> is_mn_partition D P -> is_quotient_of canon D P D' ->
    (forall k S1, In (k, S1) (dD D') -> In S1 (dQ D')) ->
    dfa_wf D' /\ dS D' = dS D /\
    (forall w, over D w -> (dfa_lang D' w <-> dfa_lang D w)) /\
    (forall S1 S2, In S1 (dQ D') -> In S2 (dQ D') -> S1 <> S2 ->
       exists w, over D w /\ ~ (In (drun D' S1 w) (dF D') <-> In (drun D' S2 w) (dF D'))) /\
    (forall q, In q (dQ D) -> exists S1, In S1 (dQ D') /\ In q S1) /\
    (forall S1 p q, In S1 (dQ D') -> In p S1 -> In q S1 -> mn_equiv D p q) /\
    (forall S1 S2 p q, In S1 (dQ D') -> In S2 (dQ D') -> In p S1 -> In q S2 -> mn_equiv D p q -> S1 = S2).
  Proof.
    intros Hwf HP HQ Hrng. split; [apply (quotient_wf D P D' HQ Hrng)|]. apply (quotient_correct_core D P D' Hwf HP HQ).
  Qed.

  Corollary quotient_correct_nodup (D : dfa A) (P : list (list A)) (D' : dfa (list A)) :
    dfa_wf D -> is_mn_partition D P -> is_quotient_of canon D P D' -> NoDup (map fst (dD D')) ->
    dfa_wf D' /\ dS D' = dS D /\
    (forall w, over D w -> (dfa_lang D' w <-> dfa_lang D w)) /\
    (forall S1 S2, In S1 (dQ D') -> In S2 (dQ D') -> S1 <> S2 ->
       exists w, over D w /\ ~ (In (drun D' S1 w) (dF D') <-> In (drun D' S2 w) (dF D'))) /\
    (forall q, In q (dQ D) -> exists S1, In S1 (dQ D') /\ In q S1) /\
    (forall S1 p q, In S1 (dQ D') -> In p S1 -> In q S1 -> mn_equiv D p q) /\
    (forall S1 S2 p q, In S1 (dQ D') -> In S2 (dQ D') -> In p S1 -> In q S2 -> mn_equiv D p q -> S1 = S2).
  Proof.
    intros Hwf HP HQ Hnd. apply quotient_correct with P; try assumption. apply (nodup_keys_range D P D' HQ Hnd).
  Qed.
End Quot.

(* ---------- the additional hypothesis of quotient_correct is necessary ---------- *)
(* is_quotient_of says nothing about shadowed entries of dD D': a duplicate key may carry a junk target *)
Definition cexD : dfa nat := mkDFA [0] [0] [((0, 0), 0)] 0 [].
Definition cexP : list (list nat) := [[0]].
Definition cexD' : dfa (list nat) := mkDFA [[0]] [0] [(([0], 0), [0]); (([0], 0), [7])] [0] [].

Lemma quotient_wf_needs_range :
  dfa_wf cexD /\ is_mn_partition cexD cexP /\ is_quotient_of canon_nat cexD cexP cexD' /\ ~ dfa_wf cexD'.
Proof.
  split; [apply dfa_wf_b_spec; vm_compute; reflexivity|]. split; [|split].
  - unfold is_mn_partition, cexP. split; [|split; [|split]].
    + intros B [<-|[]]. split; [discriminate|]. intros x Hx. exact Hx.
    + intros q Hq. exists [0]. split; [left; reflexivity | exact Hq].
    + intros B p q [<-|[]] [<-|[]] [<-|[]]. apply mn_refl.
    + intros B1 B2 p q [<-|[]] [<-|[]] _ _ _. reflexivity.
  - unfold is_quotient_of, cexP. split; [|split; [reflexivity|split; [|split; [|split]]]].
    + intros S0. cbn [cexD' dQ]. split.
      * intros [<-|[]]. exists [0]. split; [left; reflexivity | reflexivity].
      * intros [B [[<-|[]] ->]]. left; reflexivity.
    + exists [0]. split; [left; reflexivity|]. split; [left; reflexivity | reflexivity].
    + intros S0. cbn [cexD' cexD dF]. split; [intros []|]. intros [B [_ [_ [q [_ []]]]]].
    + intros B a [<-|[]] [<-|[]]. exists 0, [0]. split; [left; reflexivity|]. split; [left; reflexivity|].
      split; [left; reflexivity | reflexivity].
    + intros k S1 Hi. exists [0]. split; [left; reflexivity|].
      cbn [cexD' dD] in Hi. destruct Hi as [E|[E|[]]]; inversion E; subst; split; try reflexivity; left; reflexivity.
  - intros Hwf. apply dfa_wf_b_spec in Hwf. vm_compute in Hwf. discriminate.
Qed.

(* ---------- 4. lower bound and minimality of the quotient ---------- *)
Section Bounds.
  Context {A : Type} `{Eqb A}.
  Variable canon : list A -> list A.
  Hypothesis canon_In : forall l y, In y (canon l) <-> In y l.

  (* pairwise inequivalent states of D (e.g. representatives of the classes of the reachable states) lie in
     different states of D': the quotient has at least as many states as there are classes *)
  Corollary quotient_lower_bound (D : dfa A) (P : list (list A)) (D' : dfa (list A)) (l : list A) :
    dfa_wf D -> is_mn_partition D P -> is_quotient_of canon D P D' ->
    NoDup l -> incl l (dQ D) -> (forall p q, In p l -> In q l -> p <> q -> ~ mn_equiv D p q) ->
    length l <= length (dQ D').
  Proof.
    intros Hwf HP HQ Hnd Hinc Hne.
    destruct (quotient_correct_core canon canon_In D P D' Hwf HP HQ) as [_ [_ [_ [Hcov [Hsame _]]]]].
    apply (rel_image_length (fun p S1 => In S1 (dQ D') /\ In p S1)); [exact Hnd| |].
    - intros p Hp. destruct (Hcov p (Hinc p Hp)) as [S1 [HS1 HpS]]. exists S1. auto.
    - intros p q S1 Hp Hq [HS1 HpS] [_ HqS].
      destruct (eqb_dec p q) as [E|Hn]; [exact E|]. exfalso.
      apply (Hne p q Hp Hq Hn). apply (Hsame S1); assumption.
  Qed.

  (* when all states of D are reachable, the quotient by the MN partition is a minimal DFA for the language of D *)
  Corollary quotient_minimal {B : Type} `{Eqb B} (D : dfa A) (P : list (list A)) (D' : dfa (list A)) (D2 : dfa B) :
    dfa_wf D -> is_mn_partition D P -> is_quotient_of canon D P D' ->
    (forall k S1, In (k, S1) (dD D') -> In S1 (dQ D')) -> NoDup (dQ D') ->
    (forall q, In q (dQ D) -> exists w, over D w /\ drun D (dq0 D) w = q) ->
    dfa_wf D2 -> dS D2 = dS D -> (forall w, over D w -> (dfa_lang D w <-> dfa_lang D2 w)) ->
    length (dQ D') <= length (dQ D2).
  Proof.
    intros Hwf HP HQ Hrng Hnd Hreach Hwf2 HS2 Hlang.
    destruct (quotient_correct canon canon_In D P D' Hwf HP HQ Hrng) as [Hwf' [HS [HL [Hdist _]]]].
    assert (Hov : forall w, over D' w <-> over D w) by (intros w; unfold over; rewrite HS; tauto).
    apply (minimal_when_reachable D' D2 Hwf' Hwf2); [congruence | exact Hnd | | |].
    - intros S1 HS1. apply (quot_states canon D P D' HQ) in HS1. destruct HS1 as [B1 [HB1 ->]].
      pose proof HP as [Hne _]. destruct (Hne B1 HB1) as [Hn Hinc].
      assert (Hex : exists q, In q B1) by (destruct B1 as [|q0 B1']; [contradiction | exists q0; left; reflexivity]).
      destruct Hex as [q Hq].
      destruct (Hreach q (Hinc q Hq)) as [w [Hw Ew]]. exists w. split; [apply Hov; exact Hw|].
      pose proof HQ as [_ [_ [[B0 [HB0 [Hq0 E0]]] _]]].
      destruct (quot_run canon D P D' Hwf HP HQ w Hw B0 _ HB0 Hq0) as [Be [HBe [Hqe [_ Hr]]]].
      rewrite E0, Hr. f_equal. rewrite Ew in Hqe. apply (part_unique D P HP Be B1 q); assumption.
    - intros S1 S2 H1 H2 Hn. destruct (Hdist S1 S2 H1 H2 Hn) as [w [Hw Hd]]. exists w. split; [apply Hov; exact Hw | exact Hd].
    - intros w Hw. apply Hov in Hw. rewrite (HL w Hw). apply Hlang; exact Hw.
  Qed.
End Bounds.
