"""C20 - DFA isomorphism tests vs the proved model (Model/Iso.v)."""
import coqlit as L
import gen as G
import conv

COQ_IMPORTS = ['Model.DFA', 'Model.NFA', 'Model.Iso', 'Judge.C20_judge']
PDA_FREE = True      # no PDA is involved: the recycling pass runs with GambaTools.pda_epsilon_closure_max_iterations = 3
LOG_SAFE = True      # no printed output is read back: the recycling pass runs with GambaTools.enable_logging = True
RULE = ('ordered pairs of DFAs over a common alphabet: all pairs of the 16 two-state one-symbol DFAs and of one-state DFAs, a seeded sample of pairs from the 2x2 and 3x1 spaces; random DFAs <=6 states '
        'paired with a renamed/permuted copy, a copy with one transition or one accepting bit changed, a copy with an extra unreachable state, a copy with a duplicated (equivalent) state, or an unrelated DFA; '
        'each under 4 (quick) / 16 (thorough) PYTHONHASHSEED values with a 3 s limit per call. Non-trivial = both automata have >= 2 reachable states; distinct by the pair of texts.')
RULE += ' Added after the seeded rounds: unusual state names incl. the empty name, equivalent non-isomorphic pairs with the same number of reachable states.'
CODES = {2: 'dfa_isomorphic verdict differs from the proved model (or raised / timed out)', 3: 'dfa_isomorphic1 verdict differs from the proved model (or raised / timed out)',
         8: 'internal: the two models disagree (machinery)', 9: 'generated DFA invalid (harness)'}
ASSUMPTIONS = ['both DFAs are valid and have equal alphabets (asserted by the routines)']
RESIDUE = 'state names are arbitrary strings; set_element order sampled through PYTHONHASHSEED and covered by the pick-quantified theorem'


def hashseeds(tier):
    return [0, 1, 2, 3] if tier == 'quick' else list(range(16))


def _rename(rng, d, prefix='p'):
    perm = list(range(len(d['Q'])))
    rng.shuffle(perm)
    m = {q: '%s%d' % (prefix, perm[i]) for i, q in enumerate(d['Q'])}
    sg = list(d['Sigma'])
    if rng.random() < 0.5:
        sg.reverse()         # the alphabet of the second automaton is another set object, filled in another order
    return {'Q': [m[q] for q in d['Q']], 'Sigma': sg, 'delta': [[m[q], a, m[t]] for (q, a, t) in d['delta']], 'q0': m[d['q0']], 'F': [m[q] for q in d['F']]}


def _mutate(rng, d):
    e = {k: (list(v) if isinstance(v, list) else v) for k, v in d.items()}
    e['delta'] = [list(x) for x in d['delta']]
    if e['delta'] and rng.random() < 0.6:
        i = rng.randrange(len(e['delta']))
        e['delta'][i][2] = rng.choice(e['Q'])
    else:
        q = rng.choice(e['Q'])
        e['F'] = [x for x in e['F'] if x != q] if q in e['F'] else e['F'] + [q]
    return e


def _add_unreachable(rng, d):
    e = {k: (list(v) if isinstance(v, list) else v) for k, v in d.items()}
    e['Q'] = d['Q'] + ['u']
    e['delta'] = [list(x) for x in d['delta']] + [['u', a, rng.choice(e['Q'])] for a in d['Sigma']]
    if rng.random() < 0.5:
        e['F'] = d['F'] + ['u']
    return e


def _dup_state(rng, d):
    """split one state into two equivalent copies (equivalent, not isomorphic when the state is reachable)"""
    q = rng.choice(d['Q'])
    e = {'Q': d['Q'] + ['dup'], 'Sigma': list(d['Sigma']), 'q0': d['q0'], 'F': d['F'] + (['dup'] if q in d['F'] else [])}
    delta = []
    for (p, a, t) in d['delta']:
        delta.append([p, a, 'dup' if (t == q and rng.random() < 0.5) else t])
    for (p, a, t) in d['delta']:
        if p == q:
            delta.append(['dup', a, t])
    e['delta'] = delta
    return e


def gen(rng, tier):
    quick = tier == 'quick'
    cases = []
    small = G.all_dfas(2, 'a') + G.all_dfas(1, 'a')
    for d1 in small:
        for d2 in small:
            cases.append({'D1': d1, 'D2': _rename(rng, d2)})
    pool = G.all_dfas(2, 'ab') + G.all_dfas(3, 'a')
    for _ in range(300 if quick else 5000):
        d1 = rng.choice(pool)
        d2 = rng.choice([x for x in pool if x['Sigma'] == d1['Sigma']])
        cases.append({'D1': d1, 'D2': _rename(rng, d2)})
    for _ in range(400 if quick else 5000):
        sigma = rng.choice(['a', 'ab', 'abc', 'abcd', 'xyz', ''])
        d1 = G.random_dfa(rng, rng.randint(1, 6), sigma)
        x = rng.random()
        if x < 0.3:
            d2 = _rename(rng, d1)
        elif x < 0.5:
            d2 = _rename(rng, _mutate(rng, d1))
        elif x < 0.65:
            d2 = _rename(rng, _add_unreachable(rng, d1))
        elif x < 0.8:
            d2 = _rename(rng, _dup_state(rng, d1))
        else:
            d2 = _rename(rng, G.random_dfa(rng, rng.randint(1, 6), sigma))
        if rng.random() < 0.5:
            d1, d2 = d2, d1
        cases.append({'D1': d1, 'D2': d2})
    # unusual state names on one or both sides (the empty name, names that are prefixes of each other), equivalent but not isomorphic
    # pairs with the same number of reachable states
    def tricky(d):
        names = G.tricky_names(rng, len(d['Q']), allow_empty=True)
        rng.shuffle(names)
        m = dict(zip(d['Q'], names))
        return {'Q': [m[q] for q in d['Q']], 'Sigma': list(d['Sigma']), 'delta': [[m[q], a, m[t]] for (q, a, t) in d['delta']], 'q0': m[d['q0']], 'F': [m[q] for q in d['F']]}
    for _ in range(200 if quick else 3000):
        sigma = rng.choice(['a', 'ab'])
        d1 = G.random_dfa(rng, rng.randint(1, 5), sigma, pfinal=rng.choice([0.5, 0.9]))
        x = rng.random()
        d2 = d1 if x < 0.3 else (_dup_state(rng, d1) if x < 0.7 else _mutate(rng, d1))
        d1b = d1 if rng.random() < 0.5 else _dup_state(rng, d1)
        a, b = (tricky(d1b) if len(d1b['Q']) <= 6 else d1b), (tricky(d2) if len(d2['Q']) <= 6 else d2)
        if rng.random() < 0.5:
            a, b = b, a
        cases.append({'D1': a, 'D2': b})
    return cases


def observe(c):
    from gambatools.dfa_algorithms import dfa_isomorphic, dfa_isomorphic1
    from implutil import safe, ok
    D1, D2 = conv.dfa_obj(c['D1']), conv.dfa_obj(c['D2'])
    r = safe(dfa_isomorphic, D1, D2)
    r1 = safe(dfa_isomorphic1, D1, D2)
    return {'iso': bool(r[1]) if ok(r) else None, 'iso1': bool(r1[1]) if ok(r1) else None,
            'err': [None if ok(r) else r[1], None if ok(r1) else r1[1]]}


def _lits(c):
    sy = L.symbol_names(c['D1'], c['D2'])
    return L.dfa(c['D1'], L.state_names(c['D1']), sy), L.dfa(c['D2'], L.state_names(c['D2']), sy)


def encode(c, o):
    a, b = _lits(c)
    return 'judge_C20 %s %s %s %s' % (a, b, L.option(o['iso'], L.boolean), L.option(o['iso1'], L.boolean))


def explain(c):
    return 'explain_C20 %s %s' % _lits(c)


def key(c):
    return conv.dfa_text(c['D1']) + '|' + conv.dfa_text(c['D2'])


def _nreach(d):
    step = {(q, a): t for (q, a, t) in d['delta']}
    seen, todo = {d['q0']}, [d['q0']]
    while todo:
        q = todo.pop()
        for a in d['Sigma']:
            t = step[q, a]
            if t not in seen:
                seen.add(t)
                todo.append(t)
    return len(seen)


def nontrivial(c, o):
    return _nreach(c['D1']) >= 2 and _nreach(c['D2']) >= 2


def describe(c):
    return {'D1': conv.dfa_text(c['D1']), 'D2': conv.dfa_text(c['D2'])}


def reproduce(c):
    return 'from gambatools.dfa_algorithms import *; D1 = parse_dfa(%r); D2 = parse_dfa(%r); dfa_isomorphic(D1, D2), dfa_isomorphic1(D1, D2)' % (conv.dfa_text(c['D1']), conv.dfa_text(c['D2']))


def signature(c, o, code):
    return 'C20:code%d:%s' % (code, key(c))


def distribution(cases, obs):
    d = {'iso_true': 0, 'iso_false': 0, 'iso_error': 0, 'iso1_true': 0, 'iso1_false': 0, 'iso1_error': 0, 'state_counts': {}}
    for c, o in zip(cases, obs):
        for k in ('iso', 'iso1'):
            d[k + ('_error' if o[k] is None else '_true' if o[k] else '_false')] += 1
        s = '%dx%d' % (len(c['D1']['Q']), len(c['D2']['Q']))
        d['state_counts'][s] = d['state_counts'].get(s, 0) + 1
    return d


def shrink(c):
    out = []
    for k in ('D1', 'D2'):
        d = c[k]
        for q in d['Q']:
            if q == d['q0']:
                continue
            e = {'Q': [x for x in d['Q'] if x != q], 'Sigma': d['Sigma'], 'q0': d['q0'], 'F': [x for x in d['F'] if x != q],
                 'delta': [[p, a, (d['q0'] if t == q else t)] for (p, a, t) in d['delta'] if p != q]}
            out.append(dict(c, **{k: e}))
    if len(c['D1']['Sigma']) > 1:
        for a in c['D1']['Sigma']:
            out.append({k: {'Q': c[k]['Q'], 'Sigma': [x for x in c[k]['Sigma'] if x != a], 'q0': c[k]['q0'], 'F': c[k]['F'],
                            'delta': [e for e in c[k]['delta'] if e[1] != a]} for k in ('D1', 'D2')})
    return out


LEVEL_TEXT = ('Machine-checked Coq theorems for all pairs of valid DFAs over equal alphabets and every exploration order: both isomorphism tests terminate and answer true exactly when a '
              'transition- and acceptance-preserving bijection between the reachable parts exists; symmetry, renaming invariance and "isomorphic implies equivalent" are corollaries. '
              'Tied to the Python by in-Coq evaluation on exhaustive small pairs and seeded random pairs under several hash seeds.')
LEVEL_NOTE = 'Trusted: Coq kernel + vm_compute, hand-written model Model/Iso.v (of the routines as repaired by fix F3), harness. No axioms.'
TECHNIQUE = 'Coq proof (pair-worklist invariant for arbitrary pick; bijective bisimulation) + in-Coq differential correspondence'
