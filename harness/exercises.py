"""Exercise instances for C12 (checker soundness) and C13 (own answers pass): reference objects, the library's own
answer (through notebooks/make_notebook.apply_command where it has a command), perturbed answers, the real checkers
with captured stdout, and the encoding of the parsed objects for the Coq judge (Judge/C12_judge.v)."""
import os
import random
import re
import sys
import tempfile
import importlib.util

import coqlit as L
import conv
import gen as G

STREAM = list(range(300, 360))
KINDS = ['words_dfa', 'words_nfa', 'words_re', 'accrej', 'union', 'intersection', 'symdiff', 'complement', 'reverse', 'minimal', 'hopcroft',
         'nfa2dfa', 'dfa2regexp', 'cyk', 'deriv_left', 'deriv_right', 'deriv_any', 'chomsky1', 'chomsky2', 'chomsky3', 'chomsky4', 'chomsky5']


# ----------------------------------------------------------------------------- case generation (no library needed)
def nondegenerate_cfg(rng, cnf=False):
    """single-letter names, every variable derives a non-empty word, start variable first"""
    for _ in range(200):
        if cnf:
            g = G.random_cnf(rng, rng.randint(2, 4), 2, rng.randint(3, 7), start_eps=0.0)
        else:
            g = G.random_cfg(rng, rng.randint(1, 3), 2, rng.randint(2, 5), maxlen=3, peps=0.15, punit=0.15)
        used = set([g['S']]) | set(v for v, _ in g['R']) | set(s[1] for _, rhs in g['R'] for s in rhs if s[0] == 'V')
        rules = [r for r in g['R']]
        # productive variables (deriving some non-empty word)
        prod = set()
        changed = True
        while changed:
            changed = False
            for v, rhs in rules:
                if v not in prod and rhs and all(s[0] == 'T' or s[1] in prod for s in rhs) and (any(s[0] == 'T' for s in rhs) or any(s[1] in prod for s in rhs)):
                    prod.add(v)
                    changed = True
        if used <= prod:
            rules.sort(key=lambda r: 0 if r[0] == g['S'] else 1)
            return G.mk_cfg(rules, g['S'])
    return G.mk_cfg([['S', [['T', 'a']]]], 'S')


def gen_cases(rng, n_per_kind, n_perturb):
    cases = []
    # minimal-DFA exercises whose reference is a counter modulo m with m above the length bound: a much smaller automaton (only the empty
    # word) has the same words up to the bound, so only the state count can reject it
    for kind in ('minimal', 'hopcroft'):
        for _ in range(max(1, n_per_kind // 8)):
            length = rng.choice([3, 4])
            m = length + rng.randint(2, 4)
            D = {'Q': ['q%d' % i for i in range(m)], 'Sigma': ['a'], 'delta': [['q%d' % i, 'a', 'q%d' % ((i + 1) % m)] for i in range(m)], 'q0': 'q0', 'F': ['q0']}
            small = 'states s0 s1\ninitial s0\nfinal s0\ninput_symbols a\ns0 s1 a\ns1 s1 a'
            cases.append({'ex': kind, 'seed': rng.randrange(10 ** 9), 'perturb': min(n_perturb, 1), 'length': length, 'D': D, 'max_states': 0, 'extra_answers': [small]})
    for kind in KINDS:
        for _ in range(n_per_kind):
            c = {'ex': kind, 'seed': rng.randrange(10 ** 9), 'perturb': n_perturb, 'length': rng.choice([3, 4]) if kind != 'dfa2regexp' else rng.choice([3, 4, 6, 6])}
            sigma = rng.choice(['ab', 'a', 'abc']) if kind in ('words_dfa', 'complement', 'minimal', 'hopcroft', 'dfa2regexp') else rng.choice(['ab', 'a'])
            if kind in ('words_dfa', 'complement', 'reverse', 'minimal', 'hopcroft', 'dfa2regexp'):
                c['D'] = G.random_dfa(rng, rng.randint(1, 4), sigma, names=rng.choice([None, ['A', 'B', 'C', 'D']]))
                if c['D']['Q'][0] == 'A':
                    c['D']['Q'] = c['D']['Q'][:len(set(q for q, _, _ in c['D']['delta']) | {c['D']['q0']})] or c['D']['Q']
                c['max_states'] = rng.choice([0, 0, len(c['D']['Q']), len(c['D']['Q']) + 1])
                if kind == 'dfa2regexp' and len(sigma) == 3 and c['length'] > 4:
                    c['length'] = 4          # bound 6 over three symbols: up to 1093 words per language and very large extracted expressions (minutes per case in the judge)
            elif kind in ('union', 'intersection', 'symdiff'):
                # legal state names (\w+) with underscores and non-ASCII letters besides the usual q0, q1, ...
                n1 = rng.choice([None, None, ['even_a', 'odd_a', 'q_0'], ['α', 'β1', 'q0']])
                c['D1'] = G.random_dfa(rng, rng.randint(1, 3), sigma, names=n1[:rng.randint(1, 3)] if n1 else None)
                c['D2'] = G.random_dfa(rng, rng.randint(1, 3), sigma, names=[rng.choice(['p%d', 'p_%d', 'é%d']) % i for i in range(rng.randint(1, 3))])
            elif kind in ('words_nfa', 'nfa2dfa'):
                c['N'] = G.random_nfa(rng, rng.randint(1, 4), sigma, rng.choice(['_', 'ε']), peps=0.3)
                c['N']['delta'] = [e for e in c['N']['delta'] if e[2]]
                c['max_states'] = rng.choice([0, 0, len(c['N']['Q'])])
            elif kind == 'words_re':
                c['r'] = G.random_re(rng, rng.randint(1, 4), 2)
            elif kind == 'accrej':
                c['G'] = nondegenerate_cfg(rng)
            elif kind in ('cyk', 'deriv_left', 'deriv_right', 'deriv_any'):
                c['G'] = nondegenerate_cfg(rng, cnf=True)
                c['wlen'] = rng.randint(1, 4)
            else:
                c['G'] = nondegenerate_cfg(rng)
                if rng.random() < 0.35:
                    c['cfg_eps'] = 'e'
            if 'D' in c and not c['D']['Q']:
                continue
            cases.append(c)
    # reverse exercise: reference DFAs without accepting states / over an alphabet that contains the (legal) symbol '_'
    for _ in range(max(2, n_per_kind // 2)):
        d = G.random_dfa(rng, rng.randint(1, 3), rng.choice(['a_', '_', 'ab']))
        if rng.random() < 0.7:
            d['F'] = []
        cases.append({'ex': 'reverse', 'seed': rng.randrange(10 ** 9), 'perturb': n_perturb, 'length': 3, 'D': d, 'max_states': 0})
    # product exercises: an answer with one extra, unreachable, total, non-accepting state of which only one component is a real state
    for kind in ('union', 'intersection', 'symdiff'):
        for _ in range(max(2, n_per_kind // 3)):
            sigma = rng.choice(['ab', 'a'])
            cases.append({'ex': kind, 'seed': rng.randrange(10 ** 9), 'perturb': n_perturb, 'length': 3, 'bogus_state': True,
                          'D1': G.random_dfa(rng, rng.randint(1, 3), sigma), 'D2': G.random_dfa(rng, rng.randint(1, 3), sigma, names=['p%d' % i for i in range(rng.randint(1, 3))])})
    return cases


# ----------------------------------------------------------------------------- worker side
_mk = None


def make_notebook():
    global _mk
    if _mk is None:
        path = os.path.join(os.path.dirname(os.environ.get('GT_SRC', '/repo/src')), 'notebooks', 'make_notebook.py')
        spec = importlib.util.spec_from_file_location('gt_make_notebook', path)
        _mk = importlib.util.module_from_spec(spec)
        spec.loader.exec_module(_mk)
    return _mk


def perturb_text(rng, text):
    """single-fault edits of an answer text"""
    lines = text.split('\n')
    toks = [(i, j) for i, l in enumerate(lines) for j, _ in enumerate(l.split())]
    k = rng.randint(0, 7)
    if k == 0 and len(lines) > 1:
        del lines[rng.randrange(len(lines))]
    elif k == 1 and toks:
        i, j = rng.choice(toks)
        ws = lines[i].split()
        allw = [w for l in lines for w in l.split()]
        ws[j] = rng.choice(allw)
        lines[i] = ' '.join(ws)
    elif k == 2 and toks:
        i, j = rng.choice(toks)
        ws = lines[i].split()
        del ws[j]
        lines[i] = ' '.join(ws)
    elif k == 3 and toks:
        i, j = rng.choice(toks)
        ws = lines[i].split()
        ws.append(ws[j])
        lines[i] = ' '.join(ws)
    elif k == 4 and lines:
        i = rng.randrange(len(lines))
        s = lines[i]
        if s:
            p = rng.randrange(len(s))
            allc = [c for c in text if not c.isspace()]
            lines[i] = s[:p] + rng.choice(allc or ['a']) + s[p + 1:]
    elif k == 5 and lines:
        i = rng.randrange(len(lines))
        s = lines[i]
        if s:
            p = rng.randrange(len(s))
            lines[i] = s[:p] + s[p + 1:]
    elif k == 6 and len(lines) > 1:
        i, j = rng.randrange(len(lines)), rng.randrange(len(lines))
        lines[i], lines[j] = lines[j], lines[i]
    else:
        finals = [i for i, l in enumerate(lines) if l.startswith('final')]
        states = [w for l in lines if l.startswith('states') for w in l.split()[1:]]
        if finals and states:
            i = finals[0]
            ws = lines[i].split()
            q = rng.choice(states)
            if q in ws[1:]:
                ws.remove(q)
            else:
                ws.append(q)
            lines[i] = ' '.join(ws)
        elif lines:
            lines.append(lines[-1])
    return '\n'.join(lines)


def run_checker(f, *args):
    from implutil import safe, captured_stdout
    with captured_stdout() as buf:
        r = safe(f, *args, timeout=20)
    out = buf.getvalue().strip()
    first = out.split('\n')[0].strip() if out else ''
    return {'ok': r[0] == 'ok' and first == 'OK', 'out': out[:300], 'raised': None if r[0] == 'ok' else r[1]}


def observe(c):
    from implutil import safe, ok
    import gambatools.notebook as NB
    import gambatools.notebook_dfa as NBD
    import gambatools.notebook_nfa2dfa as NBN
    import gambatools.notebook_cfg as NBC
    import gambatools.notebook_chomsky as NBK
    from gambatools.dfa_algorithms import print_dfa, parse_dfa
    from gambatools.nfa_algorithms import print_nfa, parse_nfa
    from gambatools.regexp import print_regexp_simple
    from gambatools.regexp_simple_parser import parse_simple_regexp
    from gambatools.cfg_algorithms import parse_simple_cfg, cfg_accepts_word
    from gambatools.automaton_algorithms import state_product_regex, state_set_regex, state_word_or_set_regex
    mk = make_notebook()
    rng = random.Random(c['seed'])
    ex = c['ex']
    tmp = tempfile.mkdtemp(prefix='ex_', dir=os.environ.get('VERIF_WORK', None))
    files = {}

    def wfile(name, text):
        p = os.path.join(tmp, name)
        with open(p, 'w', encoding='utf8') as f:
            f.write(text)
        files[name] = p
        return p
    length = c['length']
    info = {}
    try:
        if ex in ('words_dfa', 'complement', 'reverse', 'minimal', 'hopcroft', 'dfa2regexp'):
            dtext = print_dfa(conv.dfa_obj(c['D']))
            info['dfa'] = dtext
            f = wfile('x.dfa', dtext)
        if ex in ('union', 'intersection', 'symdiff'):
            t1, t2 = print_dfa(conv.dfa_obj(c['D1'])), print_dfa(conv.dfa_obj(c['D2']))
            f1, f2 = wfile('x1.dfa', t1), wfile('x2.dfa', t2)
        if ex in ('words_nfa', 'nfa2dfa'):
            ntext = print_nfa(conv.nfa_obj(c['N']))
            f = wfile('x.nfa', ntext)
        if ex in ('accrej', 'cyk', 'deriv_left', 'deriv_right', 'deriv_any') or ex.startswith('chomsky'):
            gtext = conv.cfg_simple_text(c['G'])
            if c.get('cfg_eps'):
                # the grammar declares its own epsilon symbol
                gtext = 'epsilon = %s\n' % c['cfg_eps'] + gtext.replace('_', c['cfg_eps'])
            f = wfile('x.cfg', gtext)
        # ---- own answer + checker
        if ex == 'words_dfa':
            own = dtext
            words = mk.apply_command('generate', [f, str(length)])
            check = lambda a: run_checker(NB.check_dfa_language_from_words, a, words, length, c['max_states'])
            parse = lambda a: conv.dfa_case(parse_dfa(a))
            info['words'] = words
        elif ex == 'words_nfa':
            own = ntext
            words = mk.apply_command('generate', [f, str(length)])
            check = lambda a: run_checker(NB.check_nfa_language_from_words, a, words, length, c['max_states'])
            parse = lambda a: conv.nfa_case(parse_nfa(a))
            info['words'] = words
        elif ex == 'words_re':
            own = print_regexp_simple(conv.re_to_obj(c['r']))
            f = wfile('x.regexp', own)
            words = mk.apply_command('generate', [f, str(length)])
            check = lambda a: run_checker(NB.check_regexp_language_from_words, a, words, length)
            parse = lambda a: conv.re_from_obj(parse_simple_regexp(a))
            info['words'] = words
        elif ex == 'accrej':
            own = gtext
            Gm = parse_simple_cfg(gtext)
            allw = G.words_str(['a', 'b'], 3)
            acc = [w for w in allw if cfg_accepts_word(Gm, w)][:6]
            rej = [w for w in allw if not cfg_accepts_word(Gm, w)][:6]
            A, R = ' '.join(w or 'ε' for w in acc), ' '.join(w or 'ε' for w in rej)
            check = lambda a: run_checker(NB.check_cfg_accepts_rejects, a, A, R)
            parse = lambda a: conv.cfg_case(parse_simple_cfg(a))
            info['acc'], info['rej'] = acc, rej
        elif ex in ('union', 'intersection', 'symdiff'):
            cmd = {'union': 'dfa_union', 'intersection': 'dfa_intersection', 'symdiff': 'dfa_symmetric_difference'}[ex]
            own = mk.apply_command(cmd, [f1, f2])
            fn = {'union': NBD.check_dfa_union, 'intersection': NBD.check_dfa_intersection, 'symdiff': NBD.check_dfa_symmetric_difference}[ex]
            check = lambda a: run_checker(fn, a, t1, t2, length)
            parse = lambda a: conv.dfa_case(parse_dfa(a, state_regex=state_product_regex()))
        elif ex == 'complement':
            own = mk.apply_command('dfa_complement', [f])
            check = lambda a: run_checker(NBD.check_dfa_complement, a, dtext, length)
            parse = lambda a: conv.dfa_case(parse_dfa(a))
        elif ex == 'reverse':
            own = mk.apply_command('dfa_reverse', [f])
            check = lambda a: run_checker(NBD.check_dfa_reverse, dtext, a, length)
            parse = lambda a: conv.nfa_case(parse_nfa(a))
        elif ex in ('minimal', 'hopcroft'):
            own = mk.apply_command('dfa_minimize' if ex == 'minimal' else 'dfa_hopfcroft', [f])
            check = lambda a: run_checker(NBD.check_dfa_minimal, dtext, a, length)
            parse = lambda a: conv.dfa_case(parse_dfa(a, state_regex=state_word_or_set_regex()))
        elif ex == 'nfa2dfa':
            own = mk.apply_command('nfa2dfa', [f])
            check = lambda a: run_checker(NBN.check_nfa2dfa, ntext, a)
            parse = lambda a: conv.nfa_case(parse_nfa(a, state_regex=state_set_regex()))
            info['nfa'] = ntext
        elif ex == 'dfa2regexp':
            own = mk.apply_command('dfa2regexp', [f])
            check = lambda a: run_checker(NB.check_dfa2regexp, dtext, a, length)
            parse = lambda a: conv.re_from_obj(parse_simple_regexp(a))
        elif ex == 'cyk':
            Gm = parse_simple_cfg(gtext)
            allw = [w for w in G.words_str(['a', 'b'], 4) if len(w) == c['wlen']]
            word = rng.choice(allw)
            own = mk.apply_command('cfg_cyk_matrix', [f, word])
            check = lambda a: run_checker(NBC.check_cyk_matrix, gtext, word, a)

            def parse(a):
                rows = []
                for line in re.split('\n', a.strip()):
                    row = []
                    for w in line.strip().split():
                        if w != '{}' and not re.fullmatch(r'{\w(,\w)*}', w):
                            raise ValueError('ill-formed entry')
                        row.append(sorted(set(re.sub(r'[{},]', '', w))))
                    rows.append(row)
                return rows
            info['word'] = word
        elif ex in ('deriv_left', 'deriv_right', 'deriv_any'):
            Gm = parse_simple_cfg(gtext)
            mode = {'deriv_left': 'leftmost', 'deriv_right': 'rightmost', 'deriv_any': 'any'}[ex]
            cands = [w for w in G.words_str(['a', 'b'], 4) if w and cfg_accepts_word(Gm, w)]
            word = rng.choice(cands) if cands else 'a'
            if mode == 'any':
                from gambatools.cfg_algorithms import cfg_derive_word
                d = safe(cfg_derive_word, Gm, word, 'any')
                own = ' => '.join(''.join(e) for e in d[1]) if ok(d) else 'S'
            else:
                own = mk.apply_command('cfg_%s_derivation' % mode, [f, word]) if cands else 'S'
            check = lambda a: run_checker(NBC.check_cfg_derivation, gtext, a, word, mode)

            def parse(a):
                ws = [w.strip() for w in a.strip().split('=>')]
                return [[['V' if ch.isupper() else 'T', ch] for ch in w] for w in ws]
            info['word'], info['accepted'] = word, bool(cands)
        else:
            phase = int(ex[-1])
            start = 'Z'
            own = mk.apply_command(ex, [f, start])
            check = lambda a: run_checker(NBK.cfg_check_chomsky, gtext, a, phase, start, length)
            parse = lambda a: conv.cfg_case(parse_simple_cfg(a))
            info['start'] = start
    except Exception as e:  # the library could not even produce its own answer: recorded
        return {'answers': [], 'setup_error': '%s: %s' % (type(e).__name__, e), 'info': info}
    finally:
        pass
    answers = [{'text': own, 'own': True}] + [{'text': t, 'own': False} for t in c.get('extra_answers', [])]
    for _ in range(c['perturb']):
        t = own
        for _ in range(rng.choice([1, 1, 1, 2])):
            t = perturb_text(rng, t)
        if t != own:
            answers.append({'text': t, 'own': False})
    if ex.startswith('chomsky') and c['perturb']:
        # the own answer plus an unused variable that copies the alternatives of the start variable (the language is unchanged; when the start
        # variable has an epsilon rule the copy is an epsilon rule of a NON-start variable, which no phase from 2 on may accept)
        ls = [l for l in own.strip().split('\n') if l.strip()]
        sl = [l for l in ls if l.split('->')[0].strip() == info['start']]
        free = [x for x in 'QWXYKLMN' if all(x not in l for l in ls)]
        if sl and free:
            answers.append({'text': '\n'.join(ls + [free[0] + ' ->' + sl[0].split('->', 1)[1]]), 'own': False})
    if ex in ('deriv_left', 'deriv_right') and c['perturb'] and info.get('accepted'):
        # a correct derivation in the other order (accepted only if the two coincide)
        other = 'rightmost' if ex == 'deriv_left' else 'leftmost'
        t = safe(mk.apply_command, 'cfg_%s_derivation' % other, [f, info['word']])
        if ok(t):
            answers.append({'text': t[1], 'own': False})
    if ex == 'dfa2regexp' and c['perturb'] and c['length'] >= 6:
        from gambatools.dfa_algorithms import dfa_accepts_word
        Dm = conv.dfa_obj(c['D'])
        for w in [s_ * k_ for s_ in c['D']['Sigma'] for k_ in (5, 6)]:
            if not dfa_accepts_word(Dm, w):
                answers.append({'text': '(%s)+%s' % (own, w), 'own': False})    # one extra word of length 5 / 6
                break
    if c.get('bogus_state'):
        half = rng.choice(['(%s,zz)' % c['D1']['Q'][0], '(zz,%s)' % c['D2']['Q'][0]])
        lines = own.split('\n')
        lines = [l + ' ' + half if l.startswith('states ') else l for l in lines] + ['%s %s %s' % (half, half, ' '.join(c['D1']['Sigma']))]
        answers.insert(1, {'text': '\n'.join(lines), 'own': False})
    if ex == 'cyk' and c['perturb']:
        # a table that is correct but covers only a prefix of the word (rows missing)
        for k in range(1, len(info['word'])):
            t = safe(mk.apply_command, 'cfg_cyk_matrix', [f, info['word'][:k]])
            if ok(t):
                answers.append({'text': t[1], 'own': False})
    # the library's own answer once more at the end: a checker must not remember the rejected answers it has seen in between
    if len(answers) > 1:
        answers.append({'text': own, 'own': True})
    out = []
    for a in answers:
        res = check(a['text'])
        p = safe(parse, a['text'])
        skip = False
        if ex in ('words_re', 'dfa2regexp') and not ok(p):
            # the ANTLR parser recovers from syntax errors and may build symbols the model has no code for: not decidable here
            q = safe(parse_simple_regexp, a['text'])
            skip = ok(q) and q[1] is not None
        out.append({'text': a['text'], 'own': a['own'], 'printed_ok': res['ok'], 'out': res['out'], 'raised': res['raised'],
                    'parsed': p[1] if ok(p) else None, 'skip': skip})
    for p in files.values():
        try:
            os.remove(p)
        except OSError:
            pass
    try:
        os.rmdir(tmp)
    except OSError:
        pass
    return {'answers': out, 'info': info, 'setup_error': None}


# ----------------------------------------------------------------------------- encoding for the judge
def _words(ws, sy):
    return L.lst(L.nats(sy(a) for a in w) for w in ws)


def _parse_word_list(s):
    ws = s.strip().split()
    return sorted(set('' if w in ('ε', '_') else w for w in ws))


def encode_answer(c, o, a, must_ok_for_own=True):
    """Coq term (nat code) for one answer of one exercise"""
    ex = c['ex']
    if a.get('skip'):
        return '0'
    p = L.boolean(a['printed_ok'])
    m = L.boolean(bool(a['own'] and must_ok_for_own))
    info = o['info']
    n = c['length']
    sy = L.Names()
    for ch in 'abc_':
        sy(ch)
    X = a['parsed']
    # answers that parse but use symbols of several characters (e.g. a keyword name put in the alphabet line) are outside
    # the model's word representation: not decided here (C17 covers what the parser makes of them)
    if isinstance(X, dict) and 'Sigma' in X and 'R' not in X and any(len(sx) != 1 or sx not in 'abc_' for sx in X['Sigma']):
        return '0'
    if isinstance(X, dict) and 'delta' in X and 'eps' in X and any(len(e[1]) != 1 and e[1] != X['eps'] for e in X['delta']):
        return '0'
    if ex in ('words_dfa', 'words_nfa', 'words_re'):
        words = _words(_parse_word_list(info['words']), sy)
        if ex == 'words_dfa':
            ans = 'None'
            if X is not None and all(s in 'abc_' for s in X['Sigma']):
                ans = '(Some %s)' % L.dfa(X, L.state_names(X), sy)
            return 'j_dfa_words %s %d %d %s %s %s' % (ans, n, c['max_states'], words, p, m)
        if ex == 'words_nfa':
            ans = 'None'
            if X is not None and all(s in 'abc_' for s in X['Sigma']) and all(e[1] in 'abc_' or e[1] == X['eps'] for e in X['delta']):
                st = L.state_names(X)
                f = lambda x: 90 if x == X['eps'] else sy(x)
                delta = L.lst(L.pair(L.pair(L.nat(st(q)), L.nat(f(x))), L.nats(st(t) for t in ts)) for q, x, ts in X['delta'])
                ans = '(Some (mkNFA %s %s %s %s %s 90))' % (L.nats(st(q) for q in X['Q']), L.nats(sy(x) for x in X['Sigma']), delta, L.nat(st(X['q0'])), L.nats(st(q) for q in X['F']))
            return 'j_nfa_words %s %d %d %s %s %s' % (ans, n, c['max_states'], words, p, m)
        ans = L.option(X, L.re) if X is None or _re_ok(X) else 'None'
        return 'j_re_words %s %d %s %s %s' % (ans, n, words, p, m)
    if ex == 'accrej':
        return 'j_accrej %s %s %s %s %s %s' % (_cfg_opt(X), L.nats(STREAM), _words(info['acc'], _cfg_names()), _words(info['rej'], _cfg_names()), p, m)
    if ex in ('union', 'intersection', 'symdiff'):
        pt = {'union': 0, 'intersection': 1, 'symdiff': 2}[ex]
        s1, s2 = L.state_names(c['D1']), L.state_names(c['D2'])
        ans = 'None'
        if X is not None and all(s in 'abc_' for s in X['Sigma']):
            def pr(q):
                inner = q[1:-1].split(',')
                a1 = s1(inner[0]) if s1.known(inner[0]) else 70 + len(inner[0])
                a2 = s2(inner[1]) if s2.known(inner[1]) else 80 + len(inner[1])
                return L.pair(L.nat(a1), L.nat(a2))
            delta = L.lst(L.pair(L.pair(pr(q), L.nat(sy(x))), pr(t)) for q, x, t in X['delta'])
            ans = '(Some (mkDFA %s %s %s %s %s))' % (L.lst(pr(q) for q in X['Q']), L.nats(sy(x) for x in X['Sigma']), delta, pr(X['q0']), L.lst(pr(q) for q in X['F']))
        return 'j_product %d %d %s %s %s %s %s' % (pt, n, L.dfa(c['D1'], s1, sy), L.dfa(c['D2'], s2, sy), ans, p, m)
    if ex in ('complement', 'reverse', 'minimal', 'hopcroft', 'dfa2regexp'):
        st = L.state_names(c['D'])
        D = L.dfa(c['D'], st, sy)
        if ex == 'complement':
            ans = '(Some %s)' % L.dfa(X, st, sy) if X is not None and all(s in 'abc_' for s in X['Sigma']) else 'None'
            return 'j_complement %s %s %s %s' % (D, ans, p, m)
        if ex == 'reverse':
            ans = 'None'
            if X is not None and all(s in 'abc_' for s in X['Sigma']) and all(e[1] in 'abc_' or e[1] == X['eps'] for e in X['delta']):
                f = lambda x: 90 if x == X['eps'] else sy(x)
                delta = L.lst(L.pair(L.pair(L.nat(st(q)), L.nat(f(x))), L.nats(st(t) for t in ts)) for q, x, ts in X['delta'])
                ans = '(Some (mkNFA %s %s %s %s %s 90))' % (L.nats(st(q) for q in X['Q']), L.nats(sy(x) for x in X['Sigma']), delta, L.nat(st(X['q0'])), L.nats(st(q) for q in X['F']))
            return 'j_reverse %d %s %s %s %s' % (n, D, ans, p, m)
        if ex in ('minimal', 'hopcroft'):
            ans = '(Some %s)' % L.dfa(X, L.state_names(X), sy) if X is not None and all(s in 'abc_' for s in X['Sigma']) else 'None'
            return 'j_minimal %d %s %s %s %s' % (n, D, ans, p, m)
        ans = L.option(X, L.re) if X is None or _re_ok(X) else 'None'
        return 'j_dfa2regexp %d %s %s %s %s' % (n, D, ans, p, m)
    if ex == 'nfa2dfa':
        N = c['N']
        st = L.state_names(N)
        f = lambda x: 90 if x == N['eps'] else sy(x)
        delta = L.lst(L.pair(L.pair(L.nat(st(q)), L.nat(f(x))), L.nats(st(t) for t in ts)) for q, x, ts in N['delta'])
        Nl = '(mkNFA %s %s %s %s %s 90)' % (L.nats(st(q) for q in N['Q']), L.nats(sy(x) for x in N['Sigma']), delta, L.nat(st(N['q0'])), L.nats(st(q) for q in N['F']))
        ans = 'None'
        if X is not None and all(s in 'abc_' for s in X['Sigma']) and all(e[1] in 'abc_' or e[1] == X['eps'] for e in X['delta']):
            def ss(q):
                label = q[1:-1] if re.fullmatch(r'{.*}', q) else q
                parts = label.split(',') if label else []
                return L.nats(sorted(set(st(x) if st.known(x) else 60 + len(x) for x in parts)))
            g = lambda x: 91 if x == X['eps'] else sy(x)
            delta2 = L.lst(L.pair(L.pair(ss(q), L.nat(g(x))), L.lst(ss(t) for t in ts)) for q, x, ts in X['delta'])
            ans = '(Some (mkNFA %s %s %s %s %s 91))' % (L.lst(ss(q) for q in X['Q']), L.nats(sy(x) for x in X['Sigma']), delta2, ss(X['q0']), L.lst(ss(q) for q in X['F']))
        return 'j_nfa2dfa %s %s %s %s' % (Nl, ans, p, m)
    nm = _cfg_names(c['G'])
    Gl = L.cfg(c['G'], nm)
    if ex == 'cyk':
        w = L.nats(nm(ch) for ch in info['word'])
        rows = 'None'
        if X is not None:
            rows = '(Some %s)' % L.lst(L.lst(L.nats(nm(v) for v in cell) for cell in row) for row in X)
        return 'j_cyk %s %s %s %s %s' % (Gl, w, rows, p, m)
    if ex.startswith('deriv'):
        mode = {'deriv_left': 0, 'deriv_right': 1, 'deriv_any': 2}[ex]
        w = L.nats(nm(ch) for ch in info['word'])
        steps = 'None'
        if X is not None:
            steps = '(Some %s)' % L.lst(L.lst(L.csym(s, nm) for s in step) for step in X)
        mm = L.boolean(bool(a['own'] and must_ok_for_own and info.get('accepted')))
        return 'j_derivation %s %d %s %s %s %s' % (Gl, mode, w, steps, p, mm)
    phase = int(ex[-1])
    start = nm(info['start'])
    G1 = 'None' if X is None else '(Some %s)' % L.cfg(X, nm)
    return 'j_chomsky %s %s %d %d %d %s %s %s' % (Gl, G1, phase, start, n, L.nats(STREAM), p, m)


def _re_ok(t):
    if t[0] == 's':
        return isinstance(t[1], int) and t[1] < 3
    return all(_re_ok(x) for x in t[1:] if isinstance(x, list))


def _cfg_names(g=None):
    nm = L.Names()
    for t in 'abc':
        nm(t)
    if g:
        for v in g['V']:
            nm(v)
        for t in g['Sigma']:
            nm(t)
    return nm


def _cfg_opt(X):
    if X is None:
        return 'None'
    nm = _cfg_names()
    for v in X['V']:
        nm(v)
    return '(Some %s)' % L.cfg(X, nm)
