(* Property C18: nfa_union / nfa_concatenation / nfa_repetition build a valid NFA for the union / concatenation /
   Kleene star of the operand languages; RegexpToNFAGenerator.generate builds an NFA for the language of the
   expression. *)
From GT Require Import Base.Prelude Model.NFA Model.Regexp Model.NFAOps Proofs.WorklistProofs Proofs.NFAProofs Proofs.RegexpProofs.

(* Kleene star of a language *)
Inductive star_lang (L : word -> Prop) : word -> Prop :=
| sl_nil : star_lang L []
| sl_app u v : L u -> star_lang L v -> star_lang L (u ++ v).

Lemma star_lang_ext (L M : word -> Prop) w : (forall u, L u -> M u) -> star_lang L w -> star_lang M w.
Proof. intros HLM Hs. induction Hs as [|u v Hu Hv IH]; [constructor | constructor; auto]. Qed.

(* ================================================================= association lists *)
Section AssocFacts.
  Context {K V : Type} `{Eqb K}.

  Lemma lookup_app k (d1 d2 : list (K * V)) :
    lookup k (d1 ++ d2) = match lookup k d1 with Some v => Some v | None => lookup k d2 end.
  Proof.
    induction d1 as [|[k1 v1] d1 IH]; cbn [app lookup]; [reflexivity|].
    destruct (eqb k k1); [reflexivity | exact IH].
  Qed.

  Lemma In_update k v (m : list (K * V)) k' v' : In (k', v') (update k v m) -> In (k', v') m \/ (k' = k /\ v' = v).
  Proof.
    induction m as [|[k1 v1] m IH]; cbn [update].
    - intros [E|[]]. inversion E. auto.
    - destruct (eqb k k1) eqn:E.
      + intros [E1|Hin]; [inversion E1; auto | left; right; exact Hin].
      + intros [E1|Hin]; [left; left; exact E1|]. destruct (IH Hin) as [Hm|Hm]; [left; right; exact Hm | right; exact Hm].
  Qed.

  Lemma keys_update k v old (m : list (K * V)) : lookup k m = Some old -> map fst (update k v m) = map fst m.
  Proof.
    induction m as [|[k1 v1] m IH]; cbn [lookup update]; [discriminate|].
    destruct (eqb k k1) eqn:E.
    - intros _. apply eqb_true in E. subst k1. reflexivity.
    - intros Hl. cbn [map fst]. rewrite (IH Hl). reflexivity.
  Qed.

  Lemma lookup_None_keys k (m : list (K * V)) : lookup k m = None -> ~ In k (map fst m).
  Proof.
    intros Hl Hin. apply in_map_iff in Hin. destruct Hin as ([k1 v1] & E & Hin). cbn in E. subst k1.
    rewrite lookup_None in Hl. exact (Hl v1 Hin).
  Qed.

  Lemma lookup_NoDup_In k v (m : list (K * V)) : NoDup (map fst m) -> In (k, v) m -> lookup k m = Some v.
  Proof.
    induction m as [|[k1 v1] m IH]; cbn [map fst lookup]; [intros _ []|].
    intros Hnd [E|Hin].
    - inversion E; subst. rewrite eqb_refl. reflexivity.
    - inversion Hnd as [|k2 l2 Hnin Hnd']; subst. destruct (eqb k k1) eqn:E.
      + apply eqb_true in E. subst k1. exfalso. apply Hnin. apply in_map_iff. exists (k, v). split; [reflexivity | exact Hin].
      + apply IH; assumption.
  Qed.
End AssocFacts.

(* ================================================================= generator *)
Section Gen.
  Context {A : Type} `{Eqb A}.

  Lemma gen_fresh_spec (Q : list A) names x rest : gen_fresh Q names = Some (x, rest) ->
    ~ In x Q /\ exists pre, names = pre ++ x :: rest /\ (forall y, In y pre -> In y Q).
  Proof.
    induction names as [|y names IH]; cbn [gen_fresh]; [discriminate|].
    destruct (mem y Q) eqn:E.
    - intros Hg. destruct (IH Hg) as (Hx & pre & -> & Hpre). split; [exact Hx|].
      exists (y :: pre). split; [reflexivity|]. intros z [<-|Hz]; [apply mem_In; exact E | apply Hpre; exact Hz].
    - intros Hg. inversion Hg; subst. split; [apply mem_nIn; exact E|].
      exists []. split; [reflexivity | intros z []].
  Qed.

  Lemma gen_fresh_none (Q : list A) names : gen_fresh Q names = None <-> (forall y, In y names -> In y Q).
  Proof.
    induction names as [|y names IH]; cbn [gen_fresh].
    - split; [intros _ z [] | reflexivity].
    - destruct (mem y Q) eqn:E.
      + rewrite IH. apply mem_In in E. split.
        * intros Hall z [<-|Hz]; [exact E | apply Hall; exact Hz].
        * intros Hall z Hz. apply Hall. right; exact Hz.
      + apply mem_nIn in E. split; [discriminate|]. intros Hall. exfalso. apply E. apply Hall. left; reflexivity.
  Qed.

  Lemma gen_fresh_head (Q : list A) x rest : ~ In x Q -> gen_fresh Q (x :: rest) = Some (x, rest).
  Proof. intros Hn. cbn [gen_fresh]. apply mem_nIn in Hn. rewrite Hn. reflexivity. Qed.
End Gen.

(* ================================================================= transition tables *)
Section Tables.
  Context {A : Type} `{Eqb A}.
  Notation table := (list ((A * nat) * list A)).

  Definition gets (d : table) (k : A * nat) : list A := match lookup k d with Some s => s | None => [] end.

  Lemma ndelta_gets (N : nfa A) q a : ndelta N q a = gets (nD N) (q, a).
  Proof. reflexivity. Qed.

  (* d[k] = v *)
  Definition dset (k : A * nat) (v : list A) (d : table) : table :=
    match lookup k d with Some _ => update k v d | None => d ++ [(k, v)] end.

  Lemma gets_nd_add k s (d : table) k' x : In x (gets (nd_add k s d) k') <-> In x (gets d k') \/ (k' = k /\ In x s).
  Proof.
    unfold nd_add, gets. destruct (lookup k d) as [old|] eqn:E.
    - rewrite lookup_update. destruct (eqb k' k) eqn:Ek.
      + apply eqb_true in Ek. subst k'. rewrite E, union_In. split; [intros [Hx|Hx]; auto | intros [Hx|[_ Hx]]; auto].
      + apply eqb_neq in Ek. split; [auto | intros [Hx|[Hx _]]; [exact Hx | contradiction]].
    - rewrite lookup_app. destruct (eqb_dec k' k) as [->|Hn].
      + rewrite E. cbn [lookup]. rewrite eqb_refl, dedup_In. split; [auto | intros [[]|[_ Hx]]; exact Hx].
      + destruct (lookup k' d) as [s'|].
        * split; [auto | intros [Hx|[Hx _]]; [exact Hx | contradiction]].
        * cbn [lookup]. apply eqb_neq in Hn. rewrite Hn. split; [intros [] | intros [[]|[Hx _]]]. apply eqb_neq in Hn. contradiction.
  Qed.

  Lemma gets_dset k v (d : table) k' x : In x (gets (dset k v d) k') <-> (if eqb k' k then In x v else In x (gets d k')).
  Proof.
    unfold dset, gets. destruct (lookup k d) as [old|] eqn:E.
    - rewrite lookup_update. destruct (eqb k' k); reflexivity.
    - rewrite lookup_app. destruct (eqb k' k) eqn:Ek.
      + apply eqb_true in Ek. subst k'. rewrite E. cbn [lookup]. rewrite eqb_refl. reflexivity.
      + destruct (lookup k' d); [reflexivity|]. cbn [lookup]. rewrite Ek. reflexivity.
  Qed.

  Lemma nd_add_keys k s (d : table) : NoDup (map fst d) -> NoDup (map fst (nd_add k s d)).
  Proof.
    intros Hnd. unfold nd_add. destruct (lookup k d) as [old|] eqn:E.
    - rewrite (keys_update k _ _ d E). exact Hnd.
    - rewrite map_app. cbn [map fst]. apply NoDup_app_intro; [exact Hnd | constructor; [intros [] | constructor] |].
      intros z Hz [<-|[]]. exact (lookup_None_keys k d E Hz).
  Qed.

  Lemma dset_keys k v (d : table) : NoDup (map fst d) -> NoDup (map fst (dset k v d)).
  Proof.
    intros Hnd. unfold dset. destruct (lookup k d) as [old|] eqn:E.
    - rewrite (keys_update k _ _ d E). exact Hnd.
    - rewrite map_app. cbn [map fst]. apply NoDup_app_intro; [exact Hnd | constructor; [intros [] | constructor] |].
      intros z Hz [<-|[]]. exact (lookup_None_keys k d E Hz).
  Qed.

  (* entries: keys satisfy okk, targets are in Q *)
  Definition dok (Q : list A) (okk : A * nat -> Prop) (d : table) : Prop :=
    forall k s, In (k, s) d -> okk k /\ incl s Q.

  Lemma nd_add_dok Q okk k s (d : table) : dok Q okk d -> okk k -> incl s Q -> dok Q okk (nd_add k s d).
  Proof.
    intros Hd Hk Hs k' s' Hin. unfold nd_add in Hin. destruct (lookup k d) as [old|] eqn:E.
    - apply In_update in Hin. destruct Hin as [Hin|[-> ->]]; [apply Hd; exact Hin|].
      split; [exact Hk|]. intros z Hz. apply union_In in Hz. destruct Hz as [Hz|Hz]; [|apply Hs; exact Hz].
      apply lookup_In in E. apply Hd in E. apply E; exact Hz.
    - apply in_app_or in Hin. destruct Hin as [Hin|[E1|[]]]; [apply Hd; exact Hin|]. inversion E1; subst.
      split; [exact Hk|]. intros z Hz. rewrite dedup_In in Hz. apply Hs; exact Hz.
  Qed.

  Lemma dset_dok Q okk k v (d : table) : dok Q okk d -> okk k -> incl v Q -> dok Q okk (dset k v d).
  Proof.
    intros Hd Hk Hs k' s' Hin. unfold dset in Hin. destruct (lookup k d) as [old|] eqn:E.
    - apply In_update in Hin. destruct Hin as [Hin|[-> ->]]; [apply Hd; exact Hin | split; assumption].
    - apply in_app_or in Hin. destruct Hin as [Hin|[E1|[]]]; [apply Hd; exact Hin|]. inversion E1; subst. split; assumption.
  Qed.

  (* folds of nd_add *)
  Section Fold.
    Context {B : Type} (g : table -> B -> table) (kf : B -> A * nat) (sf : B -> list A).
    Hypothesis Hg : forall d e, g d e = nd_add (kf e) (sf e) d.

    Lemma gets_fold l : forall (d : table) k' x,
      In x (gets (fold_left g l d) k') <-> In x (gets d k') \/ exists e, In e l /\ k' = kf e /\ In x (sf e).
    Proof.
      induction l as [|e l IH]; intros d k' x; cbn [fold_left].
      - split; [auto | intros [Hx|(e & [] & _)]; exact Hx].
      - rewrite IH, Hg, gets_nd_add. split.
        + intros [[Hx|[Hk Hx]]|(e' & He' & Hk & Hx)]; [left; exact Hx | right; exists e; cbn; auto | right; exists e'; cbn; auto].
        + intros [Hx|(e' & [<-|He'] & Hk & Hx)]; [left; left; exact Hx | left; right; auto | right; exists e'; auto].
    Qed.

    Lemma keys_fold l : forall d : table, NoDup (map fst d) -> NoDup (map fst (fold_left g l d)).
    Proof.
      induction l as [|e l IH]; intros d Hnd; cbn [fold_left]; [exact Hnd|].
      apply IH. rewrite Hg. apply nd_add_keys; exact Hnd.
    Qed.

    Lemma dok_fold Q okk l : (forall e, In e l -> okk (kf e) /\ incl (sf e) Q) ->
      forall d : table, dok Q okk d -> dok Q okk (fold_left g l d).
    Proof.
      induction l as [|e l IH]; intros Hl d Hd; cbn [fold_left]; [exact Hd|].
      apply IH; [intros e' He'; apply Hl; right; exact He'|].
      rewrite Hg. destruct (Hl e (or_introl eq_refl)) as [Hk Hs]. apply nd_add_dok; assumption.
    Qed.
  End Fold.

  (* ---- copy_trans ---- *)
  Definition ren (eps : nat) (N : nfa A) (a : nat) : nat := if Nat.eqb a (neps N) then eps else a.
  Definition ct_key (eps : nat) (N : nfa A) (e : (A * nat) * list A) : A * nat := (fst (fst e), ren eps N (snd (fst e))).

  Lemma copy_trans_step eps (N : nfa A) (d : table) e :
    (let '((q, a), s) := e in nd_add (q, if Nat.eqb a (neps N) then eps else a) s d) = nd_add (ct_key eps N e) (snd e) d.
  Proof. destruct e as [[q a] s]. reflexivity. Qed.

  Lemma gets_copy eps (N : nfa A) (d : table) q b x : NoDup (map fst (nD N)) ->
    In x (gets (copy_trans eps N d) (q, b)) <-> In x (gets d (q, b)) \/ exists a, ren eps N a = b /\ In x (ndelta N q a).
  Proof.
    intros Hnd. unfold copy_trans.
    rewrite (gets_fold _ (ct_key eps N) (@snd _ _) (fun d e => copy_trans_step eps N d e)).
    split; (intros [Hx|Hx]; [left; exact Hx | right]).
    - destruct Hx as ([[q' a] s] & Hin & Hk & Hx). unfold ct_key in Hk. cbn [fst snd] in Hk, Hx. inversion Hk; subst q'.
      exists a. split; [reflexivity|]. unfold ndelta. rewrite (lookup_NoDup_In _ _ _ Hnd Hin). exact Hx.
    - destruct Hx as (a & Hr & Hx). unfold ndelta in Hx. destruct (lookup (q, a) (nD N)) as [s|] eqn:E; [|destruct Hx].
      exists ((q, a), s). split; [apply lookup_In; exact E|]. unfold ct_key. cbn [fst snd]. rewrite Hr. auto.
  Qed.

  Lemma copy_keys eps (N : nfa A) (d : table) : NoDup (map fst d) -> NoDup (map fst (copy_trans eps N d)).
  Proof. unfold copy_trans. apply (keys_fold _ (ct_key eps N) (@snd _ _) (fun d e => copy_trans_step eps N d e)). Qed.

  Lemma copy_dok eps (N : nfa A) Q (okk : A * nat -> Prop) (d : table) :
    (forall q a s, In ((q, a), s) (nD N) -> okk (q, ren eps N a) /\ incl s Q) -> dok Q okk d -> dok Q okk (copy_trans eps N d).
  Proof.
    intros HN. unfold copy_trans. apply (dok_fold _ (ct_key eps N) (@snd _ _) (fun d e => copy_trans_step eps N d e)).
    intros [[q a] s] Hin. apply (HN q a s Hin).
  Qed.

  (* the loop  for q in F: delta[q, eps] |= {t} *)
  Lemma gets_addF eps t F (d : table) q b x :
    In x (gets (fold_left (fun d q => nd_add (q, eps) [t] d) F d) (q, b)) <-> In x (gets d (q, b)) \/ (In q F /\ b = eps /\ x = t).
  Proof.
    rewrite (gets_fold (fun d q => nd_add (q, eps) [t] d) (fun q => (q, eps)) (fun _ => [t]) (fun d e => eq_refl)).
    split; (intros [Hx|Hx]; [left; exact Hx | right]).
    - destruct Hx as (q' & Hq' & Hk & [<-|[]]). inversion Hk; subst. auto.
    - destruct Hx as (Hq & -> & ->). exists q. cbn. auto.
  Qed.

  Lemma addF_keys eps t F (d : table) : NoDup (map fst d) -> NoDup (map fst (fold_left (fun d q => nd_add (q, eps) [t] d) F d)).
  Proof. apply (keys_fold (fun d q => nd_add (q, eps) [t] d) (fun q => (q, eps)) (fun _ => [t]) (fun d e => eq_refl)). Qed.

  Lemma addF_dok eps t F Q (okk : A * nat -> Prop) (d : table) : (forall q, In q F -> okk (q, eps)) -> In t Q -> dok Q okk d ->
    dok Q okk (fold_left (fun d q => nd_add (q, eps) [t] d) F d).
  Proof.
    intros HF Ht. apply (dok_fold (fun d q => nd_add (q, eps) [t] d) (fun q => (q, eps)) (fun _ => [t]) (fun d e => eq_refl)).
    intros q Hq. split; [apply HF; exact Hq | intros z [<-|[]]; exact Ht].
  Qed.
End Tables.

(* ================================================================= runs *)
Section Paths.
  Context {A : Type} `{Eqb A}.

  Lemma nfa_path_app (N : nfa A) q u p v r : nfa_path N q u p -> nfa_path N p v r -> nfa_path N q (u ++ v) r.
  Proof.
    intros Hp. induction Hp as [q|q q1 w q2 Hin Hp IH|q a q1 w q2 Hin Hp IH]; intros Hv; cbn [app];
      [exact Hv | eapply np_eps; eauto | eapply np_sym; eauto].
  Qed.

  (* runs of M inside P (over letters satisfying okl) are runs of M' *)
  Lemma path_transfer (M M' : nfa A) (P : A -> Prop) (okl : nat -> Prop) :
    (forall q x, P q -> In x (ndelta M q (neps M)) -> In x (ndelta M' q (neps M')) /\ P x) ->
    (forall q a x, P q -> okl a -> In x (ndelta M q a) -> In x (ndelta M' q a) /\ P x) ->
    forall q w q', nfa_path M q w q' -> P q -> Forall okl w -> nfa_path M' q w q' /\ P q'.
  Proof.
    intros He Hs q w q' Hp. induction Hp as [q|q q1 w q2 Hin Hp IH|q a q1 w q2 Hin Hp IH]; intros HP Hw.
    - split; [constructor | exact HP].
    - destruct (He _ _ HP Hin) as [Hin' HP']. destruct (IH HP' Hw) as [Hp' Hq'].
      split; [eapply np_eps; eauto | exact Hq'].
    - inversion Hw as [|a' w' Ha Hw']; subst. destruct (Hs _ _ _ HP Ha Hin) as [Hin' HP'].
      destruct (IH HP' Hw') as [Hp' Hq']. split; [eapply np_sym; eauto | exact Hq'].
  Qed.

  Lemma ndelta_key (N : nfa A) q a x : nfa_wf N -> In x (ndelta N q a) ->
    In q (nQ N) /\ (In a (nS N) \/ a = neps N) /\ In x (nQ N).
  Proof.
    intros (_ & _ & _ & Hd) Hx. unfold ndelta in Hx. destruct (lookup (q, a) (nD N)) as [s|] eqn:E; [|destruct Hx].
    apply lookup_In in E. apply Hd in E. destruct E as (Hq & Ha & Hs). auto.
  Qed.

  Lemma ren_self (N : nfa A) a : ren (neps N) N a = a.
  Proof. unfold ren. destruct (Nat.eqb a (neps N)) eqn:E; [apply Nat.eqb_eq in E; auto | reflexivity]. Qed.

  Lemma ren_eps eps (N : nfa A) q x : nfa_wf N -> ~ In eps (nS N) ->
    ((exists a, ren eps N a = eps /\ In x (ndelta N q a)) <-> In x (ndelta N q (neps N))).
  Proof.
    intros Hwf Hne. split.
    - intros (a & Hr & Hx). unfold ren in Hr. destruct (Nat.eqb a (neps N)) eqn:E.
      + apply Nat.eqb_eq in E. subst a. exact Hx.
      + subst a. destruct (ndelta_key _ _ _ _ Hwf Hx) as (_ & [Ha|Ha] & _); [contradiction|]. rewrite <- Ha. exact Hx.
    - intros Hx. exists (neps N). unfold ren. rewrite Nat.eqb_refl. auto.
  Qed.

  Lemma ren_sym eps (N : nfa A) q b x : b <> eps -> b <> neps N ->
    ((exists a, ren eps N a = b /\ In x (ndelta N q a)) <-> In x (ndelta N q b)).
  Proof.
    intros H1 H2. split.
    - intros (a & Hr & Hx). unfold ren in Hr. destruct (Nat.eqb a (neps N)); [congruence | subst; exact Hx].
    - intros Hx. exists b. unfold ren. apply Nat.eqb_neq in H2. rewrite H2. auto.
  Qed.

  Lemma copy_self (N : nfa A) (d : list ((A * nat) * list A)) q b x : NoDup (map fst (nD N)) ->
    In x (gets (copy_trans (neps N) N d) (q, b)) <-> In x (gets d (q, b)) \/ In x (ndelta N q b).
  Proof.
    intros Hnd. rewrite gets_copy by exact Hnd. split; (intros [Hx|Hx]; [left; exact Hx | right]).
    - destruct Hx as (a & Hr & Hx). rewrite ren_self in Hr. subst a. exact Hx.
    - exists b. split; [apply ren_self | exact Hx].
  Qed.

  Lemma In_union3 (l1 l2 : list A) (x y : A) : In y (union (union l1 l2) [x]) <-> In y l1 \/ In y l2 \/ y = x.
  Proof. rewrite !union_In. cbn [In]. intuition. Qed.

  (* ------------------------------------------------------------- union *)
  Definition union_delta (N1 N2 : nfa A) (q0 : A) : list ((A * nat) * list A) :=
    dset (q0, neps N1) (dedup [nq0 N1; nq0 N2]) (copy_trans (neps N1) N2 (copy_trans (neps N1) N1 [])).
  Definition union_nfa (N1 N2 : nfa A) (q0 : A) : nfa A :=
    mkNFA (union (union (nQ N1) (nQ N2)) [q0]) (union (nS N1) (nS N2)) (union_delta N1 N2 q0) q0
          (union (nF N1) (nF N2)) (neps N1).

  Lemma nfa_union_unfold names (N1 N2 : nfa A) : nfa_union names N1 N2 =
    if negb (disjointb (nQ N1) (nQ N2)) then None else
    match gen_fresh (union (nQ N1) (nQ N2)) names with
    | None => None
    | Some (q0, rest) => match mk_checked (union_nfa N1 N2 q0) with Some R => Some (R, rest) | None => None end
    end.
  Proof. reflexivity. Qed.

  Lemma union_step (N1 N2 : nfa A) q0 q b x :
    NoDup (map fst (nD N1)) -> NoDup (map fst (nD N2)) -> nfa_wf N1 -> nfa_wf N2 -> ~ In q0 (nQ N1) -> ~ In q0 (nQ N2) ->
    (In x (ndelta (union_nfa N1 N2 q0) q b) <->
     In x (ndelta N1 q b) \/ (exists a, ren (neps N1) N2 a = b /\ In x (ndelta N2 q a)) \/
     (q = q0 /\ b = neps N1 /\ (x = nq0 N1 \/ x = nq0 N2))).
  Proof.
    intros Hk1 Hk2 Hwf1 Hwf2 Hq1 Hq2. rewrite ndelta_gets. cbn [nD union_nfa]. unfold union_delta.
    rewrite gets_dset. destruct (eqb (q, b) (q0, neps N1)) eqn:E.
    - apply eqb_true in E. inversion E; subst q b. rewrite dedup_In. cbn [In]. split.
      + intros [Hx|[Hx|[]]]; right; right; auto.
      + intros [Hx|[(a & _ & Hx)|(_ & _ & [Hx|Hx])]]; auto.
        * exfalso. apply Hq1. apply (ndelta_key _ _ _ _ Hwf1 Hx).
        * exfalso. apply Hq2. apply (ndelta_key _ _ _ _ Hwf2 Hx).
    - apply eqb_neq in E. rewrite gets_copy by exact Hk2. rewrite copy_self by exact Hk1. unfold gets at 1. cbn [lookup]. split.
      + intros [[[]|Hx]|Hx]; auto.
      + intros [Hx|[Hx|(-> & -> & _)]]; auto. congruence.
  Qed.

  Lemma union_keys (N1 N2 : nfa A) q0 : NoDup (map fst (nD (union_nfa N1 N2 q0))).
  Proof. cbn [nD union_nfa]. unfold union_delta. apply dset_keys, copy_keys, copy_keys. constructor. Qed.

  Definition okl2 (N1 N2 : nfa A) (a : nat) : Prop := a <> neps N1 /\ a <> neps N2.

  (* embedding of the operands into a result R whose transitions contain theirs *)
  Lemma embed_first (N1 R : nfa A) : neps R = neps N1 ->
    (forall q b x, In x (ndelta N1 q b) -> In x (ndelta R q b)) ->
    forall q w q', nfa_path N1 q w q' -> nfa_path R q w q'.
  Proof.
    intros He Hs q w q' Hp.
    apply (path_transfer N1 R (fun _ => True) (fun _ => True)); auto.
    - intros p x _ Hx. rewrite He. auto.
    - clear. induction w; constructor; auto.
  Qed.

  Lemma embed_second (N2 R : nfa A) (eps1 : nat) : neps R = eps1 -> nfa_wf N2 -> ~ In eps1 (nS N2) ->
    (forall q b x, (exists a, ren eps1 N2 a = b /\ In x (ndelta N2 q a)) -> In x (ndelta R q b)) ->
    forall q w q', nfa_path N2 q w q' -> Forall (fun a => a <> eps1 /\ a <> neps N2) w -> nfa_path R q w q'.
  Proof.
    intros He Hwf Hne Hs q w q' Hp Hw.
    apply (path_transfer N2 R (fun _ => True) (fun a => a <> eps1 /\ a <> neps N2)); auto.
    - intros p x _ Hx. rewrite He. split; [|exact I]. apply Hs. apply ren_eps; assumption.
    - intros p a x _ [Ha1 Ha2] Hx. split; [|exact I]. apply Hs. apply ren_sym; assumption.
  Qed.

  (* runs of R that start in an operand and cannot leave it are runs of the operand *)
  Lemma restrict_first (N1 R : nfa A) : neps R = neps N1 -> nfa_wf N1 ->
    (forall q b x, In q (nQ N1) -> In x (ndelta R q b) -> In x (ndelta N1 q b)) ->
    forall q w q', nfa_path R q w q' -> In q (nQ N1) -> nfa_path N1 q w q' /\ In q' (nQ N1).
  Proof.
    intros He Hwf Hs q w q' Hp Hq.
    apply (path_transfer R N1 (fun p => In p (nQ N1)) (fun _ => True)); auto.
    - intros p x Hp' Hx. rewrite He in Hx. apply Hs in Hx; [|exact Hp']. split; [exact Hx | apply (ndelta_key _ _ _ _ Hwf Hx)].
    - intros p a x Hp' _ Hx. apply Hs in Hx; [|exact Hp']. split; [exact Hx | apply (ndelta_key _ _ _ _ Hwf Hx)].
    - clear. induction w; constructor; auto.
  Qed.

  Lemma restrict_second (N2 R : nfa A) (eps1 : nat) : neps R = eps1 -> nfa_wf N2 -> ~ In eps1 (nS N2) ->
    (forall q b x, In q (nQ N2) -> In x (ndelta R q b) -> exists a, ren eps1 N2 a = b /\ In x (ndelta N2 q a)) ->
    forall q w q', nfa_path R q w q' -> In q (nQ N2) -> Forall (fun a => a <> eps1 /\ a <> neps N2) w ->
      nfa_path N2 q w q' /\ In q' (nQ N2).
  Proof.
    intros He Hwf Hne Hs q w q' Hp Hq Hw.
    apply (path_transfer R N2 (fun p => In p (nQ N2)) (fun a => a <> eps1 /\ a <> neps N2)); auto.
    - intros p x Hp' Hx. rewrite He in Hx. apply Hs in Hx; [|exact Hp']. apply ren_eps in Hx; [|exact Hwf|exact Hne].
      split; [exact Hx | apply (ndelta_key _ _ _ _ Hwf Hx)].
    - intros p a x Hp' [Ha1 Ha2] Hx. apply Hs in Hx; [|exact Hp']. apply ren_sym in Hx; [|exact Ha1|exact Ha2].
      split; [exact Hx | apply (ndelta_key _ _ _ _ Hwf Hx)].
  Qed.

  Lemma mk_checked_some (N R : nfa A) : mk_checked N = Some R -> R = N /\ nfa_wf N.
  Proof.
    unfold mk_checked. destruct (nfa_wf_b N) eqn:E; [|discriminate]. intros E1. inversion E1; subst.
    split; [reflexivity | apply nfa_wf_b_spec; exact E].
  Qed.

  Lemma mk_checked_wf (N : nfa A) : nfa_wf N -> mk_checked N = Some N.
  Proof. intros Hwf. unfold mk_checked. apply nfa_wf_b_spec in Hwf. rewrite Hwf. reflexivity. Qed.

  Lemma mk_checked_none (N : nfa A) : mk_checked N = None <-> ~ nfa_wf N.
  Proof.
    unfold mk_checked. destruct (nfa_wf_b N) eqn:E.
    - apply nfa_wf_b_spec in E. split; [discriminate | intros Hn; contradiction].
    - split; [|reflexivity]. intros _ Hwf. apply nfa_wf_b_spec in Hwf. congruence.
  Qed.

  Lemma nfa_union_inv names (N1 N2 R : nfa A) rest : nfa_union names N1 N2 = Some (R, rest) ->
    (forall x, In x (nQ N1) -> ~ In x (nQ N2)) /\
    exists q0, gen_fresh (union (nQ N1) (nQ N2)) names = Some (q0, rest) /\ R = union_nfa N1 N2 q0 /\ nfa_wf R.
  Proof.
    rewrite nfa_union_unfold. destruct (disjointb (nQ N1) (nQ N2)) eqn:Ed; cbn [negb]; [|discriminate].
    pose proof (proj1 (disjointb_spec _ _) Ed) as Ed'. clear Ed. rename Ed' into Ed. destruct (gen_fresh (union (nQ N1) (nQ N2)) names) as [[q0 rest0]|] eqn:Eg; [|discriminate].
    destruct (mk_checked (union_nfa N1 N2 q0)) as [R0|] eqn:Em; [|discriminate].
    intros E. inversion E; subst R0 rest0. apply mk_checked_some in Em. destruct Em as [-> Hwf].
    split; [exact Ed|]. exists q0. auto.
  Qed.

  Theorem nfa_union_correct names (N1 N2 R : nfa A) rest :
    nfa_wf N1 -> nfa_wf N2 -> NoDup (map fst (nD N1)) -> NoDup (map fst (nD N2)) ->
    nfa_union names N1 N2 = Some (R, rest) ->
    nfa_wf R /\ NoDup (map fst (nD R)) /\ ~ In (nq0 R) (nQ N1) /\ ~ In (nq0 R) (nQ N2) /\ neps R = neps N1 /\
    (forall a, In a (nS R) <-> In a (nS N1) \/ In a (nS N2)) /\
    (forall q, In q (nQ R) <-> In q (nQ N1) \/ In q (nQ N2) \/ q = nq0 R) /\
    (exists pre, names = pre ++ nq0 R :: rest /\ forall y, In y pre -> In y (nQ N1) \/ In y (nQ N2)) /\
    (forall w, Forall (fun a => a <> neps N1 /\ a <> neps N2) w -> (nfa_lang R w <-> nfa_lang N1 w \/ nfa_lang N2 w)).
  Proof.
    intros Hwf1 Hwf2 Hk1 Hk2 Hu. apply nfa_union_inv in Hu. destruct Hu as (Hdisj & q0 & Hg & -> & HwfR).
    apply gen_fresh_spec in Hg. destruct Hg as (Hq0 & pre & Hnames & Hpre).
    rewrite union_In in Hq0.
    assert (Hq1 : ~ In q0 (nQ N1)) by tauto. assert (Hq2 : ~ In q0 (nQ N2)) by tauto.
    assert (Hne : ~ In (neps N1) (nS N2)).
    { destruct HwfR as (_ & _ & He & _). cbn [neps nS union_nfa] in He. rewrite union_In in He. tauto. }
    pose proof (union_step N1 N2 q0) as Hstep.
    split; [exact HwfR|]. split; [apply union_keys|]. cbn [nq0 neps nQ union_nfa].
    split; [exact Hq1|]. split; [exact Hq2|]. split; [reflexivity|]. split; [intros a; cbn [nS union_nfa]; apply union_In|].
    split; [intros q; apply In_union3|].
    split. { exists pre. split; [exact Hnames|]. intros y Hy. apply union_In. apply Hpre; exact Hy. }
    intros w Hw. set (R := union_nfa N1 N2 q0) in *.
    assert (HF1 : incl (nF N1) (nQ N1)) by apply Hwf1. assert (HF2 : incl (nF N2) (nQ N2)) by apply Hwf2.
    split.
    - intros (qf & Hp & Hf). cbn [nF R union_nfa] in Hf. rewrite union_In in Hf. cbn [nq0 R union_nfa] in Hp.
      inversion Hp as [q Eq Ew|q q1 w' q2 Hin Hp' Eq Ew|q a q1 w' q2 Hin Hp' Eq Ew]; subst.
      + exfalso. destruct Hf as [Hf|Hf]; [apply Hq1, HF1 | apply Hq2, HF2]; exact Hf.
      + cbn [neps R union_nfa] in Hin. apply Hstep in Hin; auto.
        destruct Hin as [Hx|[(a & _ & Hx)|(_ & _ & [->| ->])]].
        * exfalso. apply Hq1. apply (ndelta_key _ _ _ _ Hwf1 Hx).
        * exfalso. apply Hq2. apply (ndelta_key _ _ _ _ Hwf2 Hx).
        * left.
          assert (Hs1 : forall q b x, In q (nQ N1) -> In x (ndelta R q b) -> In x (ndelta N1 q b)).
          { intros q b x Hq Hx. apply Hstep in Hx; auto. destruct Hx as [Hx|[(a & _ & Hx)|(-> & _)]]; [exact Hx | | contradiction].
            exfalso. apply (Hdisj q Hq). apply (ndelta_key _ _ _ _ Hwf2 Hx). }
          assert (Hq01 : In (nq0 N1) (nQ N1)) by (destruct Hwf1 as (Hx0 & _); exact Hx0).
          destruct (restrict_first N1 R eq_refl Hwf1 Hs1 _ _ _ Hp' Hq01) as [Hp1 Hqf].
          exists qf. split; [exact Hp1|]. destruct Hf as [Hf|Hf]; [exact Hf|]. exfalso. apply (Hdisj qf Hqf). apply HF2; exact Hf.
        * right.
          assert (Hs2 : forall q b x, In q (nQ N2) -> In x (ndelta R q b) -> exists a, ren (neps N1) N2 a = b /\ In x (ndelta N2 q a)).
          { intros q b x Hq Hx. apply Hstep in Hx; auto. destruct Hx as [Hx|[Hx|(-> & _)]]; [ | exact Hx | contradiction].
            exfalso. apply (Hdisj q); [|exact Hq]. apply (ndelta_key _ _ _ _ Hwf1 Hx). }
          assert (Hq02 : In (nq0 N2) (nQ N2)) by (destruct Hwf2 as (Hx0 & _); exact Hx0).
          destruct (restrict_second N2 R (neps N1) eq_refl Hwf2 Hne Hs2 _ _ _ Hp' Hq02 Hw) as [Hp2 Hqf].
          exists qf. split; [exact Hp2|]. destruct Hf as [Hf|Hf]; [|exact Hf]. exfalso. apply (Hdisj qf); [apply HF1; exact Hf | exact Hqf].
      + exfalso. inversion Hw as [|a' w'' [Ha1 Ha2] Hw']; subst. apply Hstep in Hin; auto.
        destruct Hin as [Hx|[(a' & _ & Hx)|(_ & Ha & _)]]; [| |contradiction].
        * apply Hq1. apply (ndelta_key _ _ _ _ Hwf1 Hx).
        * apply Hq2. apply (ndelta_key _ _ _ _ Hwf2 Hx).
    - intros [(qf & Hp & Hf)|(qf & Hp & Hf)].
      + exists qf. split; [|cbn [nF R union_nfa]; apply union_In; left; exact Hf].
        eapply np_eps with (q1 := nq0 N1).
        * apply Hstep; auto. right; right. split; [reflexivity|]. split; [reflexivity|]. left; reflexivity.
        * apply (embed_first N1 R eq_refl); [|exact Hp]. intros q b x Hx. apply Hstep; auto.
      + exists qf. split; [|cbn [nF R union_nfa]; apply union_In; right; exact Hf].
        eapply np_eps with (q1 := nq0 N2).
        * apply Hstep; auto. right; right. split; [reflexivity|]. split; [reflexivity|]. right; reflexivity.
        * apply (embed_second N2 R (neps N1) eq_refl Hwf2 Hne); [|exact Hp|exact Hw]. intros q b x Hx. apply Hstep; auto.
  Qed.

  (* ------------------------------------------------------------- concatenation *)
  Definition concat_delta (N1 N2 : nfa A) : list ((A * nat) * list A) :=
    fold_left (fun d q => nd_add (q, neps N1) [nq0 N2] d) (nF N1) (copy_trans (neps N1) N2 (copy_trans (neps N1) N1 [])).
  Definition concat_nfa (N1 N2 : nfa A) : nfa A :=
    mkNFA (union (nQ N1) (nQ N2)) (union (nS N1) (nS N2)) (concat_delta N1 N2) (nq0 N1) (nF N2) (neps N1).

  Lemma nfa_concatenation_unfold (N1 N2 : nfa A) : nfa_concatenation N1 N2 =
    if negb (disjointb (nQ N1) (nQ N2)) then None else mk_checked (concat_nfa N1 N2).
  Proof. reflexivity. Qed.

  Lemma concat_step (N1 N2 : nfa A) q b x : NoDup (map fst (nD N1)) -> NoDup (map fst (nD N2)) ->
    (In x (ndelta (concat_nfa N1 N2) q b) <->
     In x (ndelta N1 q b) \/ (exists a, ren (neps N1) N2 a = b /\ In x (ndelta N2 q a)) \/
     (In q (nF N1) /\ b = neps N1 /\ x = nq0 N2)).
  Proof.
    intros Hk1 Hk2. rewrite ndelta_gets. cbn [nD concat_nfa]. unfold concat_delta.
    rewrite gets_addF. rewrite gets_copy by exact Hk2. rewrite copy_self by exact Hk1. unfold gets at 1. cbn [lookup]. split.
    - intros [[[[]|Hx]|Hx]|Hx]; auto.
    - intros [Hx|[Hx|Hx]]; auto.
  Qed.

  Lemma concat_keys (N1 N2 : nfa A) : NoDup (map fst (nD (concat_nfa N1 N2))).
  Proof. cbn [nD concat_nfa]. unfold concat_delta. apply addF_keys, copy_keys, copy_keys. constructor. Qed.

  Lemma concat_split (N1 N2 : nfa A) : nfa_wf N1 -> nfa_wf N2 -> NoDup (map fst (nD N1)) -> NoDup (map fst (nD N2)) ->
    (forall x, In x (nQ N1) -> ~ In x (nQ N2)) -> ~ In (neps N1) (nS N2) ->
    forall q w qf, nfa_path (concat_nfa N1 N2) q w qf -> In q (nQ N1) -> Forall (fun a => a <> neps N1 /\ a <> neps N2) w ->
      (nfa_path N1 q w qf /\ In qf (nQ N1)) \/
      exists u v p, w = u ++ v /\ nfa_path N1 q u p /\ In p (nF N1) /\ nfa_path N2 (nq0 N2) v qf /\ In qf (nQ N2).
  Proof.
    intros Hwf1 Hwf2 Hk1 Hk2 Hdisj Hne. set (R := concat_nfa N1 N2).
    pose proof (fun q b x => concat_step N1 N2 q b x Hk1 Hk2) as Hstep. fold R in Hstep.
    assert (Hs2 : forall q b x, In q (nQ N2) -> In x (ndelta R q b) -> exists a, ren (neps N1) N2 a = b /\ In x (ndelta N2 q a)).
    { intros q b x Hq Hx. apply Hstep in Hx. destruct Hx as [Hx|[Hx|(Hf & _)]]; [ | exact Hx | ].
      - exfalso. apply (Hdisj q); [|exact Hq]. apply (ndelta_key _ _ _ _ Hwf1 Hx).
      - exfalso. apply (Hdisj q); [|exact Hq]. destruct Hwf1 as (_ & HF1 & _). apply HF1; exact Hf. }
    assert (Hq02 : In (nq0 N2) (nQ N2)) by (destruct Hwf2 as (Hx0 & _); exact Hx0).
    intros q w qf Hp. induction Hp as [q|q q1 w q2 Hin Hp IH|q a q1 w q2 Hin Hp IH]; intros Hq Hw.
    - left. split; [constructor | exact Hq].
    - change (neps R) with (neps N1) in Hin. apply Hstep in Hin. destruct Hin as [Hx|[(a & _ & Hx)|(Hf & _ & ->)]].
      + destruct (IH (proj2 (proj2 (ndelta_key _ _ _ _ Hwf1 Hx))) Hw) as [[Hp1 Hq2]|(u & v & p & -> & Hu & Hpf & Hv)].
        * left. split; [eapply np_eps; eauto | exact Hq2].
        * right. exists u, v, p. split; [reflexivity|]. split; [eapply np_eps; eauto|]. split; assumption.
      + exfalso. apply (Hdisj q Hq). apply (ndelta_key _ _ _ _ Hwf2 Hx).
      + right. destruct (restrict_second N2 R (neps N1) eq_refl Hwf2 Hne Hs2 _ _ _ Hp Hq02 Hw) as [Hp2 Hqf].
        exists [], w, q. split; [reflexivity|]. split; [constructor|]. split; [exact Hf|]. split; assumption.
    - inversion Hw as [|a' w' [Ha1 Ha2] Hw']; subst. apply Hstep in Hin. destruct Hin as [Hx|[(a' & _ & Hx)|(_ & Ha & _)]].
      + destruct (IH (proj2 (proj2 (ndelta_key _ _ _ _ Hwf1 Hx))) Hw') as [[Hp1 Hq2]|(u & v & p & -> & Hu & Hpf & Hv)].
        * left. split; [eapply np_sym; eauto | exact Hq2].
        * right. exists (a :: u), v, p. split; [reflexivity|]. split; [eapply np_sym; eauto|]. split; assumption.
      + exfalso. apply (Hdisj q Hq). apply (ndelta_key _ _ _ _ Hwf2 Hx).
      + contradiction.
  Qed.

  Lemma nfa_concatenation_inv (N1 N2 R : nfa A) : nfa_concatenation N1 N2 = Some R ->
    (forall x, In x (nQ N1) -> ~ In x (nQ N2)) /\ R = concat_nfa N1 N2 /\ nfa_wf R.
  Proof.
    rewrite nfa_concatenation_unfold. destruct (disjointb (nQ N1) (nQ N2)) eqn:Ed; cbn [negb]; [|discriminate].
    pose proof (proj1 (disjointb_spec _ _) Ed) as Ed'. intros Em. apply mk_checked_some in Em. destruct Em as [-> Hwf].
    auto.
  Qed.

  Theorem nfa_concatenation_correct (N1 N2 R : nfa A) :
    nfa_wf N1 -> nfa_wf N2 -> NoDup (map fst (nD N1)) -> NoDup (map fst (nD N2)) ->
    nfa_concatenation N1 N2 = Some R ->
    nfa_wf R /\ NoDup (map fst (nD R)) /\ neps R = neps N1 /\ nq0 R = nq0 N1 /\
    (forall a, In a (nS R) <-> In a (nS N1) \/ In a (nS N2)) /\
    (forall q, In q (nQ R) <-> In q (nQ N1) \/ In q (nQ N2)) /\
    (forall w, Forall (fun a => a <> neps N1 /\ a <> neps N2) w ->
       (nfa_lang R w <-> exists u v, w = u ++ v /\ nfa_lang N1 u /\ nfa_lang N2 v)).
  Proof.
    intros Hwf1 Hwf2 Hk1 Hk2 Hc. apply nfa_concatenation_inv in Hc. destruct Hc as (Hdisj & -> & HwfR).
    assert (Hne : ~ In (neps N1) (nS N2)).
    { destruct HwfR as (_ & _ & He & _). cbn [neps nS concat_nfa] in He. rewrite union_In in He. tauto. }
    split; [exact HwfR|]. split; [apply concat_keys|]. split; [reflexivity|]. split; [reflexivity|].
    split; [intros a; cbn [nS concat_nfa]; apply union_In|].
    split; [intros q; cbn [nQ concat_nfa]; apply union_In|].
    intros w Hw. set (R := concat_nfa N1 N2) in *.
    pose proof (fun q b x => concat_step N1 N2 q b x Hk1 Hk2) as Hstep. fold R in Hstep.
    assert (Hq01 : In (nq0 N1) (nQ N1)) by (destruct Hwf1 as (Hx0 & _); exact Hx0).
    split.
    - intros (qf & Hp & Hf). change (nq0 R) with (nq0 N1) in Hp. change (nF R) with (nF N2) in Hf.
      destruct (concat_split N1 N2 Hwf1 Hwf2 Hk1 Hk2 Hdisj Hne _ _ _ Hp Hq01 Hw) as [[_ Hqf]|(u & v & p & -> & Hu & Hpf & Hv & _)].
      + exfalso. apply (Hdisj qf Hqf). destruct Hwf2 as (_ & HF2 & _). apply HF2; exact Hf.
      + exists u, v. split; [reflexivity|]. split; [exists p; auto | exists qf; auto].
    - intros (u & v & -> & (p & Hu & Hpf) & (qf & Hv & Hf)). apply Forall_app in Hw. destruct Hw as [_ Hwv].
      exists qf. split; [|exact Hf]. change (nq0 R) with (nq0 N1). apply nfa_path_app with p.
      + apply (embed_first N1 R eq_refl); [|exact Hu]. intros q b x Hx. apply Hstep; auto.
      + apply np_eps with (q1 := nq0 N2).
        * apply Hstep. right; right. split; [exact Hpf|]. split; reflexivity.
        * apply (embed_second N2 R (neps N1) eq_refl Hwf2 Hne); [|exact Hv|exact Hwv]. intros q b x Hx. apply Hstep; auto.
  Qed.

  (* ------------------------------------------------------------- repetition *)
  Definition rep_F (N : nfa A) (q0 : A) : list A := union (nF N) [q0].
  Definition rep_delta (N : nfa A) (q0 : A) : list ((A * nat) * list A) :=
    dset (q0, neps N) [nq0 N]
         (fold_left (fun d q => nd_add (q, neps N) [nq0 N] d) (rep_F N q0) (copy_trans (neps N) N [])).
  Definition rep_nfa (N : nfa A) (q0 : A) : nfa A :=
    mkNFA (union (nQ N) [q0]) (nS N) (rep_delta N q0) q0 (rep_F N q0) (neps N).

  Lemma nfa_repetition_unfold names (N : nfa A) : nfa_repetition names N =
    match gen_fresh (nQ N) names with
    | None => None
    | Some (q0, rest) => match mk_checked (rep_nfa N q0) with Some R => Some (R, rest) | None => None end
    end.
  Proof. reflexivity. Qed.

  Lemma rep_step (N : nfa A) q0 q b x : NoDup (map fst (nD N)) -> nfa_wf N -> ~ In q0 (nQ N) ->
    (In x (ndelta (rep_nfa N q0) q b) <->
     In x (ndelta N q b) \/ (b = neps N /\ (In q (nF N) \/ q = q0) /\ x = nq0 N)).
  Proof.
    intros Hk Hwf Hq0. rewrite ndelta_gets. cbn [nD rep_nfa]. unfold rep_delta.
    rewrite gets_dset. destruct (eqb (q, b) (q0, neps N)) eqn:E.
    - apply eqb_true in E. inversion E; subst q b. cbn [In]. split.
      + intros [Hx|[]]. right. auto.
      + intros [Hx|(_ & _ & Hx)]; [|left; auto]. exfalso. apply Hq0. apply (ndelta_key _ _ _ _ Hwf Hx).
    - rewrite gets_addF. rewrite copy_self by exact Hk. unfold gets at 1. cbn [lookup]. unfold rep_F. rewrite union_In. cbn [In]. split.
      + intros [[[]|Hx]|(Hq & -> & ->)]; [left; exact Hx | right]. split; [reflexivity|]. split; [|reflexivity]. destruct Hq as [Hq|[Hq|[]]]; auto.
      + intros [Hx|(-> & Hq & ->)]; [left; right; exact Hx | right]. split; [|auto]. destruct Hq as [Hq|Hq]; auto.
  Qed.

  Lemma rep_keys (N : nfa A) q0 : NoDup (map fst (nD (rep_nfa N q0))).
  Proof. cbn [nD rep_nfa]. unfold rep_delta. apply dset_keys, addF_keys, copy_keys. constructor. Qed.

  Lemma nfa_repetition_inv names (N R : nfa A) rest : nfa_repetition names N = Some (R, rest) ->
    exists q0, gen_fresh (nQ N) names = Some (q0, rest) /\ R = rep_nfa N q0 /\ nfa_wf R.
  Proof.
    rewrite nfa_repetition_unfold. destruct (gen_fresh (nQ N) names) as [[q0 rest0]|] eqn:Eg; [|discriminate].
    destruct (mk_checked (rep_nfa N q0)) as [R0|] eqn:Em; [|discriminate].
    intros E. inversion E; subst R0 rest0. apply mk_checked_some in Em. destruct Em as [-> Hwf]. exists q0. auto.
  Qed.

  Section Rep.
    Variables (N : nfa A) (q0 : A).
    Hypothesis Hwf : nfa_wf N.
    Hypothesis Hk : NoDup (map fst (nD N)).
    Hypothesis Hq0 : ~ In q0 (nQ N).
    Let R := rep_nfa N q0.
    Let okl (a : nat) := a <> neps N.

    Lemma rep_lift q w q' : nfa_path N q w q' -> nfa_path R q w q'.
    Proof. apply (embed_first N R eq_refl). intros p b x Hx. apply rep_step; auto. Qed.

    Lemma rep_from_new w f : nfa_path R q0 w f -> Forall okl w -> (w = [] /\ f = q0) \/ nfa_path R (nq0 N) w f.
    Proof.
      intros Hp Hw. inversion Hp as [q Eq Ew|q q1 w' q2 Hin Hp' Eq Ew|q a q1 w' q2 Hin Hp' Eq Ew]; subst.
      - left. auto.
      - right. apply rep_step in Hin; auto. destruct Hin as [Hx|(_ & _ & ->)]; [|exact Hp'].
        exfalso. apply Hq0. apply (ndelta_key _ _ _ _ Hwf Hx).
      - exfalso. inversion Hw as [|a' w'' Ha Hw']; subst. apply rep_step in Hin; auto. destruct Hin as [Hx|(Hb & _)]; [|contradiction].
        apply Hq0. apply (ndelta_key _ _ _ _ Hwf Hx).
    Qed.

    Lemma rep_from_old p w f : nfa_path R p w f -> In p (nQ N) -> Forall okl w -> In f (rep_F N q0) ->
      exists u v, w = u ++ v /\ (exists qf, nfa_path N p u qf /\ In qf (nF N)) /\ star_lang (nfa_lang N) v.
    Proof.
      assert (Hq0N : In (nq0 N) (nQ N)) by (destruct Hwf as (Hx0 & _); exact Hx0).
      intros Hp. induction Hp as [q|q q1 w q2 Hin Hp IH|q a q1 w q2 Hin Hp IH]; intros Hq Hw Hf.
      - exists [], []. split; [reflexivity|]. split; [|constructor]. exists q. split; [constructor|].
        unfold rep_F in Hf. apply union_In in Hf. destruct Hf as [Hf|[Hf|[]]]; [exact Hf|]. subst q. contradiction.
      - change (neps R) with (neps N) in Hin. apply rep_step in Hin; auto. destruct Hin as [Hx|(_ & Hqf & ->)].
        + destruct (IH (proj2 (proj2 (ndelta_key _ _ _ _ Hwf Hx))) Hw Hf) as (u & v & -> & (qf & Hu & Hqf) & Hv).
          exists u, v. split; [reflexivity|]. split; [|exact Hv]. exists qf. split; [eapply np_eps; eauto | exact Hqf].
        + destruct (IH Hq0N Hw Hf) as (u & v & -> & (qf & Hu & Hqf') & Hv).
          exists [], (u ++ v). split; [reflexivity|]. split.
          * exists q. split; [constructor|]. destruct Hqf as [Hqf|Hqf]; [exact Hqf|]. subst q. contradiction.
          * constructor; [exists qf; auto | exact Hv].
      - inversion Hw as [|a' w' Ha Hw']; subst. apply rep_step in Hin; auto. destruct Hin as [Hx|(Hb & _)]; [|contradiction].
        destruct (IH (proj2 (proj2 (ndelta_key _ _ _ _ Hwf Hx))) Hw' Hf) as (u & v & -> & (qf & Hu & Hqf) & Hv).
        exists (a :: u), v. split; [reflexivity|]. split; [|exact Hv]. exists qf. split; [eapply np_sym; eauto | exact Hqf].
    Qed.

    Lemma rep_lang w : Forall okl w -> (nfa_lang R w <-> star_lang (nfa_lang N) w).
    Proof.
      assert (Hq0N : In (nq0 N) (nQ N)) by (destruct Hwf as (Hx0 & _); exact Hx0).
      intros Hw. split.
      - intros (f & Hp & Hf). change (nq0 R) with q0 in Hp. change (nF R) with (rep_F N q0) in Hf.
        destruct (rep_from_new w f Hp Hw) as [[-> _]|Hp']; [constructor|].
        destruct (rep_from_old _ _ _ Hp' Hq0N Hw Hf) as (u & v & -> & Hu & Hv). constructor; assumption.
      - intros Hs. induction Hs as [|u v (qf & Hu & Hqf) Hv IH].
        + exists q0. split; [constructor|]. change (nF R) with (rep_F N q0). unfold rep_F. apply union_In. right. left. reflexivity.
        + apply Forall_app in Hw. destruct Hw as [Hwu Hwv]. destruct (IH Hwv) as (f & Hp & Hf). change (nq0 R) with q0 in Hp.
          assert (Hstart : nfa_path R q0 u qf).
          { apply np_eps with (q1 := nq0 N); [|apply rep_lift; exact Hu]. apply rep_step; auto. }
          destruct (rep_from_new v f Hp Hwv) as [[-> ->]|Hp'].
          * exists qf. rewrite app_nil_r. split; [exact Hstart|]. change (nF R) with (rep_F N q0). unfold rep_F. apply union_In. left; exact Hqf.
          * exists f. split; [|exact Hf]. change (nq0 R) with q0. apply nfa_path_app with qf; [exact Hstart|].
            apply np_eps with (q1 := nq0 N); [|exact Hp']. apply rep_step; auto.
    Qed.
  End Rep.

  Theorem nfa_repetition_correct names (N R : nfa A) rest :
    nfa_wf N -> NoDup (map fst (nD N)) -> nfa_repetition names N = Some (R, rest) ->
    nfa_wf R /\ NoDup (map fst (nD R)) /\ ~ In (nq0 R) (nQ N) /\ neps R = neps N /\ nS R = nS N /\
    (forall q, In q (nQ R) <-> In q (nQ N) \/ q = nq0 R) /\
    (exists pre, names = pre ++ nq0 R :: rest /\ forall y, In y pre -> In y (nQ N)) /\
    (forall w, Forall (fun a => a <> neps N) w -> (nfa_lang R w <-> star_lang (nfa_lang N) w)).
  Proof.
    intros Hwf Hk Hr. apply nfa_repetition_inv in Hr. destruct Hr as (q0 & Hg & -> & HwfR).
    apply gen_fresh_spec in Hg. destruct Hg as (Hq0 & pre & Hnames & Hpre).
    split; [exact HwfR|]. split; [apply rep_keys|]. split; [exact Hq0|]. split; [reflexivity|]. split; [reflexivity|].
    split. { intros q. cbn [nQ nq0 rep_nfa]. rewrite union_In. cbn [In]. intuition. }
    split. { exists pre. split; [exact Hnames | exact Hpre]. }
    intros w Hw. apply rep_lang; assumption.
  Qed.

  Lemma wf_q0 (N : nfa A) : nfa_wf N -> In (nq0 N) (nQ N).
  Proof. intros (Hx & _). exact Hx. Qed.
  Lemma wf_F (N : nfa A) : nfa_wf N -> incl (nF N) (nQ N).
  Proof. intros (_ & Hx & _). exact Hx. Qed.
  Lemma wf_eps (N : nfa A) : nfa_wf N -> ~ In (neps N) (nS N).
  Proof. intros (_ & _ & Hx & _). exact Hx. Qed.

  (* ------------------------------------------------------------- validity of the constructed automata, failure *)
  Definition okk (Q : list A) (Sg : list nat) (eps : nat) (k : A * nat) : Prop :=
    In (fst k) Q /\ (In (snd k) Sg \/ snd k = eps).

  Lemma nfa_wf_dok (N : nfa A) : nfa_wf N <->
    In (nq0 N) (nQ N) /\ incl (nF N) (nQ N) /\ ~ In (neps N) (nS N) /\ dok (nQ N) (okk (nQ N) (nS N) (neps N)) (nD N).
  Proof.
    unfold nfa_wf, dok, okk. split; intros (H1 & H2 & H3 & H4); (split; [exact H1|]; split; [exact H2|]; split; [exact H3|]).
    - intros [q a] s Hin. cbn [fst snd]. apply H4 in Hin. tauto.
    - intros q a s Hin. apply H4 in Hin. cbn [fst snd] in Hin. tauto.
  Qed.

  Lemma dok_nil Q (P : A * nat -> Prop) : dok Q P [].
  Proof. intros k s []. Qed.

  Lemma copy_dok_wf eps (N : nfa A) Q Sg (d : list ((A * nat) * list A)) : nfa_wf N -> incl (nQ N) Q -> incl (nS N) Sg ->
    dok Q (okk Q Sg eps) d -> dok Q (okk Q Sg eps) (copy_trans eps N d).
  Proof.
    intros Hwf HQ HS. apply copy_dok. intros q a s Hin. destruct Hwf as (_ & _ & _ & Hd). apply Hd in Hin.
    destruct Hin as (Hq & Ha & Hs). split; [split; cbn [fst snd]|].
    - apply HQ; exact Hq.
    - unfold ren. destruct (Nat.eqb a (neps N)) eqn:E; [right; reflexivity|]. left. apply HS.
      destruct Ha as [Ha|Ha]; [exact Ha|]. apply Nat.eqb_neq in E. contradiction.
    - intros z Hz. apply HQ, Hs; exact Hz.
  Qed.

  Lemma union_nfa_wf (N1 N2 : nfa A) q0 : nfa_wf N1 -> nfa_wf N2 ->
    (nfa_wf (union_nfa N1 N2 q0) <-> ~ In (neps N1) (nS N2)).
  Proof.
    intros Hwf1 Hwf2. split.
    - intros (_ & _ & He & _). cbn [neps nS union_nfa] in He. rewrite union_In in He. tauto.
    - intros Hne. apply nfa_wf_dok. cbn [nq0 nQ nF nS neps nD union_nfa].
      assert (HQ1 : incl (nQ N1) (union (union (nQ N1) (nQ N2)) [q0])) by (intros z Hz; apply In_union3; auto).
      assert (HQ2 : incl (nQ N2) (union (union (nQ N1) (nQ N2)) [q0])) by (intros z Hz; apply In_union3; auto).
      split; [apply In_union3; auto|]. split.
      { intros z Hz. apply union_In in Hz. destruct Hz as [Hz|Hz]; [apply HQ1; apply (wf_F N1 Hwf1) | apply HQ2; apply (wf_F N2 Hwf2)]; exact Hz. }
      split. { rewrite union_In. intros [Hc|Hc]; [|contradiction]. destruct Hwf1 as (_ & _ & He & _). contradiction. }
      unfold union_delta. apply dset_dok.
      + apply copy_dok_wf; [exact Hwf2 | exact HQ2 | intros z Hz; apply union_In; auto|].
        apply copy_dok_wf; [exact Hwf1 | exact HQ1 | intros z Hz; apply union_In; auto|]. apply dok_nil.
      + split; cbn [fst snd]; [apply In_union3; auto | right; reflexivity].
      + intros z Hz. rewrite dedup_In in Hz. destruct Hz as [<-|[<-|[]]]; [apply HQ1; apply (wf_q0 N1 Hwf1) | apply HQ2; apply (wf_q0 N2 Hwf2)].
  Qed.

  Lemma concat_nfa_wf (N1 N2 : nfa A) : nfa_wf N1 -> nfa_wf N2 ->
    (nfa_wf (concat_nfa N1 N2) <-> ~ In (neps N1) (nS N2)).
  Proof.
    intros Hwf1 Hwf2. split.
    - intros (_ & _ & He & _). cbn [neps nS concat_nfa] in He. rewrite union_In in He. tauto.
    - intros Hne. apply nfa_wf_dok. cbn [nq0 nQ nF nS neps nD concat_nfa].
      assert (HQ1 : incl (nQ N1) (union (nQ N1) (nQ N2))) by (intros z Hz; apply union_In; auto).
      assert (HQ2 : incl (nQ N2) (union (nQ N1) (nQ N2))) by (intros z Hz; apply union_In; auto).
      split; [apply HQ1; apply (wf_q0 N1 Hwf1)|]. split.
      { intros z Hz. apply HQ2; apply (wf_F N2 Hwf2); exact Hz. }
      split. { rewrite union_In. intros [Hc|Hc]; [|contradiction]. destruct Hwf1 as (_ & _ & He & _). contradiction. }
      unfold concat_delta. apply addF_dok.
      + intros q Hq. split; cbn [fst snd]; [apply HQ1; apply (wf_F N1 Hwf1); exact Hq | right; reflexivity].
      + apply HQ2; apply (wf_q0 N2 Hwf2).
      + apply copy_dok_wf; [exact Hwf2 | exact HQ2 | intros z Hz; apply union_In; auto|].
        apply copy_dok_wf; [exact Hwf1 | exact HQ1 | intros z Hz; apply union_In; auto|]. apply dok_nil.
  Qed.

  Lemma rep_nfa_wf (N : nfa A) q0 : nfa_wf N -> nfa_wf (rep_nfa N q0).
  Proof.
    intros Hwf. apply nfa_wf_dok. cbn [nq0 nQ nF nS neps nD rep_nfa].
    assert (HQ : incl (nQ N) (union (nQ N) [q0])) by (intros z Hz; apply union_In; auto).
    assert (Hq0 : In q0 (union (nQ N) [q0])) by (apply union_In; right; left; reflexivity).
    split; [exact Hq0|]. split.
    { intros z Hz. unfold rep_F in Hz. apply union_In in Hz. destruct Hz as [Hz|[<-|[]]]; [apply HQ; apply (wf_F N Hwf); exact Hz | exact Hq0]. }
    split; [apply (wf_eps N Hwf)|].
    unfold rep_delta. apply dset_dok.
    - apply addF_dok.
      + intros q Hq. split; cbn [fst snd]; [|right; reflexivity].
        unfold rep_F in Hq. apply union_In in Hq. destruct Hq as [Hq|[<-|[]]]; [apply HQ; apply (wf_F N Hwf); exact Hq | exact Hq0].
      + apply HQ; apply (wf_q0 N Hwf).
      + apply copy_dok_wf; [exact Hwf | exact HQ | intros z Hz; exact Hz | apply dok_nil].
    - split; cbn [fst snd]; [exact Hq0 | right; reflexivity].
    - intros z [<-|[]]. apply HQ; apply (wf_q0 N Hwf).
  Qed.

  Lemma disjointb_false (l1 l2 : list A) : disjointb l1 l2 = false <-> exists x, In x l1 /\ In x l2.
  Proof.
    split.
    - unfold disjointb. induction l1 as [|y l1 IH]; cbn [forallb]; [discriminate|].
      destruct (mem y l2) eqn:E; cbn [negb andb].
      + intros _. exists y. split; [left; reflexivity | apply mem_In; exact E].
      + intros Hf. destruct (IH Hf) as (x & Hx1 & Hx2). exists x. split; [right; exact Hx1 | exact Hx2].
    - intros (x & Hx1 & Hx2). destruct (disjointb l1 l2) eqn:E; [|reflexivity].
      exfalso. apply (proj1 (disjointb_spec _ _) E x Hx1 Hx2).
  Qed.

  (* success *)
  Lemma nfa_union_some names (N1 N2 : nfa A) q0 rest : nfa_wf N1 -> nfa_wf N2 ->
    (forall x, In x (nQ N1) -> ~ In x (nQ N2)) -> gen_fresh (union (nQ N1) (nQ N2)) names = Some (q0, rest) ->
    ~ In (neps N1) (nS N2) -> nfa_union names N1 N2 = Some (union_nfa N1 N2 q0, rest).
  Proof.
    intros Hwf1 Hwf2 Hdisj Hg Hne. rewrite nfa_union_unfold. apply disjointb_spec in Hdisj. rewrite Hdisj, Hg. cbn [negb].
    rewrite mk_checked_wf; [reflexivity|]. apply union_nfa_wf; assumption.
  Qed.

  Lemma nfa_concatenation_some (N1 N2 : nfa A) : nfa_wf N1 -> nfa_wf N2 ->
    (forall x, In x (nQ N1) -> ~ In x (nQ N2)) -> ~ In (neps N1) (nS N2) -> nfa_concatenation N1 N2 = Some (concat_nfa N1 N2).
  Proof.
    intros Hwf1 Hwf2 Hdisj Hne. rewrite nfa_concatenation_unfold. apply disjointb_spec in Hdisj. rewrite Hdisj. cbn [negb].
    apply mk_checked_wf. apply concat_nfa_wf; assumption.
  Qed.

  Lemma nfa_repetition_some names (N : nfa A) q0 rest : nfa_wf N -> gen_fresh (nQ N) names = Some (q0, rest) ->
    nfa_repetition names N = Some (rep_nfa N q0, rest).
  Proof.
    intros Hwf Hg. rewrite nfa_repetition_unfold, Hg. rewrite mk_checked_wf; [reflexivity|]. apply rep_nfa_wf; exact Hwf.
  Qed.

  (* failure: exactly on overlapping state sets, an exhausted generator, or an epsilon symbol of the first operand
     that is a letter of the second (which makes the result invalid) *)
  Theorem nfa_union_none names (N1 N2 : nfa A) : nfa_wf N1 -> nfa_wf N2 ->
    (nfa_union names N1 N2 = None <->
     (exists x, In x (nQ N1) /\ In x (nQ N2)) \/ (forall y, In y names -> In y (nQ N1) \/ In y (nQ N2)) \/ In (neps N1) (nS N2)).
  Proof.
    intros Hwf1 Hwf2. rewrite nfa_union_unfold. destruct (disjointb (nQ N1) (nQ N2)) eqn:Ed; cbn [negb].
    - assert (Hd : ~ exists x, In x (nQ N1) /\ In x (nQ N2)).
      { intros Hc. apply disjointb_false in Hc. congruence. }
      destruct (gen_fresh (union (nQ N1) (nQ N2)) names) as [[q0 rest]|] eqn:Eg.
      + assert (Hg : ~ forall y, In y names -> In y (nQ N1) \/ In y (nQ N2)).
        { intros Hc. assert (Hn : gen_fresh (union (nQ N1) (nQ N2)) names = None).
          { apply gen_fresh_none. intros y Hy. apply union_In. apply Hc; exact Hy. } congruence. }
        destruct (mk_checked (union_nfa N1 N2 q0)) as [R|] eqn:Em.
        * split; [discriminate|]. intros [Hc|[Hc|Hc]]; [contradiction | contradiction |].
          exfalso. apply mk_checked_some in Em. destruct Em as [_ Hwf]. apply union_nfa_wf in Hwf; auto.
        * split; [|reflexivity]. intros _. right; right. apply mk_checked_none in Em.
          destruct (mem (neps N1) (nS N2)) eqn:E; [apply mem_In; exact E|]. exfalso. apply Em.
          apply union_nfa_wf; auto. apply mem_nIn; exact E.
      + split; [|reflexivity]. intros _. right; left. intros y Hy. apply union_In.
        apply (proj1 (gen_fresh_none _ _) Eg); exact Hy.
    - split; [|reflexivity]. intros _. left. apply disjointb_false; exact Ed.
  Qed.

  Theorem nfa_concatenation_none (N1 N2 : nfa A) : nfa_wf N1 -> nfa_wf N2 ->
    (nfa_concatenation N1 N2 = None <-> (exists x, In x (nQ N1) /\ In x (nQ N2)) \/ In (neps N1) (nS N2)).
  Proof.
    intros Hwf1 Hwf2. rewrite nfa_concatenation_unfold. destruct (disjointb (nQ N1) (nQ N2)) eqn:Ed; cbn [negb].
    - assert (Hd : ~ exists x, In x (nQ N1) /\ In x (nQ N2)).
      { intros Hc. apply disjointb_false in Hc. congruence. }
      rewrite mk_checked_none. split.
      + intros Hn. right. destruct (mem (neps N1) (nS N2)) eqn:E; [apply mem_In; exact E|]. exfalso. apply Hn.
        apply concat_nfa_wf; auto. apply mem_nIn; exact E.
      + intros [Hc|Hc] Hwf; [contradiction|]. apply concat_nfa_wf in Hwf; auto.
    - split; [|reflexivity]. intros _. left. apply disjointb_false; exact Ed.
  Qed.

  Theorem nfa_repetition_none names (N : nfa A) : nfa_wf N ->
    (nfa_repetition names N = None <-> forall y, In y names -> In y (nQ N)).
  Proof.
    intros Hwf. rewrite <- gen_fresh_none. rewrite nfa_repetition_unfold.
    destruct (gen_fresh (nQ N) names) as [[q0 rest]|] eqn:Eg; [|split; reflexivity].
    rewrite mk_checked_wf by (apply rep_nfa_wf; exact Hwf). split; discriminate.
  Qed.

  (* in particular: disjoint states, a usable name in the stream, equal epsilon symbols => success *)
  Corollary nfa_union_succeeds names (N1 N2 : nfa A) : nfa_wf N1 -> nfa_wf N2 ->
    (forall x, In x (nQ N1) -> ~ In x (nQ N2)) -> (exists y, In y names /\ ~ In y (nQ N1) /\ ~ In y (nQ N2)) ->
    neps N1 = neps N2 -> nfa_union names N1 N2 <> None.
  Proof.
    intros Hwf1 Hwf2 Hdisj (y & Hy & Hy1 & Hy2) He Hn. apply nfa_union_none in Hn; auto.
    destruct Hn as [(x & Hx1 & Hx2)|[Hn|Hn]].
    - apply (Hdisj x Hx1 Hx2).
    - destruct (Hn y Hy); contradiction.
    - rewrite He in Hn. destruct Hwf2 as (_ & _ & Hne & _). contradiction.
  Qed.

  Corollary nfa_concatenation_succeeds (N1 N2 : nfa A) : nfa_wf N1 -> nfa_wf N2 ->
    (forall x, In x (nQ N1) -> ~ In x (nQ N2)) -> neps N1 = neps N2 -> nfa_concatenation N1 N2 <> None.
  Proof.
    intros Hwf1 Hwf2 Hdisj He Hn. apply nfa_concatenation_none in Hn; auto.
    destruct Hn as [(x & Hx1 & Hx2)|Hn].
    - apply (Hdisj x Hx1 Hx2).
    - rewrite He in Hn. destruct Hwf2 as (_ & _ & Hne & _). contradiction.
  Qed.

  Corollary nfa_repetition_succeeds names (N : nfa A) : nfa_wf N -> (exists y, In y names /\ ~ In y (nQ N)) ->
    nfa_repetition names N <> None.
  Proof. intros Hwf (y & Hy & Hyn) Hn. apply Hyn. apply (proj1 (nfa_repetition_none names N Hwf) Hn). exact Hy. Qed.
End Paths.

(* ================================================================= words over the alphabets *)
Section Alphabet.
  Context {A : Type} `{Eqb A}.

  (* words over the input alphabet of an automaton *)
  Definition nfa_word (N : nfa A) (w : word) : Prop := Forall (fun a => In a (nS N)) w.

  (* The word condition of the three theorems holds for every word over the alphabet of the result, provided the
     epsilon symbol of the second operand is not a letter of the first (e.g. when both operands use the same epsilon
     symbol). *)
  Corollary nfa_union_correct_alphabet names (N1 N2 R : nfa A) rest :
    nfa_wf N1 -> nfa_wf N2 -> NoDup (map fst (nD N1)) -> NoDup (map fst (nD N2)) -> ~ In (neps N2) (nS N1) ->
    nfa_union names N1 N2 = Some (R, rest) ->
    forall w, nfa_word R w -> (nfa_lang R w <-> nfa_lang N1 w \/ nfa_lang N2 w).
  Proof.
    intros Hwf1 Hwf2 Hk1 Hk2 Hne2 Hu w Hw.
    destruct (nfa_union_correct _ _ _ _ _ Hwf1 Hwf2 Hk1 Hk2 Hu) as (HwfR & _ & _ & _ & HeR & HS & _ & _ & HL).
    apply HL. eapply Forall_impl; [|exact Hw]. cbn beta. intros a Ha.
    pose proof (wf_eps R HwfR) as HneR. rewrite HeR in HneR. split; intros ->; [contradiction|].
    apply HS in Ha. destruct Ha as [Ha|Ha]; [contradiction | exact (wf_eps N2 Hwf2 Ha)].
  Qed.

  Corollary nfa_concatenation_correct_alphabet (N1 N2 R : nfa A) :
    nfa_wf N1 -> nfa_wf N2 -> NoDup (map fst (nD N1)) -> NoDup (map fst (nD N2)) -> ~ In (neps N2) (nS N1) ->
    nfa_concatenation N1 N2 = Some R ->
    forall w, nfa_word R w -> (nfa_lang R w <-> exists u v, w = u ++ v /\ nfa_lang N1 u /\ nfa_lang N2 v).
  Proof.
    intros Hwf1 Hwf2 Hk1 Hk2 Hne2 Hc w Hw.
    destruct (nfa_concatenation_correct _ _ _ Hwf1 Hwf2 Hk1 Hk2 Hc) as (HwfR & _ & HeR & _ & HS & _ & HL).
    apply HL. eapply Forall_impl; [|exact Hw]. cbn beta. intros a Ha.
    pose proof (wf_eps R HwfR) as HneR. rewrite HeR in HneR. split; intros ->; [contradiction|].
    apply HS in Ha. destruct Ha as [Ha|Ha]; [contradiction | exact (wf_eps N2 Hwf2 Ha)].
  Qed.

  Corollary nfa_repetition_correct_alphabet names (N R : nfa A) rest :
    nfa_wf N -> NoDup (map fst (nD N)) -> nfa_repetition names N = Some (R, rest) ->
    forall w, nfa_word N w -> (nfa_lang R w <-> star_lang (nfa_lang N) w).
  Proof.
    intros Hwf Hk Hr w Hw.
    destruct (nfa_repetition_correct _ _ _ _ Hwf Hk Hr) as (_ & _ & _ & _ & _ & _ & _ & HL).
    apply HL. eapply Forall_impl; [|exact Hw]. cbn beta. intros a Ha ->. exact (wf_eps N Hwf Ha).
  Qed.
End Alphabet.

(* ================================================================= regexp -> NFA *)
Section RegexpNFA.
  Context {A : Type} `{Eqb A}.

  Lemma path_no_trans (N : nfa A) : (forall q a, ndelta N q a = []) ->
    forall q w q', nfa_path N q w q' -> w = [] /\ q' = q.
  Proof.
    intros Hd q w q' Hp. inversion Hp as [q1 Eq Ew|q1 q2 w' q3 Hin Hp' Eq Ew|q1 a q2 w' q3 Hin Hp' Eq Ew]; subst.
    - auto.
    - rewrite Hd in Hin. destruct Hin.
    - rewrite Hd in Hin. destruct Hin.
  Qed.

  Lemma notin_forall (eps : nat) (w : word) : ~ In eps w <-> Forall (fun a => a <> eps) w.
  Proof.
    rewrite Forall_forall. split.
    - intros Hn a Ha E. subst a. contradiction.
    - intros Hf Hc. apply (Hf eps Hc). reflexivity.
  Qed.

  Lemma notin_forall2 (eps : nat) (w : word) : ~ In eps w -> Forall (fun a => a <> eps /\ a <> eps) w.
  Proof. intros Hn. apply notin_forall in Hn. eapply Forall_impl; [|exact Hn]. cbn. auto. Qed.

  Lemma star_lang_re (eps0 : nat) (L : word -> Prop) r : (forall u, ~ In eps0 u -> (L u <-> re_lang r u)) ->
    forall w, ~ In eps0 w -> (star_lang L w <-> re_lang (Star r) w).
  Proof.
    intros HL w Hw. split.
    - intros Hs. induction Hs as [|u v Hu Hv IH]; [constructor|]. rewrite in_app_iff in Hw.
      constructor; [apply HL; tauto | apply IH; tauto].
    - intros Hr. remember (Star r) as s eqn:Es. revert Hw. induction Hr as [| | | | | |r' u v Hu IHu Hv IHv]; try discriminate; intros Hw.
      + constructor.
      + inversion Es; subst r'. rewrite in_app_iff in Hw. constructor; [apply HL; tauto | apply IHv; tauto].
  Qed.

  Lemma NoDup_app_disj (l1 l2 : list A) x : NoDup (l1 ++ l2) -> In x l1 -> In x l2 -> False.
  Proof.
    induction l1 as [|y l1 IH]; cbn [app]; intros Hnd H1 H2; [destruct H1|].
    inversion Hnd as [|y' l' Hnin Hnd']; subst. destruct H1 as [->|H1].
    - apply Hnin. apply in_or_app. right; exact H2.
    - apply IH; assumption.
  Qed.

  Lemma NoDup_app_r (l1 l2 : list A) : NoDup (l1 ++ l2) -> NoDup l2.
  Proof. induction l1 as [|y l1 IH]; cbn [app]; intros Hnd; [exact Hnd|]. inversion Hnd; subst. apply IH; assumption. Qed.

  Definition re_nfa_good (eps0 : nat) (r : re) (names : list A) (N : nfa A) (rest : list A) : Prop :=
    nfa_wf N /\ NoDup (map fst (nD N)) /\ neps N = eps0 /\
    (exists used, names = used ++ rest /\ forall q, In q (nQ N) -> In q used) /\
    (forall w, ~ In eps0 w -> (nfa_lang N w <-> re_lang r w)).

  Theorem re_to_nfa_good eps0 r : ~ In eps0 (re_symbols r) -> forall names N rest,
    NoDup names -> re_to_nfa eps0 r names = Some (N, rest) -> re_nfa_good eps0 r names N rest.
  Proof.
    induction r as [| |a|r1 IH1 r2 IH2|r1 IH1 r2 IH2|r1 IH1]; intros Hsym names N rest Hnd Hr; cbn [re_to_nfa] in Hr.
    - (* Zero *)
      destruct names as [|q0 names']; [discriminate|]. inversion Hr; subst. unfold re_nfa_good. cbn [nD neps nQ map].
      split. { split; [left; reflexivity|]. split; [intros z []|]. split; [intros []|]. intros q a s []. }
      split; [constructor|]. split; [reflexivity|]. split. { exists [q0]. split; [reflexivity | intros q Hq; exact Hq]. }
      intros w _. split; [intros (qf & _ & []) | intros Hl; inversion Hl].
    - (* One *)
      destruct names as [|q0 names']; [discriminate|]. inversion Hr; subst. unfold re_nfa_good. cbn [nD neps nQ map].
      split. { split; [left; reflexivity|]. split; [intros z Hz; exact Hz|]. split; [intros []|]. intros q a s []. }
      split; [constructor|]. split; [reflexivity|]. split. { exists [q0]. split; [reflexivity | intros q Hq; exact Hq]. }
      intros w _. split.
      + intros (qf & Hp & _). apply path_no_trans in Hp; [|intros q a; reflexivity]. destruct Hp as [-> _]. constructor.
      + intros Hl. inversion Hl; subst. exists q0. split; [constructor | left; reflexivity].
    - (* Sym *)
      destruct names as [|q0 [|q1 names']]; try discriminate. destruct (eqb q0 q1) eqn:E; [discriminate|].
      apply eqb_neq in E. inversion Hr; subst. cbn [re_symbols In] in Hsym.
      set (N := mkNFA [q0; q1] [a] [((q0, a), [q1])] q0 [q1] eps0).
      assert (Hd : forall q b x, In x (ndelta N q b) -> q = q0 /\ b = a /\ x = q1).
      { intros q b x Hx. unfold ndelta in Hx. destruct (lookup (q, b) (nD N)) as [s|] eqn:El; [|destruct Hx].
        apply lookup_In in El. destruct El as [E1|[]]. inversion E1; subst. destruct Hx as [<-|[]]. auto. }
      assert (Hd0 : In q1 (ndelta N q0 a)).
      { unfold ndelta. cbn [nD N lookup]. rewrite eqb_refl. left; reflexivity. }
      unfold re_nfa_good. cbn [nD neps nQ map N fst].
      split.
      { unfold nfa_wf. cbn [nq0 nQ nF nS neps nD N].
        split; [left; reflexivity|]. split; [intros z [<-|[]]; right; left; reflexivity|]. split; [cbn [In]; tauto|].
        intros q b s [E1|[]]. inversion E1; subst. split; [left; reflexivity|]. split; [left; left; reflexivity|].
        intros z [<-|[]]. right; left; reflexivity. }
      split; [constructor; [intros []|constructor]|]. split; [reflexivity|].
      split. { exists [q0; q1]. split; [reflexivity | intros q Hq; exact Hq]. }
      intros w _. fold N. split.
      + intros (qf & Hp & Hf). cbn [nF N] in Hf. destruct Hf as [<-|[]]. cbn [nq0 N] in Hp.
        inversion Hp as [q Eq Ew|q q2 w' q3 Hin Hp' Eq Ew|q b q2 w' q3 Hin Hp' Eq Ew]; subst.
        * congruence.
        * exfalso. apply Hd in Hin. destruct Hin as (_ & Hb & _). cbn [neps N] in Hb. apply Hsym. left. congruence.
        * apply Hd in Hin. destruct Hin as (_ & -> & ->).
          inversion Hp' as [q Eq Ew|q q2 w'' q3 Hin Hp'' Eq Ew|q b q2 w'' q3 Hin Hp'' Eq Ew]; subst.
          -- constructor.
          -- exfalso. apply Hd in Hin. destruct Hin as (Hq & _). congruence.
          -- exfalso. apply Hd in Hin. destruct Hin as (Hq & _). congruence.
      + intros Hl. inversion Hl; subst. exists q1. split; [|left; reflexivity].
        apply np_sym with (q1 := q1); [exact Hd0 | constructor].
    - (* Sum *)
      cbn [re_symbols] in Hsym. rewrite in_app_iff in Hsym.
      destruct (re_to_nfa eps0 r1 names) as [[N1 rest1]|] eqn:E1; [|discriminate].
      destruct (IH1 (fun Hc => Hsym (or_introl Hc)) _ _ _ Hnd E1) as (Hwf1 & Hk1 & He1 & (used1 & Hn1 & Hu1) & HL1).
      assert (Hnd1 : NoDup rest1) by (rewrite Hn1 in Hnd; apply NoDup_app_r in Hnd; exact Hnd).
      destruct (re_to_nfa eps0 r2 rest1) as [[N2 rest2]|] eqn:E2; [|discriminate].
      destruct (IH2 (fun Hc => Hsym (or_intror Hc)) _ _ _ Hnd1 E2) as (Hwf2 & Hk2 & He2 & (used2 & Hn2 & Hu2) & HL2).
      destruct (nfa_union_correct _ _ _ _ _ Hwf1 Hwf2 Hk1 Hk2 Hr) as (HwfR & HkR & _ & _ & HeR & _ & HQ & (pre & Hn & Hpre) & HL).
      split; [exact HwfR|]. split; [exact HkR|]. split; [rewrite HeR; exact He1|]. split.
      { exists (used1 ++ used2 ++ pre ++ [nq0 N]). split.
        - rewrite Hn1, Hn2, Hn, <- !app_assoc. reflexivity.
        - intros q Hq. apply HQ in Hq. rewrite !in_app_iff. cbn [In]. destruct Hq as [Hq|[Hq|Hq]]; auto. }
      intros w Hw. rewrite HL by (rewrite He1, He2; apply notin_forall2; exact Hw).
      rewrite (HL1 w Hw), (HL2 w Hw). split.
      + intros [Hl|Hl]; [apply LSumL | apply LSumR]; exact Hl.
      + intros Hl. inversion Hl; subst; auto.
    - (* Cat *)
      cbn [re_symbols] in Hsym. rewrite in_app_iff in Hsym.
      destruct (re_to_nfa eps0 r1 names) as [[N1 rest1]|] eqn:E1; [|discriminate].
      destruct (IH1 (fun Hc => Hsym (or_introl Hc)) _ _ _ Hnd E1) as (Hwf1 & Hk1 & He1 & (used1 & Hn1 & Hu1) & HL1).
      assert (Hnd1 : NoDup rest1) by (rewrite Hn1 in Hnd; apply NoDup_app_r in Hnd; exact Hnd).
      destruct (re_to_nfa eps0 r2 rest1) as [[N2 rest2]|] eqn:E2; [|discriminate].
      destruct (IH2 (fun Hc => Hsym (or_intror Hc)) _ _ _ Hnd1 E2) as (Hwf2 & Hk2 & He2 & (used2 & Hn2 & Hu2) & HL2).
      destruct (nfa_concatenation N1 N2) as [R|] eqn:Ec; [|discriminate]. inversion Hr; subst R rest2.
      destruct (nfa_concatenation_correct _ _ _ Hwf1 Hwf2 Hk1 Hk2 Ec) as (HwfR & HkR & HeR & _ & _ & HQ & HL).
      split; [exact HwfR|]. split; [exact HkR|]. split; [rewrite HeR; exact He1|]. split.
      { exists (used1 ++ used2). split.
        - rewrite Hn1, Hn2, <- !app_assoc. reflexivity.
        - intros q Hq. apply HQ in Hq. rewrite !in_app_iff. destruct Hq as [Hq|Hq]; auto. }
      intros w Hw. rewrite HL by (rewrite He1, He2; apply notin_forall2; exact Hw). split.
      + intros (u & v & -> & Hu & Hv). rewrite in_app_iff in Hw. constructor; [apply HL1; tauto | apply HL2; tauto].
      + intros Hl. inversion Hl as [| | | |r s u v Hu Hv| |]; subst. rewrite in_app_iff in Hw.
        exists u, v. split; [reflexivity|]. split; [apply HL1; tauto | apply HL2; tauto].
    - (* Star *)
      cbn [re_symbols] in Hsym.
      destruct (re_to_nfa eps0 r1 names) as [[N1 rest1]|] eqn:E1; [|discriminate].
      destruct (IH1 Hsym _ _ _ Hnd E1) as (Hwf1 & Hk1 & He1 & (used1 & Hn1 & Hu1) & HL1).
      destruct (nfa_repetition_correct _ _ _ _ Hwf1 Hk1 Hr) as (HwfR & HkR & _ & HeR & _ & HQ & (pre & Hn & Hpre) & HL).
      split; [exact HwfR|]. split; [exact HkR|]. split; [rewrite HeR; exact He1|]. split.
      { exists (used1 ++ pre ++ [nq0 N]). split.
        - rewrite Hn1, Hn, <- !app_assoc. reflexivity.
        - intros q Hq. apply HQ in Hq. rewrite !in_app_iff. cbn [In]. destruct Hq as [Hq|Hq]; auto. }
      intros w Hw. rewrite HL by (rewrite He1; apply notin_forall; exact Hw).
      apply (star_lang_re eps0); assumption.
  Qed.

  Theorem re_to_nfa_correct eps0 r names (N : nfa A) rest : NoDup names -> ~ In eps0 (re_symbols r) ->
    re_to_nfa eps0 r names = Some (N, rest) ->
    nfa_wf N /\ neps N = eps0 /\ (exists used, names = used ++ rest /\ forall q, In q (nQ N) -> In q used) /\
    (forall w, ~ In eps0 w -> (nfa_lang N w <-> re_lang r w)).
  Proof.
    intros Hnd Hsym Hr. destruct (re_to_nfa_good eps0 r Hsym _ _ _ Hnd Hr) as (H1 & _ & H3 & H4 & H5). auto.
  Qed.

  (* every node of the expression draws at most two names; with enough pairwise distinct names the generator succeeds *)
  Lemma re_to_nfa_total_strong eps0 r : ~ In eps0 (re_symbols r) -> forall names : list A,
    NoDup names -> 2 * nodes r <= length names ->
    exists N rest, re_to_nfa eps0 r names = Some (N, rest) /\ length names <= length rest + 2 * nodes r.
  Proof.
    induction r as [| |a|r1 IH1 r2 IH2|r1 IH1 r2 IH2|r1 IH1]; intros Hsym names Hnd Hlen; cbn [re_to_nfa nodes] in *.
    - destruct names as [|q0 names']; [cbn [length] in Hlen; lia|]. eexists _, _. split; [reflexivity|]. cbn [length]. lia.
    - destruct names as [|q0 names']; [cbn [length] in Hlen; lia|]. eexists _, _. split; [reflexivity|]. cbn [length]. lia.
    - destruct names as [|q0 [|q1 names']]; try (cbn [length] in Hlen; lia).
      destruct (eqb q0 q1) eqn:E.
      + exfalso. apply eqb_true in E. subst q1. inversion Hnd as [|x l Hnin Hnd']; subst. apply Hnin. left; reflexivity.
      + eexists _, _. split; [reflexivity|]. cbn [length]. lia.
    - (* Sum *)
      cbn [re_symbols] in Hsym. rewrite in_app_iff in Hsym.
      assert (Hsym1 : ~ In eps0 (re_symbols r1)) by tauto. assert (Hsym2 : ~ In eps0 (re_symbols r2)) by tauto.
      destruct (IH1 Hsym1 names Hnd) as (N1 & rest1 & E1 & Hl1); [lia|].
      destruct (re_to_nfa_good eps0 r1 Hsym1 _ _ _ Hnd E1) as (Hwf1 & Hk1 & He1 & (used1 & Hn1 & Hu1) & _).
      assert (Hnd1 : NoDup rest1) by (rewrite Hn1 in Hnd; apply NoDup_app_r in Hnd; exact Hnd).
      destruct (IH2 Hsym2 rest1 Hnd1) as (N2 & rest2 & E2 & Hl2); [lia|].
      destruct (re_to_nfa_good eps0 r2 Hsym2 _ _ _ Hnd1 E2) as (Hwf2 & Hk2 & He2 & (used2 & Hn2 & Hu2) & _).
      destruct rest2 as [|x rest']; [cbn [length] in Hl2; lia|].
      assert (Hdisj : forall q, In q (nQ N1) -> ~ In q (nQ N2)).
      { intros q Hq1 Hq2. rewrite Hn1 in Hnd. apply (NoDup_app_disj _ _ q Hnd); [apply Hu1; exact Hq1|].
        rewrite Hn2. apply in_or_app. left. apply Hu2; exact Hq2. }
      assert (Hx1 : ~ In x (nQ N1)).
      { intros Hq1. rewrite Hn1 in Hnd. apply (NoDup_app_disj _ _ x Hnd); [apply Hu1; exact Hq1|].
        rewrite Hn2. apply in_or_app. right. left; reflexivity. }
      assert (Hx2 : ~ In x (nQ N2)).
      { intros Hq2. rewrite Hn2 in Hnd1. apply (NoDup_app_disj _ _ x Hnd1); [apply Hu2; exact Hq2 | left; reflexivity]. }
      assert (Hne : ~ In (neps N1) (nS N2)) by (rewrite He1, <- He2; apply wf_eps; exact Hwf2).
      rewrite E1, E2. exists (union_nfa N1 N2 x), rest'. split.
      + apply nfa_union_some; auto. apply gen_fresh_head. rewrite union_In. tauto.
      + cbn [length] in Hl2. lia.
    - (* Cat *)
      cbn [re_symbols] in Hsym. rewrite in_app_iff in Hsym.
      assert (Hsym1 : ~ In eps0 (re_symbols r1)) by tauto. assert (Hsym2 : ~ In eps0 (re_symbols r2)) by tauto.
      destruct (IH1 Hsym1 names Hnd) as (N1 & rest1 & E1 & Hl1); [lia|].
      destruct (re_to_nfa_good eps0 r1 Hsym1 _ _ _ Hnd E1) as (Hwf1 & Hk1 & He1 & (used1 & Hn1 & Hu1) & _).
      assert (Hnd1 : NoDup rest1) by (rewrite Hn1 in Hnd; apply NoDup_app_r in Hnd; exact Hnd).
      destruct (IH2 Hsym2 rest1 Hnd1) as (N2 & rest2 & E2 & Hl2); [lia|].
      destruct (re_to_nfa_good eps0 r2 Hsym2 _ _ _ Hnd1 E2) as (Hwf2 & Hk2 & He2 & (used2 & Hn2 & Hu2) & _).
      assert (Hdisj : forall q, In q (nQ N1) -> ~ In q (nQ N2)).
      { intros q Hq1 Hq2. rewrite Hn1 in Hnd. apply (NoDup_app_disj _ _ q Hnd); [apply Hu1; exact Hq1|].
        rewrite Hn2. apply in_or_app. left. apply Hu2; exact Hq2. }
      assert (Hne : ~ In (neps N1) (nS N2)) by (rewrite He1, <- He2; apply wf_eps; exact Hwf2).
      rewrite E1, E2. rewrite (nfa_concatenation_some N1 N2 Hwf1 Hwf2 Hdisj Hne).
      exists (concat_nfa N1 N2), rest2. split; [reflexivity | lia].
    - (* Star *)
      cbn [re_symbols] in Hsym.
      destruct (IH1 Hsym names Hnd) as (N1 & rest1 & E1 & Hl1); [lia|].
      destruct (re_to_nfa_good eps0 r1 Hsym _ _ _ Hnd E1) as (Hwf1 & Hk1 & He1 & (used1 & Hn1 & Hu1) & _).
      destruct rest1 as [|x rest']; [cbn [length] in Hl1; lia|].
      assert (Hx1 : ~ In x (nQ N1)).
      { intros Hq1. rewrite Hn1 in Hnd. apply (NoDup_app_disj _ _ x Hnd); [apply Hu1; exact Hq1 | left; reflexivity]. }
      rewrite E1. exists (rep_nfa N1 x), rest'. split.
      + apply nfa_repetition_some; [exact Hwf1|]. apply gen_fresh_head; exact Hx1.
      + cbn [length] in Hl1. lia.
  Qed.

  Theorem re_to_nfa_total eps0 r (names : list A) : NoDup names -> ~ In eps0 (re_symbols r) ->
    2 * nodes r <= length names -> re_to_nfa eps0 r names <> None.
  Proof.
    intros Hnd Hsym Hlen. destruct (re_to_nfa_total_strong eps0 r Hsym names Hnd Hlen) as (N & rest & E & _).
    rewrite E. discriminate.
  Qed.
End RegexpNFA.

(* ================================================================= the hypotheses are needed *)
(* NoDup (map fst (nD N)): the keys of a Python dict are unique.  An association list with a repeated key is read
   through its first entry by `ndelta`, while `copy_trans` merges all entries; without the hypothesis the three
   language statements are false: *)
Definition dupN1 : nfa nat := mkNFA [0; 1] [5] [((0, 5), []); ((0, 5), [1])] 0 [1] 9.
Definition dupN2 : nfa nat := mkNFA [2] [] [] 2 [] 9.

Lemma dupN1_empty w : ~ nfa_lang dupN1 w.
Proof.
  intros (qf & Hp & Hf). apply path_no_trans in Hp.
  - destruct Hp as [_ ->]. destruct Hf as [E|[]]. discriminate.
  - intros q a. unfold ndelta. cbn [nD dupN1 lookup]. destruct (eqb (q, a) (0, 5)); reflexivity.
Qed.

Theorem nfa_union_needs_unique_keys :
  nfa_wf dupN1 /\ nfa_wf dupN2 /\ (forall x, In x (nQ dupN1) -> ~ In x (nQ dupN2)) /\
  exists R rest, nfa_union [3] dupN1 dupN2 = Some (R, rest) /\
    Forall (fun a => a <> neps dupN1 /\ a <> neps dupN2) [5] /\
    nfa_lang R [5] /\ ~ (nfa_lang dupN1 [5] \/ nfa_lang dupN2 [5]).
Proof.
  split; [apply nfa_wf_b_spec; vm_compute; reflexivity|]. split; [apply nfa_wf_b_spec; vm_compute; reflexivity|].
  split. { intros x [<-|[<-|[]]] [E|[]]; discriminate. }
  eexists _, _. split; [vm_compute; reflexivity|].
  split. { constructor; [split; discriminate | constructor]. }
  split.
  - match goal with |- nfa_lang ?R _ => destruct (nfa_accepts_correct R [5]) as (b & Hb & Hiff) end.
    + apply nfa_wf_b_spec. vm_compute. reflexivity.
    + constructor; [|constructor]. vm_compute. auto.
    + vm_compute in Hb. inversion Hb; subst b. apply Hiff. reflexivity.
  - intros [Hl|(qf & _ & [])]. exact (dupN1_empty _ Hl).
Qed.

Theorem nfa_repetition_needs_unique_keys :
  nfa_wf dupN1 /\ exists R rest, nfa_repetition [3] dupN1 = Some (R, rest) /\
    Forall (fun a => a <> neps dupN1) [5] /\ nfa_lang R [5] /\ ~ star_lang (nfa_lang dupN1) [5].
Proof.
  split; [apply nfa_wf_b_spec; vm_compute; reflexivity|].
  eexists _, _. split; [vm_compute; reflexivity|].
  split. { constructor; [discriminate | constructor]. }
  split.
  - match goal with |- nfa_lang ?R _ => destruct (nfa_accepts_correct R [5]) as (b & Hb & Hiff) end.
    + apply nfa_wf_b_spec. vm_compute. reflexivity.
    + constructor; [|constructor]. vm_compute. auto.
    + vm_compute in Hb. inversion Hb; subst b. apply Hiff. reflexivity.
  - intros Hs. inversion Hs as [|u v Hu Hv E]. exact (dupN1_empty _ Hu).
Qed.

Theorem nfa_concatenation_needs_unique_keys :
  nfa_wf dupN2 /\ nfa_wf dupN1 /\ (forall x, In x (nQ dupN2) -> ~ In x (nQ dupN1)) /\
  exists R, nfa_concatenation (mkNFA [2] [] [] 2 [2] 9) dupN1 = Some R /\
    nfa_lang R [5] /\ ~ (exists u v, [5] = u ++ v /\ nfa_lang (mkNFA [2] [] [] 2 [2] 9) u /\ nfa_lang dupN1 v).
Proof.
  split; [apply nfa_wf_b_spec; vm_compute; reflexivity|]. split; [apply nfa_wf_b_spec; vm_compute; reflexivity|].
  split. { intros x [<-|[]] [E|[E|[]]]; discriminate. }
  eexists. split; [vm_compute; reflexivity|].
  split.
  - match goal with |- nfa_lang ?R _ => destruct (nfa_accepts_correct R [5]) as (b & Hb & Hiff) end.
    + apply nfa_wf_b_spec. vm_compute. reflexivity.
    + constructor; [|constructor]. vm_compute. auto.
    + vm_compute in Hb. inversion Hb; subst b. apply Hiff. reflexivity.
  - intros (u & v & _ & _ & Hv). exact (dupN1_empty _ Hv).
Qed.

(* The word condition: `nfa_path` lets a letter equal to the epsilon symbol take an epsilon move (np_sym has no guard),
   so the added epsilon moves can be "read"; words containing the epsilon symbol must be excluded: *)
Theorem nfa_repetition_word_condition_needed :
  let N := mkNFA [0] [] [] 0 [0] 9 in
  nfa_wf N /\ NoDup (map fst (nD N)) /\ exists R rest, nfa_repetition [3] N = Some (R, rest) /\
    nfa_lang R [9] /\ ~ star_lang (nfa_lang N) [9].
Proof.
  intros N. split; [apply nfa_wf_b_spec; vm_compute; reflexivity|]. split; [constructor|].
  eexists _, _. split; [vm_compute; reflexivity|]. split.
  - exists 0. split; [|vm_compute; auto]. apply np_sym with (q1 := 0); [vm_compute; auto | constructor].
  - assert (HN : forall u, nfa_lang N u -> u = []).
    { intros u (qf & Hp & _). apply path_no_trans in Hp; [tauto | intros q a; reflexivity]. }
    assert (Hs : forall w, star_lang (nfa_lang N) w -> w = []).
    { intros w Hs. induction Hs as [|u v Hu Hv IH]; [reflexivity|]. rewrite (HN u Hu), IH. reflexivity. }
    intros Hc. apply Hs in Hc. discriminate.
Qed.

Print Assumptions nfa_union_correct.
Print Assumptions nfa_concatenation_correct.
Print Assumptions nfa_repetition_correct.
Print Assumptions nfa_union_none.
Print Assumptions nfa_concatenation_none.
Print Assumptions nfa_repetition_none.
Print Assumptions re_to_nfa_good.
Print Assumptions re_to_nfa_correct.
Print Assumptions re_to_nfa_total.
Print Assumptions nfa_union_correct_alphabet.
Print Assumptions nfa_concatenation_correct_alphabet.
Print Assumptions nfa_repetition_correct_alphabet.
Print Assumptions nfa_union_needs_unique_keys.
Print Assumptions nfa_concatenation_needs_unique_keys.
Print Assumptions nfa_repetition_needs_unique_keys.
Print Assumptions nfa_repetition_word_condition_needed.
