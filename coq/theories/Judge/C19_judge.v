From GT Require Import Base.Prelude Base.Sort Model.DFA Model.NFA Model.Regexp Model.Minimize Model.NFAOps Decide.DFAEquiv Judge.Common Judge.C06_judge.

(* flags measured by the harness for one call: argument snapshot unchanged, second call in the same process gives the same
   canonical result, same result after a prefix of other library calls, same result with logging switched on *)
Definition flags_ok (f : bool * bool * bool * bool) (c : nat) : nat :=
  let '(unchanged, twice, history, logging) := f in
  if negb unchanged then c else if negb twice then c + 1 else if negb history then c + 2 else if negb logging then c + 3 else 0.

(* DFA: verdicts and enumeration must equal the single model value; every constructed automaton / expression must have the
   language of the input (exact oracles) *)
Definition judge_C19_dfa (D : dfa nat) (ws : list word) (oacc : list (option bool)) (n : nat) (owords : option (list word))
           (mins : list (option (dfa nat))) (ore : option re) (flags : list (bool * bool * bool * bool)) : nat :=
  worst_code ([ check (dfa_wf_b D) 9;
                check (eqb oacc (map (dfa_accepts D) ws)) 10;
                check (match owords, dfa_words D n with Some l, Some m => seteqb l m | _, _ => false end) 11 ] ++
              map (fun o => match o with Some M => check (dfa_wf_b M && dfa_equivb D M) 12 | None => 12 end) mins ++
              [ match ore with Some r => match re_dfa_equivb r D with Some false => 13 | _ => 0 end | None => 13 end ] ++
              map (fun f => flags_ok f 20) flags).

(* the same without the DFA-to-regexp clause (large DFAs: the extracted expression is too big for the exact oracle) *)
Definition judge_C19_dfa_min (D : dfa nat) (ws : list word) (oacc : list (option bool)) (n : nat) (owords : option (list word))
           (mins : list (option (dfa nat))) (flags : list (bool * bool * bool * bool)) : nat :=
  worst_code ([ check (dfa_wf_b D) 9;
                check (eqb oacc (map (dfa_accepts D) ws)) 10;
                check (match owords, dfa_words D n with Some l, Some m => seteqb l m | _, _ => false end) 11 ] ++
              map (fun o => match o with Some M => check (dfa_wf_b M && dfa_equivb D M) 12 | None => 12 end) mins ++
              map (fun f => flags_ok f 20) flags).

Definition judge_C19_nfa (N : nfa nat) (ws : list word) (oacc : list (option bool)) (n : nat) (owords : option (list word))
           (odet : option (dfa nat)) (ostar : option (nfa nat)) (names : list nat) (flags : list (bool * bool * bool * bool)) : nat :=
  worst_code ([ check (nfa_wf_b N) 9;
                check (eqb oacc (map (nfa_accepts N) ws)) 30;
                check (match owords, nfa_words N n with Some l, Some m => seteqb l m | _, _ => false end) 31;
                match odet with Some M => check (dfa_wf_b M && nfa_dfa_equivb N M) 32 | None => 32 end;
                match ostar, nfa_repetition names N with
                | Some R, Some (M, _) => check (nfa_wf_b R && nfa_equivb R M) 33
                | None, None => 0 | _, _ => 33 end ] ++
              map (fun f => flags_ok f 40) flags).

(* objects judged only through their flags (grammars, PDAs, TMs, checkers, printers): values are compared across hash seeds by the driver *)
Definition judge_C19_flags (flags : list (bool * bool * bool * bool)) : nat := worst_code (map (fun f => flags_ok f 50) flags).
