(* C14 — DFA closure constructions realise the corresponding language operations; the finite-language helpers
   compute the set operations their documentation states.  `NoDup (map fst (dD D))` = the keys of a Python dict are unique. *)
From GT Require Import Base.Prelude Model.DFA Model.NFA Model.DFAOps Model.Lang Proofs.DFAOpsProofs Proofs.LangProofs.
From GT Require Model.Tokens Model.Naming Proofs.NamingProofs.

Definition W (D : dfa nat) (w : word) : Prop := Forall (fun a => In a (dS D)) w.

Theorem C14_product : forall (ptype : nat) (D1 D2 : dfa nat), dfa_wf D1 -> dfa_wf D2 -> seteq (dS D1) (dS D2) ->
  exists D, dfa_product ptype D1 D2 = Some D /\ dfa_wf D /\ dS D = dS D1 /\
  forall w, W D1 w ->
    (dfa_lang D w <-> match ptype with
                      | 0 => dfa_lang D1 w \/ dfa_lang D2 w
                      | 1 => dfa_lang D1 w /\ dfa_lang D2 w
                      | _ => (dfa_lang D1 w /\ ~ dfa_lang D2 w) \/ (~ dfa_lang D1 w /\ dfa_lang D2 w)
                      end).
Proof. exact (fun ptype D1 D2 => product_correct ptype D1 D2). Qed.

Theorem C14_complement : forall D : dfa nat, dfa_wf D ->
  dfa_wf (dfa_complement D) /\ dS (dfa_complement D) = dS D /\ forall w, W D w -> (dfa_lang (dfa_complement D) w <-> ~ dfa_lang D w).
Proof. exact (fun D => complement_correct D). Qed.

Theorem C14_reverse : forall (fresh eps : nat) (D : dfa nat), dfa_wf D -> NoDup (map fst (dD D)) -> ~ In fresh (dQ D) -> ~ In eps (dS D) ->
  exists N, dfa_reverse fresh eps D = Some N /\ nfa_wf N /\ nS N = dS D /\ nq0 N = fresh /\
  forall w, W D w -> (nfa_lang N w <-> dfa_lang D (rev w)).
Proof. exact (fun fresh eps D => reverse_correct fresh eps D). Qed.

Theorem C14_no_prefix : forall (eps : nat) (D : dfa nat), dfa_wf D -> ~ In eps (dS D) ->
  exists N, dfa_no_prefix eps D = Some N /\ nfa_wf N /\ nS N = dS D /\
  forall w, W D w -> (nfa_lang N w <-> dfa_lang D w /\ forall i, i < length w -> ~ dfa_lang D (firstn i w)).
Proof. exact (fun eps D => no_prefix_correct eps D). Qed.

Theorem C14_no_extend : forall D : dfa nat, dfa_wf D ->
  exists D', dfa_no_extend D = Some D' /\ dfa_wf D' /\ dS D' = dS D /\
  forall w, W D w -> (dfa_lang D' w <-> dfa_lang D w /\ forall v, v <> [] -> W D v -> ~ dfa_lang D (w ++ v)).
Proof. exact (fun D => no_extend_correct D). Qed.

Theorem C14_reachable_states : forall (D : dfa nat) (q depth : nat), dfa_wf D -> In q (dQ D) ->
  exists R, dfa_reachable_states D q depth = Some R /\
  forall p, In p R <-> exists w, W D w /\ (depth = 0 \/ w <> []) /\ dfa_path D q w p.
Proof. exact (fun D q depth => reachable_states_correct D q depth). Qed.

Theorem C14_remove_unreachable : forall D : dfa nat, dfa_wf D -> NoDup (map fst (dD D)) ->
  exists D', dfa_remove_unreachable_states D = Some D' /\ dfa_wf D' /\ dS D' = dS D /\
  (forall w, W D w -> (dfa_lang D' w <-> dfa_lang D w)) /\
  (forall p, In p (dQ D') -> exists w, W D w /\ dfa_path D' (dq0 D') w p).
Proof. exact (fun D => remove_unreachable_correct D). Qed.

Theorem C14_make_total : forall (trap : nat) (D : dfa nat), pdfa_wf D -> ~ In trap (dQ D) ->
  dfa_wf (dfa_make_total trap D) /\ dS (dfa_make_total trap D) = dS D /\
  forall w, W D w -> (dfa_lang (dfa_make_total trap D) w <-> dfa_lang D w).
Proof. exact (fun trap D => make_total_correct trap D). Qed.

Theorem C14_language_helpers :
  (forall L w, In w (l_reverse L) <-> In (rev w) L) /\
  (forall L1 L2 w, In w (l_concatenation L1 L2) <-> exists u v, In u L1 /\ In v L2 /\ w = u ++ v) /\
  (forall L w, In w (l_no_prefix L) <-> In w L /\ forall i, i < length w -> ~ In (firstn i w) L) /\
  (forall L w, In w (l_no_extend L) <-> In w L /\ forall v, In v L -> ~ (exists u, u <> [] /\ v = w ++ u)) /\
  (forall Sg n w, In w (l_words_of_length_n Sg n) <-> length w = n /\ Forall (fun a => In a Sg) w) /\
  (forall Sg n w, In w (l_words_up_to_n Sg n) <-> length w <= n /\ Forall (fun a => In a Sg) w) /\
  (forall L1 L2 w, In w (l_union L1 L2) <-> In w L1 \/ In w L2) /\
  (forall L1 L2 w, In w (l_intersection L1 L2) <-> In w L1 /\ In w L2) /\
  (forall L1 L2 w, In w (l_symmetric_difference L1 L2) <-> (In w L1 /\ ~ In w L2) \/ (In w L2 /\ ~ In w L1)).
Proof.
  exact (conj l_reverse_spec (conj l_concatenation_spec (conj l_no_prefix_spec (conj l_no_extend_spec
        (conj l_words_of_length_n_spec (conj l_words_up_to_n_spec (conj l_union_spec (conj l_intersection_spec l_symmetric_difference_spec)))))))).
Qed.

(* ---- names of product states ('({},{})'.format(q1, q2), Model/Naming.v): the model uses pairs; for state names without a
   comma (in particular all \w+ names) different pairs get different strings ---- *)
Theorem C14_product_names_injective : forall p q p' q' : Tokens.token,
  ~ In 44 p -> ~ In 44 q -> ~ In 44 p' -> ~ In 44 q' ->
  Naming.pair_name p q = Naming.pair_name p' q' -> p = p' /\ q = q'.
Proof. exact NamingProofs.pair_name_inj. Qed.

Print Assumptions C14_product.
Print Assumptions C14_complement.
Print Assumptions C14_reverse.
Print Assumptions C14_no_prefix.
Print Assumptions C14_no_extend.
Print Assumptions C14_reachable_states.
Print Assumptions C14_remove_unreachable.
Print Assumptions C14_make_total.
Print Assumptions C14_language_helpers.
Print Assumptions C14_product_names_injective.
