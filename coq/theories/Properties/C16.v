(* placeholder *)
From GT Require Import Base.Prelude Model.Tokens Model.Parser Model.Printer.
