(* C04, final statements: each of the three minimisers of Model/Minimize.v (table filling, Moore quotient, Hopcroft as
   coded) succeeds on a well-formed DFA and returns the quotient automaton by Myhill-Nerode equivalence (`min_spec`);
   consequences of `min_spec`: bounds on the number of states, and minimality when every state of the input is reachable.
   Stdlib only, no axioms. *)
From GT Require Import Base.Prelude Model.DFA Model.NFA Model.Minimize.
From GT Require Import Proofs.NFAProofs Proofs.DFAOpsProofs Proofs.PartitionDefs Proofs.PartitionTheory
  Proofs.TableProofs Proofs.MooreHopcroftProofs.
From Coq Require Import Permutation.

(* ---------- the specification and its consequences ---------- *)
Section Spec.
  Context {A : Type} `{Eqb A}.

  Definition min_spec (D : dfa A) (D' : dfa (list A)) : Prop :=
    dfa_wf D' /\ dS D' = dS D /\ NoDup (dQ D') /\
    (forall w, over D w -> (dfa_lang D' w <-> dfa_lang D w)) /\
    (* the states of D' are pairwise distinguishable *)
    (forall S1 S2, In S1 (dQ D') -> In S2 (dQ D') -> S1 <> S2 ->
       exists w, over D w /\ ~ (In (drun D' S1 w) (dF D') <-> In (drun D' S2 w) (dF D'))) /\
    (* the states of D' are exactly the Myhill-Nerode classes of dQ D *)
    (forall S1, In S1 (dQ D') -> S1 <> [] /\ incl S1 (dQ D)) /\
    (forall q, In q (dQ D) -> exists S1, In S1 (dQ D') /\ In q S1) /\
    (forall S1 p q, In S1 (dQ D') -> In p S1 -> In q S1 -> mn_equiv D p q) /\
    (forall S1 S2 p q, In S1 (dQ D') -> In S2 (dQ D') -> In p S1 -> In q S2 -> mn_equiv D p q -> S1 = S2).

  Theorem min_spec_count_bounds (D : dfa A) (D' : dfa (list A)) : dfa_wf D -> NoDup (dQ D) -> min_spec D D' ->
    (forall l, NoDup l -> incl l (dQ D) -> (forall p q, In p l -> In q l -> p <> q -> ~ mn_equiv D p q) ->
       length l <= length (dQ D')) /\
    length (dQ D') <= length (dQ D).
  Proof.
    intros Hwf HndQ [_ [_ [Hnd' [_ [_ [Hne [Hcov [Hsame Hdiff]]]]]]]]. split.
    - intros l Hnd Hinc Hneq.
      apply (rel_image_length (fun p S1 => In S1 (dQ D') /\ In p S1)); [exact Hnd| |].
      + intros p Hp. destruct (Hcov p (Hinc p Hp)) as [S1 [HS1 HpS]]. exists S1. auto.
      + intros p q S1 Hp Hq [HS1 HpS] [_ HqS]. destruct (eqb_dec p q) as [E|Hn]; [exact E|]. exfalso.
        apply (Hneq p q Hp Hq Hn). apply (Hsame S1); assumption.
    - apply (rel_image_length (fun (S1 : list A) (q : A) => In q S1)); [exact Hnd'| |].
      + intros S1 HS1. destruct (Hne S1 HS1) as [Hn Hinc]. destruct S1 as [|q S1']; [contradiction|].
        exists q. split; [apply Hinc; left; reflexivity | left; reflexivity].
      + intros S1 S2 q HS1 HS2 Hq1 Hq2. apply (Hdiff S1 S2 q q HS1 HS2 Hq1 Hq2). apply mn_refl.
  Qed.

  Theorem min_spec_minimal (D : dfa A) (D' : dfa (list A)) {B : Type} `{Eqb B} (D2 : dfa B) :
    dfa_wf D -> NoDup (dQ D) -> min_spec D D' ->
    (forall q, In q (dQ D) -> exists w, over D w /\ drun D (dq0 D) w = q) ->
    dfa_wf D2 -> dS D2 = dS D -> (forall w, over D w -> (dfa_lang D w <-> dfa_lang D2 w)) ->
    length (dQ D') <= length (dQ D2).
  Proof.
    intros Hwf HndQ [_ [_ [Hnd' [_ [_ [Hne [_ [_ Hdiff]]]]]]]] Hreach Hwf2 HSeq Hlang.
    assert (Hov : forall w, over D w -> over D2 w) by (intros w Hw; unfold over in *; rewrite HSeq; exact Hw).
    assert (Hacc : forall w, over D w -> (In (drun D (dq0 D) w) (dF D) <-> In (drun D2 (dq0 D2) w) (dF D2))).
    { intros w Hw. rewrite <- (dfa_lang_drun Hwf Hw), <- (dfa_lang_drun Hwf2 (Hov w Hw)). apply Hlang; exact Hw. }
    apply (rel_image_length (fun (S1 : list A) (y : B) =>
             exists q w, In q S1 /\ over D w /\ drun D (dq0 D) w = q /\ drun D2 (dq0 D2) w = y)); [exact Hnd'| |].
    - intros S1 HS1. destruct (Hne S1 HS1) as [Hn Hinc]. destruct S1 as [|q S1']; [contradiction|].
      destruct (Hreach q (Hinc q (or_introl eq_refl))) as [w [Hw Ew]].
      exists (drun D2 (dq0 D2) w). split; [apply (drun_In Hwf2 (Hov w Hw)); exact (proj1 Hwf2)|].
      exists q, w. split; [left; reflexivity|]. auto.
    - intros S1 S2 y HS1 HS2 [q1 [w1 [Hq1 [Hw1 [E1 F1]]]]] [q2 [w2 [Hq2 [Hw2 [E2 F2]]]]].
      apply (Hdiff S1 S2 q1 q2 HS1 HS2 Hq1 Hq2). intros u Hu.
      assert (Ha1 : over D (w1 ++ u)) by (unfold over; apply Forall_app; split; assumption).
      assert (Ha2 : over D (w2 ++ u)) by (unfold over; apply Forall_app; split; assumption).
      pose proof (Hacc _ Ha1) as G1. pose proof (Hacc _ Ha2) as G2.
      rewrite !drun_app in G1, G2. rewrite E1, F1 in G1. rewrite E2, F2 in G2. tauto.
  Qed.
End Spec.

(* a duplicate-free concatenation of non-empty blocks has no repeated block *)
Lemma nodup_concat_blocks {X : Type} (P : list (list X)) :
  NoDup (concat P) -> (forall B, In B P -> B <> []) -> NoDup P.
Proof.
  induction P as [|B P IH]; intros Hnd Hne; [constructor|].
  cbn [concat] in Hnd. apply NoDup_app_inv in Hnd. destruct Hnd as [_ [Hnd' Hdis]]. constructor.
  - intros HB. assert (HBne : B <> []) by (apply Hne; left; reflexivity).
    destruct B as [|x B']; [contradiction|]. apply (Hdis x); [left; reflexivity|].
    apply in_concat. exists (x :: B'). split; [exact HB | left; reflexivity].
  - apply IH; [exact Hnd'|]. intros B' HB'. apply Hne. right; exact HB'.
Qed.

Section Final.
  Context {A : Type} `{Eqb A}.
  Variable canon : list A -> list A.
  Hypothesis canon_In : forall l y, In y (canon l) <-> In y l.

  (* ---------- from "quotient automaton by the MN partition" to min_spec ---------- *)
  Lemma min_spec_of_quotient (D : dfa A) (P : list (list A)) (D' : dfa (list A)) :
    dfa_wf D -> is_mn_partition D P -> is_quotient_of canon D P D' ->
    (forall k S1, In (k, S1) (dD D') -> In S1 (dQ D')) -> NoDup (dQ D') -> min_spec D D'.
  Proof.
    intros Hwf HP HQ Hrng Hnd.
    destruct (quotient_correct canon canon_In D P D' Hwf HP HQ Hrng) as [H1 [H2 [H3 [H4 [H5 [H6 H7]]]]]].
    unfold min_spec. split; [exact H1|]. split; [exact H2|]. split; [exact Hnd|]. split; [exact H3|]. split; [exact H4|].
    split; [|split; [exact H5|split; [exact H6 | exact H7]]].
    intros S1 HS1. apply (quot_states canon D P D' HQ) in HS1. destruct HS1 as [B [HB ->]].
    destruct HP as [Hne _]. destruct (Hne B HB) as [Hn Hinc]. split.
    - destruct B as [|x B']; [contradiction|]. intros E.
      assert (Hx : In x (canon (x :: B'))) by (apply canon_In; left; reflexivity). rewrite E in Hx. destruct Hx.
    - intros y Hy. apply Hinc. apply canon_In. exact Hy.
  Qed.

  Lemma canon_states_NoDup (D : dfa A) (P : list (list A)) : is_mn_partition D P -> NoDup P -> NoDup (map canon P).
  Proof.
    intros HP Hnd. apply NoDup_map_inj_on; [|exact Hnd].
    intros B1 B2 HB1 HB2. apply (part_canon_inj canon canon_In D P HP); assumption.
  Qed.

  (* ---------- 1. table filling ---------- *)
  Section TableFilling.
    Variable ord : list A -> list A.
    Hypothesis ord_perm : forall l, Permutation (ord l) l.

    Theorem dfa_minimize_spec (D : dfa A) : dfa_wf D -> NoDup (dQ D) -> NoDup (dF D) ->
      exists D', dfa_minimize canon ord D = Some D' /\ min_spec D D'.
    Proof.
      intros Hwf HndQ _.
      destruct (dfa_minimize_quotient canon canon_In ord ord_perm D Hwf HndQ) as [t [D' [_ [E' [HP [HQ [Hrng Hnd']]]]]]].
      exists D'. split; [exact E'|]. apply (min_spec_of_quotient D _ D' Hwf HP HQ Hrng Hnd').
    Qed.
  End TableFilling.

  (* ---------- 2. Moore refinement (dfa_quotient) ---------- *)
  Section Moore.
    Variable ord : list A -> list A.
    Variable rep : list A -> option A.
    Hypothesis ord_perm : forall l, Permutation (ord l) l.
    Hypothesis rep_In : forall l, l <> [] -> exists x, rep l = Some x /\ In x l.

    Lemma moore_loop_minv (D : dfa A) : dfa_wf D -> forall fuel P P', minv D P ->
      moore_loop ord rep D fuel P = Some P' -> minv D P'.
    Proof.
      intros Hwf. induction fuel as [|f IH]; intros P P' Hinv; cbn [moore_loop]; [discriminate|].
      destruct (equal_sets P (refine ord rep D P)) eqn:E.
      - intros E1. inversion E1; subst P'. exact Hinv.
      - apply IH. apply (minv_refine ord rep ord_perm rep_In D Hwf P Hinv).
    Qed.

    Theorem dfa_quotient_spec (D : dfa A) : dfa_wf D -> NoDup (dQ D) -> NoDup (dF D) ->
      exists D', dfa_quotient canon ord rep D = Some D' /\ min_spec D D'.
    Proof.
      intros Hwf HndQ HndF.
      destruct (moore_loop ord rep D (S (S (length (dQ D)))) [dF D; diff (dQ D) (dF D)]) as [P|] eqn:E;
        [|exfalso; exact (moore_loop_terminates ord rep ord_perm rep_In D Hwf HndQ HndF E)].
      destruct (moore_loop_correct ord rep ord_perm rep_In D Hwf HndQ HndF P E) as [Hgp [HF [Hst Hco]]].
      pose proof Hgp as [Hne [Hcov Hdisj]].
      assert (HP : is_mn_partition D P) by (apply stable_partition_is_mn; assumption).
      assert (HndP : NoDup P).
      { pose proof (moore_loop_minv D Hwf _ _ P (minv_init D Hwf HndQ HndF) E) as [[Hndc _] _].
        apply nodup_concat_blocks; [exact Hndc|]. intros B HB. apply (Hne B HB). }
      destruct (mk_delta_some canon D P rep Hwf) as [delta Ed].
      { intros B HB. apply (Hne B HB). }
      { exact Hcov. }
      { intros B HB. destruct (Hne B HB) as [Hn _]. apply rep_In. exact Hn. }
      destruct (block_of P (dq0 D)) as [B0|] eqn:Eb;
        [|exfalso; revert Eb; apply TableProofs.block_of_cover; apply Hcov; exact (proj1 Hwf)].
      destruct (mk_delta_is_quotient canon canon_In D P rep delta B0 (fun B => meetsb B (dF D)) Hwf HP) as [HQ Hrng].
      { intros B v HB Ev. destruct (Hne B HB) as [Hn _]. destruct (rep_In B Hn) as [x [Ex Hx]].
        rewrite Ev in Ex. inversion Ex; subst x. exact Hx. }
      { exact Ed. }
      { exact Eb. }
      { intros B HB. apply meetsb_spec. }
      eexists. split.
      - unfold dfa_quotient. rewrite E, Ed, Eb. reflexivity.
      - apply (min_spec_of_quotient D P _ Hwf HP HQ Hrng). cbn [dQ]. apply (canon_states_NoDup D P HP HndP).
    Qed.
  End Moore.

  (* ---------- 3. Hopcroft as coded ---------- *)
  Section Hopcroft.
    Variable ordB : list (list A) -> list (list A).
    Variable pick : picker (list A * nat).
    Hypothesis ordB_perm : forall l, Permutation (ordB l) l.
    Hypothesis pick_ok : picker_ok pick.

    Lemma hop_loop_linv (D : dfa A) : dfa_wf D -> forall fuel Pcal Wcal P, linv D Pcal Wcal ->
      hop_loop ordB pick D fuel Pcal Wcal = Some P -> linv D P [].
    Proof.
      intros Hwf. induction fuel as [|f IH]; intros Pcal Wcal P Hinv; cbn [hop_loop]; [discriminate|].
      destruct (pick Wcal) as [[[W a] rest]|] eqn:Epick.
      - destruct (hop_round_inv ordB pick ordB_perm pick_ok D Hwf Pcal Wcal W a rest Hinv Epick) as [Hinv' _].
        destruct (hop_round ordB D W a Pcal rest) as [Pc Wc]. cbn [fst snd] in Hinv'. apply IH. exact Hinv'.
      - intros E. inversion E; subst P.
        rewrite (picker_none pick Wcal pick_ok Epick) in Hinv. exact Hinv.
    Qed.

    (* every target stored by hop_delta is the name of a block *)
    Lemma hop_delta_range (D : dfa A) (P : list (list A)) k S1 :
      In (k, S1) (hop_delta canon ordB D P) -> In S1 (map canon P).
    Proof.
      intros Hi. destruct (hop_delta_entries canon ordB ordB_perm D P _ Hi) as [a [Q1 [Q2 [v [_ [_ [HQ2 [_ [_ Ee]]]]]]]]].
      inversion Ee; subst. apply in_map. exact HQ2.
    Qed.

    Theorem dfa_hopcroft_spec (D : dfa A) : dfa_wf D -> NoDup (dQ D) -> NoDup (dF D) ->
      exists D', dfa_hopcroft canon ordB pick D = Some D' /\ min_spec D D'.
    Proof.
      intros Hwf HndQ HndF.
      destruct (hop_loop ordB pick D (hop_fuel D) (hop_P0 D) (hop_W0 D)) as [P|] eqn:E;
        [|exfalso; exact (hop_loop_terminates ordB pick ordB_perm pick_ok D Hwf HndQ HndF E)].
      pose proof (hop_loop_linv D Hwf _ _ _ P (linv_init D Hwf HndQ HndF) E) as Hlinv.
      destruct (hop_exit D P Hlinv) as [Hgp [HF [Hst Hco]]].
      pose proof Hgp as [Hne [Hcov Hdisj]].
      assert (HP : is_mn_partition D P) by (apply stable_partition_is_mn; assumption).
      assert (HndP : NoDup P) by (destruct Hlinv as [[_ [_ [_ Hn]]] _]; exact Hn).
      destruct (hopcroft_assembles_gen canon ordB canon_In ordB_perm D Hwf P Hgp) as [D' [E' HQ]].
      exists D'. split.
      - unfold dfa_hopcroft. cbv zeta. unfold hop_P0, hop_W0 in E. rewrite E. exact E'.
      - destruct (block_of P (dq0 D)) as [B0|] eqn:Eb; [|discriminate E'].
        injection E' as E'. subst D'.
        apply (min_spec_of_quotient D P _ Hwf HP HQ).
        + cbn [dD dQ]. intros k S1. apply hop_delta_range.
        + cbn [dQ]. apply (canon_states_NoDup D P HP HndP).
    Qed.
  End Hopcroft.
End Final.

Print Assumptions dfa_minimize_spec.
Print Assumptions dfa_quotient_spec.
Print Assumptions dfa_hopcroft_spec.
Print Assumptions min_spec_count_bounds.
Print Assumptions min_spec_minimal.
