(* The concrete syntaxes of regular expressions (gambatools/regexp.py, regexp.g4, regexp_simple.g4).
     print_full   = print_regexp          "(l + r)", "(l . r)", "(x)*"            (fully parenthesised)
     print_simple = print_regexp_simple   minimal parentheses, concatenation is juxtaposition, no spaces
     print_str    = Regexp.__str__        like print_simple with " . " and " + "
   precedences (regexp.precedence): atoms 10 > iteration 9 > concatenation 8 > sum 7; is_left_associative and
   is_right_associative are both constantly True, so an operand is parenthesised iff its precedence is strictly
   smaller than the precedence of the operator.
   Texts are lists of character codes (coding of Model/Tokens.v: '0' = 148, '1' = 149, other ASCII = ord);
   `Sym a` prints as the single code a.
   parse_simple is a reference recursive-descent parser for the grammar of regexp_simple.g4 written with
   precedence levels
       sum := cat ('+' cat)* ;  cat := star star* ;  star := atom '*'* ;  atom := '0' | '1' | symbol | '(' sum ')'
   (left-associative: ANTLR's left-recursive alternatives `expression expression` and `expression '+' expression`
   associate to the left).  The ANTLR-generated parsers themselves are outside the model; the harness compares them
   with parse_simple.  White space / comments (hidden channels of the lexer) are not part of the token list.
   Definitions only. *)
From GT Require Import Base.Prelude Model.Regexp.

Definition c_0 := 148.      (* '0' *)
Definition c_1 := 149.      (* '1' *)
Definition c_plus := 43.
Definition c_star := 42.
Definition c_lpar := 40.
Definition c_rpar := 41.
Definition c_dot := 46.
Definition c_space := 32.
Definition syntax_chars : list nat := [c_0; c_1; c_plus; c_star; c_lpar; c_rpar; c_dot; c_space].

(* a symbol code is any code that is not a character of the syntax (in the real grammars: IDENTIFIER) *)
Definition is_symbol_code (c : nat) : bool := negb (mem c syntax_chars).
Fixpoint symbols_ok (r : re) : Prop :=
  match r with
  | Zero | One => True
  | Sym a => is_symbol_code a = true
  | Star x => symbols_ok x
  | Sum l x | Cat l x => symbols_ok l /\ symbols_ok x
  end.

Definition prec (r : re) : nat :=
  match r with
  | Zero | One | Sym _ => 10
  | Star _ => 9
  | Cat _ _ => 8
  | Sum _ _ => 7
  end.

(* print_expression(x, needs_parentheses) *)
Definition paren (b : bool) (s : list nat) : list nat := if b then c_lpar :: s ++ [c_rpar] else s.

(* print_regexp_simple *)
Fixpoint print_simple (r : re) : list nat :=
  match r with
  | Zero => [c_0]
  | One => [c_1]
  | Sym a => [a]
  | Star x => paren (Nat.ltb (prec x) 9) (print_simple x) ++ [c_star]
  | Sum l x => paren (Nat.ltb (prec l) 7) (print_simple l) ++ [c_plus] ++ paren (Nat.ltb (prec x) 7) (print_simple x)
  | Cat l x => paren (Nat.ltb (prec l) 8) (print_simple l) ++ paren (Nat.ltb (prec x) 8) (print_simple x)
  end.

(* Regexp.__str__ *)
Fixpoint print_str (r : re) : list nat :=
  match r with
  | Zero => [c_0]
  | One => [c_1]
  | Sym a => [a]
  | Star x => paren (Nat.ltb (prec x) 9) (print_str x) ++ [c_star]
  | Sum l x => paren (Nat.ltb (prec l) 7) (print_str l) ++ [c_space; c_plus; c_space] ++ paren (Nat.ltb (prec x) 7) (print_str x)
  | Cat l x => paren (Nat.ltb (prec l) 8) (print_str l) ++ [c_space; c_dot; c_space] ++ paren (Nat.ltb (prec x) 8) (print_str x)
  end.

(* print_regexp *)
Fixpoint print_full (r : re) : list nat :=
  match r with
  | Zero => [c_0]
  | One => [c_1]
  | Sym a => [a]
  | Star x => [c_lpar] ++ print_full x ++ [c_rpar; c_star]
  | Sum l x => [c_lpar] ++ print_full l ++ [c_space; c_plus; c_space] ++ print_full x ++ [c_rpar]
  | Cat l x => [c_lpar] ++ print_full l ++ [c_space; c_dot; c_space] ++ print_full x ++ [c_rpar]
  end.

(* ---- reference parser of the simple syntax ---- *)
(* characters that can start an atom *)
Definition atom_start (c : nat) : bool := is_symbol_code c || Nat.eqb c c_0 || Nat.eqb c c_1 || Nat.eqb c c_lpar.

Section Level.
  (* parser used for the expression after an opening parenthesis (the same parser with less fuel) *)
  Variable inner : list nat -> option (re * list nat).

  Definition p_atom (s : list nat) : option (re * list nat) :=
    match s with
    | [] => None
    | c :: rest =>
      if is_symbol_code c then Some (Sym c, rest)
      else if Nat.eqb c c_0 then Some (Zero, rest)
      else if Nat.eqb c c_1 then Some (One, rest)
      else if Nat.eqb c c_lpar then
        match inner rest with
        | Some (r, c' :: rest') => if Nat.eqb c' c_rpar then Some (r, rest') else None
        | _ => None
        end
      else None
    end.

  (* '*'* *)
  Fixpoint star_loop (acc : re) (s : list nat) : re * list nat :=
    match s with
    | c :: rest => if Nat.eqb c c_star then star_loop (Star acc) rest else (acc, s)
    | [] => (acc, [])
    end.

  Definition p_star (s : list nat) : option (re * list nat) :=
    match p_atom s with
    | Some (r, rest) => Some (star_loop r rest)
    | None => None
    end.

  (* star*: as long as the next character starts an atom; n bounds the number of iterations *)
  Fixpoint cat_loop (n : nat) (acc : re) (s : list nat) : option (re * list nat) :=
    match s with
    | [] => Some (acc, [])
    | c :: _ =>
      if atom_start c then
        match n with
        | 0 => None
        | S n' => match p_star s with
                  | Some (r, rest) => cat_loop n' (Cat acc r) rest
                  | None => None
                  end
        end
      else Some (acc, s)
    end.

  Definition p_cat (s : list nat) : option (re * list nat) :=
    match p_star s with
    | Some (r, rest) => cat_loop (length rest) r rest
    | None => None
    end.

  (* ('+' cat)* *)
  Fixpoint sum_loop (n : nat) (acc : re) (s : list nat) : option (re * list nat) :=
    match s with
    | [] => Some (acc, [])
    | c :: rest =>
      if Nat.eqb c c_plus then
        match n with
        | 0 => None
        | S n' => match p_cat rest with
                  | Some (r, rest') => sum_loop n' (Sum acc r) rest'
                  | None => None
                  end
        end
      else Some (acc, s)
    end.

  Definition p_sum_level (s : list nat) : option (re * list nat) :=
    match p_cat s with
    | Some (r, rest) => sum_loop (length rest) r rest
    | None => None
    end.
End Level.

(* fuel = nesting depth of parentheses *)
Fixpoint p_sum (fuel : nat) (s : list nat) : option (re * list nat) :=
  p_sum_level (match fuel with 0 => fun _ => None | S f => p_sum f end) s.

Definition parse_simple (s : list nat) : option re :=
  match p_sum (length s) s with
  | Some (r, []) => Some r
  | _ => None
  end.

(* ---- left-associated normal form (what the parser produces) ---- *)
Definition is_sum (r : re) : bool := match r with Sum _ _ => true | _ => false end.
Definition is_cat (r : re) : bool := match r with Cat _ _ => true | _ => false end.

Fixpoint left_normal (r : re) : Prop :=
  match r with
  | Zero | One | Sym _ => True
  | Star x => left_normal x
  | Sum l x => left_normal l /\ left_normal x /\ is_sum x = false
  | Cat l x => left_normal l /\ left_normal x /\ is_cat x = false
  end.

(* Sum l b / Cat l b with the right operand's spine re-associated to the left *)
Fixpoint sum_app (l b : re) : re :=
  match b with
  | Sum b1 b2 => Sum (sum_app l b1) b2
  | _ => Sum l b
  end.
Fixpoint cat_app (l b : re) : re :=
  match b with
  | Cat b1 b2 => Cat (cat_app l b1) b2
  | _ => Cat l b
  end.
Fixpoint lassoc (r : re) : re :=
  match r with
  | Zero | One | Sym _ => r
  | Star x => Star (lassoc x)
  | Sum l x => sum_app (lassoc l) (lassoc x)
  | Cat l x => cat_app (lassoc l) (lassoc x)
  end.
