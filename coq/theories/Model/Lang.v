(* Model of gambatools.language_algorithms (finite languages as lists of words, compared as sets). *)
From GT Require Import Base.Prelude.

Definition lang_mem (w : word) (L : list word) : bool := mem w L.

Definition l_intersection (L1 L2 : list word) : list word := inter L1 L2.
Definition l_union (L1 L2 : list word) : list word := union L1 L2.
Definition l_symmetric_difference (L1 L2 : list word) : list word := diff L1 L2 ++ diff L2 L1.
Definition l_concatenation (L1 L2 : list word) : list word := flat_map (fun w1 => map (fun w2 => w1 ++ w2) L2) L1.
Definition l_reverse (L : list word) : list word := map (@rev nat) L.
Definition l_words_of_length_n (Sg : list nat) (n : nat) : list word := words_of_length Sg n.
Definition l_words_up_to_n (Sg : list nat) (n : nat) : list word := words_upto Sg n.

(* language_no_prefix (as repaired, fix F4): w in L such that no proper prefix w[:i], 0 <= i < len(w), is in L *)
Definition has_prefix_in (L : list word) (w : word) : bool :=
  existsb (fun i => mem (firstn i w) L) (seq 0 (length w)).
Definition l_no_prefix (L : list word) : list word := filter (fun w => negb (has_prefix_in L w)) L.

(* language_no_extend: w in L that is not a proper prefix of any word of L *)
Fixpoint is_prefix (v w : word) : bool :=
  match v, w with
  | [], _ => true
  | a :: v', b :: w' => Nat.eqb a b && is_prefix v' w'
  | _ :: _, [] => false
  end.
Definition is_proper_prefix (v w : word) : bool := is_prefix v w && negb (eqb w v).
Definition l_no_extend (L : list word) : list word := filter (fun w => forallb (fun v => negb (is_proper_prefix w v)) L) L.
