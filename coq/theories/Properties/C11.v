(* C11 — TM simulation follows Sipser semantics with a three-valued bounded verdict.
   Specification side (Proofs/TMProofs.v): an infinite tape `nat -> symbol`, `step_s` (missing transition = move to
   q_reject writing the symbol back and moving right; 'L' at cell 0 stays), `enters_within T c q k` = the machine is in
   state q after some i <= k steps and in no halting state before.  Model side (Model/TM.v): the Python's finite list
   tape that is extended by one blank whenever the head reaches its end. *)
From GT Require Import Base.Prelude Model.TM Proofs.TMProofs.

Theorem C11_verdict_true : forall T w k,
  tm_accepts T w k = Some true <-> enters_within T (init_s T w) (tqa T) k.
Proof. exact tm_verdict_true. Qed.

Theorem C11_verdict_false : forall T w k, tqa T <> tqr T ->
  (tm_accepts T w k = Some false <-> enters_within T (init_s T w) (tqr T) k).
Proof. exact tm_verdict_false. Qed.

Theorem C11_verdict_undecided : forall T w k, tqa T <> tqr T ->
  (tm_accepts T w k = None <->
   ~ enters_within T (init_s T w) (tqa T) k /\ ~ enters_within T (init_s T w) (tqr T) k).
Proof. exact tm_verdict_undecided. Qed.

(* a larger budget never changes a decided verdict *)
Theorem C11_monotone : forall T w k k' b, k <= k' -> tm_accepts T w k = Some b -> tm_accepts T w k' = Some b.
Proof. exact tm_monotone. Qed.

(* the recorded configuration sequence: starts at the initial configuration, entry i is the i-th iterate of the
   transition function, is a valid recording (only the last entry may be halting; it stops early only in a halting
   state), refines the infinite-tape semantics, and its last entry agrees with the verdict *)
Theorem C11_trace : forall T w k,
  let tr := tm_simulate T w k in
  (exists l, tr = tm_init T w :: l) /\
  (forall i, i < length tr -> nth i tr (tm_init T w) = iter_c T i (tm_init T w)) /\
  valid_trace T k tr /\
  (forall i, sim T (iter_c T i (tm_init T w)) (iter_s T i (init_s T w))) /\
  tm_accepts T w k = verdict_of T (cstate (last tr (tm_init T w))).
Proof.
  exact (fun T w k => conj (tm_trace_head T k (tm_init T w))
        (conj (tm_trace_nth T k (tm_init T w))
        (conj (tm_trace_valid T k (tm_init T w))
        (conj (fun i => sim_iter T i _ _ (sim_init T w))
              (tm_trace_verdict T k (tm_init T w)))))).
Qed.

Print Assumptions C11_verdict_true.
Print Assumptions C11_verdict_false.
Print Assumptions C11_verdict_undecided.
Print Assumptions C11_monotone.
Print Assumptions C11_trace.
