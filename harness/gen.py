"""Case generators shared by the property modules.  Every random choice comes from the rng passed in."""
import itertools


def all_words(nsyms, n):
    out = []
    for k in range(n + 1):
        out.extend([list(w) for w in itertools.product(range(nsyms), repeat=k)])
    return out


def re_trees(nodes, nsyms):
    """all regexp trees with exactly `nodes` nodes over leaves 0, 1, symbols 0..nsyms-1"""
    memo = {}

    def go(n):
        if n in memo:
            return memo[n]
        if n == 1:
            r = [['0'], ['1']] + [['s', a] for a in range(nsyms)]
        else:
            r = [['*', t] for t in go(n - 1)]
            for k in range(1, n - 1):
                for l in go(k):
                    for rr in go(n - 1 - k):
                        r.append(['+', l, rr])
                        r.append(['.', l, rr])
        memo[n] = r
        return r
    return go(nodes)


def random_re(rng, depth, nsyms):
    if depth == 0 or rng.random() < 0.15:
        x = rng.random()
        if x < 0.12:
            return ['0']
        if x < 0.27:
            return ['1']
        return ['s', rng.randrange(nsyms)]
    x = rng.random()
    if x < 0.3:
        return ['*', random_re(rng, depth - 1, nsyms)]
    op = '+' if x < 0.62 else '.'
    return [op, random_re(rng, depth - 1, nsyms), random_re(rng, depth - 1, nsyms)]


def re_nodes(t):
    return 1 + sum(re_nodes(x) for x in t[1:] if isinstance(x, list))


def re_has_nested_star(t, under=False):
    if t[0] == '*':
        return under or re_has_nested_star(t[1], True)
    return any(re_has_nested_star(x, under) for x in t[1:] if isinstance(x, list))


# ---------------------------------------------------------------- automata
def all_dfas(nstates, sigma):
    """all total DFAs with states q0..q{n-1}, initial q0, over sigma (list of chars), all F"""
    Q = ['q%d' % i for i in range(nstates)]
    keys = [(q, a) for q in Q for a in sigma]
    out = []
    for targets in itertools.product(Q, repeat=len(keys)):
        for fbits in range(2 ** nstates):
            F = [Q[i] for i in range(nstates) if fbits >> i & 1]
            out.append({'Q': Q, 'Sigma': list(sigma), 'delta': [[q, a, t] for (q, a), t in zip(keys, targets)], 'q0': 'q0', 'F': F})
    return out


def random_dfa(rng, nstates, sigma, names=None, pfinal=0.4):
    Q = names or ['q%d' % i for i in range(nstates)]
    delta = [[q, a, rng.choice(Q)] for q in Q for a in sigma]
    x = rng.random()
    if x < 0.08:
        F = []
    elif x < 0.16:
        F = list(Q)
    else:
        F = [q for q in Q if rng.random() < pfinal]
    return {'Q': list(Q), 'Sigma': list(sigma), 'delta': delta, 'q0': Q[0], 'F': F}


def all_nfas(nstates, sigma, eps='_'):
    Q = ['q%d' % i for i in range(nstates)]
    keys = [(q, a) for q in Q for a in list(sigma) + [eps]]
    subsets = [[Q[i] for i in range(nstates) if b >> i & 1] for b in range(2 ** nstates)]
    out = []
    for targets in itertools.product(subsets, repeat=len(keys)):
        for F in subsets:
            out.append({'Q': Q, 'Sigma': list(sigma), 'delta': [[q, a, t] for (q, a), t in zip(keys, targets) if t], 'q0': 'q0', 'F': F, 'eps': eps})
    return out


def random_nfa(rng, nstates, sigma, eps='_', names=None, peps=0.25, density=0.3):
    Q = names or ['q%d' % i for i in range(nstates)]
    delta = []
    for q in Q:
        for a in list(sigma) + [eps]:
            p = peps if a == eps else density
            ts = [t for t in Q if rng.random() < p * (2.0 / max(2, len(Q)) + 0.3)]
            if ts:
                delta.append([q, a, ts])
    x = rng.random()
    if x < 0.08:
        F = []
    elif x < 0.16:
        F = list(Q)
    else:
        F = [q for q in Q if rng.random() < 0.35]
    return {'Q': list(Q), 'Sigma': list(sigma), 'delta': delta, 'q0': Q[0], 'F': F, 'eps': eps}


def words_str(sigma, n):
    out = []
    for k in range(n + 1):
        out.extend(''.join(w) for w in itertools.product(sigma, repeat=k))
    return out


def random_words(rng, sigma, count, maxlen):
    if not sigma:
        return ['']
    return [''.join(rng.choice(sigma) for _ in range(rng.randint(0, maxlen))) for _ in range(count)]


def nfa_has_eps_cycle(c):
    eps = c['eps']
    g = {}
    for (q, a, ts) in c['delta']:
        if a == eps:
            g.setdefault(q, set()).update(ts)
    for s in g:
        seen, todo = set(), list(g[s])
        while todo:
            x = todo.pop()
            if x == s:
                return True
            if x not in seen:
                seen.add(x)
                todo.extend(g.get(x, ()))
    return False


# ---------------------------------------------------------------- grammars
def _rhs_pool(vs, ts, maxlen):
    syms = [['V', v] for v in vs] + [['T', t] for t in ts]
    pool = [[]]
    for n in range(1, maxlen + 1):
        pool += [list(x) for x in itertools.product(syms, repeat=n)]
    return pool


def all_rules(vs, ts, maxlen=2):
    return [[v, rhs] for v in vs for rhs in _rhs_pool(vs, ts, maxlen)]


def mk_cfg(rules, S='S', extra_vars=(), extra_terms=()):
    V, T = [S] + [v for v in extra_vars if v != S], list(extra_terms)
    for v, rhs in rules:
        if v not in V:
            V.append(v)
        for k, n in rhs:
            if k == 'V' and n not in V:
                V.append(n)
            if k == 'T' and n not in T:
                T.append(n)
    return {'V': V, 'Sigma': T, 'R': [[v, [list(s) for s in rhs]] for v, rhs in rules], 'S': S}


def random_cfg(rng, nvars=3, nterms=2, nrules=5, maxlen=4, peps=0.15, punit=0.15, varnames=None):
    vs = varnames or ['S', 'A', 'B', 'C', 'D'][:nvars]
    ts = ['a', 'b', 'c'][:nterms]
    rules = []
    for _ in range(nrules):
        v = rng.choice(vs)
        x = rng.random()
        if x < peps:
            rhs = []
        elif x < peps + punit:
            rhs = [['V', rng.choice(vs)]]
        else:
            n = rng.randint(1, maxlen)
            rhs = [(['V', rng.choice(vs)] if rng.random() < 0.5 else ['T', rng.choice(ts)]) for _ in range(n)]
        rules.append([v, rhs])
    if not any(v == vs[0] for v, _ in rules):
        rules.insert(0, [vs[0], [['T', ts[0]]]])
    return mk_cfg(rules, vs[0], extra_vars=vs, extra_terms=ts if rng.random() < 0.5 else ())


def random_cnf(rng, nvars=3, nterms=2, nrules=6, start_eps=0.2, names=None):
    """CNF: S not on any right-hand side"""
    vs = (names or ['S', 'A', 'B', 'C', 'D'])[:max(2, nvars)]
    ts = ['a', 'b', 'c'][:nterms]
    rules = []
    for _ in range(nrules):
        v = rng.choice(vs)
        if rng.random() < 0.45:
            rules.append([v, [['T', rng.choice(ts)]]])
        else:
            rules.append([v, [['V', rng.choice(vs[1:])], ['V', rng.choice(vs[1:])]]])
    if rng.random() < start_eps:
        rules.append(['S', []])
    if not any(v == 'S' for v, _ in rules):
        rules.insert(0, ['S', [['V', vs[1]], ['V', vs[-1]]]])
    return mk_cfg(rules, 'S', extra_vars=vs, extra_terms=ts)


# ---------------------------------------------------------------- PDAs
def random_pda(rng, nstates=3, sigma='ab', gamma='xy', eps='_', ntrans=6, pfinal=0.4, kinds=None):
    Q = ['q%d' % i for i in range(nstates)]
    kinds = kinds or ['push', 'pop', 'noop', 'replace', 'push', 'pop']
    delta = []
    for _ in range(ntrans):
        p, q = rng.choice(Q), rng.choice(Q)
        a = rng.choice(list(sigma) + [eps]) if sigma else eps
        k = rng.choice(kinds)
        g = list(gamma) or ['x']
        if k == 'push':
            u, v = eps, rng.choice(g)
        elif k == 'pop':
            u, v = rng.choice(g), eps
        elif k == 'noop':
            u, v = eps, eps
        else:
            u, v = rng.choice(g), rng.choice(g)
        t = [p, a, u, q, v]
        if t not in delta:
            delta.append(t)
    x = rng.random()
    F = [] if x < 0.06 else (list(Q) if x < 0.12 else [q for q in Q if rng.random() < pfinal])
    gm = sorted(set(gamma) | {t[2] for t in delta if t[2] != eps} | {t[4] for t in delta if t[4] != eps})
    return {'Q': Q, 'Sigma': list(sigma), 'Gamma': gm, 'delta': delta, 'q0': 'q0', 'F': F, 'eps': eps}


def fan_pda(rng):
    """letter-nondeterministic PDA: every letter leads from q0 to 1-3 states, sparse continuations (mostly without stack use), no epsilon-input moves"""
    sigma = rng.choice(['ab', 'ab', 'abc'])
    eps = rng.choice(['_', ''])
    k = rng.randint(3, 5)
    Q = ['q%d' % i for i in range(k + 1)]
    delta = []
    for a in sigma:
        for q in rng.sample(Q[1:], rng.randint(1, min(3, k))):
            delta.append([Q[0], a, eps, q, eps])
    for q in Q[1:]:
        for a in sigma:
            if rng.random() < 0.35:
                u, v = rng.choice([(eps, eps), (eps, eps), (eps, 'x'), ('x', eps)])
                t = [q, a, u, rng.choice(Q), v]
                if t not in delta:
                    delta.append(t)
    F = [q for q in Q[1:] if rng.random() < 0.3] or [Q[-1]]
    return {'Q': Q, 'Sigma': list(sigma), 'Gamma': ['x'], 'delta': delta, 'q0': 'q0', 'F': F, 'eps': eps}


# state / variable names chosen so that naive string handling goes wrong: names that are substrings or prefixes of each other,
# the empty name (legal for the class constructors), separators inside names, lexicographic vs numeric order, coinciding concatenations
NAME_POOLS = [
    ['q1', 'q10', 'q11', 'q100', 'q0', 'q01'],
    ['a', 'a_b', 'b_c', 'c', 'a_b_c', 'b'],
    ['q9', 'q10', 'q8', 'q11', 'q7', 'q100'],
    ['N', 'NP', 'P', 'PP', 'NPP', 'S'],
    ['x', 'x1', '1x', '11', '1', 'x11'],
    ['', 'p', 'pp', 'q', 'qp', 'pq'],
]


def tricky_names(rng, n, allow_empty=False):
    pool = rng.choice(NAME_POOLS if allow_empty else NAME_POOLS[:-1])
    names = rng.sample(pool, min(n, len(pool)))
    return names + ['z%d' % i for i in range(n - len(names))]


def chain_nfa(rng, k=None, sigma='ab', eps='_'):
    """epsilon chain p00 -> p01 -> ... of k states (subset labels longer than 64 characters that share long prefixes) plus a few other states"""
    k = k or rng.randint(16, 19)
    chain = ['p%02d' % i for i in range(k)]
    extra = ['y', 'z', 'w'][:rng.randint(2, 3)]
    Q = chain + extra
    d = {}
    for i in range(k - 1):
        d.setdefault((chain[i], eps), set()).add(chain[i + 1])
    for x in extra:
        for a in sigma:
            if rng.random() < 0.6:
                d.setdefault((x, a), set()).add(rng.choice(extra + [chain[0]]))
    for a in sigma:
        d.setdefault((chain[-1], a), set()).add(rng.choice(extra))
        if rng.random() < 0.5:
            d.setdefault((rng.choice(chain), a), set()).add(rng.choice(extra))
    F = [x for x in extra if rng.random() < 0.5] or [extra[-1]]
    return {'Q': Q, 'Sigma': list(sigma), 'delta': sorted([q, a, sorted(t)] for (q, a), t in d.items()), 'q0': chain[0], 'F': F, 'eps': eps}


def spelling_pda(rng):
    """two runs reach the same state with the stacks [x, y] and [xy] (same spelling, different stacks) and continue differently"""
    x, y = rng.choice([('x', 'y'), ('a', 'b'), ('1', '2'), ('p', 'q')])
    xy = x + y
    e = rng.choice(['_', ''])
    Q = ['s', 'm', 'n', 't', 'u', 'f', 'g']
    delta = [['s', 'a', e, 'm', x], ['m', 'a', e, 't', y],          # aa: (t, [x, y])
             ['s', 'a', e, 'n', e], ['n', 'a', e, 't', xy],         # aa: (t, [xy])
             ['t', 'b', y, 'u', e], ['u', 'b', x, 'f', e],          # pops y then x
             ['t', 'b', xy, 'g', e]]                                # pops xy
    rng.shuffle(delta)
    F = rng.choice([['f'], ['g'], ['f', 'g']])
    return {'Q': Q, 'Sigma': ['a', 'b'], 'Gamma': sorted([x, y, xy]), 'delta': delta, 'q0': 's', 'F': F, 'eps': e}


def retag(x, rng, allow_empty=False):
    """the same DFA / NFA / PDA with its states renamed to unusual (but legal for the class constructors) names"""
    names = tricky_names(rng, len(x['Q']), allow_empty=allow_empty)
    rng.shuffle(names)
    m = dict(zip(x['Q'], names))
    y = dict(x)
    y['Q'] = [m[q] for q in x['Q']]
    y['q0'] = m[x['q0']]
    y['F'] = [m[q] for q in x['F']]
    if 'Gamma' in x:
        y['delta'] = [[m[t[0]], t[1], t[2], m[t[3]], t[4]] for t in x['delta']]
    elif 'eps' in x:
        y['delta'] = [[m[q], a, [m[t] for t in ts]] for q, a, ts in x['delta']]
    else:
        y['delta'] = [[m[q], a, m[t]] for q, a, t in x['delta']]
    return y


def nullable_chain_cfg(rng):
    """the start variable derives the empty word only indirectly (through unit rules / products of nullable variables), no rule S -> epsilon"""
    V = ['S', 'A', 'B', 'C'][:rng.randint(2, 4)]
    rules = []
    last = V[-1]
    rules.append([last, []])
    rules.append([last, [['T', rng.choice('ab')], ['V', last]]] if rng.random() < 0.7 else [last, [['T', 'a']]])
    for i in range(len(V) - 2, -1, -1):
        v, nxt = V[i], V[i + 1]
        shape = rng.random()
        if shape < 0.4:
            rules.append([v, [['V', nxt]]])
        elif shape < 0.8:
            rules.append([v, [['V', nxt], ['V', rng.choice(V[i + 1:])]]])
        else:
            rules.append([v, [['V', nxt], ['V', nxt], ['V', nxt]]])
        if rng.random() < 0.5:
            rules.append([v, [['T', rng.choice('ab')]] + ([['V', v]] if rng.random() < 0.5 else [])])
    rules.sort(key=lambda r: V.index(r[0]))
    return mk_cfg(rules, 'S', extra_vars=V)


def replace_pda(rng):
    """a run that pushes X, replaces it by Y (pop X, push Y) and then pops: distinguishes the popped from the pushed symbol of a replace move"""
    x, y = rng.choice([('x', 'y'), ('y', 'x'), ('x', '$')])
    e = rng.choice(['_', 'ε'])
    a, b, c, d = rng.sample(['a', 'b', 'c', 'd'], 4) if rng.random() < 0.5 else ('a', 'b', 'a', 'b')
    delta = [['q0', a, e, 'q1', x], ['q1', b, x, 'q2', y], ['q2', c, y, 'q3', e], ['q2', d, x, 'q4', e]]
    if rng.random() < 0.5:
        delta.append(['q1', a, e, 'q1', x])
    rng.shuffle(delta)
    F = rng.choice([['q3'], ['q4'], ['q3', 'q4']])
    sigma = sorted(set([a, b, c, d]))
    return {'Q': ['q0', 'q1', 'q2', 'q3', 'q4'], 'Sigma': sigma, 'Gamma': sorted(set([x, y])), 'delta': delta, 'q0': 'q0', 'F': F, 'eps': e}


def loop_exit_pda(rng):
    """a balanced loop at p (push / pop) followed by an exit to another state through a second balanced pair: the grammar of
    pda_to_cfg needs the splitting rule A_pq -> A_pp A_pq"""
    e = rng.choice(['_', 'ε'])
    a, b, c, d = ('a', 'b', 'a', 'b') if rng.random() < 0.5 else ('a', 'b', 'b', 'a')
    delta = [['p', a, e, 'p1', 'x'], ['p1', b, 'x', 'p', e], ['p', c, e, 'p2', 'y'], ['p2', d, 'y', 'q', e]]
    rng.shuffle(delta)
    return {'Q': ['p', 'p1', 'p2', 'q'], 'Sigma': ['a', 'b'], 'Gamma': ['x', 'y'], 'delta': delta, 'q0': 'p', 'F': ['q'], 'eps': e}


def drain_pda(rng):
    """accepts with symbols left on the stack, and the accepting state has epsilon pop moves of its own"""
    e = rng.choice(['_', 'ε'])
    delta = [['q0', 'a', e, 'q0', 'x'], ['q0', 'b', 'x', 'q1', e], ['q1', e, 'x', 'q2', e], ['q2', 'a', e, 'q1', 'z']]
    if rng.random() < 0.5:
        delta.append(['q1', 'b', 'z', 'q1', e])
    rng.shuffle(delta)
    return {'Q': ['q0', 'q1', 'q2'], 'Sigma': ['a', 'b'], 'Gamma': ['x', 'z'], 'delta': delta, 'q0': 'q0', 'F': ['q1'], 'eps': e}


def unit_cycle_cfg(rng):
    """unit rules forming a cycle, each variable of the cycle with an exit of its own (the unit closure must be complete for every order)"""
    k = rng.randint(2, 3)
    cyc = ['A', 'B', 'C'][:k]
    leaves = ['D', 'E', 'F'][:k]
    rules = [['S', [['T', 'a'], ['V', cyc[-1]]]], ['S', [['T', 'b'], ['V', cyc[0]]]]]
    for i, v in enumerate(cyc):
        rules.append([v, [['V', cyc[(i + 1) % k]]]])
        rules.append([v, [['V', leaves[i]]]])
    for i, l in enumerate(leaves):
        rules.append([l, [['T', 'abc'[i]]]])
    body = rules[2:]
    rng.shuffle(body)
    return mk_cfg(rules[:2] + body, 'S')


def relabel_re(t, codes):
    """rename the symbols 0..k-1 of a regexp tree to the given codes"""
    if t[0] == 's':
        return ['s', codes[t[1]]]
    return [t[0]] + [relabel_re(x, codes) if isinstance(x, list) else x for x in t[1:]]


def relabel_words(ws, codes):
    return [[codes[a] for a in w] for w in ws]


# symbol code lists (indices into conv.SYMS = 'abcdefgh01_ε'): plain letters, digits that clash with the constants 0 and 1, underscore / epsilon characters
CODE_SETS = [[0, 1, 2], [0, 1, 2], [8, 9, 0], [9, 0, 8], [0, 10, 11]]
