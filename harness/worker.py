"""Runs the implementation (imported from /repo/src) on a list of cases.
usage: worker.py <property> <infile.json> <outfile.json>
The environment (PYTHONHASHSEED, PYTHONPATH=/repo/src) is set by the caller."""
import sys
import os
import json
import importlib

sys.setrecursionlimit(3000)
here = os.path.dirname(os.path.abspath(__file__))
sys.path.insert(0, here)


def main():
    prop, infile, outfile = sys.argv[1:4]
    mod = importlib.import_module('props.' + prop)
    with open(infile) as f:
        cases = json.load(f)
    import gambatools  # noqa  (fail loudly if the tree cannot be imported)
    src = os.path.realpath(os.path.dirname(os.path.dirname(gambatools.__file__)))
    want = os.path.realpath(os.environ.get('GT_SRC', '/repo/src'))
    assert src == want, 'gambatools imported from %s, expected %s' % (src, want)
    if os.environ.get('VERIF_RECYCLE') == '1':
        # the object-recycling pass also runs under NON-DEFAULT GLOBAL SETTINGS that must not influence the property: the PDA closure
        # limit set to 3 where no PDA is involved (PDA_FREE), logging switched on where no output is read back (LOG_SAFE)
        from gambatools.global_settings import GambaTools
        if getattr(mod, 'PDA_FREE', False):
            GambaTools.pda_epsilon_closure_max_iterations = 3
        if getattr(mod, 'LOG_SAFE', False):
            GambaTools.enable_logging = True
            sys.stdout = open(os.devnull, 'w')
    out = []
    import conv
    for c in cases:
        conv.new_case()
        try:
            out.append(mod.observe(c))
        except BaseException as e:  # harness-level failure: recorded, reported by the driver
            out.append({'__harness_error__': '%s: %s' % (type(e).__name__, e)})
    with open(outfile, 'w') as f:
        json.dump(out, f)


if __name__ == '__main__':
    main()
