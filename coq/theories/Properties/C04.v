(* C04 — the three DFA minimisers of gambatools.dfa_algorithms (models in Model/Minimize.v):
     dfa_minimize  (table filling + dfa_from_table),
     dfa_quotient  (Moore refinement by successor-block signatures),
     dfa_hopcroft  (Hopcroft's algorithm exactly as coded),
   each succeed on every well-formed total DFA D (dfa_wf D; dQ D and dF D are sets, i.e. duplicate-free) and return the
   quotient automaton of D by Myhill-Nerode equivalence (C04_spec below): a well-formed DFA over the same alphabet that
   accepts the same words, whose states are pairwise distinguishable and are exactly the Myhill-Nerode classes of the
   states of D (each state of the result is a non-empty set of states of D, named by its canonical list).

   Result states are named by `canon_nat` (sorted duplicate-free list = print_state_set).
   The arbitrary choices of the Python code are parameters, all universally quantified:
     ord  : iteration order of a Python set of states   (any permutation of the set),
     ordB : iteration order of a Python set of blocks   (any permutation of the set),
     rep  : set_element(S) = next(iter(S))              (any function returning a member of a non-empty set),
     pick : W_cal.pop()                                 (any function returning a member and the remaining members).
   Hence the theorems hold for every behaviour of CPython's set iteration / set.pop.

   Consequences of C04_spec (for the result D' of any of the three routines):
     C04_state_count_bounds    : D' has at least as many states as any family of pairwise inequivalent states of D
                                 (e.g. one representative per class), and at most as many states as D;
     C04_minimal_when_reachable: if every state of D is reachable, no DFA for the language of D (over the same alphabet,
                                 any state type) has fewer states than D'.
   Unreachable states of D are NOT removed by these routines (they are classified like all others); minimality
   therefore needs the reachability hypothesis. *)
From GT Require Import Base.Prelude Base.Sort Model.DFA Model.NFA Model.Minimize.
From GT Require Import Proofs.PartitionDefs Proofs.MinimizeFinal.
From Coq Require Import Permutation.

(* words over the alphabet of D *)
Definition W (D : dfa nat) (w : word) : Prop := Forall (fun a => In a (dS D)) w.
(* Myhill-Nerode equivalence of two states of D *)
Definition mn (D : dfa nat) (p q : nat) : Prop :=
  forall w, W D w -> (In (drun D p w) (dF D) <-> In (drun D q w) (dF D)).

Definition C04_spec (D : dfa nat) (D' : dfa (list nat)) : Prop :=
  dfa_wf D' /\ dS D' = dS D /\ NoDup (dQ D') /\
  (* same language *)
  (forall w, W D w -> (dfa_lang D' w <-> dfa_lang D w)) /\
  (* the states of D' are pairwise distinguishable *)
  (forall S1 S2, In S1 (dQ D') -> In S2 (dQ D') -> S1 <> S2 ->
     exists w, W D w /\ ~ (In (drun D' S1 w) (dF D') <-> In (drun D' S2 w) (dF D'))) /\
  (* the states of D' are exactly the Myhill-Nerode classes of dQ D *)
  (forall S1, In S1 (dQ D') -> S1 <> [] /\ incl S1 (dQ D)) /\
  (forall q, In q (dQ D) -> exists S1, In S1 (dQ D') /\ In q S1) /\
  (forall S1 p q, In S1 (dQ D') -> In p S1 -> In q S1 -> mn D p q) /\
  (forall S1 S2 p q, In S1 (dQ D') -> In S2 (dQ D') -> In p S1 -> In q S2 -> mn D p q -> S1 = S2).

Theorem C04_table_filling : forall (ord : list nat -> list nat), (forall l, Permutation (ord l) l) ->
  forall D : dfa nat, dfa_wf D -> NoDup (dQ D) -> NoDup (dF D) ->
  exists D', dfa_minimize canon_nat ord D = Some D' /\ C04_spec D D'.
Proof. exact (fun ord Hord D => dfa_minimize_spec canon_nat (fun l y => canon_nat_In y l) ord Hord D). Qed.

Theorem C04_quotient : forall (ord : list nat -> list nat) (rep : list nat -> option nat),
  (forall l, Permutation (ord l) l) -> (forall l, l <> [] -> exists x, rep l = Some x /\ In x l) ->
  forall D : dfa nat, dfa_wf D -> NoDup (dQ D) -> NoDup (dF D) ->
  exists D', dfa_quotient canon_nat ord rep D = Some D' /\ C04_spec D D'.
Proof. exact (fun ord rep Hord Hrep D => dfa_quotient_spec canon_nat (fun l y => canon_nat_In y l) ord rep Hord Hrep D). Qed.

Theorem C04_hopcroft : forall (ordB : list (list nat) -> list (list nat)) (pick : picker (list nat * nat)),
  (forall l, Permutation (ordB l) l) -> picker_ok pick ->
  forall D : dfa nat, dfa_wf D -> NoDup (dQ D) -> NoDup (dF D) ->
  exists D', dfa_hopcroft canon_nat ordB pick D = Some D' /\ C04_spec D D'.
Proof. exact (fun ordB pick Hord Hpick D => dfa_hopcroft_spec canon_nat (fun l y => canon_nat_In y l) ordB pick Hord Hpick D). Qed.

Theorem C04_state_count_bounds : forall (D : dfa nat) (D' : dfa (list nat)), dfa_wf D -> NoDup (dQ D) -> C04_spec D D' ->
  (forall l, NoDup l -> incl l (dQ D) -> (forall p q, In p l -> In q l -> p <> q -> ~ mn D p q) ->
     length l <= length (dQ D')) /\
  length (dQ D') <= length (dQ D).
Proof. exact (fun D D' => min_spec_count_bounds D D'). Qed.

Theorem C04_minimal_when_reachable : forall (D : dfa nat) (D' : dfa (list nat)) (B : Type) (HB : Eqb B) (D2 : dfa B),
  dfa_wf D -> NoDup (dQ D) -> C04_spec D D' ->
  (forall q, In q (dQ D) -> exists w, W D w /\ drun D (dq0 D) w = q) ->
  dfa_wf D2 -> dS D2 = dS D -> (forall w, W D w -> (dfa_lang D w <-> dfa_lang D2 w)) ->
  length (dQ D') <= length (dQ D2).
Proof. exact (fun D D' B HB D2 => min_spec_minimal D D' D2). Qed.

Print Assumptions C04_table_filling.
Print Assumptions C04_quotient.
Print Assumptions C04_hopcroft.
Print Assumptions C04_state_count_bounds.
Print Assumptions C04_minimal_when_reachable.
