"""C18 - NFA union, concatenation, star on arbitrary operands vs the proved model (Model/NFAOps.v)."""
import coqlit as L
import gen as G
import conv

COQ_IMPORTS = ['Model.DFA', 'Model.NFA', 'Model.NFAOps', 'Judge.C18_judge']
PDA_FREE = True      # no PDA is involved: the recycling pass runs with GambaTools.pda_epsilon_closure_max_iterations = 3
LOG_SAFE = True      # no printed output is read back: the recycling pass runs with GambaTools.enable_logging = True
RULE = ('pairs of random epsilon-NFAs (1-4 states each, alphabet subsets of {a,b}) with disjoint state sets, state names drawn from q0..q9 / p0.. / s,t,u (so that names produced by the identifier generator collide with operand states), '
        'epsilon symbols in {\'\', _, e, ε} and different for the two operands in a third of the cases; operands as built by parse_nfa (defaultdict) and after an earlier nfa_accepts_word call (which creates empty entries); '
        'each of nfa_union, nfa_concatenation, nfa_repetition called with an explicit IdentifierGenerator(k), k in 0..3, and through the shared default generator after 0-3 earlier calls. '
        'Relation: valid NFA, new state not an operand state, language-equal (exact) to the proved model result, operands unchanged; structural layer: identical automaton. '
        'Non-trivial = both operands accept at least one word and have an epsilon or symbol transition; distinct by the operand texts.')
RULE += ' Added after the seeded rounds: unusual state names (gen.NAME_POOLS).'
CODES = {9: 'generated NFA invalid (harness)', 1: 'structure differs from the model, property-level relation holds'}
for op, nme in [(0, 'nfa_union'), (1, 'nfa_concatenation'), (2, 'nfa_repetition')]:
    c = 10 * (op + 1)
    CODES[c] = nme + ' raised although the operands are admissible'
    CODES[c + 1] = nme + ' returned a result although the model rejects the operands'
    CODES[c + 2] = nme + ' modified an operand'
    CODES[c + 3] = nme + ' returned an invalid NFA'
    CODES[c + 4] = nme + ': the new state is an operand state'
    CODES[c + 5] = nme + ': wrong language'
ASSUMPTIONS = ['operand state sets disjoint; the epsilon symbol of the first operand is not an input symbol of the second']
RESIDUE = 'IdentifierGenerator naming q{index} replayed as a stream computed from the generator index; defaultdict semantics'
SHARD = 40


def hashseeds(tier):
    return [0] if tier == 'quick' else [0, 1, 2]


def gen(rng, tier):
    quick = tier == 'quick'
    cases = []
    for _ in range(300 if quick else 4000):
        pool = rng.choice([['q0', 'q1', 'q2', 'q3', 'q4', 'q5'], ['q1', 'q0', 'p0', 'p1', 'q2', 's'], ['s', 't', 'u', 'v', 'w', 'x']] + G.NAME_POOLS)
        pool = list(pool)
        rng.shuffle(pool)
        k1, k2 = rng.randint(1, 3), rng.randint(1, 3)
        e1 = rng.choice(['', '_', 'e', 'ε'])
        e2 = e1 if rng.random() < 0.66 else rng.choice(['', '_', 'e', 'ε'])
        s1 = rng.choice(['a', 'ab', 'b'] + ([x for x in ['a' + e2, e2 + 'b'] if e2 and e2 != e1]))
        s2 = rng.choice(['a', 'ab', 'b'])      # (the epsilon symbol of the result is the first operand's: it must not be a symbol of the second)
        n1 = G.random_nfa(rng, k1, s1, e1, names=pool[:k1], peps=0.3)
        n2 = G.random_nfa(rng, k2, s2, e2, names=pool[k1:k1 + k2], peps=0.3)
        cases.append({'N1': n1, 'N2': n2, 'start': rng.randint(0, 3), 'history': rng.randint(0, 3), 'touch': rng.random() < 0.5})
    return cases


def observe(c):
    from gambatools import nfa_algorithms as NA
    from gambatools.identifier_generator import IdentifierGenerator
    from implutil import safe, ok
    import inspect
    N1, N2 = conv.nfa_obj(c['N1']), conv.nfa_obj(c['N2'])
    if c['touch']:
        safe(NA.nfa_accepts_word, N1, 'ab')
        safe(NA.nfa_accepts_word, N2, 'a')
    calls = []

    def snap():
        return [conv.nfa_case(N1), conv.nfa_case(N2)]

    def record(op, f, args, idx):
        before = snap()
        r = safe(f, *args)
        calls.append({'op': op, 'idx': idx, 'res': conv.nfa_case(r[1]) if ok(r) else None, 'unchanged': snap() == before, 'err': None if ok(r) else r[1]})
    # explicit generator
    record(0, NA.nfa_union, (N1, N2, IdentifierGenerator(c['start'])), c['start'])
    record(1, NA.nfa_concatenation, (N1, N2), 0)
    record(2, NA.nfa_repetition, (N1, IdentifierGenerator(c['start'])), c['start'])
    # default (shared) generator after a history of earlier calls

    def default_gen(f):
        for p in inspect.signature(f).parameters.values():
            if isinstance(p.default, IdentifierGenerator):
                return p.default
        return None
    for _ in range(c['history']):
        safe(NA.nfa_repetition, conv.nfa_obj(c['N2']))
        safe(NA.nfa_union, conv.nfa_obj(c['N1']), conv.nfa_obj(c['N2']))
    g = default_gen(NA.nfa_union)
    if g is not None:
        record(0, NA.nfa_union, (N1, N2), g.index)
    g = default_gen(NA.nfa_repetition)
    if g is not None:
        record(2, NA.nfa_repetition, (N1,), g.index)
    return {'calls': calls}


def encode(c, o):
    n1, n2 = c['N1'], c['N2']
    st = L.state_names(n1, n2)
    sy = L.Names()
    for a in 'ab':
        sy(a)
    E = lambda e: sy(('eps', e))

    def lit(n):
        f = lambda a: E(n['eps']) if a == n['eps'] else sy(a)
        delta = L.lst(L.pair(L.pair(L.nat(st(q)), L.nat(f(a))), L.nats(st(t) for t in ts)) for (q, a, ts) in n['delta'])
        return '(mkNFA %s %s %s %s %s %s)' % (L.nats(st(q) for q in n['Q']), L.nats(sy(a) for a in n['Sigma']), delta, L.nat(st(n['q0'])), L.nats(st(q) for q in n['F']), L.nat(E(n['eps'])))
    calls = []
    for cl in o['calls']:
        names = L.nats(st('q%d' % i) for i in range(cl['idx'], cl['idx'] + 12))
        calls.append(L.pair(L.nat(cl['op']), names, L.option(cl['res'], lit), L.boolean(cl['unchanged'])))
    return 'judge_C18 %s %s %s' % (lit(n1), lit(n2), L.lst(calls))


def explain(c):
    n1, n2 = c['N1'], c['N2']
    st = L.state_names(n1, n2)
    sy = L.Names()
    for a in 'ab':
        sy(a)
    E = lambda e: sy(('eps', e))

    def lit(n):
        f = lambda a: E(n['eps']) if a == n['eps'] else sy(a)
        delta = L.lst(L.pair(L.pair(L.nat(st(q)), L.nat(f(a))), L.nats(st(t) for t in ts)) for (q, a, ts) in n['delta'])
        return '(mkNFA %s %s %s %s %s %s)' % (L.nats(st(q) for q in n['Q']), L.nats(sy(a) for a in n['Sigma']), delta, L.nat(st(n['q0'])), L.nats(st(q) for q in n['F']), L.nat(E(n['eps'])))
    return 'explain_C18 %s %s %s' % (lit(n1), lit(n2), L.nats(st('q%d' % i) for i in range(c['start'], c['start'] + 12)))


def key(c):
    return conv.nfa_text(c['N1']) + '|' + conv.nfa_text(c['N2']) + '|%d|%d|%s' % (c['start'], c['history'], c['touch'])


def nontrivial(c, o):
    return bool(c['N1']['F']) and bool(c['N2']['F']) and bool(c['N1']['delta']) and bool(c['N2']['delta'])


def describe(c):
    return {'N1': conv.nfa_text(c['N1']), 'N2': conv.nfa_text(c['N2']), 'generator_start': c['start'], 'history_calls': c['history'], 'nfa_accepts_word_called_first': c['touch']}


def reproduce(c):
    return ('from gambatools.nfa_algorithms import *; from gambatools.identifier_generator import IdentifierGenerator; N1 = parse_nfa(%r); N2 = parse_nfa(%r); '
            'nfa_union(N1, N2, IdentifierGenerator(%d)); nfa_concatenation(N1, N2); nfa_repetition(N1, IdentifierGenerator(%d))' % (conv.nfa_text(c['N1']), conv.nfa_text(c['N2']), c['start'], c['start']))


def signature(c, o, code):
    return 'C18:code%d:%s' % (code, key(c))


def distribution(cases, obs):
    d = {'different_epsilon': 0, 'name_collision_possible': 0, 'touched_first': 0, 'calls': 0, 'raised': 0}
    for c, o in zip(cases, obs):
        d['different_epsilon'] += 1 if c['N1']['eps'] != c['N2']['eps'] else 0
        d['name_collision_possible'] += 1 if any(q.startswith('q') for q in c['N1']['Q'] + c['N2']['Q']) else 0
        d['touched_first'] += 1 if c['touch'] else 0
        d['calls'] += len(o['calls'])
        d['raised'] += sum(1 for x in o['calls'] if x['res'] is None)
    return d


def shrink(c):
    out = []
    for k in ('N1', 'N2'):
        n = c[k]
        for i in range(len(n['delta'])):
            out.append(dict(c, **{k: dict(n, delta=n['delta'][:i] + n['delta'][i + 1:])}))
    if c['history']:
        out.append(dict(c, history=0))
    if c['touch']:
        out.append(dict(c, touch=False))
    return out


LEVEL_TEXT = ('Coq theorems about the models of nfa_union, nfa_concatenation, nfa_repetition for all operands with disjoint states, any epsilon symbols and any generator position (= any call history): valid result, '
              'language exactly the union / concatenation / Kleene star, new state distinct from every operand state. Tied to the Python by in-Coq evaluation with explicit and shared default generators, operand snapshots and an exact equivalence oracle.')
LEVEL_NOTE = 'Trusted: Coq kernel + vm_compute, model Model/NFAOps.v (the three routines as repaired by fix F9), harness. No axioms.'
TECHNIQUE = 'Coq proof by run decomposition at the new epsilon edges + verified NFA equivalence oracle evaluated in Coq on implementation outputs'
