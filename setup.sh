#!/bin/sh
# Builds the whole Coq development from files on disk (offline).  Full .vo build through coq_makefile.
cd "$(dirname "$0")/coq" || exit 2
ls theories/*/*.v > /dev/null || exit 2
{ echo "-Q theories GT"; echo "-arg -w -arg -notation-overridden,-ambiguous-paths,-deprecated-hint-without-locality"; find theories -name '*.v' | sort; } > _CoqProject
coq_makefile -f _CoqProject -o Makefile.coq || exit 2
timeout 7200 make -f Makefile.coq -j16
