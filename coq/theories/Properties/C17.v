(* C17 — "Parsers build exactly what was written and reject malformed descriptions; no parser ever returns an
   object that violates its class invariants."

   Token-level model (Model/Tokens.v, Model/Parser.v) of AutomatonParser / AutomatonBuilder and of DFABuilder,
   NFABuilder, PDABuilder, TMBuilder: a text is a list of lines, a line a list of words, a word a list of character
   codes; None = the description is rejected.  Definitions used in the statements (Proofs/ParserProofs.v):
     is_comment l            blank line or first word starting with '%'
     is_reserved kw w        w is states / final / initial or a keyword of the format
     is_decl kw l, is_trans kw l   the line is a declaration line / a transition line
     line_ok sre lre kw l    the per-line checks of the parser; decls / transs = the declarations / transitions of a text
     kw_dfa, kw_nfa, kw_pda, kw_tm  the keyword sets (kw_dfa = input_symbols: parse_dfa passes dfa_keywords());
                             kw_all = the union of the keywords of the four formats
     aut_equiv               equality of parsed automaton records up to the order of a_trans / a_items
     tdfa_equiv, tnfa_equiv, tpda_equiv, ttm_equiv   field-wise equality as sets (DFA / TM delta: equal lookup;
                             NFA delta: the same transition relation tn_step)
   Part A: class invariants.  Part B: one rejection theorem per fault class.  Part S: closed form of the parser and of
   the builders (exactly what was written; omitted declarations derived).  Part C: insensitivity to layout (comments,
   blank lines, splitting labels over lines, line order — for TMs the line order matters when two lines give the same
   (state, read symbol) key: the later one wins, witness C17_tm_line_order_matters). *)
From Coq Require Import Permutation.
From GT Require Import Base.Prelude Model.Tokens Model.Parser Model.Printer Proofs.ParserProofs.

(* ---------------- Part A: class invariants ---------------- *)
Theorem C17_parse_dfa_wf : forall sre text D, parse_dfa_with sre text = Some D -> tdfa_wf_b D = true.
Proof. exact parse_dfa_wf. Qed.
Theorem C17_parse_nfa_wf : forall text N, parse_nfa text = Some N -> tnfa_wf_b N = true.
Proof. exact parse_nfa_wf. Qed.
Theorem C17_parse_pda_wf : forall text P, parse_pda text = Some P -> tpda_wf_b P = true.
Proof. exact parse_pda_wf. Qed.
Theorem C17_parse_tm_wf : forall text T, parse_tm text = Some T -> ttm_wf_b T = true.
Proof. exact parse_tm_wf. Qed.

(* ---------------- Part S: the parser in closed form, exactness ---------------- *)
Theorem C17_parse_automaton_spec : forall sre lre kw text,
  parse_automaton sre lre kw text = if text_ok sre lre kw text then Some (text_aut kw text) else None.
Proof. exact parse_automaton_spec. Qed.

Theorem C17_parse_automaton_exact : forall sre lre kw text A,
  parse_automaton sre lre kw text = Some A ->
  a_trans A = transs kw text /\ a_items A = decls kw text /\
  a_states A = field kw_states (decls kw text) [] /\ a_init A = field kw_initial (decls kw text) [] /\
  a_final A = field kw_final (decls kw text) [] /\ NoDup (map fst (decls kw text)) /\
  (forall l, In l text -> line_ok sre lre kw l = true).
Proof. exact parse_automaton_exact. Qed.

Theorem C17_build_dfa_exact : forall sre A D, build_dfa sre A = Some D ->
  tdQ D = states_or_used A /\ get_symbol_set A kw_input_symbols (dedup (map snd (dfa_keys A))) = Some (tdS D) /\
  tdD D = dfa_delta_of (a_trans A) /\ tdq0 D = hd [] (a_init A) /\ tdF D = a_final A /\
  length (dedup (a_init A)) = 1 /\ NoDup (dfa_keys A) /\ incl (used_states A) (tdQ D) /\ (forall s, In s (tdQ D) -> sre s = true).
Proof. exact build_dfa_exact. Qed.

Theorem C17_build_nfa_exact : forall sre A N, build_nfa sre A = Some N ->
  tnQ N = states_or_used A /\ parse_symbol A kw_epsilon c_eps [c_underscore] = Some (tneps N) /\
  get_symbol_set A kw_input_symbols
    (dedup (filter (fun a => negb (eqb a (tneps N))) (map (fun t : token * token * token => let '(_, a, _) := t in a) (a_trans A)))) = Some (tnS N) /\
  tnD N = group_nfa (a_trans A) /\ tnq0 N = hd [] (a_init A) /\ tnF N = a_final A /\
  length (dedup (a_init A)) = 1 /\ incl (used_states A) (tnQ N) /\ (forall s, In s (tnQ N) -> sre s = true).
Proof. exact build_nfa_exact. Qed.

(* the grouped NFA transition table holds exactly the written transitions *)
Theorem C17_group_nfa_target : forall trs p a q, has_target (group_nfa trs) (p, a) q <-> In (p, a, q) trs.
Proof. exact group_nfa_target. Qed.

Theorem C17_build_pda_exact : forall sre A P, build_pda sre A = Some P ->
  let labels := map (fun t : token * token * token => let '(_, a, _) := t in a) (a_trans A) in
  tpQ P = states_or_used A /\ parse_symbol A kw_epsilon c_eps [c_underscore] = Some (tpeps P) /\
  get_symbol_set A kw_input_symbols (dedup (filter (fun a => negb (eqb a (tpeps P))) (map (fun l => lbl l 0) labels))) = Some (tpS P) /\
  get_symbol_set A kw_stack_symbols (dedup (filter (fun a => negb (eqb a (tpeps P))) (flat_map (fun l => [lbl l 2; lbl l 3]) labels))) = Some (tpG P) /\
  tpD P = dedup (map pda_tuple_of (a_trans A)) /\ tpq0 P = hd [] (a_init A) /\ tpF P = a_final A /\
  length (dedup (a_init A)) = 1 /\ incl (used_states A) (tpQ P) /\ (forall s, In s (tpQ P) -> sre s = true).
Proof. exact build_pda_exact. Qed.

Theorem C17_build_tm_exact : forall sre A T, build_tm sre A = Some T ->
  get_single A kw_accept (fresh_state_tok (a_states A) kw_accept) = Some (ttqa T) /\
  get_single A kw_reject (fresh_state_tok (a_states A) kw_reject) = Some (ttqr T) /\
  ttQ T = tm_states A (ttqa T) (ttqr T) /\ parse_symbol A kw_blank c_box [c_underscore] = Some (ttblank T) /\
  (exists tape, get_symbol_set A kw_tape_symbols (tm_used_tape A) = Some tape /\
                ttG T = add (ttblank T) tape /\ ttS T = tm_sigma A (ttblank T) tape) /\
  ttD T = tm_delta_of (a_trans A) /\ ttq0 T = hd [] (a_init A) /\
  length (dedup (a_init A)) = 1 /\ incl (used_states A) (ttQ T) /\ (forall s, In s (ttQ T) -> sre s = true).
Proof. exact build_tm_exact. Qed.

(* the TM transition table: with unique (state, read symbol) keys it holds exactly the written transitions *)
Theorem C17_tm_delta_lookup : forall trs k v,
  NoDup (map tm_key trs) -> lookup k (tm_delta_of trs) = Some v <-> exists x, In x trs /\ tm_key x = k /\ tm_val x = v.
Proof. exact tm_delta_lookup. Qed.

(* declared / derived symbol sets and default symbols *)
Theorem C17_get_symbol_set_Some : forall A k used s,
  get_symbol_set A k used = Some s ->
  (exists d, lookup k (a_items A) = Some d /\ s = dedup d /\ incl used d) \/ (lookup k (a_items A) = None /\ s = used).
Proof. exact get_symbol_set_Some. Qed.

Theorem C17_parse_symbol_Some : forall A k c d e,
  parse_symbol A k c d = Some e ->
  lookup k (a_items A) = Some [e] \/
  (lookup k (a_items A) = None /\
   ((e = [c] /\ exists p a q, In (p, a, q) (a_trans A) /\ In c a) \/ (e = d /\ forall p a q, In (p, a, q) (a_trans A) -> ~ In c a))).
Proof. exact parse_symbol_Some. Qed.

(* ---------------- Part B: rejection ---------------- *)
(* B0: any line failing the per-line checks makes the parser reject the whole text *)
Theorem C17_bad_line_rejected : forall sre lre kw text l,
  In l text -> line_ok sre lre kw l = false -> parse_automaton sre lre kw text = None.
Proof. exact bad_line_rejected. Qed.

Theorem C17_rejected_line_fold : forall sre lre kw t1 l t2,
  (forall A, parse_line sre lre kw (Some A) l = None) -> parse_automaton sre lre kw (t1 ++ l :: t2) = None.
Proof. exact rejected_line_fold. Qed.

(* B1: incomplete transition (one or two words) *)
Theorem C17_incomplete_transition_rejected : forall sre lre kw text l,
  In l text -> is_trans kw l = true -> length l <= 2 -> parse_automaton sre lre kw text = None.
Proof. exact incomplete_transition_rejected. Qed.

(* the line must be a transition line in all four formats (kw_all); kw_dfa would not do: `stack_symbols X` is a
   transition line for parse_dfa but a declaration for parse_pda, witness C17_incomplete_transition_other_keyword *)
Theorem C17_incomplete_transition_rejected_all : forall text l,
  In l text -> is_trans kw_all l = true -> length l <= 2 ->
  (forall sre, parse_dfa_with sre text = None) /\ parse_nfa text = None /\ parse_pda text = None /\ parse_tm text = None.
Proof. exact incomplete_transition_rejected_all. Qed.

(* B2: ill-formed state word or label in a transition line *)
Theorem C17_bad_label_rejected : forall sre lre kw text p q labels,
  In (p :: q :: labels) text -> is_trans kw (p :: q :: labels) = true ->
  sre p = false \/ sre q = false \/ (exists a, In a labels /\ lre a = false) ->
  parse_automaton sre lre kw text = None.
Proof. exact bad_label_rejected. Qed.

Theorem C17_bad_label_rejected_dfa : forall sre text p q labels,
  In (p :: q :: labels) text -> is_trans kw_dfa (p :: q :: labels) = true ->
  sre p = false \/ sre q = false \/ In [] labels -> parse_dfa_with sre text = None.
Proof. exact bad_label_rejected_dfa. Qed.

Theorem C17_bad_label_rejected_nfa : forall text p q labels,
  In (p :: q :: labels) text -> is_trans kw_nfa (p :: q :: labels) = true ->
  re_word p = false \/ re_word q = false \/ In [] labels -> parse_nfa text = None.
Proof. exact bad_label_rejected_nfa. Qed.

Theorem C17_bad_label_rejected_pda : forall text p q labels,
  In (p :: q :: labels) text -> is_trans kw_pda (p :: q :: labels) = true ->
  re_word p = false \/ re_word q = false \/ (exists a, In a labels /\ re_pda_label a = false) -> parse_pda text = None.
Proof. exact bad_label_rejected_pda. Qed.

Theorem C17_bad_label_rejected_tm : forall text p q labels,
  In (p :: q :: labels) text -> is_trans kw_tm (p :: q :: labels) = true ->
  re_word p = false \/ re_word q = false \/ (exists a, In a labels /\ re_tm_label a = false) -> parse_tm text = None.
Proof. exact bad_label_rejected_tm. Qed.

(* B3: duplicate declarations, repeated / ill-formed names in a state declaration *)
Theorem C17_duplicate_declaration_rejected : forall sre lre kw t1 t2 t3 k ws1 ws2,
  is_decl kw (k :: ws1) = true ->
  parse_automaton sre lre kw (t1 ++ (k :: ws1) :: t2 ++ (k :: ws2) :: t3) = None.
Proof. exact duplicate_declaration_rejected. Qed.

Theorem C17_duplicate_declaration_rejected_parsers : forall t1 t2 t3 k ws1 ws2,
  let text := t1 ++ (k :: ws1) :: t2 ++ (k :: ws2) :: t3 in
  (is_decl kw_dfa (k :: ws1) = true -> forall sre, parse_dfa_with sre text = None) /\
  (is_decl kw_nfa (k :: ws1) = true -> parse_nfa text = None) /\
  (is_decl kw_pda (k :: ws1) = true -> parse_pda text = None) /\
  (is_decl kw_tm (k :: ws1) = true -> parse_tm text = None).
Proof. exact duplicate_declaration_rejected_parsers. Qed.

Theorem C17_repeated_state_rejected : forall sre lre kw text k ws,
  In (k :: ws) text -> k = kw_states \/ k = kw_final \/ k = kw_initial -> has_dup ws = true ->
  parse_automaton sre lre kw text = None.
Proof. exact repeated_state_rejected. Qed.

Theorem C17_bad_state_declaration_rejected : forall sre lre kw text k ws,
  In (k :: ws) text -> k = kw_states \/ k = kw_final \/ k = kw_initial ->
  (k = kw_states /\ ws = []) \/ (exists s, In s ws /\ sre s = false) ->
  parse_automaton sre lre kw text = None.
Proof. exact bad_state_declaration_rejected. Qed.

(* B4: no / several initial states *)
Theorem C17_initial_count_rejected : forall sre A, length (dedup (a_init A)) <> 1 ->
  build_dfa sre A = None /\ build_nfa sre A = None /\ build_pda sre A = None /\ build_tm sre A = None.
Proof. exact initial_count_rejected. Qed.

Theorem C17_no_initial_rejected : forall sre A, a_init A = [] ->
  build_dfa sre A = None /\ build_nfa sre A = None /\ build_pda sre A = None /\ build_tm sre A = None.
Proof. exact no_initial_rejected. Qed.

Theorem C17_several_initial_rejected : forall sre A q1 q2, In q1 (a_init A) -> In q2 (a_init A) -> q1 <> q2 ->
  build_dfa sre A = None /\ build_nfa sre A = None /\ build_pda sre A = None /\ build_tm sre A = None.
Proof. exact several_initial_rejected. Qed.

Theorem C17_no_initial_line_rejected : forall sre lre kw text A,
  parse_automaton sre lre kw text = Some A -> (forall ws, ~ In (kw_initial :: ws) text) ->
  build_dfa sre A = None /\ build_nfa sre A = None /\ build_pda sre A = None /\ build_tm sre A = None.
Proof. exact no_initial_line_rejected. Qed.

Theorem C17_initial_line_count_rejected : forall sre lre kw text A ws,
  parse_automaton sre lre kw text = Some A -> In (kw_initial :: ws) text -> length ws <> 1 ->
  build_dfa sre A = None /\ build_nfa sre A = None /\ build_pda sre A = None /\ build_tm sre A = None.
Proof. exact initial_line_count_rejected. Qed.

(* B5: undeclared states *)
Theorem C17_used_states_In : forall A s,
  In s (used_states A) <->
  In s (a_init A) \/ In s (a_final A) \/ exists p a q, In (p, a, q) (a_trans A) /\ (s = p \/ s = q).
Proof. exact used_states_In. Qed.

Theorem C17_undeclared_state_rejected : forall sre A s,
  a_states A <> [] -> In s (used_states A) -> ~ In s (a_states A) ->
  build_dfa sre A = None /\ build_nfa sre A = None /\ build_pda sre A = None /\ build_tm sre A = None.
Proof. exact undeclared_state_rejected. Qed.

(* B6: undeclared symbols *)
Theorem C17_undeclared_symbol_rejected_dfa : forall sre A decl p a q,
  lookup kw_input_symbols (a_items A) = Some decl -> In (p, a, q) (a_trans A) -> ~ In a decl ->
  build_dfa sre A = None.
Proof. exact undeclared_symbol_rejected_dfa. Qed.

Theorem C17_undeclared_symbol_rejected_nfa : forall sre A decl p a q,
  lookup kw_input_symbols (a_items A) = Some decl -> In (p, a, q) (a_trans A) -> ~ In a decl ->
  (forall eps, parse_symbol A kw_epsilon c_eps [c_underscore] = Some eps -> a <> eps) ->
  build_nfa sre A = None.
Proof. exact undeclared_symbol_rejected_nfa. Qed.

Theorem C17_undeclared_symbol_rejected_pda : forall sre A decl p l q,
  In (p, l, q) (a_trans A) ->
  (forall eps, parse_symbol A kw_epsilon c_eps [c_underscore] = Some eps ->
     (lookup kw_input_symbols (a_items A) = Some decl /\ lbl l 0 <> eps /\ ~ In (lbl l 0) decl) \/
     (lookup kw_stack_symbols (a_items A) = Some decl /\
      ((lbl l 2 <> eps /\ ~ In (lbl l 2) decl) \/ (lbl l 3 <> eps /\ ~ In (lbl l 3) decl)))) ->
  build_pda sre A = None.
Proof. exact undeclared_symbol_rejected_pda. Qed.

Theorem C17_undeclared_symbol_rejected_tm : forall sre A decl p l q,
  lookup kw_tape_symbols (a_items A) = Some decl -> In (p, l, q) (a_trans A) ->
  ~ In (lbl l 0) decl \/ ~ In (lbl l 1) decl ->
  build_tm sre A = None.
Proof. exact undeclared_symbol_rejected_tm. Qed.

(* B7: DFA determinism and totality *)
Theorem C17_nondeterministic_rejected : forall sre A, ~ NoDup (dfa_keys A) -> build_dfa sre A = None.
Proof. exact nondeterministic_rejected. Qed.

Theorem C17_nondeterministic_rejected_two : forall sre A t1 t2 t3 p a q1 q2,
  a_trans A = t1 ++ (p, a, q1) :: t2 ++ (p, a, q2) :: t3 -> build_dfa sre A = None.
Proof. exact nondeterministic_rejected_two. Qed.

Theorem C17_not_total_rejected : forall sre A sigma p a,
  get_symbol_set A kw_input_symbols (dedup (map snd (dfa_keys A))) = Some sigma ->
  In p (states_or_used A) -> In a sigma -> (forall q, ~ In (p, a, q) (a_trans A)) ->
  build_dfa sre A = None.
Proof. exact not_total_rejected. Qed.

(* ---------------- Part C: insensitivity to layout ---------------- *)
Theorem C17_comment_line_irrelevant : forall sre lre kw t1 l t2,
  is_comment l = true -> parse_automaton sre lre kw (t1 ++ l :: t2) = parse_automaton sre lre kw (t1 ++ t2).
Proof. exact comment_line_irrelevant. Qed.

Theorem C17_comments_irrelevant : forall sre lre kw text,
  parse_automaton sre lre kw (filter (fun l => negb (is_comment l)) text) = parse_automaton sre lre kw text.
Proof. exact comments_irrelevant. Qed.

Theorem C17_comments_irrelevant_parsers : forall text,
  let text' := filter (fun l => negb (is_comment l)) text in
  (forall sre, parse_dfa_with sre text' = parse_dfa_with sre text) /\ parse_nfa text' = parse_nfa text /\
  parse_pda text' = parse_pda text /\ parse_tm text' = parse_tm text.
Proof. exact comments_irrelevant_parsers. Qed.

Theorem C17_label_split_irrelevant : forall sre lre kw t1 t2 p q l1 l2,
  is_trans kw [p] = true -> l1 <> [] -> l2 <> [] ->
  parse_automaton sre lre kw (t1 ++ (p :: q :: l1) :: (p :: q :: l2) :: t2) =
  parse_automaton sre lre kw (t1 ++ (p :: q :: l1 ++ l2) :: t2).
Proof. exact label_split_irrelevant. Qed.

Theorem C17_line_order_irrelevant : forall sre lre kw text text',
  Permutation text text' ->
  opt_rel aut_equiv (parse_automaton sre lre kw text) (parse_automaton sre lre kw text').
Proof. exact line_order_irrelevant. Qed.

Theorem C17_build_dfa_equiv : forall sre A B, aut_equiv A B -> opt_rel tdfa_equiv (build_dfa sre A) (build_dfa sre B).
Proof. exact build_dfa_equiv. Qed.
Theorem C17_build_nfa_equiv : forall sre A B, aut_equiv A B -> opt_rel tnfa_equiv (build_nfa sre A) (build_nfa sre B).
Proof. exact build_nfa_equiv. Qed.
Theorem C17_build_pda_equiv : forall sre A B, aut_equiv A B -> opt_rel tpda_equiv (build_pda sre A) (build_pda sre B).
Proof. exact build_pda_equiv. Qed.
Theorem C17_build_tm_equiv : forall sre A B, aut_equiv A B -> NoDup (map tm_key (a_trans A)) ->
  opt_rel ttm_equiv (build_tm sre A) (build_tm sre B).
Proof. exact build_tm_equiv. Qed.

Theorem C17_parse_dfa_line_order : forall sre text text', Permutation text text' ->
  opt_rel tdfa_equiv (parse_dfa_with sre text) (parse_dfa_with sre text').
Proof. exact parse_dfa_line_order. Qed.
Theorem C17_parse_nfa_line_order : forall text text', Permutation text text' ->
  opt_rel tnfa_equiv (parse_nfa text) (parse_nfa text').
Proof. exact parse_nfa_line_order. Qed.
Theorem C17_parse_pda_line_order : forall text text', Permutation text text' ->
  opt_rel tpda_equiv (parse_pda text) (parse_pda text').
Proof. exact parse_pda_line_order. Qed.
Theorem C17_parse_tm_line_order : forall text text', Permutation text text' ->
  NoDup (map tm_key (transs kw_tm text)) ->
  opt_rel ttm_equiv (parse_tm text) (parse_tm text').
Proof. exact parse_tm_line_order. Qed.

(* two TM lines with the same (state, read symbol): the later one wins, so the order of the lines matters *)
Require Coq.Strings.String.
Module C17_witness.
  Import Coq.Strings.String.
  Local Open Scope string_scope.
  Theorem C17_tm_line_order_matters :
    let l1 := [tok "p"; tok "qa"; tok "aa,L"] in
    let l2 := [tok "p"; tok "qr"; tok "aa,R"] in
    let hdr := [[tok "initial"; tok "p"]; [tok "accept"; tok "qa"]; [tok "reject"; tok "qr"]] in
    (match parse_tm (hdr ++ [l1; l2])%list, parse_tm (hdr ++ [l2; l1])%list with
     | Some T1, Some T2 => negb (Prelude.eqb (lookup (tok "p", tok "a") (ttD T1)) (lookup (tok "p", tok "a") (ttD T2)))
     | _, _ => false
     end) = true.
  Proof. exact ParserExamples.tm_line_order_matters. Qed.

  (* a two-word line starting with a keyword of another format: rejected as an incomplete transition by parse_dfa
     and parse_nfa, but a declaration for parse_pda *)
  Theorem C17_incomplete_transition_other_keyword :
    let text := [[tok "initial"; tok "p"]; [tok "stack_symbols"; tok "X"]] in
    is_trans kw_dfa [tok "stack_symbols"; tok "X"] = true /\ parse_dfa text = None /\ parse_nfa text = None /\
    parse_pda text <> None.
  Proof. exact ParserExamples.incomplete_transition_other_keyword_not_rejected_all. Qed.
End C17_witness.

Print Assumptions C17_parse_dfa_wf.
Print Assumptions C17_parse_nfa_wf.
Print Assumptions C17_parse_pda_wf.
Print Assumptions C17_parse_tm_wf.
Print Assumptions C17_parse_automaton_spec.
Print Assumptions C17_parse_automaton_exact.
Print Assumptions C17_build_dfa_exact.
Print Assumptions C17_build_nfa_exact.
Print Assumptions C17_group_nfa_target.
Print Assumptions C17_build_pda_exact.
Print Assumptions C17_build_tm_exact.
Print Assumptions C17_tm_delta_lookup.
Print Assumptions C17_get_symbol_set_Some.
Print Assumptions C17_parse_symbol_Some.
Print Assumptions C17_bad_line_rejected.
Print Assumptions C17_rejected_line_fold.
Print Assumptions C17_incomplete_transition_rejected.
Print Assumptions C17_incomplete_transition_rejected_all.
Print Assumptions C17_bad_label_rejected.
Print Assumptions C17_bad_label_rejected_dfa.
Print Assumptions C17_bad_label_rejected_nfa.
Print Assumptions C17_bad_label_rejected_pda.
Print Assumptions C17_bad_label_rejected_tm.
Print Assumptions C17_duplicate_declaration_rejected.
Print Assumptions C17_duplicate_declaration_rejected_parsers.
Print Assumptions C17_repeated_state_rejected.
Print Assumptions C17_bad_state_declaration_rejected.
Print Assumptions C17_initial_count_rejected.
Print Assumptions C17_no_initial_rejected.
Print Assumptions C17_several_initial_rejected.
Print Assumptions C17_no_initial_line_rejected.
Print Assumptions C17_initial_line_count_rejected.
Print Assumptions C17_used_states_In.
Print Assumptions C17_undeclared_state_rejected.
Print Assumptions C17_undeclared_symbol_rejected_dfa.
Print Assumptions C17_undeclared_symbol_rejected_nfa.
Print Assumptions C17_undeclared_symbol_rejected_pda.
Print Assumptions C17_undeclared_symbol_rejected_tm.
Print Assumptions C17_nondeterministic_rejected.
Print Assumptions C17_nondeterministic_rejected_two.
Print Assumptions C17_not_total_rejected.
Print Assumptions C17_comment_line_irrelevant.
Print Assumptions C17_comments_irrelevant.
Print Assumptions C17_comments_irrelevant_parsers.
Print Assumptions C17_label_split_irrelevant.
Print Assumptions C17_line_order_irrelevant.
Print Assumptions C17_build_dfa_equiv.
Print Assumptions C17_build_nfa_equiv.
Print Assumptions C17_build_pda_equiv.
Print Assumptions C17_build_tm_equiv.
Print Assumptions C17_parse_dfa_line_order.
Print Assumptions C17_parse_nfa_line_order.
Print Assumptions C17_parse_pda_line_order.
Print Assumptions C17_parse_tm_line_order.
Print Assumptions C17_witness.C17_tm_line_order_matters.
Print Assumptions C17_witness.C17_incomplete_transition_other_keyword.
