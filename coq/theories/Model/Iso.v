(* Model of dfa_isomorphic (matching matrix + uniqueness counts) and dfa_isomorphic1 (pair worklist with the
   state-to-state maps) of gambatools.dfa_algorithms, as repaired by fix F3; and the specification of
   isomorphism of the reachable parts.  `pick` = set_element(to_inspect) (arbitrary).  Definitions only.
   Result: None = out of fuel (excluded by the termination theorems) or AssertionError (alphabets differ). *)
From GT Require Import Base.Prelude Model.DFA Model.NFA.

Section Iso.
  Context {A B : Type} `{Eqb A} `{Eqb B}.

  Definition agree (D1 : dfa A) (D2 : dfa B) (p : A * B) : bool :=
    Bool.eqb (mem (fst p) (dF D1)) (mem (snd p) (dF D2)).

  (* ---------------- specification ---------------- *)
  Definition dreach {X} `{Eqb X} (D : dfa X) (q : X) : Prop :=
    exists w, Forall (fun a => In a (dS D)) w /\ drun D (dq0 D) w = q.
  Definition iso_reach (D1 : dfa A) (D2 : dfa B) : Prop :=
    exists R : A -> B -> Prop,
      R (dq0 D1) (dq0 D2) /\
      (forall p q, R p q -> dreach D1 p /\ dreach D2 q) /\
      (forall p q a, R p q -> In a (dS D1) -> R (dstep D1 p a) (dstep D2 q a)) /\
      (forall p q, R p q -> (In p (dF D1) <-> In q (dF D2))) /\
      (forall p q q', R p q -> R p q' -> q = q') /\
      (forall p p' q, R p q -> R p' q -> p = p').

  (* ---------------- dfa_isomorphic: matrix version ---------------- *)
  (* one pop: inspect the successors of (q1,q2) for every symbol *)
  Fixpoint iso_succs (D1 : dfa A) (D2 : dfa B) (p : A * B) (sigma : list nat) (matching todo : list (A * B))
    : option (list (A * B) * list (A * B)) :=       (* None = return False *)
    match sigma with
    | [] => Some (matching, todo)
    | a :: sigma' =>
      let p' := (dstep D1 (fst p) a, dstep D2 (snd p) a) in
      if mem p' matching then iso_succs D1 D2 p sigma' matching todo
      else if agree D1 D2 p' then iso_succs D1 D2 p sigma' (matching ++ [p']) (add p' todo)
      else None
    end.
  Fixpoint iso_matrix_loop (pick : picker (A * B)) (D1 : dfa A) (D2 : dfa B) (fuel : nat) (matching todo : list (A * B))
    : option (option (list (A * B))) :=
    match fuel with
    | 0 => None
    | S f => match pick todo with
             | None => Some (Some matching)
             | Some (p, rest) =>
               match iso_succs D1 D2 p (dS D1) matching rest with
               | None => Some None
               | Some (m', t') => iso_matrix_loop pick D1 D2 f m' t'
               end
             end
    end.
  (* count of partners must never exceed one, in both directions (states that are not reached have none) *)
  Definition counts_ok (D1 : dfa A) (D2 : dfa B) (matching : list (A * B)) : bool :=
    forallb (fun q1 => Nat.leb (length (filter (fun q2 => mem (q1, q2) matching) (dedup (dQ D2)))) 1) (dQ D1) &&
    forallb (fun q2 => Nat.leb (length (filter (fun q1 => mem (q1, q2) matching) (dedup (dQ D1)))) 1) (dQ D2).
  Definition iso_fuel (D1 : dfa A) (D2 : dfa B) : nat := S (S (length (dQ D1) * length (dQ D2))).
  Definition iso_matrix (pick : picker (A * B)) (D1 : dfa A) (D2 : dfa B) : option bool :=
    if negb (seteqb (dS D1) (dS D2)) then None
    else if negb (agree D1 D2 (dq0 D1, dq0 D2)) then Some false
    else match iso_matrix_loop pick D1 D2 (iso_fuel D1 D2) [(dq0 D1, dq0 D2)] [(dq0 D1, dq0 D2)] with
         | None => None
         | Some None => Some false
         | Some (Some m) => Some (counts_ok D1 D2 m)
         end.

  (* ---------------- dfa_isomorphic1: worklist with both maps ---------------- *)
  Fixpoint iso1_loop (pick : picker (A * B)) (D1 : dfa A) (D2 : dfa B) (fuel : nat)
           (m12 : list (A * B)) (m21 : list (B * A)) (todo : list (A * B)) : option bool :=
    match fuel with
    | 0 => None
    | S f => match pick todo with
             | None => Some true
             | Some ((q1, q2), rest) =>
               match lookup q1 m12, lookup q2 m21 with
               | None, None =>
                 if negb (agree D1 D2 (q1, q2)) then Some false
                 else iso1_loop pick D1 D2 f (m12 ++ [(q1, q2)]) (m21 ++ [(q2, q1)])
                        (fold_left (fun t a => add (dstep D1 q1 a, dstep D2 q2 a) t) (dS D1) rest)
               | o1, o2 =>
                 if eqb o1 (Some q2) && eqb o2 (Some q1) then iso1_loop pick D1 D2 f m12 m21 rest else Some false
               end
             end
    end.
  Definition iso1_fuel (D1 : dfa A) (D2 : dfa B) : nat :=
    S (S (length (dQ D1) * length (dQ D2) * S (length (dS D1)))).
  Definition iso1 (pick : picker (A * B)) (D1 : dfa A) (D2 : dfa B) : option bool :=
    if negb (seteqb (dS D1) (dS D2)) then None
    else iso1_loop pick D1 D2 (iso1_fuel D1 D2) [] [] [(dq0 D1, dq0 D2)].
End Iso.
