"""Helpers for code that runs the implementation (inside worker processes)."""
import signal
import sys
import io
import contextlib


class _Timeout(BaseException):
    pass


def _alarm(signum, frame):
    raise _Timeout()


signal.signal(signal.SIGALRM, _alarm)

ERR_CLASSES = ['AssertionError', 'RuntimeError', 'KeyError', 'ValueError', 'RecursionError', 'Timeout',
               'AttributeError', 'TypeError', 'IndexError', 'StopIteration', 'ImportError', 'NameError']


def safe(f, *a, timeout=3.0, **kw):
    """Call f; return ('ok', value) or ('err', exception class name).  A hang is an observation."""
    signal.setitimer(signal.ITIMER_REAL, timeout)
    try:
        v = f(*a, **kw)
        signal.setitimer(signal.ITIMER_REAL, 0)
        return ('ok', v)
    except _Timeout:
        return ('err', 'Timeout')
    except RecursionError:
        signal.setitimer(signal.ITIMER_REAL, 0)
        return ('err', 'RecursionError')
    except Exception as e:  # noqa
        signal.setitimer(signal.ITIMER_REAL, 0)
        return ('err', type(e).__name__)
    finally:
        signal.setitimer(signal.ITIMER_REAL, 0)


def ok(r):
    return r[0] == 'ok'


def val(r, default=None):
    return r[1] if r[0] == 'ok' else default


@contextlib.contextmanager
def captured_stdout():
    old = sys.stdout
    buf = io.StringIO()
    sys.stdout = buf
    try:
        yield buf
    finally:
        sys.stdout = old
