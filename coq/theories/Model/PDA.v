(* Model of gambatools.pda / pda_algorithms: pda_can_pop_push, pda_pop_push, pda_epsilon_closure (with the
   iteration limit), pda_do_transition, pda_accepts_word, pda_words_up_to_n; and the specification (Sipser PDA,
   acceptance by final state).  A configuration is (state, stack) with the TOP OF THE STACK AT THE HEAD of the
   list (the Python keeps the top at the end: the harness reverses stacks).  `eps` is the epsilon symbol used
   both for "no input" and "no stack symbol".  Definitions only. *)
From GT Require Import Base.Prelude Model.NFA.

Record pda := mkPDA {
  pQ : list nat; pSg : list nat; pGm : list nat;
  pD : list ((nat * nat * nat) * list (nat * nat));   (* (p, a, u) -> set of (q, v) *)
  pq0 : nat; pF : list nat; peps : nat }.

Definition config := (nat * list nat)%type.
Definition trans := (nat * nat * nat * nat * nat)%type.   (* p, a, u, q, v *)

Definition transitions (P : pda) : list trans :=
  flat_map (fun e => let '((p, a, u), tg) := e in map (fun qv => (p, a, u, fst qv, snd qv)) tg) (pD P).

(* pda_can_pop_push / pda_pop_push *)
Definition can_pop_push (P : pda) (stack : list nat) (u : nat) : bool :=
  Nat.eqb u (peps P) || match stack with x :: _ => Nat.eqb x u | [] => false end.
Definition pop_push (P : pda) (stack : list nat) (u v : nat) : list nat :=
  let s1 := if Nat.eqb u (peps P) then stack else tl stack in
  if Nat.eqb v (peps P) then s1 else v :: s1.

(* one move of the automaton reading `a` (a = eps: no input) *)
Definition moves (P : pda) (a : nat) (c : config) : list config :=
  flat_map (fun t => let '(p, a1, u, q, v) := t in
              if Nat.eqb p (fst c) && Nat.eqb a1 a && can_pop_push P (snd c) u then [(q, pop_push P (snd c) u v)] else [])
           (transitions P).

(* ---- specification ---- *)
Inductive pda_reach (P : pda) : config -> word -> config -> Prop :=
| pr_refl c : pda_reach P c [] c
| pr_eps c c1 w c2 : In c1 (moves P (peps P) c) -> pda_reach P c1 w c2 -> pda_reach P c w c2
| pr_sym c a c1 w c2 : a <> peps P -> In c1 (moves P a c) -> pda_reach P c1 w c2 -> pda_reach P c (a :: w) c2.
Definition pda_lang (P : pda) (w : word) : Prop :=
  exists q st, In q (pF P) /\ pda_reach P (pq0 P, []) w (q, st).
Inductive pda_eps_star (P : pda) : config -> config -> Prop :=
| pe_refl c : pda_eps_star P c c
| pe_step c c1 c2 : In c1 (moves P (peps P) c) -> pda_eps_star P c1 c2 -> pda_eps_star P c c2.

(* class invariant PDA._check_validity *)
Definition pda_wf_b (P : pda) : bool :=
  mem (pq0 P) (pQ P) && negb (mem (peps P) (pSg P)) && negb (mem (peps P) (pGm P)) && subsetb (pF P) (pQ P) &&
  forallb (fun t => let '(p, a, u, q, v) := t in
     mem p (pQ P) && (mem a (pSg P) || Nat.eqb a (peps P)) && (mem u (pGm P) || Nat.eqb u (peps P)) &&
     mem q (pQ P) && (mem v (pGm P) || Nat.eqb v (peps P))) (transitions P) &&
  forallb (fun e => let '((p, a, u), _) := e in mem p (pQ P) && (mem a (pSg P) || Nat.eqb a (peps P)) && (mem u (pGm P) || Nat.eqb u (peps P))) (pD P).
Definition pda_wf (P : pda) : Prop := pda_wf_b P = true.

(* ---- pda_epsilon_closure with the iteration limit: returns (result, todo left over); todo <> [] = truncated ---- *)
Fixpoint add_new_configs (ts result todo : list config) : list config * list config :=
  match ts with
  | [] => (result, todo)
  | t :: ts' => if mem t result then add_new_configs ts' result todo
                else add_new_configs ts' (result ++ [t]) (todo ++ [t])
  end.
Fixpoint pda_eclose_loop (pick : picker config) (P : pda) (limit : nat) (result todo : list config) : list config * list config :=
  match limit with
  | 0 => (result, todo)
  | S l => match pick todo with
           | None => (result, [])
           | Some (src, rest) =>
             let '(r', t') := add_new_configs (moves P (peps P) src) result rest in
             pda_eclose_loop pick P l r' t'
           end
  end.
Definition pda_eclose (pick : picker config) (P : pda) (limit : nat) (R : list config) : list config * list config :=
  let R1 := dedup R in pda_eclose_loop pick P limit R1 R1.

(* pda_do_transition *)
Definition pda_do_transition (P : pda) (a : nat) (R : list config) : list config :=
  dedup (flat_map (moves P a) R).

(* pda_accepts_word: (verdict, some closure was truncated) *)
Fixpoint pda_run (pick : picker config) (P : pda) (limit : nat) (w : word) (R : list config) (trunc : bool) : list config * bool :=
  match w with
  | [] => (R, trunc)
  | a :: w' => let '(R1, t1) := pda_eclose pick P limit (pda_do_transition P a R) in
               pda_run pick P limit w' R1 (trunc || match t1 with [] => false | _ => true end)
  end.
Definition pda_accepts (pick : picker config) (P : pda) (limit : nat) (w : word) : bool * bool :=
  let '(R0, t0) := pda_eclose pick P limit [(pq0 P, [])] in
  let '(R, tr) := pda_run pick P limit w R0 (match t0 with [] => false | _ => true end) in
  (existsb (fun c => mem (fst c) (pF P)) R, tr).

(* ---- pda_words_up_to_n: frontier map configuration -> set of words ---- *)
Definition cmap := list (config * list word).
Definition cmap_add (c : config) (ws : list word) (W : cmap) : cmap :=
  match lookup c W with
  | Some old => update c (union old ws) W
  | None => W ++ [(c, dedup ws)]
  end.
Definition pda_words_round (pick : picker config) (P : pda) (limit : nat) (W : cmap) (result : list word) (trunc : bool)
  : cmap * list word * bool :=
  fold_left (fun (acc : cmap * list word * bool) cw =>
    fold_left (fun (acc2 : cmap * list word * bool) a =>
      let '(W1, res, tr) := acc2 in
      let '(R, t) := pda_eclose pick P limit (pda_do_transition P a [fst cw]) in
      let words_plus_a := map (fun wd => wd ++ [a]) (snd cw) in
      fold_left (fun (acc3 : cmap * list word * bool) r1 =>
        let '(W1, res, tr) := acc3 in
        (cmap_add r1 words_plus_a W1, if mem (fst r1) (pF P) then union res words_plus_a else res, tr))
        R (W1, res, tr || match t with [] => false | _ => true end))
      (pSg P) acc) W ([], result, trunc).
Fixpoint pda_words_loop (pick : picker config) (P : pda) (limit n : nat) (W : cmap) (result : list word) (trunc : bool) : list word * bool :=
  match n with
  | 0 => (result, trunc)
  | S n' => let '(W1, r1, t1) := pda_words_round pick P limit W result trunc in pda_words_loop pick P limit n' W1 r1 t1
  end.
Definition pda_words (pick : picker config) (P : pda) (limit n : nat) : list word * bool :=
  let '(R0, t0) := pda_eclose pick P limit [(pq0 P, [])] in
  pda_words_loop pick P limit n (map (fun r => (r, [[]])) R0)
    (if existsb (fun c => mem (fst c) (pF P)) R0 then [[]] else []) (match t0 with [] => false | _ => true end).
