(* Model of the simulation routines (dfa_simulate_word, nfa_simulate_word with nfa_find_epsilon_path and
   nfa_find_transition; as repaired by fixes F7, F8) and the witness checkers used by the judges for the runs and
   derivations returned by dfa/nfa/pda_simulate_word and cfg_derive_word.  Definitions only. *)
From GT Require Import Base.Prelude Model.DFA Model.NFA Model.PDA Model.CFG.

(* ================= witness checkers ================= *)
Section Checkers.
  Context {A : Type} `{Eqb A}.

  (* DFA: [(q0, w); (q1, w[1:]); ...; (qn, [])] following delta *)
  Fixpoint dfa_run_ok_from (D : dfa A) (q : A) (w : word) (run : list (A * word)) : bool :=
    match run with
    | [] => false
    | (q', w') :: rest =>
      eqb q q' && eqb w w' &&
      match w, rest with
      | [], [] => true
      | a :: w1, _ :: _ => match ddelta D q a with Some q1 => dfa_run_ok_from D q1 w1 rest | None => false end
      | _, _ => false
      end
    end.
  Definition dfa_run_ok (D : dfa A) (w : word) (run : list (A * word)) : bool := dfa_run_ok_from D (dq0 D) w run.

  (* NFA: consecutive entries are related by an epsilon move (same unread input) or by a symbol move that
     consumes the first unread letter; starts at (q0, w); ends in an accepting state with nothing unread *)
  Definition nfa_step_ok (N : nfa A) (c1 c2 : A * word) : bool :=
    (eqb (snd c1) (snd c2) && mem (fst c2) (ndelta N (fst c1) (neps N))) ||
    match snd c1 with
    | a :: w1 => eqb w1 (snd c2) && negb (Nat.eqb a (neps N)) && mem (fst c2) (ndelta N (fst c1) a)
    | [] => false
    end.
  Fixpoint chain_ok {X} (step : X -> X -> bool) (l : list X) : bool :=
    match l with
    | x :: ((y :: _) as rest) => step x y && chain_ok step rest
    | _ => true
    end.
  Definition nfa_run_ok (N : nfa A) (w : word) (run : list (A * word)) : bool :=
    match run with
    | [] => false
    | c0 :: _ => eqb c0 (nq0 N, w) && chain_ok (nfa_step_ok N) run &&
                 match last run c0 with (qf, wf) => mem qf (nF N) && match wf with [] => true | _ => false end end
    end.
End Checkers.

(* PDA: entries (state, unread input, stack with the top at the head) *)
Definition pda_step_ok (P : pda) (c1 c2 : nat * word * list nat) : bool :=
  let '(q1, w1, s1) := c1 in let '(q2, w2, s2) := c2 in
  (eqb w1 w2 && mem (q2, s2) (moves P (peps P) (q1, s1))) ||
  match w1 with
  | a :: w1' => eqb w1' w2 && negb (Nat.eqb a (peps P)) && mem (q2, s2) (moves P a (q1, s1))
  | [] => false
  end.
Definition pda_run_ok (P : pda) (w : word) (run : list (nat * word * list nat)) : bool :=
  match run with
  | [] => false
  | c0 :: _ => eqb c0 (pq0 P, w, []) && chain_ok (pda_step_ok P) run &&
               match last run c0 with (qf, wf, _) => mem qf (pF P) && match wf with [] => true | _ => false end end
  end.

(* CFG derivations: sentential forms; each step rewrites the leftmost (mode 0) / rightmost (mode 1) variable by a rule *)
Fixpoint split_leftmost (x : list sym) : option (list sym * nat * list sym) :=
  match x with
  | [] => None
  | s :: x' => if is_var s then Some ([], sname s, x')
               else match split_leftmost x' with Some (pre, A, post) => Some (s :: pre, A, post) | None => None end
  end.
Definition split_rightmost (x : list sym) : option (list sym * nat * list sym) :=
  match split_leftmost (rev x) with
  | Some (pre, A, post) => Some (rev post, A, rev pre)
  | None => None
  end.
Definition deriv_step_ok (G : cfg) (mode : nat) (x y : list sym) : bool :=
  match (if Nat.eqb mode 0 then split_leftmost x else split_rightmost x) with
  | None => false
  | Some (pre, A, post) =>
    existsb (fun r => Nat.eqb (rvar r) A && eqb y (pre ++ rrhs r ++ post)) (gR G)
  end.
Definition derivation_ok (G : cfg) (mode : nat) (w : word) (steps : list (list sym)) : bool :=
  match steps with
  | [] => false
  | x0 :: _ => eqb x0 [Var (gS G)] && chain_ok (deriv_step_ok G mode) steps && eqb (last steps x0) (tword w)
  end.

(* ================= dfa_simulate_word ================= *)
Section DFASim.
  Context {A : Type} `{Eqb A}.
  Fixpoint dfa_simulate_from (D : dfa A) (q : A) (w : word) : option (list (A * word)) :=
    match w with
    | [] => Some [(q, [])]
    | a :: w' => match ddelta D q a with
                 | None => None
                 | Some q1 => match dfa_simulate_from D q1 w' with Some r => Some ((q, w) :: r) | None => None end
                 end
    end.
  Definition dfa_simulate (D : dfa A) (w : word) : option (list (A * word)) := dfa_simulate_from D (dq0 D) w.
End DFASim.

(* ================= nfa_simulate_word ================= *)
Section NFASim.
  Context {A : Type} `{Eqb A}.
  Variable pick : picker A.                 (* todo.pop() and next(r for r in S if ...) *)

  Definition nfa_do_transition (N : nfa A) (a : nat) (R : list A) : list A :=
    big_union (map (fun r => ndelta N r a) R).

  (* nfa_find_epsilon_path: BFS with back-pointers (set on first visit only); result = path from some r in R to f *)
  Fixpoint make_path (R : list A) (bp : list (A * A)) (fuel : nat) (q : A) (acc : list A) : option (list A) :=
    if mem q R then Some (q :: acc)
    else match fuel with
         | 0 => None
         | S f => match lookup q bp with Some p => make_path R bp f p (q :: acc) | None => None end
         end.
  Fixpoint visit_targets (f : A) (src : A) (targets : list A) (visited todo : list A) (bp : list (A * A))
    : list A * list A * list (A * A) * bool :=            (* last component: f was reached *)
    match targets with
    | [] => (visited, todo, bp, false)
    | t :: ts => if mem t visited then visit_targets f src ts visited todo bp
                 else if eqb t f then (visited ++ [t], todo, bp ++ [(t, src)], true)
                 else visit_targets f src ts (visited ++ [t]) (todo ++ [t]) (bp ++ [(t, src)])
    end.
  Fixpoint find_eps_loop (N : nfa A) (R : list A) (f : A) (fuel : nat) (visited todo : list A) (bp : list (A * A)) : option (list A) :=
    match fuel with
    | 0 => None
    | S fu => match pick todo with
              | None => None
              | Some (src, rest) =>
                let '(v', t', bp', found) := visit_targets f src (ndelta N src (neps N)) visited rest bp in
                if found then make_path R bp' (S (length bp')) f []
                else find_eps_loop N R f fu v' t' bp'
              end
    end.
  Definition nfa_find_epsilon_path (N : nfa A) (R : list A) (f : A) : option (list A) :=
    if mem f R then Some [f]
    else find_eps_loop N R f (S (S (length (nQ N)))) (dedup R) (dedup R) [].

  (* nfa_find_transition: some src in R with src --a--> target *)
  Definition nfa_find_transition (N : nfa A) (R : list A) (a : nat) (target : A) : option A :=
    find (fun src => mem target (ndelta N src a)) R.

  (* forward history: [ {q0}; E0; T1; E1; ...; Tn; En ] *)
  Fixpoint nfa_history (N : nfa A) (w : word) (R : list A) : list (list A) :=
    match w with
    | [] => []
    | a :: w' => let T := nfa_do_transition N a R in let E := eclose N T in T :: E :: nfa_history N w' E
    end.

  (* backward reconstruction: rev_hist = [Tn; E(n-1); T(n-1); ...; T1; E0] paired with the reversed word *)
  Fixpoint nfa_back (N : nfa A) (rw : word) (rev_hist : list (list A)) (front : A) (cur : word) (result : list (A * word))
    : option (A * word * list (A * word)) :=
    match rw, rev_hist with
    | [], _ => Some (front, cur, result)
    | a :: rw', T :: E :: hist' =>
      match nfa_find_epsilon_path N T front with
      | None => None
      | Some path =>
        let result1 := map (fun r => (r, cur)) (removelast path) ++ result in
        match path with
        | [] => None
        | p0 :: _ =>
          match nfa_find_transition N E a p0 with
          | None => None
          | Some src => nfa_back N rw' hist' src (a :: cur) ((src, a :: cur) :: result1)
          end
        end
      end
    | _, _ => None
    end.

  Definition nfa_simulate (N : nfa A) (w : word) : option (list (A * word)) :=
    let E0 := eclose N [nq0 N] in
    let hist := [nq0 N] :: E0 :: nfa_history N w E0 in
    let final := last hist [] in
    match pick (filter (fun r => mem r (nF N)) final) with
    | None => None                                    (* no accepting state: the word is rejected *)
    | Some (front, _) =>
      match nfa_back N (rev w) (tl (rev hist)) front [] [(front, [])] with
      | None => None
      | Some (front', word', result) =>
        match nfa_find_epsilon_path N [nq0 N] front' with
        | None => None
        | Some path => Some (map (fun r => (r, word')) (removelast path) ++ result)
        end
      end
    end.
End NFASim.
