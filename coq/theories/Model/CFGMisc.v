(* Model of the remaining grammar routines of gambatools.cfg_algorithms:
     cfg_productive_variables                       (lines 660-674)
     cfg_remove_inproductive_variables[_in_place]   (lines 677-695)
     cfg_remove_useless_rules[_in_place]            (lines 698-710)
     cfg_put_start_variable_in_front                (lines 298-304)
     cfg_to_nfa                                     (lines 187-218)
     cfg_to_dfa                                     (lines 161-185)
   Conventions (as in Model/CFG.v, Model/Chomsky.v): a name is the nat code of a Python string; Variable and Terminal
   are subclasses of str that do not override __eq__, so `x == y` and `x in set` compare the *strings*:
   (Var n) and (Tm n) are "equal" for Python.  Therefore
     - is_useless(r):  r.alternative.symbols == [r.variable]   holds for  A -> [Var A]  and also for  A -> [Tm A];
     - is_epsilon(alt): alt.symbols[0] == G.epsilon            holds for [Tm geps] and also for [Var geps],
   where `geps` is the code of the string G.epsilon (default 'ε').  Sets (V, Sigma, Q, F, productive, the targets of
   an NFA transition) are duplicate-free lists in insertion order; a dict is an association list (Base/Prelude
   lookup/update).  The in-place routines and their deep-copying wrappers are the same function here (deepcopy keeps
   the sharing of Alternative objects, i.e. the `rid`s).
   Deviations / choices:
     - the `while True` loop of cfg_productive_variables carries fuel S (length R) and returns the current set when
       the fuel is exhausted; Proofs/CFGMiscProofs.v shows that the fixpoint is always reached before that
       (productive_fixpoint), so the fuel is never exhausted with changed = True;
     - `G.V &= productive` keeps the order of V;
     - remove_if (list_utility, deletes from the back) is an order-preserving filter;
     - the exceptions of cfg_to_nfa / cfg_to_dfa are distinguished in `conv_result`:
         ConvStopIteration   next(q for q in Q if q == State(G.S)) when S is not in V (raised before the loop),
         ConvRuntimeError    the first rule whose alternative has none of the accepted shapes,
         ConvAssertionError  NFA(...)/DFA(...)._check_validity fails (only if check_validity for cfg_to_dfa);
       `cfg_to_nfa` / `cfg_to_dfa` : option collapse all three to None.
     - `eps` is the code of the NFA's epsilon symbol Symbol('') (a parameter).
   Definitions only. *)
From GT Require Import Base.Prelude Model.CFG Model.Chomsky Model.DFA Model.NFA.

(* ---- cfg_productive_variables ---- *)
(* is_productive_symbol: isinstance(x, Terminal) or x in productive *)
Definition productive_sym (p : list nat) (x : sym) : bool := negb (is_var x) || mem (sname x) p.
Definition productive_alt (p : list nat) (rhs : list sym) : bool := forallb (productive_sym p) rhs.
(* the test in the body of the for loop *)
Definition productive_cond (p : list nat) (r : rule) : bool := negb (mem (rvar r) p) && productive_alt p (rrhs r).
Definition productive_step (st : list nat * bool) (r : rule) : list nat * bool :=
  let '(p, ch) := st in if productive_cond p r then (p ++ [rvar r], true) else (p, ch).
(* one round of `while True`: changed = False; for r in G.R: ... ; returns (productive, changed) *)
Definition productive_pass (R : list rule) (p : list nat) : list nat * bool := fold_left productive_step R (p, false).
Fixpoint productive_loop (R : list rule) (fuel : nat) (p : list nat) : list nat :=
  match fuel with
  | 0 => p
  | S f => let '(p', ch) := productive_pass R p in if ch then productive_loop R f p' else p'
  end.
Definition cfg_productive_variables (G : cfg) : list nat := productive_loop (gR G) (S (length (gR G))) [].

(* ---- cfg_remove_inproductive_variables ---- *)
(* is_productive(r): r.variable in productive and all(is_productive_symbol(x) ...) *)
Definition productive_rule (p : list nat) (r : rule) : bool := mem (rvar r) p && productive_alt p (rrhs r).
Definition cfg_remove_inproductive (G : cfg) : cfg :=
  let p := cfg_productive_variables G in
  mkCFG (filter (fun A => mem A p) (gV G)) (gSg G) (filter (productive_rule p) (gR G)) (gS G).

(* ---- cfg_remove_useless_rules ---- *)
(* is_useless(r): r.alternative.symbols == [r.variable]  (string comparison) *)
Definition is_useless (r : rule) : bool := match rrhs r with [x] => Nat.eqb (sname x) (rvar r) | _ => false end.
Definition cfg_remove_useless_rules (G : cfg) : cfg :=
  mkCFG (gV G) (gSg G) (filter (fun r => negb (is_useless r)) (gR G)) (gS G).

(* ---- cfg_put_start_variable_in_front: swap R[0] and the first rule of S (Model/Chomsky.put_start_in_front) ---- *)
Definition cfg_put_start_in_front (G : cfg) : cfg :=
  mkCFG (gV G) (gSg G) (put_start_in_front (gS G) (gR G)) (gS G).

(* ---- cfg_to_nfa / cfg_to_dfa ---- *)
Inductive conv_result (X : Type) : Type :=
| ConvOk (x : X) | ConvStopIteration | ConvRuntimeError | ConvAssertionError.
Arguments ConvOk {X} x.
Arguments ConvStopIteration {X}.
Arguments ConvRuntimeError {X}.
Arguments ConvAssertionError {X}.
Definition conv_option {X} (c : conv_result X) : option X := match c with ConvOk x => Some x | _ => None end.

(* the if / elif chain on rule.alternative:
     is_epsilon            len == 0 or (len == 1 and symbols[0] == G.epsilon)
     is_epsilon_transition len == 1 and isinstance(symbols[0], Variable)
     is_transition         len == 2 and isinstance(symbols[0], Terminal) and isinstance(symbols[1], Variable) *)
Inductive alt_kind : Type := KEps | KEpsTrans (B : nat) | KTrans (a B : nat) | KBad.
Definition alt_kind_of (geps : nat) (rhs : list sym) : alt_kind :=
  match rhs with
  | [] => KEps
  | [x] => if Nat.eqb (sname x) geps then KEps else if is_var x then KEpsTrans (sname x) else KBad
  | [x; y] => if negb (is_var x) && is_var y then KTrans (sname x) (sname y) else KBad
  | _ => KBad
  end.

(* delta[q, a] on a defaultdict(set): a missing key reads as the empty set *)
Definition delta_get (d : list ((nat * nat) * list nat)) (q a : nat) : list nat :=
  match lookup (q, a) d with Some s => s | None => [] end.
(* delta[q, a].add(q1) *)
Definition delta_add (q a q1 : nat) (d : list ((nat * nat) * list nat)) : list ((nat * nat) * list nat) :=
  update (q, a) (add q1 (delta_get d q a)) d.

(* body of `for rule in grammar.R` of cfg_to_nfa; state = (delta, F); None = RuntimeError *)
Definition nfa_conv_step (eps geps : nat) (st : option (list ((nat * nat) * list nat) * list nat)) (r : rule)
  : option (list ((nat * nat) * list nat) * list nat) :=
  match st with
  | None => None
  | Some (d, F) =>
    match alt_kind_of geps (rrhs r) with
    | KEps => Some (d, add (rvar r) F)
    | KEpsTrans B => Some (delta_add (rvar r) eps B d, F)
    | KTrans a B => Some (delta_add (rvar r) a B d, F)
    | KBad => None
    end
  end.
(* the automaton handed to the NFA constructor *)
Definition cfg_to_nfa_raw (eps geps : nat) (G : cfg) : option (nfa nat) :=
  match fold_left (nfa_conv_step eps geps) (gR G) (Some ([], [])) with
  | None => None
  | Some (d, F) => Some (mkNFA (gV G) (gSg G) d (gS G) F eps)
  end.
Definition cfg_to_nfa_res (eps geps : nat) (G : cfg) : conv_result (nfa nat) :=
  if negb (mem (gS G) (gV G)) then ConvStopIteration
  else match cfg_to_nfa_raw eps geps G with
       | None => ConvRuntimeError
       | Some N => if nfa_wf_b N then ConvOk N else ConvAssertionError
       end.
Definition cfg_to_nfa (eps geps : nat) (G : cfg) : option (nfa nat) := conv_option (cfg_to_nfa_res eps geps G).

(* body of `for rule in G.R` of cfg_to_dfa: no epsilon transitions, delta[q, a] = q1 overwrites *)
Definition dfa_conv_step (geps : nat) (st : option (list ((nat * nat) * nat) * list nat)) (r : rule)
  : option (list ((nat * nat) * nat) * list nat) :=
  match st with
  | None => None
  | Some (d, F) =>
    match alt_kind_of geps (rrhs r) with
    | KEps => Some (d, add (rvar r) F)
    | KTrans a B => Some (update (rvar r, a) B d, F)
    | KEpsTrans _ | KBad => None
    end
  end.
Definition cfg_to_dfa_raw (geps : nat) (G : cfg) : option (dfa nat) :=
  match fold_left (dfa_conv_step geps) (gR G) (Some ([], [])) with
  | None => None
  | Some (d, F) => Some (mkDFA (gV G) (gSg G) d (gS G) F)
  end.
Definition cfg_to_dfa_res (check_validity : bool) (geps : nat) (G : cfg) : conv_result (dfa nat) :=
  if negb (mem (gS G) (gV G)) then ConvStopIteration
  else match cfg_to_dfa_raw geps G with
       | None => ConvRuntimeError
       | Some D => if negb check_validity || dfa_wf_b D then ConvOk D else ConvAssertionError
       end.
Definition cfg_to_dfa (check_validity : bool) (geps : nat) (G : cfg) : option (dfa nat) :=
  conv_option (cfg_to_dfa_res check_validity geps G).
