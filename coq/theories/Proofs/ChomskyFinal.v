(* Properties C08 / C07, composition of the five phases of cfg_to_chomsky:
   the conversion returns a valid grammar in Chomsky normal form that generates exactly the same language
   (to_chomsky_correct), hence membership (cfg_accepts) and enumeration (cfg_words) are exact for arbitrary
   grammars.  Stdlib only, no axioms.

   Side conditions.  `names_disjoint G` (no variable name is a terminal name) is needed by phase 3, whose
   test `B in V` compares names.  The fresh start variable of phase 1 is only checked against V
   (take_fresh), so the hypothesis "no name of the stream is a terminal name" is needed as well:
   `to_chomsky_needs_nonterminal_names` below is a run in which the fresh start variable has the name of a
   terminal and the resulting grammar generates a different language.
   `ids_consistent (gR G)` is NOT needed: phase 2 renumbers all alternatives.

   Totality (to_chomsky_total): phases 2 and 3 never fail; the conversion succeeds whenever the stream consists of
   pairwise distinct names that are neither variable nor terminal names and has at least `chomsky_names_bound G`
   elements (1 for the start variable, |R3| * M for the chains of phase 4 where R3 bounds the number of rules after
   phase 3 and M the length of a right-hand side, |Sigma| for the terminals of phase 5). *)
From GT Require Import Base.Prelude Model.CFG Model.Chomsky Model.CYK.
From GT Require Import Proofs.CFGBasics Proofs.ChomskyFreshProofs.
From GT Require Proofs.CYKProofs Proofs.CFGEnumProofs Proofs.ChomskyEpsUnitProofs.
From Coq Require Import Permutation.
Module EU := GT.Proofs.ChomskyEpsUnitProofs.

(* ---- small facts ---- *)
Lemma NoDup_map_inj {A B} (f : A -> B) l : NoDup (map f l) -> forall x y, In x l -> In y l -> f x = f y -> x = y.
Proof.
  induction l as [|a l IH]; cbn [map]; intros Hnd x y Hx Hy E; [destruct Hx|].
  inversion Hnd as [|b l' Hn Hnd']; subst.
  destruct Hx as [<-|Hx], Hy as [<-|Hy].
  - reflexivity.
  - exfalso. apply Hn. rewrite E. apply in_map. exact Hy.
  - exfalso. apply Hn. rewrite <- E. apply in_map. exact Hx.
  - apply IH; assumption.
Qed.

Lemma NoDup_rid_consistent R : NoDup (map rid R) -> ids_consistent R.
Proof. intros Hnd r1 r2 H1 H2 E. rewrite (NoDup_map_inj rid R Hnd r1 r2 H1 H2 E). reflexivity. Qed.

Lemma tc_last (R : nat -> nat -> Prop) x z : EU.tc R x z -> exists y, R y z.
Proof. intros H. induction H as [x y Hxy|x y z Hxy _ IH]; [exists x; exact Hxy | exact IH]. Qed.

Lemma Forall2_pair_inv {A B} (Q : A -> B -> Prop) x y l :
  Forall2 Q [x; y] l -> exists x' y', l = [x'; y'] /\ Q x x' /\ Q y y'.
Proof.
  intros H. inversion H as [|a b l1 l2 H1 H2]; subst.
  inversion H2 as [|a' b' l1' l2' H3 H4]; subst. inversion H4; subst. exists b, b'. auto.
Qed.

(* ---- frame lemmas: where the right-hand-side symbols of the new grammar come from ---- *)
Lemma add_start_head stream G G1 s1 : add_start stream G = Some (G1, s1) -> stream = gS G1 :: s1.
Proof.
  unfold add_start. destruct (take_fresh (gV G) stream) as [[S0 rest0]|] eqn:Et; [|discriminate].
  intros E. inversion E; subst G1 s1. cbn [gS]. apply take_fresh_spec in Et. exact (proj1 Et).
Qed.

Lemma remove_eps_frame G G' : remove_eps G = Some G' ->
  forall r x, In r (gR G') -> In x (rrhs r) -> exists r0, In r0 (gR G) /\ In x (rrhs r0).
Proof.
  intros E r x Hr Hx. destruct (EU.cfg_nullable_correct G) as [W [EW _]].
  assert (Hh : has_rule G' (rvar r) (rrhs r)) by (exists r; auto).
  apply (EU.remove_eps_rules G W G' EW E) in Hh. destruct Hh as [y [[r0 [Hr0 [_ Hy]]] [Hd _]]].
  exists r0. split; [exact Hr0|]. rewrite Hy. eapply EU.dropsub_incl; eauto.
Qed.

Lemma elim_unit_frame ordV G G' : cfg_wf G -> EU.names_disjoint G -> EU.perm_order ordV -> elim_unit ordV G = Some G' ->
  forall r, In r (gR G') -> exists r0, In r0 (gR G) /\ rrhs r0 = rrhs r.
Proof.
  intros Hwf Hdj Hperm E r Hr.
  assert (Hh : has_rule G' (rvar r) (rrhs r)) by (exists r; auto).
  apply (EU.elim_unit_rules ordV G G' Hwf Hdj Hperm E) in Hh. destruct Hh as [_ [B [_ [r0 [Hr0 [_ Hrhs]]]]]].
  exists r0. auto.
Qed.

Lemma chain_rules_syms names : forall u next r x, In r (chain_rules names u next) -> In x (rrhs r) ->
  In x u \/ exists A, In A names /\ x = Var A.
Proof.
  induction names as [|Ak names IH]; intros u next r x Hr Hx; [destruct Hr|].
  destruct names as [|Ak1 names'].
  - cbn [chain_rules] in Hr. destruct Hr as [<-|[]]. left. exact Hx.
  - destruct u as [|x0 u']; [destruct Hr|]. cbn [chain_rules] in Hr. destruct Hr as [<-|Hr].
    + cbn [rrhs] in Hx. destruct Hx as [<-|[<-|[]]]; [left; left; reflexivity|].
      right. exists Ak1. split; [right; left; reflexivity | reflexivity].
    + destruct (IH u' (S next) r x Hr Hx) as [H|(A & HA & ->)]; [left; right; exact H|].
      right. exists A. split; [right; exact HA | reflexivity].
Qed.

(* phase 4: a property of symbols that holds for all old right-hand-side symbols and for all variables outside V
   holds for all new right-hand-side symbols *)
Section Frame4.
  Variable G : cfg.
  Variable P : sym -> Prop.
  Hypothesis HP_old : forall r x, In r (gR G) -> In x (rrhs r) -> P x.
  Hypothesis HP_new : forall A, ~ In A (gV G) -> P (Var A).

  Definition FInv4 (pre : list rule) (st : st4) : Prop :=
    match st with
    | (V, head, appended, stream, done, next) =>
      incl (gV G) V /\
      (forall r x, In r head -> In x (rrhs r) -> P x) /\
      (forall r x, In r appended -> In x (rrhs r) -> P x) /\
      (forall i nr x, lookup i done = Some nr -> In x nr -> P x)
    end.

  Lemma frame4_step pre r st st' : incl pre (gR G) -> In r (gR G) -> FInv4 pre st -> len2_step (Some st) r = Some st' -> FInv4 (pre ++ [r]) st'.
  Proof.
    intros _ Hr Hinv Hs. destruct st as [[[[[V head] appended] stream] done] next].
    rewrite len2_step_unfold in Hs. destruct Hinv as (HV & Hhead & Happ & Hdone).
    destruct (lookup (rid r) done) as [newrhs|] eqn:Ed.
    - inversion Hs; subst st'; clear Hs. split; [exact HV|]. split; [|split; [exact Happ | exact Hdone]].
      intros r0 x Hin Hx. apply in_app_iff in Hin. destruct Hin as [Hin|[<-|[]]]; [eapply Hhead; eassumption|].
      cbn [rrhs] in Hx. eapply Hdone; eassumption.
    - destruct (Nat.leb (length (rrhs r)) 2) eqn:El.
      + inversion Hs; subst st'; clear Hs. split; [exact HV|]. split; [|split; [exact Happ | exact Hdone]].
        intros r0 x Hin Hx. apply in_app_iff in Hin. destruct Hin as [Hin|[<-|[]]]; [eapply Hhead; eassumption|].
        eapply HP_old; eassumption.
      + destruct (take_fresh_n (length (rrhs r) - 2) V stream) as [[[names V'] stream']|] eqn:Et; [|discriminate].
        apply take_fresh_n_spec in Et. destruct Et as (HV' & _ & _ & Hdisn).
        assert (Hold : forall x, In x (rrhs r) -> P x) by (intros x Hx; apply (HP_old r x Hr Hx)).
        destruct (rrhs r) as [|u0 urest]; [discriminate|].
        destruct names as [|A0 names']; [discriminate|].
        inversion Hs; subst st'; clear Hs.
        assert (Hnew : forall A, In A (A0 :: names') -> P (Var A)).
        { intros A HA. apply HP_new. intros Hc. apply (Hdisn A HA). apply HV. exact Hc. }
        split; [rewrite HV'; intros y Hy; apply in_or_app; left; apply HV; exact Hy|].
        split.
        { intros r0 x Hin Hx. apply in_app_iff in Hin. destruct Hin as [Hin|[<-|[]]]; [eapply Hhead; eassumption|].
          cbn [rrhs] in Hx. destruct Hx as [<-|[<-|[]]]; [apply Hold; left; reflexivity | apply Hnew; left; reflexivity]. }
        split.
        { intros r0 x Hin Hx. apply in_app_iff in Hin. destruct Hin as [Hin|Hin]; [eapply Happ; eassumption|].
          destruct (chain_rules_syms (A0 :: names') urest next r0 x Hin Hx) as [H|(A & HA & ->)]; [apply Hold; right; exact H | apply Hnew; exact HA]. }
        intros i nr x Hl Hx. cbn [lookup] in Hl. destruct (eqb i (rid r)) eqn:Ei.
        * inversion Hl; subst nr. destruct Hx as [<-|[<-|[]]]; [apply Hold; left; reflexivity | apply Hnew; left; reflexivity].
        * eapply Hdone; eassumption.
  Qed.

  Lemma len_two_frame stream G' rest : len_two stream G = Some (G', rest) ->
    forall r x, In r (gR G') -> In x (rrhs r) -> P x.
  Proof.
    intros Hl. unfold len_two in Hl.
    destruct (fold_left len2_step (gR G) (Some (gV G, [], [], stream, [], S (max_id (gR G)))))
      as [[[[[[V head] appended] stream'] done] next]|] eqn:Ef; [|discriminate].
    inversion Hl; subst G' rest; clear Hl.
    assert (Hinv : FInv4 (gR G) (V, head, appended, stream', done, next)).
    { apply (fold_opt_inv len2_step (gR G) FInv4 (fun _ => eq_refl) frame4_step (gR G) [] (gV G, [], [], stream, [], S (max_id (gR G)))).
      - cbn [app]. apply incl_refl.
      - split; [apply incl_refl|]. split; [intros r x []|]. split; [intros r x []|]. intros i nr x Hl; discriminate.
      - exact Ef. }
    destruct Hinv as (_ & Hhead & Happ & _). cbn [gR]. intros r x Hr Hx.
    apply in_app_iff in Hr. destruct Hr as [Hr|Hr]; [eapply Hhead; eassumption | eapply Happ; eassumption].
  Qed.
End Frame4.

(* ================= the composition ================= *)
Theorem to_chomsky_correct ordV stream G G' rest :
  cfg_wf G -> EU.names_disjoint G -> In (gS G) (gV G) -> EU.perm_order ordV ->
  (forall x, In x stream -> ~ In x (gSg G)) ->
  to_chomsky ordV stream G = Some (G', rest) ->
  cfg_wf G' /\ is_chomsky G' /\ gSg G' = gSg G /\
  (exists new, gV G' = gV G ++ new /\ NoDup new /\ forall x, In x new -> ~ In x (gV G)) /\
  forall w, cfg_lang G' w <-> cfg_lang G w.
Proof.
  intros Hwf Hdj HS Hperm Hstream Hc. unfold to_chomsky in Hc.
  destruct (add_start stream G) as [[G1 s1]|] eqn:E1; [|discriminate].
  destruct (remove_eps G1) as [G2|] eqn:E2; [|discriminate].
  destruct (elim_unit ordV G2) as [G3|] eqn:E3; [|discriminate].
  destruct (len_two s1 G3) as [[G4 s4]|] eqn:E4; [|discriminate].
  rename Hc into E5.
  (* phase 1 *)
  destruct (add_start_correct stream G G1 s1 Hwf HS E1) as (Hwf1 & HS0new & HV1 & HSg1 & _ & P1 & Hl1 & _).
  assert (HS0sg : ~ In (gS G1) (gSg G)).
  { apply Hstream. rewrite (add_start_head stream G G1 s1 E1). left; reflexivity. }
  assert (HS0V1 : In (gS G1) (gV G1)) by (rewrite HV1; apply in_or_app; right; left; reflexivity).
  assert (Hdj1 : EU.names_disjoint G1).
  { intros x Hx. rewrite HSg1. rewrite HV1 in Hx. apply in_app_iff in Hx.
    destruct Hx as [Hx|[<-|[]]]; [apply Hdj; exact Hx | exact HS0sg]. }
  (* phase 2 *)
  destruct (EU.remove_eps_correct G1 G2 Hwf1 E2) as (Hwf2 & HV2 & HSg2 & HS2 & Heps2 & Hne2 & Hnil2 & Hnd2).
  assert (P2 : forall r x, In r (gR G2) -> In x (rrhs r) -> x <> Var (gS G1)).
  { intros r x Hr Hx. destruct (remove_eps_frame G1 G2 E2 r x Hr Hx) as (r0 & Hr0 & Hx0). exact (P1 r0 x Hr0 Hx0). }
  assert (Hdj2 : EU.names_disjoint G2).
  { intros x Hx. rewrite HSg2. rewrite HV2 in Hx. apply Hdj1; exact Hx. }
  (* phase 3 *)
  destruct (EU.elim_unit_correct ordV G2 G3 Hwf2 Hdj2 Hperm E3) as (Hwf3 & HV3 & HSg3 & HS3 & Hnu3 & Hl3 & Heps3 & Hids3 & _).
  assert (P3 : forall r x, In r (gR G3) -> In x (rrhs r) -> x <> Var (gS G1)).
  { intros r x Hr Hx. destruct (elim_unit_frame ordV G2 G3 Hwf2 Hdj2 Hperm E3 r Hr) as (r0 & Hr0 & Hrhs).
    apply (P2 r0 x Hr0). rewrite Hrhs. exact Hx. }
  assert (Heps3' : forall r, In r (gR G3) -> rrhs r = [] -> rvar r = gS G1).
  { intros r Hr Hnil. destruct (Heps3 r Hr Hnil) as (r0 & Hr0 & Hnil0 & Hcase).
    pose proof (Heps2 r0 Hr0 Hnil0) as Hv0. rewrite HS2 in Hv0.
    destruct Hcase as [Hv|Hreach]; [congruence|]. exfalso.
    rewrite Hv0 in Hreach. destruct (tc_last _ _ _ Hreach) as [Y [[ry (Hry & _ & Hrhs)] _]].
    apply (P2 ry (Var (gS G1)) Hry); [rewrite Hrhs; left; reflexivity | reflexivity]. }
  assert (HV3' : gV G3 = gV G1) by congruence.
  assert (HS0V3 : In (gS G1) (gV G3)) by (rewrite HV3'; exact HS0V1).
  assert (Hids3' : ids_consistent (gR G3)) by (apply Hids3, NoDup_rid_consistent, Hnd2).
  (* phase 4 *)
  destruct (len_two_correct s1 G3 G4 s4 Hwf3 Hids3' E4)
    as (Hwf4 & HS4 & HSg4 & (new4 & HV4 & Hnd4 & Hdis4) & Hlen4 & Hl4 & Hshort4 & _).
  assert (P4 : forall r x, In r (gR G4) -> In x (rrhs r) -> x <> Var (gS G1)).
  { apply (len_two_frame G3 (fun x => x <> Var (gS G1)) P3) with (stream := s1) (rest := s4); [|exact E4].
    intros A HA Heq. inversion Heq; subst A. exact (HA HS0V3). }
  assert (HS0V4 : In (gS G1) (gV G4)) by (rewrite HV4; apply in_or_app; left; exact HS0V3).
  (* phase 5 *)
  destruct (elim_terminals_correct s4 G4 G' rest Hwf4 E5)
    as (Hwf5 & HS5 & HSg5 & (new5 & HV5 & Hnd5 & Hdis5) & _ & Hl5 & Hstruct5).
  assert (HS5' : gS G' = gS G1) by congruence.
  split; [exact Hwf5|]. split; [|split; [congruence|split]].
  - (* Chomsky normal form *)
    intros r' Hr'. rewrite HS5'.
    destruct (Hstruct5 r' Hr') as [(a & _ & Ha) | (r4 & Hr4 & Hv & Hcase)]; [right; left; exists a; exact Ha|].
    pose proof (Hlen4 r4 Hr4) as Hlen. pose proof (Hshort4 r4 Hr4) as Hshort. pose proof (P4 r4) as P4r.
    destruct Hcase as [[Hle Heq]|[Hge HF]].
    + (* a rule of length <= 1, unchanged since phase 3 *)
      destruct (rrhs r4) as [|x [|y l]]; [| |cbn [length] in Hle; lia].
      * left. split; [exact Heq|]. destruct (Hshort (or_introl eq_refl)) as (r3 & Hr3 & Hv3 & Hrhs3).
        rewrite Hv, <- Hv3. apply Heps3'; assumption.
      * right; left. destruct (Hshort (or_intror (ex_intro _ x eq_refl))) as (r3 & Hr3 & Hv3 & Hrhs3).
        pose proof (Hnu3 r3 Hr3) as Hu. unfold is_unit in Hu. rewrite Hrhs3 in Hu.
        destruct x as [[|] a]; [discriminate|]. exists a. exact Heq.
    + (* a rule of length 2: variables only, none of them the start variable *)
      destruct (rrhs r4) as [|x [|y [|z l]]]; cbn [length] in Hge, Hlen; try lia.
      apply Forall2_pair_inv in HF. destruct HF as (x' & y' & Er' & Qx & Qy).
      assert (Hsym : forall s s', In s [x; y] ->
                ((is_var s = true /\ s' = s) \/ (exists a A, s = Tm a /\ s' = Var A /\ is_new G4 G' A)) ->
                exists B, s' = Var B /\ B <> gS G1).
      { intros s s' Hs [[Hvar ->]|(a & A & _ & -> & _ & HA)].
        - destruct s as [[|] B]; [|discriminate]. exists B. split; [reflexivity|].
          intros ->. apply (P4r _ Hr4 Hs). reflexivity.
        - exists A. split; [reflexivity|]. intros ->. exact (HA HS0V4). }
      destruct (Hsym x x' (or_introl eq_refl) Qx) as (B & -> & HB).
      destruct (Hsym y y' (or_intror (or_introl eq_refl)) Qy) as (C & -> & HC).
      right; right. exists B, C. auto.
  - (* the new variables *)
    exists (gS G1 :: new4 ++ new5). split.
    { rewrite HV5, HV4, HV3', HV1, <- !app_assoc. reflexivity. }
    assert (Hincl13 : incl (gV G) (gV G3)).
    { intros y Hy. rewrite HV3', HV1. apply in_or_app. left; exact Hy. }
    split.
    + constructor.
      * rewrite in_app_iff. intros [Hc|Hc]; [exact (Hdis4 _ Hc HS0V3) | exact (Hdis5 _ Hc HS0V4)].
      * apply NoDup_app_intro; [exact Hnd4 | exact Hnd5|].
        intros y Hy Hc. apply (Hdis5 y Hy). rewrite HV4. apply in_or_app. right; exact Hc.
    + intros y [<-|Hy]; [exact HS0new|]. apply in_app_iff in Hy. destruct Hy as [Hy|Hy].
      * intros Hc. apply (Hdis4 y Hy). apply Hincl13; exact Hc.
      * intros Hc. apply (Hdis5 y Hy). rewrite HV4. apply in_or_app. left. apply Hincl13; exact Hc.
  - (* the language *)
    intros w. rewrite !derives_yields. unfold yields_lang. rewrite HS5'.
    rewrite (Hl5 (gS G1) w HS0V4), (Hl4 (gS G1) w HS0V3), (Hl3 (gS G1) w).
    transitivity (yields G1 (Var (gS G1)) w); [|apply Hl1].
    destruct w as [|a w]; [exact Hnil2 | apply Hne2; discriminate].
Qed.

(* ================= membership and enumeration for arbitrary grammars ================= *)
Theorem cfg_accepts_correct ordV stream G w b :
  cfg_wf G -> EU.names_disjoint G -> In (gS G) (gV G) -> EU.perm_order ordV ->
  (forall x, In x stream -> ~ In x (gSg G)) ->
  cfg_accepts ordV stream G w = Some b -> (b = true <-> cfg_lang G w).
Proof.
  intros Hwf Hdj HS Hperm Hstream Ha. unfold cfg_accepts in Ha.
  destruct (is_chomsky_b G) eqn:Ec.
  - inversion Ha; subst b. apply CYKProofs.cnf_accepts_correct; [apply is_chomsky_b_spec; exact Ec | exact Hwf].
  - destruct (to_chomsky ordV stream G) as [[G' rest]|] eqn:Et; [|discriminate]. inversion Ha; subst b.
    destruct (to_chomsky_correct ordV stream G G' rest Hwf Hdj HS Hperm Hstream Et) as (Hwf' & Hc' & _ & _ & Hl).
    rewrite <- Hl. apply CYKProofs.cnf_accepts_correct; assumption.
Qed.

Theorem cfg_words_exact ordV stream G n L :
  cfg_wf G -> EU.names_disjoint G -> In (gS G) (gV G) -> EU.perm_order ordV ->
  (forall x, In x stream -> ~ In x (gSg G)) ->
  cfg_words ordV stream G n = Some L -> forall w, In w L <-> length w <= n /\ cfg_lang G w.
Proof.
  intros Hwf Hdj HS Hperm Hstream Ha w. unfold cfg_words in Ha.
  destruct (is_chomsky_b G) eqn:Ec.
  - inversion Ha; subst L. apply CFGEnumProofs.cnf_words_exact. apply is_chomsky_b_spec; exact Ec.
  - destruct (to_chomsky ordV stream G) as [[G' rest]|] eqn:Et; [|discriminate]. inversion Ha; subst L.
    destruct (to_chomsky_correct ordV stream G G' rest Hwf Hdj HS Hperm Hstream Et) as (_ & Hc' & _ & _ & Hl).
    rewrite <- Hl. apply CFGEnumProofs.cnf_words_exact. exact Hc'.
Qed.

(* ---- the hypothesis on the names of the stream is needed ----
   S -> A A ; A -> a  with S = 0, A = 2, a = 1, and the fresh start variable is named 1 like the terminal:
   phase 3 takes A -> a for a unit rule A -> S0 and copies the rule S0 -> A A (from S0 -> S) to A. *)
Example to_chomsky_needs_nonterminal_names :
  exists ordV stream G G' rest,
    cfg_wf G /\ EU.names_disjoint G /\ In (gS G) (gV G) /\ EU.perm_order ordV /\ ids_consistent (gR G) /\
    NoDup stream /\ (forall x, In x stream -> ~ In x (gV G)) /\
    to_chomsky ordV stream G = Some (G', rest) /\ exists w, cfg_lang G' w /\ ~ cfg_lang G w.
Proof.
  set (G := mkCFG [0; 2] [1] [mkRule 0 0 [Var 2; Var 2]; mkRule 2 1 [Tm 1]] 0).
  set (G' := mkCFG [0; 2; 1] [1] [mkRule 1 1 [Var 2; Var 2]; mkRule 2 2 [Tm 1]; mkRule 2 1 [Var 2; Var 2]; mkRule 0 1 [Var 2; Var 2]] 1).
  exists (fun l => l), [1; 5], G, G', [5].
  assert (Hwf : cfg_wf G) by (apply cfg_wf_b_spec; vm_compute; reflexivity).
  assert (Hc : is_chomsky G) by (apply is_chomsky_b_spec; vm_compute; reflexivity).
  assert (Hwf' : cfg_wf G') by (apply cfg_wf_b_spec; vm_compute; reflexivity).
  assert (Hc' : is_chomsky G') by (apply is_chomsky_b_spec; vm_compute; reflexivity).
  split; [exact Hwf|].
  split. { intros x [<-|[<-|[]]] [E|[]]; discriminate. }
  split; [left; reflexivity|].
  split. { intros l. apply Permutation_refl. }
  split. { intros r1 r2 [<-|[<-|[]]] [<-|[<-|[]]] E; try reflexivity; discriminate. }
  split. { constructor; [intros [E|[]]; discriminate|]. constructor; [intros []|constructor]. }
  split. { intros x [<-|[<-|[]]] [E|[E|[]]]; discriminate. }
  split; [vm_compute; reflexivity|].
  exists [1; 1; 1]. split.
  - apply (CYKProofs.cnf_accepts_correct G' [1; 1; 1] Hc' Hwf'). vm_compute. reflexivity.
  - intros Hl. apply (CYKProofs.cnf_accepts_correct G [1; 1; 1] Hc Hwf) in Hl. vm_compute in Hl. discriminate.
Qed.


(* ================= totality: the conversion can only fail for lack of fresh names ================= *)
Definition maxlen (R : list rule) : nat := list_max (map (fun r => length (rrhs r)) R).

Lemma maxlen_ge R r : In r R -> length (rrhs r) <= maxlen R.
Proof.
  intros Hr. unfold maxlen.
  pose proof (proj1 (list_max_le (map (fun r => length (rrhs r)) R) _) (Nat.le_refl _)) as H.
  rewrite Forall_forall in H. apply H. apply in_map_iff. exists r. auto.
Qed.

Lemma flat_map_length_le {A B} (f : A -> list B) c l :
  (forall x, In x l -> length (f x) <= c) -> length (flat_map f l) <= length l * c.
Proof.
  induction l as [|a l IH]; intros H; cbn [flat_map length]; [lia|].
  rewrite app_length, Nat.mul_succ_l.
  pose proof (H a (or_introl eq_refl)) as Ha. pose proof (IH (fun x Hx => H x (or_intror Hx))) as Hl. lia.
Qed.

Lemma filter_len_le {A} (f : A -> bool) l : length (filter f l) <= length l.
Proof. induction l as [|a l IH]; cbn [filter length]; [lia|]. destruct (f a); cbn [length]; lia. Qed.

Lemma NoDup_app_parts {A} (l1 l2 : list A) : NoDup (l1 ++ l2) -> NoDup l1 /\ NoDup l2 /\ forall x, In x l1 -> ~ In x l2.
Proof.
  induction l1 as [|a l1 IH]; cbn [app]; intros H.
  - split; [constructor|]. split; [exact H | intros x []].
  - inversion H as [|a' l' Hn Hnd]; subst. destruct (IH Hnd) as (H1 & H2 & H3).
    split; [constructor; [intros Hc; apply Hn; apply in_or_app; left; exact Hc | exact H1]|].
    split; [exact H2|]. intros x [<-|Hx]; [intros Hc; apply Hn; apply in_or_app; right; exact Hc | apply H3; exact Hx].
Qed.

(* ---- sizes after phases 2 and 3 ---- *)
Lemma expand_nullable_length x W : length (expand_nullable x W) <= 2 ^ length x.
Proof.
  induction x as [|s x IH]; cbn [expand_nullable length]; [cbn; lia|].
  rewrite app_length, map_length, Nat.pow_succ_r'.
  assert (H : length (if is_var s && mem (sname s) W then expand_nullable x W else []) <= length (expand_nullable x W))
    by (destruct (is_var s && mem (sname s) W); cbn [length]; lia).
  lia.
Qed.

Lemma eps_alts_length G W r y : length (EU.eps_alts G W r y) <= 1.
Proof.
  destruct y as [|s y]; cbn [EU.eps_alts]; [|cbn [length]; lia].
  destruct (mem (rvar r) W && negb (Nat.eqb (rvar r) (gS G))); cbn [length]; lia.
Qed.

Lemma rdr_length R : forall seen, length (remove_dup_rules R seen) <= length R.
Proof.
  induction R as [|r R IH]; intros seen; cbn [remove_dup_rules length]; [lia|].
  destruct (existsb (rule_eqb r) seen); [specialize (IH seen) | specialize (IH (seen ++ [r]))]; cbn [length]; lia.
Qed.

Lemma renumber_length R : forall i, length (renumber R i) = length R.
Proof. induction R as [|r R IH]; intros i; cbn [renumber length]; [reflexivity|]. rewrite IH. reflexivity. Qed.

Lemma dropsub_length W x y : EU.dropsub W x y -> length y <= length x.
Proof. induction 1 as [|s x y _ IH|A x y _ _ IH]; cbn [length]; lia. Qed.

Lemma remove_eps_size G G' M : remove_eps G = Some G' -> (forall r, In r (gR G) -> length (rrhs r) <= M) ->
  length (gR G') <= length (gR G) * 2 ^ M /\ (forall r, In r (gR G') -> length (rrhs r) <= M).
Proof.
  intros E HM. destruct (EU.cfg_nullable_correct G) as [W [EW _]]. split.
  - rewrite EU.remove_eps_unfold, EW in E. inversion E; subst G'. cbn [gR].
    rewrite renumber_length. eapply Nat.le_trans; [apply rdr_length|].
    unfold EU.eps_R1. apply flat_map_length_le. intros r Hr.
    eapply Nat.le_trans; [apply flat_map_length_le with (c := 1); intros y _; apply eps_alts_length|].
    rewrite Nat.mul_1_r. eapply Nat.le_trans; [apply expand_nullable_length|].
    apply Nat.pow_le_mono_r; [lia | apply HM; exact Hr].
  - intros r Hr. assert (Hh : has_rule G' (rvar r) (rrhs r)) by (exists r; auto).
    apply (EU.remove_eps_rules G W G' EW E) in Hh. destruct Hh as [y [[r0 [Hr0 [_ Hy]]] [Hd _]]].
    apply dropsub_length in Hd. specialize (HM r0 Hr0). rewrite Hy in HM. lia.
Qed.

Lemma eu_copy_length A W R1 r : length (EU.eu_copy A W R1 r) <= S (length R1).
Proof.
  unfold EU.eu_copy. destruct (mem (rvar r) W && negb (is_unit r)); [|lia]. cbv zeta.
  destruct (existsb (rule_eqb (mkRule A (rid r) (rrhs r))) R1); [lia|]. rewrite app_length. cbn [length]. lia.
Qed.

Lemma eu_copy_fold_length A W L : forall R1, length (fold_left (EU.eu_copy A W) L R1) <= length R1 + length L.
Proof.
  induction L as [|r L IH]; intros R1; cbn [fold_left length]; [lia|].
  specialize (IH (EU.eu_copy A W R1 r)). pose proof (eu_copy_length A W R1 r). lia.
Qed.

Lemma eu_outer_length G As : forall R1 R', fold_left (EU.eu_step G) As (Some R1) = Some R' ->
  length R' <= length R1 + length As * length (gR G).
Proof.
  induction As as [|A As IH]; intros R1 R' E; cbn [fold_left] in E.
  - inversion E; subst. cbn [length]. lia.
  - destruct (EU.cfg_derivable_ut G A) as [W [EW _]].
    assert (Es : EU.eu_step G (Some R1) A = Some (fold_left (EU.eu_copy A W) (gR G) R1))
      by (unfold EU.eu_step; rewrite EW; reflexivity).
    rewrite Es in E. apply IH in E. pose proof (eu_copy_fold_length A W (gR G) R1).
    cbn [length]. rewrite Nat.mul_succ_l. lia.
Qed.

Lemma elim_unit_size ordV G G' : EU.perm_order ordV -> elim_unit ordV G = Some G' ->
  length (gR G') <= length (gR G) * S (length (gV G)).
Proof.
  intros Hperm E. rewrite EU.elim_unit_unfold in E.
  destruct (fold_left (EU.eu_step G) (ordV (gV G)) (Some (gR G))) as [R'|] eqn:ER; [|discriminate].
  inversion E; subst G'. cbn [gR]. rewrite (Permutation_length (EU.psf_perm _ _)).
  eapply Nat.le_trans; [apply filter_len_le|].
  apply eu_outer_length in ER. rewrite (Permutation_length (Hperm (gV G))) in ER.
  rewrite Nat.mul_succ_r, (Nat.mul_comm (length (gR G))). lia.
Qed.

(* ---- phase 4 succeeds when the stream is long enough ---- *)
Fixpoint need4 (R : list rule) : nat :=
  match R with [] => 0 | r :: R' => (length (rrhs r) - 2) + need4 R' end.

Lemma need4_bound M R : (forall r, In r R -> length (rrhs r) <= M) -> need4 R <= length R * M.
Proof.
  induction R as [|r R IH]; intros HM; cbn [need4 length]; [lia|].
  rewrite Nat.mul_succ_l. pose proof (HM r (or_introl eq_refl)). pose proof (IH (fun x Hx => HM x (or_intror Hx))). lia.
Qed.

Lemma take_fresh_n_total n : forall V stream, NoDup stream -> (forall x, In x stream -> ~ In x V) -> n <= length stream ->
  take_fresh_n n V stream = Some (firstn n stream, V ++ firstn n stream, skipn n stream).
Proof.
  induction n as [|n IH]; intros V stream Hnd Hdis Hlen; cbn [take_fresh_n firstn skipn].
  - rewrite app_nil_r. reflexivity.
  - destruct stream as [|x rest]; [cbn [length] in Hlen; lia|].
    assert (Hm : mem x V = false) by (apply mem_nIn; apply Hdis; left; reflexivity).
    unfold take_fresh. rewrite Hm. inversion Hnd as [|x' l' Hx Hnd']; subst.
    rewrite (IH (V ++ [x]) rest Hnd').
    + rewrite <- app_assoc. reflexivity.
    + intros y Hy Hc. apply in_app_iff in Hc.
      destruct Hc as [Hc|[<-|[]]]; [exact (Hdis y (or_intror Hy) Hc) | exact (Hx Hy)].
    + cbn [length] in Hlen. lia.
Qed.

Lemma len2_fold_total R : forall V head apd stream done next,
  NoDup stream -> (forall x, In x stream -> ~ In x V) -> need4 R <= length stream ->
  exists V' head' app' stream' done' next' used,
    fold_left len2_step R (Some (V, head, apd, stream, done, next)) = Some (V', head', app', stream', done', next') /\
    stream = used ++ stream' /\ V' = V ++ used /\ length used <= need4 R.
Proof.
  induction R as [|r R IH]; intros V head apd stream done next Hnd Hdis Hlen; cbn [fold_left need4] in *.
  - exists V, head, apd, stream, done, next, []. rewrite app_nil_r. cbn [app length]. auto.
  - rewrite len2_step_unfold. destruct (lookup (rid r) done) as [newrhs|].
    { destruct (IH V (head ++ [mkRule (rvar r) (rid r) newrhs]) apd stream done next Hnd Hdis)
        as (V' & h' & a' & s' & d' & n' & used & Hf & Hs & HV & Hu); [lia|].
      exists V', h', a', s', d', n', used. repeat split; try assumption. lia. }
    destruct (Nat.leb (length (rrhs r)) 2) eqn:El.
    { destruct (IH V (head ++ [r]) apd stream done next Hnd Hdis)
        as (V' & h' & a' & s' & d' & n' & used & Hf & Hs & HV & Hu); [lia|].
      exists V', h', a', s', d', n', used. repeat split; try assumption. lia. }
    apply Nat.leb_gt in El. remember (length (rrhs r) - 2) as n eqn:En.
    rewrite (take_fresh_n_total n V stream Hnd Hdis) by lia.
    assert (Hfl : length (firstn n stream) = n) by (apply firstn_length_le; lia).
    assert (Hsplit : firstn n stream ++ skipn n stream = stream) by apply firstn_skipn.
    destruct (rrhs r) as [|u0 urest]; [cbn [length] in El; lia|].
    destruct (firstn n stream) as [|A0 names'] eqn:Ef; [cbn [length] in Hfl, El, En; lia|].
    rewrite <- Hsplit in Hnd. destruct (NoDup_app_parts _ _ Hnd) as (_ & Hnd2 & Hdisj).
    destruct (IH (V ++ A0 :: names') (head ++ [mkRule (rvar r) (rid r) [u0; Var A0]])
                 (apd ++ chain_rules (A0 :: names') urest next) (skipn n stream)
                 ((rid r, [u0; Var A0]) :: done) (next + length (A0 :: names')) Hnd2)
      as (V' & h' & a' & s' & d' & n' & used & Hf & Hs & HV & Hu).
    + intros x Hx Hc. apply in_app_iff in Hc. destruct Hc as [Hc|Hc].
      * apply (Hdis x); [rewrite <- Hsplit; apply in_or_app; right; exact Hx | exact Hc].
      * exact (Hdisj x Hc Hx).
    + rewrite skipn_length. lia.
    + exists V', h', a', s', d', n', ((A0 :: names') ++ used).
      split; [exact Hf|]. split; [rewrite <- Hsplit, Hs, app_assoc; reflexivity|].
      split; [rewrite HV, app_assoc; reflexivity|]. rewrite app_length, Hfl. lia.
Qed.

Lemma len_two_total stream G : NoDup stream -> (forall x, In x stream -> ~ In x (gV G)) -> need4 (gR G) <= length stream ->
  exists G' rest used, len_two stream G = Some (G', rest) /\ stream = used ++ rest /\ gV G' = gV G ++ used /\
                       length used <= need4 (gR G).
Proof.
  intros Hnd Hdis Hlen. unfold len_two.
  destruct (len2_fold_total (gR G) (gV G) [] [] stream [] (S (max_id (gR G))) Hnd Hdis Hlen)
    as (V' & h' & a' & s' & d' & n' & used & Hf & Hs & HV & Hu).
  rewrite Hf. eexists. exists s', used. split; [reflexivity|]. cbn [gV]. auto.
Qed.

(* ---- phase 5 succeeds when the stream has one name for each terminal ---- *)
Section Total5.
  Variable Sg : list nat.
  Definition T5 (V : list nat) (repl : list (nat * nat)) (stream : list nat) : Prop :=
    NoDup (map fst repl) /\ incl (map fst repl) Sg /\ NoDup stream /\ (forall x, In x stream -> ~ In x V) /\
    length Sg <= length repl + length stream.

  Lemma sym_fold_total xs : forall V syms repl stream,
    (forall x, In x xs -> is_var x = false -> In (sname x) Sg) -> T5 V repl stream ->
    exists V' syms' repl' stream',
      fold_left sym_step xs (Some (V, syms, repl, stream)) = Some (V', syms', repl', stream') /\ T5 V' repl' stream'.
  Proof.
    induction xs as [|x xs IH]; intros V syms repl stream Hsg HT; cbn [fold_left].
    - exists V, syms, repl, stream. auto.
    - assert (Hsg' : forall y, In y xs -> is_var y = false -> In (sname y) Sg) by (intros y Hy; apply Hsg; right; exact Hy).
      assert (Hx : is_var x = false -> In (sname x) Sg) by (apply Hsg; left; reflexivity).
      destruct x as [[|] a]; cbn [sym_step is_var fst sname snd] in Hx |- *.
      + apply IH; assumption.
      + destruct (lookup a repl) as [A|] eqn:El; [apply IH; assumption|].
        destruct HT as (Hndk & Hincl & Hnds & Hdis & Hlen).
        assert (Ha : ~ In a (map fst repl)).
        { intros Hc. apply in_map_iff in Hc. destruct Hc as [[a' A'] [E Hin]]. cbn [fst] in E. subst a'.
          exact (proj1 (lookup_None a repl) El A' Hin). }
        assert (Hlt : S (length repl) <= length Sg).
        { rewrite <- (map_length fst repl). change (S (length (map fst repl))) with (length (a :: map fst repl)).
          apply NoDup_incl_length; [constructor; assumption|].
          intros z [<-|Hz]; [apply Hx; reflexivity | apply Hincl; exact Hz]. }
        destruct stream as [|y rest]; [cbn [length] in Hlen; lia|].
        assert (Hm : mem y V = false) by (apply mem_nIn; apply Hdis; left; reflexivity).
        unfold take_fresh. rewrite Hm. inversion Hnds as [|y' l' Hy Hnds']; subst.
        apply IH; [exact Hsg'|].
        split; [rewrite map_app; cbn [map fst]; apply EU.NoDup_snoc; assumption|].
        split.
        { rewrite map_app. cbn [map fst]. intros z Hz. apply in_app_iff in Hz.
          destruct Hz as [Hz|[<-|[]]]; [apply Hincl; exact Hz | apply Hx; reflexivity]. }
        split; [exact Hnds'|].
        split.
        { intros z Hz Hc. apply in_app_iff in Hc.
          destruct Hc as [Hc|[<-|[]]]; [exact (Hdis z (or_intror Hz) Hc) | exact (Hy Hz)]. }
        rewrite app_length. cbn [length] in Hlen |- *. lia.
  Qed.

  Lemma term_fold_total R : forall V out repl stream,
    (forall r x, In r R -> In x (rrhs r) -> is_var x = false -> In (sname x) Sg) -> T5 V repl stream ->
    exists st', fold_left term_step R (Some (V, out, repl, stream)) = Some st'.
  Proof.
    induction R as [|r R IH]; intros V out repl stream Hsg HT; cbn [fold_left].
    - eexists; reflexivity.
    - assert (Hsg' : forall r0 x, In r0 R -> In x (rrhs r0) -> is_var x = false -> In (sname x) Sg)
        by (intros r0 x Hr0; apply Hsg; right; exact Hr0).
      rewrite term_step_unfold. destruct (Nat.leb 2 (length (rrhs r))).
      + destruct (sym_fold_total (rrhs r) V [] repl stream) as (V' & syms' & repl' & stream' & Hf & HT');
          [intros x Hx; apply (Hsg r x); [left; reflexivity | exact Hx] | exact HT|].
        rewrite Hf. apply IH; assumption.
      + apply IH; assumption.
  Qed.
End Total5.

Lemma elim_terminals_total stream G : cfg_wf G -> NoDup stream -> (forall x, In x stream -> ~ In x (gV G)) ->
  length (gSg G) <= length stream -> elim_terminals stream G <> None.
Proof.
  intros Hwf Hnd Hdis Hlen. unfold elim_terminals.
  destruct (term_fold_total (gSg G) (gR G) (gV G) [] [] stream) as [[[[V out] repl] stream'] Hf].
  - intros r x Hr Hx Hv. pose proof (proj2 (Hwf r Hr) x Hx) as Hw. rewrite Hv in Hw. exact Hw.
  - split; [constructor|]. split; [intros z []|]. split; [exact Hnd|]. split; [exact Hdis|]. cbn [length]. lia.
  - rewrite Hf. discriminate.
Qed.

(* number of fresh names that always suffices *)
Definition chomsky_names_bound (G : cfg) : nat :=
  let M := Nat.max 1 (maxlen (gR G)) in
  1 + (S (length (gR G)) * 2 ^ M * S (S (length (gV G)))) * M + length (gSg G).

Theorem to_chomsky_total ordV stream G :
  cfg_wf G -> EU.names_disjoint G -> In (gS G) (gV G) -> EU.perm_order ordV ->
  (forall x, In x stream -> ~ In x (gSg G)) ->
  NoDup stream -> (forall x, In x stream -> ~ In x (gV G)) ->
  chomsky_names_bound G <= length stream ->
  to_chomsky ordV stream G <> None.
Proof.
  intros Hwf Hdj HS Hperm Hstream Hnd Hfresh Hlen. unfold chomsky_names_bound in Hlen. cbv zeta in Hlen.
  remember (Nat.max 1 (maxlen (gR G))) as M eqn:EM.
  remember (S (length (gR G)) * 2 ^ M * S (S (length (gV G)))) as K eqn:EK.
  destruct stream as [|S0 s1]; [cbn [length] in Hlen; lia|]. cbn [length] in Hlen.
  inversion Hnd as [|x' l' HS0s1 Hnd1]; subst x' l'.
  set (G1 := mkCFG (gV G ++ [S0]) (gSg G) (mkRule S0 (S (max_id (gR G))) [Var (gS G)] :: gR G) S0).
  assert (E1 : add_start (S0 :: s1) G = Some (G1, s1)).
  { unfold add_start, take_fresh.
    assert (Hm : mem S0 (gV G) = false) by (apply mem_nIn; apply Hfresh; left; reflexivity).
    rewrite Hm. reflexivity. }
  unfold to_chomsky. rewrite E1.
  destruct (add_start_correct (S0 :: s1) G G1 s1 Hwf HS E1) as (Hwf1 & _).
  assert (Hdj1 : EU.names_disjoint G1).
  { intros x Hx. cbn [gV gSg G1] in Hx |- *. apply in_app_iff in Hx.
    destruct Hx as [Hx|[<-|[]]]; [apply Hdj; exact Hx | apply Hstream; left; reflexivity]. }
  assert (HM1 : forall r, In r (gR G1) -> length (rrhs r) <= M).
  { intros r [<-|Hr]; [cbn [rrhs length]; lia|]. pose proof (maxlen_ge (gR G) r Hr). lia. }
  destruct (remove_eps G1) as [G2|] eqn:E2; [|exfalso; exact (EU.remove_eps_total G1 E2)].
  destruct (EU.remove_eps_correct G1 G2 Hwf1 E2) as (Hwf2 & HV2 & HSg2 & _ & _ & _ & _ & Hnd2).
  destruct (remove_eps_size G1 G2 M E2 HM1) as [Hk2 HM2]. cbn [gR G1 length] in Hk2.
  assert (Hdj2 : EU.names_disjoint G2).
  { intros x Hx. rewrite HSg2. rewrite HV2 in Hx. apply Hdj1; exact Hx. }
  destruct (elim_unit ordV G2) as [G3|] eqn:E3; [|exfalso; exact (EU.elim_unit_total ordV G2 E3)].
  destruct (EU.elim_unit_correct ordV G2 G3 Hwf2 Hdj2 Hperm E3) as (Hwf3 & HV3 & HSg3 & _ & _ & _ & _ & Hids3 & _).
  pose proof (elim_unit_size ordV G2 G3 Hperm E3) as Hk3.
  assert (HM3 : forall r, In r (gR G3) -> length (rrhs r) <= M).
  { intros r Hr. destruct (elim_unit_frame ordV G2 G3 Hwf2 Hdj2 Hperm E3 r Hr) as (r0 & Hr0 & Hrhs).
    rewrite <- Hrhs. apply HM2; exact Hr0. }
  assert (HV3' : gV G3 = gV G ++ [S0]) by (rewrite HV3, HV2; reflexivity).
  assert (HlV2 : length (gV G2) = S (length (gV G))).
  { rewrite HV2. cbn [gV G1]. rewrite app_length. cbn [length]. lia. }
  assert (Hn4 : need4 (gR G3) <= K * M).
  { eapply Nat.le_trans; [apply need4_bound; exact HM3|]. apply Nat.mul_le_mono_r.
    eapply Nat.le_trans; [exact Hk3|]. rewrite HlV2, EK. apply Nat.mul_le_mono_r. exact Hk2. }
  assert (Hids3' : ids_consistent (gR G3)) by (apply Hids3, NoDup_rid_consistent, Hnd2).
  destruct (len_two_total s1 G3 Hnd1) as (G4 & s4 & used & E4 & Hs4 & HV4 & Hused).
  { intros x Hx Hc. rewrite HV3' in Hc. apply in_app_iff in Hc.
    destruct Hc as [Hc|[<-|[]]]; [exact (Hfresh x (or_intror Hx) Hc) | exact (HS0s1 Hx)]. }
  { lia. }
  rewrite E4.
  destruct (len_two_correct s1 G3 G4 s4 Hwf3 Hids3' E4) as (Hwf4 & _ & HSg4 & _).
  rewrite Hs4 in Hnd1. destruct (NoDup_app_parts _ _ Hnd1) as (_ & Hnd4 & Hdisj).
  apply (elim_terminals_total s4 G4 Hwf4 Hnd4).
  - intros x Hx Hc. rewrite HV4, HV3' in Hc. apply in_app_iff in Hc. destruct Hc as [Hc|Hc]; [|exact (Hdisj x Hc Hx)].
    assert (Hx1 : In x s1) by (rewrite Hs4; apply in_or_app; right; exact Hx).
    apply in_app_iff in Hc. destruct Hc as [Hc|[<-|[]]]; [exact (Hfresh x (or_intror Hx1) Hc) | exact (HS0s1 Hx1)].
  - assert (Hl1 : length s1 = length used + length s4) by (rewrite Hs4 at 1; apply app_length).
    rewrite HSg4, HSg3, HSg2. cbn [gSg G1]. lia.
Qed.

Print Assumptions to_chomsky_correct.
Print Assumptions to_chomsky_total.
Print Assumptions cfg_accepts_correct.
Print Assumptions cfg_words_exact.
Print Assumptions to_chomsky_needs_nonterminal_names.
