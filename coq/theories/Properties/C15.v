(* C15 — simulation routines and their witnesses.
   "The simulation returns a run that starts in the initial configuration with the whole word unread, changes
   configuration only by transitions of the automaton while the unread input shrinks from the front, and ends in an
   accepting state with nothing unread; for rejected words the NFA simulation returns nothing; derivations start with
   the start variable, rewrite the leftmost (rightmost) variable by a rule at each step and end with the word."

   Part 1: the witness checkers (dfa_run_ok, nfa_run_ok, pda_run_ok, derivation_ok), which the correspondence harness
           runs on the values returned by dfa/nfa/pda_simulate_word and cfg_derive_word, are sound against the
           textbook specifications (dfa_path, nfa_lang/nfa_path, pda_lang/pda_reach, cfg_lang/derives); the step
           relations they check are stated exactly.
   Part 2: the model of dfa_simulate_word returns a run accepted by the checker (valid DFA, word over the alphabet).
   Part 3: the model of nfa_simulate_word with nfa_find_epsilon_path (BFS with back-pointers) and nfa_find_transition,
           for every admissible pick (set.pop() / set iteration order): the epsilon-path search is sound and complete
           (and terminates within the fuel of the model), accepted words yield a run accepted by the checker,
           rejected words yield None.
   States are instantiated to nat (the harness codes state names injectively); the proofs are generic. *)
From GT Require Import Base.Prelude Model.DFA Model.NFA Model.PDA Model.CFG Model.Simulate Proofs.SimulateProofs.

(* ---------------- Part 1: witness checkers ---------------- *)
Theorem C15_dfa_run_ok_sound : forall (D : dfa nat) (w : word) (run : list (nat * word)),
  dfa_run_ok D w run = true ->
  (exists qf, dfa_path D (dq0 D) w qf /\ last (map fst run) (dq0 D) = qf) /\
  length run = S (length w) /\
  (forall i, i <= length w -> snd (nth i run (dq0 D, [])) = skipn i w).
Proof. exact (fun D w run => dfa_run_ok_sound D w run). Qed.

Theorem C15_nfa_run_ok_sound : forall (N : nfa nat) (w : word) (run : list (nat * word)),
  nfa_run_ok N w run = true ->
  nfa_lang N w /\ hd_error run = Some (nq0 N, w) /\ (exists qf, last run (nq0 N, w) = (qf, []) /\ In qf (nF N)).
Proof. exact (fun N w run => nfa_run_ok_sound N w run). Qed.

Theorem C15_nfa_run_ok_steps : forall (N : nfa nat) (w : word) (run : list (nat * word)),
  nfa_run_ok N w run = true ->
  forall i d, S i < length run ->
    (snd (nth i run d) = snd (nth (S i) run d) /\ In (fst (nth (S i) run d)) (ndelta N (fst (nth i run d)) (neps N))) \/
    (exists a, snd (nth i run d) = a :: snd (nth (S i) run d) /\ a <> neps N /\
               In (fst (nth (S i) run d)) (ndelta N (fst (nth i run d)) a)).
Proof. exact (fun N w run => nfa_run_ok_steps N w run). Qed.

Theorem C15_pda_run_ok_sound : forall (P : pda) (w : word) (run : list (nat * word * list nat)),
  pda_run_ok P w run = true -> pda_lang P w.
Proof. exact pda_run_ok_sound. Qed.

Theorem C15_pda_run_ok_shape : forall (P : pda) (w : word) (run : list (nat * word * list nat)),
  pda_run_ok P w run = true ->
  hd_error run = Some (pq0 P, w, []) /\
  exists qf sf, last run (pq0 P, w, []) = (qf, [], sf) /\ In qf (pF P) /\ pda_reach P (pq0 P, []) w (qf, sf).
Proof. exact pda_run_ok_shape. Qed.

Theorem C15_pda_run_ok_steps : forall (P : pda) (w : word) (run : list (nat * word * list nat)),
  pda_run_ok P w run = true ->
  forall i d, S i < length run ->
    let '(q1, w1, s1) := nth i run d in let '(q2, w2, s2) := nth (S i) run d in
    (w1 = w2 /\ In (q2, s2) (moves P (peps P) (q1, s1))) \/
    (exists a, w1 = a :: w2 /\ a <> peps P /\ In (q2, s2) (moves P a (q1, s1))).
Proof. exact pda_run_ok_steps. Qed.

Theorem C15_derivation_ok_sound : forall (G : cfg) (mode : nat) (w : word) (steps : list (list sym)),
  derivation_ok G mode w steps = true -> cfg_lang G w.
Proof. exact derivation_ok_sound. Qed.

Theorem C15_derivation_ok_shape : forall (G : cfg) (mode : nat) (w : word) (steps : list (list sym)),
  derivation_ok G mode w steps = true ->
  hd_error steps = Some [Var (gS G)] /\ last steps [] = tword w /\
  forall i, S i < length steps -> deriv_step_ok G mode (nth i steps []) (nth (S i) steps []) = true.
Proof. exact derivation_ok_shape. Qed.

(* mode 0: the leftmost variable is rewritten *)
Theorem C15_deriv_step_leftmost : forall (G : cfg) (x y : list sym),
  deriv_step_ok G 0 x y = true <->
  exists pre A post rhs, x = pre ++ Var A :: post /\ y = pre ++ rhs ++ post /\ has_rule G A rhs /\
                         forallb (fun s => negb (is_var s)) pre = true.
Proof. exact deriv_step_ok_leftmost. Qed.

(* any other mode (the harness uses 1): the rightmost variable is rewritten *)
Theorem C15_deriv_step_rightmost : forall (G : cfg) (mode : nat) (x y : list sym), mode <> 0 ->
  (deriv_step_ok G mode x y = true <->
   exists pre A post rhs, x = pre ++ Var A :: post /\ y = pre ++ rhs ++ post /\ has_rule G A rhs /\
                          forallb (fun s => negb (is_var s)) post = true).
Proof. exact deriv_step_ok_rightmost. Qed.

(* ---------------- Part 2: dfa_simulate_word ---------------- *)
Theorem C15_dfa_simulate_correct : forall (D : dfa nat) (w : word), dfa_wf D -> Forall (fun a => In a (dS D)) w ->
  exists run, dfa_simulate D w = Some run /\ dfa_run_ok D w run = true.
Proof. exact (fun D w => dfa_simulate_correct D w). Qed.

(* ---------------- Part 3: nfa_simulate_word ---------------- *)
Theorem C15_nfa_find_epsilon_path_correct : forall (pick : picker nat) (N : nfa nat) (R : list nat) (f : nat) (path : list nat),
  picker_ok pick -> nfa_wf N -> incl R (nQ N) ->
  nfa_find_epsilon_path pick N R f = Some path ->
  exists p0, hd_error path = Some p0 /\ In p0 R /\ last path p0 = f /\
    forall i, S i < length path -> In (nth (S i) path f) (ndelta N (nth i path f) (neps N)).
Proof. exact (fun pick N R f path Hp => nfa_find_epsilon_path_correct pick Hp N R f path). Qed.

Theorem C15_nfa_find_epsilon_path_complete : forall (pick : picker nat) (N : nfa nat) (R : list nat) (f : nat),
  picker_ok pick -> nfa_wf N -> incl R (nQ N) ->
  (exists r, In r R /\ eps_star N r f) -> nfa_find_epsilon_path pick N R f <> None.
Proof. exact (fun pick N R f Hp => nfa_find_epsilon_path_complete pick Hp N R f). Qed.

Theorem C15_nfa_simulate_sound : forall (pick : picker nat) (N : nfa nat) (w : word),
  picker_ok pick -> nfa_wf N -> Forall (fun a => In a (nS N)) w -> nfa_accepts N w = Some true ->
  exists run, nfa_simulate pick N w = Some run /\ nfa_run_ok N w run = true.
Proof. exact (fun pick N w Hp Hwf => nfa_simulate_sound pick Hp N Hwf w). Qed.

Theorem C15_nfa_simulate_none : forall (pick : picker nat) (N : nfa nat) (w : word),
  picker_ok pick -> nfa_wf N -> Forall (fun a => In a (nS N)) w -> nfa_accepts N w = Some false ->
  nfa_simulate pick N w = None.
Proof. exact (fun pick N w Hp Hwf => nfa_simulate_none pick Hp N Hwf w). Qed.

Print Assumptions C15_dfa_run_ok_sound.
Print Assumptions C15_nfa_run_ok_sound.
Print Assumptions C15_nfa_run_ok_steps.
Print Assumptions C15_pda_run_ok_sound.
Print Assumptions C15_pda_run_ok_shape.
Print Assumptions C15_pda_run_ok_steps.
Print Assumptions C15_derivation_ok_sound.
Print Assumptions C15_derivation_ok_shape.
Print Assumptions C15_deriv_step_leftmost.
Print Assumptions C15_deriv_step_rightmost.
Print Assumptions C15_dfa_simulate_correct.
Print Assumptions C15_nfa_find_epsilon_path_correct.
Print Assumptions C15_nfa_find_epsilon_path_complete.
Print Assumptions C15_nfa_simulate_sound.
Print Assumptions C15_nfa_simulate_none.
