(* Decision procedures used as oracles by the judges (definitions; proofs in Proofs/DFAEquivProofs.v):
   dfa_equivb — exact language equivalence of two DFAs over the same alphabet, by closure of the reachable state pairs;
   dfa_diff_word — a shortest distinguishing word (unverified search; its result is validated by running both automata);
   nfa_det — the subset automaton of an NFA (model of nfa_to_dfa with sorted subsets), so that NFAs can be compared. *)
From GT Require Import Base.Prelude Base.Worklist Base.Sort Model.DFA Model.NFA.

Section Equiv.
  Context {A B : Type} `{Eqb A} `{Eqb B}.

  Definition pair_succ (D1 : dfa A) (D2 : dfa B) (p : A * B) : list (A * B) :=
    map (fun a => (dstep D1 (fst p) a, dstep D2 (snd p) a)) (dS D1).

  Definition reachable_pairs (D1 : dfa A) (D2 : dfa B) : option (list (A * B)) :=
    closure (pair_succ D1 D2) (2 * (length (dQ D1) * length (dQ D2)) + 2) [(dq0 D1, dq0 D2)].

  Definition dfa_equivb (D1 : dfa A) (D2 : dfa B) : bool :=
    seteqb (dS D1) (dS D2) &&
    match reachable_pairs D1 D2 with
    | Some pairs => forallb (fun p => Bool.eqb (mem (fst p) (dF D1)) (mem (snd p) (dF D2))) pairs
    | None => false
    end.

  (* breadth-first search for a distinguishing word *)
  Fixpoint diff_loop (D1 : dfa A) (D2 : dfa B) (fuel : nat) (visited : list (A * B)) (todo : list ((A * B) * word)) : option word :=
    match fuel with
    | 0 => None
    | S f =>
      match todo with
      | [] => None
      | (p, w) :: rest =>
        if negb (Bool.eqb (mem (fst p) (dF D1)) (mem (snd p) (dF D2))) then Some (rev w)
        else
          let succs := map (fun a => ((dstep D1 (fst p) a, dstep D2 (snd p) a), a :: w)) (dS D1) in
          let fresh := fold_left (fun acc x => if mem (fst x) visited || mem (fst x) (map fst acc) then acc else acc ++ [x]) succs [] in
          diff_loop D1 D2 f (visited ++ map fst fresh) (rest ++ fresh)
      end
    end.
  Definition dfa_diff_word (D1 : dfa A) (D2 : dfa B) : option word :=
    diff_loop D1 D2 (S (length (dQ D1) * length (dQ D2) + 1)) [(dq0 D1, dq0 D2)] [((dq0 D1, dq0 D2), [])].

  (* all states reachable from the initial state *)
  Definition dfa_reachable (D : dfa A) : option (list A) :=
    closure (fun q => map (dstep D q) (dS D)) (2 * length (dQ D) + 2) [dq0 D].
  Definition all_reachable_b (D : dfa A) : bool :=
    match dfa_reachable D with Some r => subsetb (dQ D) r | None => false end.
End Equiv.

Definition nfa_det (N : nfa nat) : option (dfa (list nat)) :=
  nfa_to_dfa_fuel canon_nat N (S (Nat.pow 2 (length (nQ N)))).

Definition nfa_dfa_equivb {B} `{Eqb B} (N : nfa nat) (D : dfa B) : bool :=
  match nfa_det N with Some DN => dfa_equivb DN D | None => false end.
Definition nfa_equivb (N1 N2 : nfa nat) : bool :=
  match nfa_det N1, nfa_det N2 with Some D1, Some D2 => dfa_equivb D1 D2 | _, _ => false end.

(* the same oracles with an explicit iteration budget for the subset construction (used when the NFA is large, e.g.
   the NFA of a regular expression): a result Some _ is correct for every budget (nfa_to_dfa_correct); None = undecided *)
Definition nfa_det_f (fuel : nat) (N : nfa nat) : option (dfa (list nat)) := nfa_to_dfa_fuel canon_nat N fuel.
Definition nfa_dfa_equivb_f {B} `{Eqb B} (fuel : nat) (N : nfa nat) (D : dfa B) : option bool :=
  match nfa_det_f fuel N with Some DN => Some (dfa_equivb DN D) | None => None end.
Definition nfa_equivb_f (fuel : nat) (N1 N2 : nfa nat) : option bool :=
  match nfa_det_f fuel N1, nfa_det_f fuel N2 with Some D1, Some D2 => Some (dfa_equivb D1 D2) | _, _ => None end.
