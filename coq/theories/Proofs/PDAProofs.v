(* Proofs about the PDA model (Model/PDA.v): epsilon closure with an iteration limit (soundness for every
   pick and limit, exactness when not truncated, no truncation when the true closure has at most `limit`
   elements), the acceptance test and the enumeration of accepted words.  Stdlib only, no axioms. *)
From GT Require Import Base.Prelude Model.NFA Model.PDA Proofs.NFAProofs Proofs.WorklistProofs.
Import ListNotations.
Set Implicit Arguments.

(* ------------------------------------------------------------------------------------------------ *)
(* epsilon closure                                                                                  *)
(* ------------------------------------------------------------------------------------------------ *)

Definition pda_clos (P : pda) (R : list config) (c : config) : Prop :=
  exists r, In r R /\ pda_eps_star P r c.

Lemma pda_eps_star_trans P a b c : pda_eps_star P a b -> pda_eps_star P b c -> pda_eps_star P a c.
Proof.
  intros Hab Hbc. induction Hab as [a|a a1 b Ha1 Hab IH]; [exact Hbc|].
  apply pe_step with a1; [exact Ha1 | apply IH; exact Hbc].
Qed.

Lemma pda_eps_star_step_r P a b c : pda_eps_star P a b -> In c (moves P (peps P) b) -> pda_eps_star P a c.
Proof.
  intros Hab Hc. apply pda_eps_star_trans with b; [exact Hab|].
  apply pe_step with c; [exact Hc | apply pe_refl].
Qed.

Lemma add_new_configs_spec ts : forall result todo, exists news,
  add_new_configs ts result todo = (result ++ news, todo ++ news) /\
  NoDup news /\ (forall c, In c news <-> In c ts /\ ~ In c result).
Proof.
  induction ts as [|t ts IH]; intros result todo; cbn [add_new_configs].
  - exists []. rewrite !app_nil_r. split; [reflexivity|]. split; [constructor|].
    intros c. cbn. tauto.
  - destruct (mem t result) eqn:Em.
    + apply mem_In in Em. destruct (IH result todo) as (news & E & Hnd & Hin).
      exists news. split; [exact E|]. split; [exact Hnd|].
      intros c. rewrite Hin. cbn [In]. split.
      * intros [Hc Hn]. split; [right; exact Hc | exact Hn].
      * intros [[Hc|Hc] Hn]; [subst c; contradiction | split; assumption].
    + apply mem_nIn in Em. destruct (IH (result ++ [t]) (todo ++ [t])) as (news & E & Hnd & Hin).
      exists (t :: news). rewrite E. rewrite <- !app_assoc. cbn [app]. split; [reflexivity|]. split.
      * constructor; [|exact Hnd]. intros Hc. apply Hin in Hc. destruct Hc as [_ Hc].
        apply Hc. apply in_or_app. right. left. reflexivity.
      * intros c. cbn [In]. rewrite Hin. rewrite in_app_iff. cbn [In]. split.
        -- intros [Hc|[Hc Hn]].
           ++ subst c. split; [left; reflexivity | exact Em].
           ++ split; [right; exact Hc | tauto].
        -- intros [[Hc|Hc] Hn].
           ++ left. exact Hc.
           ++ destruct (eqb_dec t c) as [Etc|Ntc]; [left; exact Etc|].
              right. split; [exact Hc|]. intros [Hr|[Hr|[]]]; [contradiction | contradiction].
Qed.

Section Closure.
  Variable pick : picker config.
  Variable P : pda.
  Hypothesis Hpick : picker_ok pick.

  Definition clos_inv (R0 result todo : list config) : Prop :=
    incl R0 result /\ (forall c, In c result -> pda_clos P R0 c) /\ incl todo result /\ NoDup result /\
    (forall c, In c result -> ~ In c todo -> incl (moves P (peps P) c) result).

  Lemma clos_inv_step R0 result todo x rest news :
    clos_inv R0 result todo ->
    (forall y, In y todo <-> y = x \/ In y rest) ->
    NoDup news -> (forall c, In c news <-> In c (moves P (peps P) x) /\ ~ In c result) ->
    clos_inv R0 (result ++ news) (rest ++ news).
  Proof.
    intros (I1 & I2 & I3 & I4 & I5) Hperm Hnd Hin.
    assert (Hx : In x result) by (apply I3, Hperm; left; reflexivity).
    split; [|split; [|split; [|split]]].
    - intros c Hc. apply in_or_app. left. apply I1. exact Hc.
    - intros c Hc. apply in_app_or in Hc. destruct Hc as [Hc|Hc]; [apply I2; exact Hc|].
      apply Hin in Hc. destruct Hc as [Hc _]. destruct (I2 x Hx) as (r & Hr & Hrx).
      exists r. split; [exact Hr|]. apply pda_eps_star_step_r with x; assumption.
    - intros c Hc. apply in_app_or in Hc. apply in_or_app. destruct Hc as [Hc|Hc]; [left|right; exact Hc].
      apply I3, Hperm. right. exact Hc.
    - apply NoDup_app_intro; [exact I4 | exact Hnd|]. intros c Hc Hn. apply Hin in Hn. tauto.
    - intros c Hc Hn d Hd. apply in_or_app.
      assert (Hnr : ~ In c rest) by (intros Hr; apply Hn; apply in_or_app; left; exact Hr).
      assert (Hnn : ~ In c news) by (intros Hr; apply Hn; apply in_or_app; right; exact Hr).
      apply in_app_or in Hc. destruct Hc as [Hc|Hc]; [|contradiction].
      destruct (eqb_dec c x) as [Ecx|Ncx].
      + subst c. destruct (in_dec eqb_dec d result) as [Hdr|Hdr]; [left; exact Hdr|].
        right. apply Hin. split; assumption.
      + left. apply (I5 c Hc); [|exact Hd]. intros Ht. apply Hperm in Ht. destruct Ht as [Ht|Ht]; contradiction.
  Qed.

  Lemma pda_eclose_loop_inv R0 : forall limit result todo res todo',
    clos_inv R0 result todo -> pda_eclose_loop pick P limit result todo = (res, todo') ->
    clos_inv R0 res todo'.
  Proof.
    induction limit as [|l IH]; intros result todo res todo' HI E; cbn [pda_eclose_loop] in E.
    - inversion E; subst. exact HI.
    - destruct (pick todo) as [[x rest]|] eqn:Hp.
      + destruct (picker_some pick todo x rest Hpick Hp) as [Hperm _].
        destruct (add_new_configs_spec (moves P (peps P) x) result rest) as (news & Ea & Hnd & Hin).
        rewrite Ea in E. apply IH in E; [exact E|].
        apply clos_inv_step with todo x; assumption.
      + apply (picker_none pick todo Hpick) in Hp. subst todo. inversion E; subst. exact HI.
  Qed.

  Lemma clos_inv_init R : clos_inv (dedup R) (dedup R) (dedup R).
  Proof.
    split; [|split; [|split; [|split]]].
    - intros c Hc; exact Hc.
    - intros c Hc. exists c. split; [exact Hc | apply pe_refl].
    - intros c Hc; exact Hc.
    - apply dedup_NoDup.
    - intros c Hc Hn. contradiction.
  Qed.

  Lemma pda_clos_dedup R c : pda_clos P (dedup R) c <-> pda_clos P R c.
  Proof.
    unfold pda_clos. split; intros (r & Hr & Hs); exists r; (split; [|exact Hs]).
    - rewrite dedup_In in Hr. exact Hr.
    - rewrite dedup_In. exact Hr.
  Qed.

  Theorem pda_eclose_sound limit R res todo : pda_eclose pick P limit R = (res, todo) ->
    (forall c, In c R -> In c res) /\ (forall c, In c res -> exists r, In r R /\ pda_eps_star P r c) /\
    incl todo res /\ NoDup res.
  Proof.
    unfold pda_eclose. intros E.
    apply (pda_eclose_loop_inv (R0 := dedup R)) in E; [|apply clos_inv_init].
    destruct E as (I1 & I2 & I3 & I4 & _).
    split; [|split; [|split]].
    - intros c Hc. apply I1. apply dedup_In. exact Hc.
    - intros c Hc. apply (pda_clos_dedup R c). apply I2. exact Hc.
    - exact I3.
    - exact I4.
  Qed.

  Theorem pda_eclose_exact limit R res : pda_eclose pick P limit R = (res, []) ->
    forall c, In c res <-> exists r, In r R /\ pda_eps_star P r c.
  Proof.
    intros E c. split.
    - apply (pda_eclose_sound _ _ E).
    - unfold pda_eclose in E.
      apply (pda_eclose_loop_inv (R0 := dedup R)) in E; [|apply clos_inv_init].
      destruct E as (I1 & _ & _ & _ & I5).
      intros (r & Hr & Hs).
      assert (Hrr : In r res) by (apply I1, dedup_In; exact Hr).
      clear Hr. induction Hs as [r|r r1 c Hr1 Hs IHs]; [exact Hrr|].
      apply IHs. apply (I5 r Hrr); [intros [] | exact Hr1].
  Qed.

  (* completeness below the limit *)
  Lemma pda_eclose_loop_complete R0 (C : list config) :
    (forall c, pda_clos P R0 c -> In c C) ->
    forall limit result todo, clos_inv R0 result todo ->
      length C + length todo <= limit + length result ->
      exists res, pda_eclose_loop pick P limit result todo = (res, []).
  Proof.
    intros HC. induction limit as [|l IH]; intros result todo HI Hlen; cbn [pda_eclose_loop].
    - destruct HI as (_ & I2 & _ & I4 & _).
      assert (Hle : length result <= length C).
      { apply NoDup_incl_length; [exact I4|]. intros c Hc. apply HC, I2. exact Hc. }
      destruct todo as [|t todo]; [exists result; reflexivity|]. cbn [length] in Hlen. lia.
    - destruct (pick todo) as [[x rest]|] eqn:Hp; [|exists result; reflexivity].
      destruct (picker_some pick todo x rest Hpick Hp) as [Hperm Hlt].
      destruct (add_new_configs_spec (moves P (peps P) x) result rest) as (news & Ea & Hnd & Hin).
      rewrite Ea. apply IH.
      + apply clos_inv_step with todo x; assumption.
      + rewrite !app_length. lia.
  Qed.

  Theorem pda_eclose_complete limit R (C : list config) :
    (forall c, (exists r, In r R /\ pda_eps_star P r c) -> In c C) -> NoDup C -> length C <= limit ->
    exists res, pda_eclose pick P limit R = (res, []).
  Proof.
    intros HC _ Hlen. unfold pda_eclose.
    apply pda_eclose_loop_complete with (R0 := dedup R) (C := C).
    - intros c Hc. apply HC. apply pda_clos_dedup. exact Hc.
    - apply clos_inv_init.
    - lia.
  Qed.
End Closure.

(* ------------------------------------------------------------------------------------------------ *)
(* reachability without the guard on the letter (what the simulation computes), and its relation to   *)
(* pda_reach                                                                                         *)
(* ------------------------------------------------------------------------------------------------ *)

Inductive pda_reachx (P : pda) : config -> word -> config -> Prop :=
| rx_refl c : pda_reachx P c [] c
| rx_eps c c1 w c2 : In c1 (moves P (peps P) c) -> pda_reachx P c1 w c2 -> pda_reachx P c w c2
| rx_sym c a c1 w c2 : In c1 (moves P a c) -> pda_reachx P c1 w c2 -> pda_reachx P c (a :: w) c2.

Lemma pda_reach_reachx P c w c' : pda_reach P c w c' -> pda_reachx P c w c'.
Proof.
  intros Hr. induction Hr as [c|c c1 w c2 H1 Hr IH|c a c1 w c2 Ha H1 Hr IH].
  - apply rx_refl.
  - apply rx_eps with c1; assumption.
  - apply rx_sym with c1; assumption.
Qed.

Lemma pda_reachx_reach P c w c' : Forall (fun a => a <> peps P) w -> pda_reachx P c w c' -> pda_reach P c w c'.
Proof.
  intros Hw Hr. induction Hr as [c|c c1 w c2 H1 Hr IH|c a c1 w c2 H1 Hr IH].
  - apply pr_refl.
  - apply pr_eps with c1; [exact H1 | apply IH; exact Hw].
  - inversion Hw as [|a' w' Ha Hw']; subst. apply pr_sym with c1; [exact Ha | exact H1 | apply IH; exact Hw'].
Qed.

Lemma pda_reachx_eps_star P c c' : pda_reachx P c [] c' <-> pda_eps_star P c c'.
Proof.
  split.
  - intros Hr. remember [] as w eqn:Ew. induction Hr as [c|c c1 w c2 H1 Hr IH|c a c1 w c2 H1 Hr IH].
    + apply pe_refl.
    + apply pe_step with c1; [exact H1 | apply IH; exact Ew].
    + discriminate.
  - intros Hs. induction Hs as [c|c c1 c2 H1 Hs IH]; [apply rx_refl|].
    apply rx_eps with c1; assumption.
Qed.

Lemma pda_reachx_app P c u c1 v c2 : pda_reachx P c u c1 -> pda_reachx P c1 v c2 -> pda_reachx P c (u ++ v) c2.
Proof.
  intros H1 H2. induction H1 as [c|c c0 w c1 Hm Hr IH|c a c0 w c1 Hm Hr IH]; cbn [app].
  - exact H2.
  - apply rx_eps with c0; [exact Hm | apply IH; exact H2].
  - apply rx_sym with c0; [exact Hm | apply IH; exact H2].
Qed.

Lemma pda_reachx_snoc P c0 u r0 a r c :
  pda_reachx P c0 u r0 -> In r (moves P a r0) -> pda_eps_star P r c -> pda_reachx P c0 (u ++ [a]) c.
Proof.
  intros H1 Hm Hs. apply pda_reachx_app with r0; [exact H1|].
  apply rx_sym with r; [exact Hm | apply pda_reachx_eps_star; exact Hs].
Qed.

Lemma pda_reachx_snoc_inv P c0 w c : pda_reachx P c0 w c -> forall u a, w = u ++ [a] ->
  exists r0 r, pda_reachx P c0 u r0 /\ In r (moves P a r0) /\ pda_eps_star P r c.
Proof.
  intros Hr. induction Hr as [c|c c1 w c2 H1 Hr IH|c b c1 w c2 H1 Hr IH]; intros u a Ew.
  - destruct u; discriminate.
  - destruct (IH u a Ew) as (r0 & r & Hu & Hm & Hs).
    exists r0, r. split; [apply rx_eps with c1; assumption | split; assumption].
  - destruct u as [|b' u].
    + cbn [app] in Ew. inversion Ew; subst b w.
      exists c, c1. split; [apply rx_refl|]. split; [exact H1|]. apply pda_reachx_eps_star. exact Hr.
    + cbn [app] in Ew. inversion Ew; subst b' w.
      destruct (IH u a eq_refl) as (r0 & r & Hu & Hm & Hs).
      exists r0, r. split; [apply rx_sym with c1; assumption | split; assumption].
Qed.

(* ------------------------------------------------------------------------------------------------ *)
(* the simulation  pda_run / pda_accepts                                                             *)
(* ------------------------------------------------------------------------------------------------ *)

Lemma pda_do_transition_In P a R c :
  In c (pda_do_transition P a R) <-> exists r, In r R /\ In c (moves P a r).
Proof. unfold pda_do_transition. rewrite dedup_In, in_flat_map. tauto. Qed.

Section Run.
  Variable pick : picker config.
  Variable P : pda.
  Variable limit : nat.
  Hypothesis Hpick : picker_ok pick.

  Lemma pda_step_sound c0 u a R R1 t1 :
    (forall c, In c R -> pda_reachx P c0 u c) ->
    pda_eclose pick P limit (pda_do_transition P a R) = (R1, t1) ->
    forall c, In c R1 -> pda_reachx P c0 (u ++ [a]) c.
  Proof.
    intros HR E c Hc. destruct (@pda_eclose_sound _ _ Hpick _ _ _ _ E) as (_ & S2 & _).
    destruct (S2 c Hc) as (r & Hr & Hs). apply pda_do_transition_In in Hr.
    destruct Hr as (r0 & Hr0 & Hm). apply pda_reachx_snoc with r0 r; [apply HR; exact Hr0 | exact Hm | exact Hs].
  Qed.

  Lemma pda_step_exact c0 u a R R1 :
    (forall c, In c R <-> pda_reachx P c0 u c) ->
    pda_eclose pick P limit (pda_do_transition P a R) = (R1, []) ->
    forall c, In c R1 <-> pda_reachx P c0 (u ++ [a]) c.
  Proof.
    intros HR E c. split.
    - apply (@pda_step_sound c0 u a R R1 []); [intros d Hd; apply HR; exact Hd | exact E].
    - intros Hc. apply (@pda_eclose_exact _ _ Hpick _ _ _ E).
      destruct (@pda_reachx_snoc_inv _ _ _ _ Hc u a eq_refl) as (r0 & r & Hu & Hm & Hs).
      exists r. split; [|exact Hs]. apply pda_do_transition_In. exists r0. split; [apply HR; exact Hu | exact Hm].
  Qed.

  Lemma pda_run_trunc w : forall R trunc R', pda_run pick P limit w R trunc = (R', false) -> trunc = false.
  Proof.
    induction w as [|a w IH]; intros R trunc R' E; cbn [pda_run] in E.
    - inversion E; reflexivity.
    - destruct (pda_eclose pick P limit (pda_do_transition P a R)) as [R1 t1].
      apply IH in E. apply orb_false_elim in E. tauto.
  Qed.

  Lemma pda_run_sound c0 w : forall u R trunc R' tr,
    (forall c, In c R -> pda_reachx P c0 u c) ->
    pda_run pick P limit w R trunc = (R', tr) ->
    forall c, In c R' -> pda_reachx P c0 (u ++ w) c.
  Proof.
    induction w as [|a w IH]; intros u R trunc R' tr HR E; cbn [pda_run] in E.
    - inversion E; subst. rewrite app_nil_r. exact HR.
    - destruct (pda_eclose pick P limit (pda_do_transition P a R)) as [R1 t1] eqn:E1.
      intros c Hc. replace (u ++ a :: w) with ((u ++ [a]) ++ w) by (rewrite <- app_assoc; reflexivity).
      apply (fun H => IH (u ++ [a]) R1 _ R' tr H E); [|exact Hc].
      apply (@pda_step_sound c0 u a R R1 t1 HR E1).
  Qed.

  (* the set of configurations after reading w, when nothing was truncated, is exactly the set of
     configurations reachable by w *)
  Lemma pda_run_exact c0 w : forall u R trunc R',
    (forall c, In c R <-> pda_reachx P c0 u c) ->
    pda_run pick P limit w R trunc = (R', false) ->
    forall c, In c R' <-> pda_reachx P c0 (u ++ w) c.
  Proof.
    induction w as [|a w IH]; intros u R trunc R' HR E; cbn [pda_run] in E.
    - inversion E; subst. rewrite app_nil_r. exact HR.
    - destruct (pda_eclose pick P limit (pda_do_transition P a R)) as [R1 t1] eqn:E1.
      assert (Et := @pda_run_trunc _ _ _ _ E). apply orb_false_elim in Et. destruct Et as [_ Et].
      destruct t1 as [|t t1]; [|discriminate].
      intros c. replace (u ++ a :: w) with ((u ++ [a]) ++ w) by (rewrite <- app_assoc; reflexivity).
      apply (fun H => IH (u ++ [a]) R1 _ R' H E).
      apply (@pda_step_exact c0 u a R R1 HR E1).
  Qed.

  Lemma pda_init_sound R0 t0 : pda_eclose pick P limit [(pq0 P, [])] = (R0, t0) ->
    forall c, In c R0 -> pda_reachx P (pq0 P, []) [] c.
  Proof.
    intros E c Hc. destruct (@pda_eclose_sound _ _ Hpick _ _ _ _ E) as (_ & S2 & _).
    destruct (S2 c Hc) as (r & [Hr|[]] & Hs). subst r. apply pda_reachx_eps_star. exact Hs.
  Qed.

  Lemma pda_init_exact R0 : pda_eclose pick P limit [(pq0 P, [])] = (R0, []) ->
    forall c, In c R0 <-> pda_reachx P (pq0 P, []) [] c.
  Proof.
    intros E c. rewrite (@pda_eclose_exact _ _ Hpick _ _ _ E c), pda_reachx_eps_star. split.
    - intros (r & [Hr|[]] & Hs). subst r. exact Hs.
    - intros Hs. exists (pq0 P, []). split; [left; reflexivity | exact Hs].
  Qed.

  Definition pda_langx (w : word) : Prop :=
    exists q st, In q (pF P) /\ pda_reachx P (pq0 P, []) w (q, st).

  Lemma final_existsb R : existsb (fun c : config => mem (fst c) (pF P)) R = true <->
    exists q st, In q (pF P) /\ In (q, st) R.
  Proof.
    rewrite existsb_exists. split.
    - intros ([q st] & Hc & Hm). apply mem_In in Hm. exists q, st. split; assumption.
    - intros (q & st & Hq & Hc). exists (q, st). split; [exact Hc | apply mem_In; exact Hq].
  Qed.

  (* statements relative to the unguarded relation: hold for every word *)
  Lemma pda_accepts_soundx w tr : pda_accepts pick P limit w = (true, tr) -> pda_langx w.
  Proof.
    unfold pda_accepts. destruct (pda_eclose pick P limit [(pq0 P, [])]) as [R0 t0] eqn:E0.
    destruct (pda_run pick P limit w R0 _) as [R tr'] eqn:E1. intros E. inversion E as [[Ev Et]].
    apply final_existsb in Ev. destruct Ev as (q & st & Hq & Hc).
    exists q, st. split; [exact Hq|].
    apply (@pda_run_sound (pq0 P, []) w [] R0 _ R tr' (@pda_init_sound R0 t0 E0) E1). exact Hc.
  Qed.

  Lemma pda_accepts_completex w v : pda_accepts pick P limit w = (v, false) -> (v = true <-> pda_langx w).
  Proof.
    unfold pda_accepts. destruct (pda_eclose pick P limit [(pq0 P, [])]) as [R0 t0] eqn:E0.
    destruct (pda_run pick P limit w R0 _) as [R tr'] eqn:E1. intros E. inversion E as [[Ev Et]]. subst tr'.
    assert (Et := @pda_run_trunc _ _ _ _ E1). destruct t0 as [|t t0]; [|discriminate].
    assert (HR := @pda_run_exact (pq0 P, []) w [] R0 _ R (@pda_init_exact R0 E0) E1). cbn [app] in HR.
    rewrite final_existsb. unfold pda_langx. split.
    - intros (q & st & Hq & Hc). exists q, st. split; [exact Hq | apply HR; exact Hc].
    - intros (q & st & Hq & Hc). exists q, st. split; [exact Hq | apply HR; exact Hc].
  Qed.
End Run.

Lemma pda_langx_lang P w : Forall (fun a => a <> peps P) w -> (pda_langx P w <-> pda_lang P w).
Proof.
  intros Hw. unfold pda_langx, pda_lang. split; intros (q & st & Hq & Hr); exists q, st; (split; [exact Hq|]).
  - apply pda_reachx_reach; assumption.
  - apply pda_reach_reachx; exact Hr.
Qed.

Theorem pda_accepts_sound pick P limit w tr : picker_ok pick -> Forall (fun a => a <> peps P) w ->
  pda_accepts pick P limit w = (true, tr) -> pda_lang P w.
Proof.
  intros Hpick Hw E. apply pda_langx_lang; [exact Hw|]. apply (@pda_accepts_soundx pick P limit Hpick w tr E).
Qed.

Theorem pda_accepts_complete pick P limit w v : picker_ok pick -> Forall (fun a => a <> peps P) w ->
  pda_accepts pick P limit w = (v, false) -> (v = true <-> pda_lang P w).
Proof.
  intros Hpick Hw E. rewrite <- (@pda_langx_lang P w Hw). apply (@pda_accepts_completex pick P limit Hpick w v E).
Qed.

(* order independence: needs no hypothesis on the word *)
Corollary pda_accepts_pick_independent pick1 pick2 P limit w v1 v2 : picker_ok pick1 -> picker_ok pick2 ->
  pda_accepts pick1 P limit w = (v1, false) -> pda_accepts pick2 P limit w = (v2, false) -> v1 = v2.
Proof.
  intros H1 H2 E1 E2. apply (@pda_accepts_completex _ _ _ H1) in E1. apply (@pda_accepts_completex _ _ _ H2) in E2.
  destruct v1, v2; try reflexivity.
  - destruct E2 as [_ E2]. symmetry. apply E2. apply E1. reflexivity.
  - destruct E1 as [_ E1]. apply E1. apply E2. reflexivity.
Qed.

(* Why the hypothesis on the word: a letter equal to the epsilon symbol is treated by the simulation as an
   epsilon move, whereas no computation of the automaton reads it. *)
Lemma pda_reach_no_eps P c w c' : pda_reach P c w c' -> ~ In (peps P) w.
Proof.
  intros Hr. induction Hr as [c|c c1 w c2 H1 Hr IH|c a c1 w c2 Ha H1 Hr IH].
  - intros [].
  - exact IH.
  - intros [Hc|Hc]; [apply Ha; exact Hc | apply IH; exact Hc].
Qed.

Definition pda_cex : pda := mkPDA [0; 1] [5] [] [((0, 9, 9), [(1, 9)])] 0 [1] 9.

Lemma pda_accepts_sound_cex :
  pda_wf pda_cex /\ pda_accepts pick_head pda_cex 100 [9] = (true, false) /\ ~ pda_lang pda_cex [9].
Proof.
  split; [vm_compute; reflexivity|]. split; [vm_compute; reflexivity|].
  intros (q & st & _ & Hr). apply pda_reach_no_eps in Hr. apply Hr. left. reflexivity.
Qed.

(* ------------------------------------------------------------------------------------------------ *)
(* pda_words                                                                                          *)
(* ------------------------------------------------------------------------------------------------ *)

Lemma fold_left_additive {St X T} (f : St -> X -> St) (Fact : St -> T -> Prop) (Contrib : X -> T -> Prop) :
  (forall s x t, Fact (f s x) t <-> Fact s t \/ Contrib x t) ->
  forall l s t, Fact (fold_left f l s) t <-> Fact s t \/ exists x, In x l /\ Contrib x t.
Proof.
  intros Hstep. induction l as [|x l IH]; intros s t; cbn [fold_left].
  - split; [intros Hs; left; exact Hs | intros [Hs|(x & [] & _)]; exact Hs].
  - rewrite IH, Hstep. split.
    + intros [[Hs|Hc]|(y & Hy & Hc)].
      * left; exact Hs.
      * right. exists x. split; [left; reflexivity | exact Hc].
      * right. exists y. split; [right; exact Hy | exact Hc].
    + intros [Hs|(y & [Hy|Hy] & Hc)].
      * left; left; exact Hs.
      * subst y. left; right; exact Hc.
      * right. exists y. split; assumption.
Qed.

Section AssocSplit.
  Context {K V : Type} `{Eqb K}.
  Lemma lookup_split (k : K) (old : V) m : lookup k m = Some old ->
    exists m1 m2, m = m1 ++ (k, old) :: m2 /\ forall v, update k v m = m1 ++ (k, v) :: m2.
  Proof.
    induction m as [|[k' v'] m IH]; cbn [lookup update]; [discriminate|].
    destruct (eqb k k') eqn:E.
    - apply eqb_true in E. subst k'. intros Ev. inversion Ev; subst v'.
      exists [], m. split; [reflexivity|]. intros v. reflexivity.
    - intros El. destruct (IH El) as (m1 & m2 & Em & Hu).
      exists ((k', v') :: m1), m2. split; [rewrite Em; reflexivity|].
      intros v. rewrite Hu. reflexivity.
  Qed.
End AssocSplit.

Definition cm_has (W : cmap) (c : config) (w : word) : Prop := exists ws, In (c, ws) W /\ In w ws.

Lemma cm_has_app W1 W2 c w : cm_has (W1 ++ W2) c w <-> cm_has W1 c w \/ cm_has W2 c w.
Proof.
  unfold cm_has. split.
  - intros (ws & Hi & Hw). apply in_app_or in Hi. destruct Hi as [Hi|Hi]; [left|right]; exists ws; split; assumption.
  - intros [(ws & Hi & Hw)|(ws & Hi & Hw)]; exists ws; (split; [apply in_or_app|exact Hw]); [left|right]; exact Hi.
Qed.

Lemma cm_has_cons c0 ws0 W c w : cm_has ((c0, ws0) :: W) c w <-> (c = c0 /\ In w ws0) \/ cm_has W c w.
Proof.
  unfold cm_has. cbn [In]. split.
  - intros (ws & [Hi|Hi] & Hw).
    + inversion Hi; subst. left. split; [reflexivity | exact Hw].
    + right. exists ws. split; assumption.
  - intros [[Ec Hw]|(ws & Hi & Hw)].
    + subst c. exists ws0. split; [left; reflexivity | exact Hw].
    + exists ws. split; [right; exact Hi | exact Hw].
Qed.

Lemma cm_has_nil c w : ~ cm_has [] c w.
Proof. intros (ws & [] & _). Qed.

Lemma cmap_add_has c0 ws0 W c w : cm_has (cmap_add c0 ws0 W) c w <-> cm_has W c w \/ (c = c0 /\ In w ws0).
Proof.
  unfold cmap_add. destruct (lookup c0 W) as [old|] eqn:El.
  - destruct (lookup_split _ _ El) as (m1 & m2 & Em & Hu). rewrite Hu, Em.
    rewrite !cm_has_app, !cm_has_cons, union_In. tauto.
  - rewrite cm_has_app, cm_has_cons, dedup_In. assert (Hn := @cm_has_nil c w). tauto.
Qed.

Definition wst := (cmap * list word * bool)%type.
Definition FW (s : wst) (t : config * word) : Prop := cm_has (fst (fst s)) (fst t) (snd t).
Definition FR (s : wst) (w : word) : Prop := In w (snd (fst s)).
Definition FT (s : wst) (_ : unit) : Prop := snd s = true.

Definition snoc_all (a : nat) (ws : list word) : list word := map (fun wd => wd ++ [a]) ws.

Definition inner3 (P : pda) (wsa : list word) (acc3 : wst) (r1 : config) : wst :=
  let '(W1, res, tr) := acc3 in
  (cmap_add r1 wsa W1, if mem (fst r1) (pF P) then union res wsa else res, tr).
Definition inner2 (pick : picker config) (P : pda) (limit : nat) (cw : config * list word) (acc2 : wst) (a : nat) : wst :=
  let '(W1, res, tr) := acc2 in
  let '(R, t) := pda_eclose pick P limit (pda_do_transition P a [fst cw]) in
  fold_left (inner3 P (snoc_all a (snd cw))) R (W1, res, tr || match t with [] => false | _ => true end).
Definition inner1 (pick : picker config) (P : pda) (limit : nat) (acc : wst) (cw : config * list word) : wst :=
  fold_left (inner2 pick P limit cw) (pSg P) acc.

Lemma pda_words_round_eq pick P limit W result trunc :
  pda_words_round pick P limit W result trunc = fold_left (inner1 pick P limit) W ([], result, trunc).
Proof. reflexivity. Qed.

Section Words.
  Variable pick : picker config.
  Variable P : pda.
  Variable limit : nat.
  Hypothesis Hpick : picker_ok pick.

  Definition Rof (c : config) (a : nat) : list config * list config :=
    pda_eclose pick P limit (pda_do_transition P a [c]).

  (* level 3 *)
  Lemma inner3_FW wsa s r1 t : FW (inner3 P wsa s r1) t <-> FW s t \/ (fst t = r1 /\ In (snd t) wsa).
  Proof. destruct s as [[W1 res] tr]. unfold FW, inner3. cbn [fst snd]. apply cmap_add_has. Qed.
  Lemma inner3_FR wsa s r1 w : FR (inner3 P wsa s r1) w <-> FR s w \/ (In (fst r1) (pF P) /\ In w wsa).
  Proof.
    destruct s as [[W1 res] tr]. unfold FR, inner3. cbn [fst snd].
    destruct (mem (fst r1) (pF P)) eqn:Em.
    - apply mem_In in Em. rewrite union_In. tauto.
    - apply mem_nIn in Em. tauto.
  Qed.
  Lemma inner3_FT wsa s r1 u : FT (inner3 P wsa s r1) u <-> FT s u \/ False.
  Proof. destruct s as [[W1 res] tr]. unfold FT, inner3. cbn [fst snd]. tauto. Qed.

  (* level 2 *)
  Definition CW2 (cw : config * list word) (a : nat) (t : config * word) : Prop :=
    In (fst t) (fst (Rof (fst cw) a)) /\ In (snd t) (snoc_all a (snd cw)).
  Definition CR2 (cw : config * list word) (a : nat) (w : word) : Prop :=
    exists r1, In r1 (fst (Rof (fst cw) a)) /\ In (fst r1) (pF P) /\ In w (snoc_all a (snd cw)).
  Definition CT2 (cw : config * list word) (a : nat) (_ : unit) : Prop := snd (Rof (fst cw) a) <> [].

  Lemma inner2_FW cw s a t : FW (inner2 pick P limit cw s a) t <-> FW s t \/ CW2 cw a t.
  Proof.
    destruct s as [[W1 res] tr]. unfold inner2, CW2, Rof.
    destruct (pda_eclose pick P limit (pda_do_transition P a [fst cw])) as [R t1].
    rewrite (fold_left_additive _ FW _ (inner3_FW (snoc_all a (snd cw)))). cbn [fst snd]. unfold FW at 1 2. cbn [fst snd].
    split; [intros [Hs|(x & Hx & Ex & Hw)] | intros [Hs|[Hx Hw]]].
    - left; exact Hs.
    - right. rewrite Ex. split; assumption.
    - left; exact Hs.
    - right. exists (fst t). split; [exact Hx | split; [reflexivity | exact Hw]].
  Qed.
  Lemma inner2_FR cw s a w : FR (inner2 pick P limit cw s a) w <-> FR s w \/ CR2 cw a w.
  Proof.
    destruct s as [[W1 res] tr]. unfold inner2, CR2, Rof.
    destruct (pda_eclose pick P limit (pda_do_transition P a [fst cw])) as [R t1].
    rewrite (fold_left_additive _ FR _ (inner3_FR (snoc_all a (snd cw)))). cbn [fst snd]. unfold FR at 1 2. cbn [fst snd].
    split; [intros [Hs|(x & Hx & Ex & Hw)] | intros [Hs|(x & Hx & Ex & Hw)]].
    - left; exact Hs.
    - right. exists x. split; [exact Hx | split; assumption].
    - left; exact Hs.
    - right. exists x. split; [exact Hx | split; assumption].
  Qed.
  Lemma inner2_FT cw s a u : FT (inner2 pick P limit cw s a) u <-> FT s u \/ CT2 cw a u.
  Proof.
    destruct s as [[W1 res] tr]. unfold inner2, CT2, Rof.
    destruct (pda_eclose pick P limit (pda_do_transition P a [fst cw])) as [R t1].
    rewrite (fold_left_additive _ FT _ (inner3_FT (snoc_all a (snd cw)))). cbn [fst snd]. unfold FT at 1 2. cbn [fst snd].
    rewrite orb_true_iff. split; [intros [[Hs|Hs]|(x & _ & [])] | intros [Hs|Hs]].
    - left; exact Hs.
    - right. destruct t1; [discriminate | discriminate].
    - left; left; exact Hs.
    - left; right. destruct t1; [contradiction | reflexivity].
  Qed.

  (* level 1 *)
  Lemma inner1_FW s cw t : FW (inner1 pick P limit s cw) t <-> FW s t \/ exists a, In a (pSg P) /\ CW2 cw a t.
  Proof. unfold inner1. apply (fold_left_additive _ FW _ (inner2_FW cw)). Qed.
  Lemma inner1_FR s cw w : FR (inner1 pick P limit s cw) w <-> FR s w \/ exists a, In a (pSg P) /\ CR2 cw a w.
  Proof. unfold inner1. apply (fold_left_additive _ FR _ (inner2_FR cw)). Qed.
  Lemma inner1_FT s cw u : FT (inner1 pick P limit s cw) u <-> FT s u \/ exists a, In a (pSg P) /\ CT2 cw a u.
  Proof. unfold inner1. apply (fold_left_additive _ FT _ (inner2_FT cw)). Qed.

  (* one round *)
  Lemma round_FW W result trunc W1 r1 t1 c' w' :
    pda_words_round pick P limit W result trunc = (W1, r1, t1) ->
    (cm_has W1 c' w' <-> exists c ws a w, In (c, ws) W /\ In a (pSg P) /\ In w ws /\ w' = w ++ [a] /\ In c' (fst (Rof c a))).
  Proof.
    rewrite pda_words_round_eq. intros E.
    assert (H := fold_left_additive _ FW _ (inner1_FW) W ([], result, trunc) (c', w')).
    rewrite E in H. unfold FW at 1 2 in H. cbn [fst snd] in H. rewrite H. clear H. split.
    - intros [Hn|([c ws] & Hcw & a & Ha & Hr & Hw)]; [destruct (cm_has_nil Hn)|].
      cbn [fst snd] in Hr, Hw. unfold snoc_all in Hw. apply in_map_iff in Hw. destruct Hw as (w & Ew & Hw).
      exists c, ws, a, w. repeat split; auto.
    - intros (c & ws & a & w & Hcw & Ha & Hw & Ew & Hr). right. exists (c, ws). split; [exact Hcw|].
      exists a. split; [exact Ha|]. split; cbn [fst snd]; [exact Hr|]. unfold snoc_all. apply in_map_iff. exists w. auto.
  Qed.

  Lemma round_FR W result trunc W1 r1 t1 w' :
    pda_words_round pick P limit W result trunc = (W1, r1, t1) ->
    (In w' r1 <-> In w' result \/ exists c', In (fst c') (pF P) /\ cm_has W1 c' w').
  Proof.
    intros E. assert (HW := fun c' => @round_FW W result trunc W1 r1 t1 c' w' E).
    rewrite pda_words_round_eq in E.
    assert (H := fold_left_additive _ FR _ (inner1_FR) W ([], result, trunc) w').
    rewrite E in H. unfold FR at 1 2 in H. cbn [fst snd] in H. rewrite H. clear H. split.
    - intros [Hn|([c ws] & Hcw & a & Ha & r & Hr & Hf & Hw)]; [left; exact Hn|].
      right. exists r. split; [exact Hf|]. apply HW.
      cbn [fst snd] in Hr, Hw. unfold snoc_all in Hw. apply in_map_iff in Hw. destruct Hw as (w & Ew & Hw).
      exists c, ws, a, w. repeat split; auto.
    - intros [Hn|(c' & Hf & Hc)]; [left; exact Hn|]. right.
      apply HW in Hc. destruct Hc as (c & ws & a & w & Hcw & Ha & Hw & Ew & Hr).
      exists (c, ws). split; [exact Hcw|]. exists a. split; [exact Ha|]. exists c'. cbn [fst snd].
      split; [exact Hr|]. split; [exact Hf|]. unfold snoc_all. apply in_map_iff. exists w. auto.
  Qed.

  Lemma round_FT W result trunc W1 r1 :
    pda_words_round pick P limit W result trunc = (W1, r1, false) ->
    trunc = false /\ forall c ws a, In (c, ws) W -> In a (pSg P) -> snd (Rof c a) = [].
  Proof.
    rewrite pda_words_round_eq. intros E.
    assert (H := fold_left_additive _ FT _ (inner1_FT) W ([], result, trunc) tt).
    rewrite E in H. unfold FT at 1 2 in H. cbn [fst snd] in H. split.
    - destruct trunc; [|reflexivity]. destruct H as [_ H]. symmetry. apply H. left. reflexivity.
    - intros c ws a Hcw Ha. destruct (snd (Rof c a)) as [|x l] eqn:Es; [reflexivity|].
      destruct H as [_ H]. assert (Hf : false = true); [|discriminate].
      apply H. right. exists (c, ws). split; [exact Hcw|]. exists a. split; [exact Ha|].
      unfold CT2. cbn [fst]. rewrite Es. discriminate.
  Qed.

  (* semantics of one closure after one letter *)
  Lemma Rof_sound c a c' : In c' (fst (Rof c a)) -> exists r, In r (moves P a c) /\ pda_eps_star P r c'.
  Proof.
    unfold Rof. destruct (pda_eclose pick P limit (pda_do_transition P a [c])) as [R t] eqn:E. cbn [fst].
    intros Hc. destruct (@pda_eclose_sound _ _ Hpick _ _ _ _ E) as (_ & S2 & _).
    destruct (S2 c' Hc) as (r & Hr & Hs). exists r. split; [|exact Hs].
    apply pda_do_transition_In in Hr. destruct Hr as (r0 & [Hr0|[]] & Hm). subst r0. exact Hm.
  Qed.
  Lemma Rof_complete c a c' r : snd (Rof c a) = [] -> In r (moves P a c) -> pda_eps_star P r c' -> In c' (fst (Rof c a)).
  Proof.
    unfold Rof. destruct (pda_eclose pick P limit (pda_do_transition P a [c])) as [R t] eqn:E. cbn [fst snd].
    intros Et Hm Hs. subst t. apply (@pda_eclose_exact _ _ Hpick _ _ _ E c').
    exists r. split; [|exact Hs]. apply pda_do_transition_In. exists c. split; [left; reflexivity | exact Hm].
  Qed.

  Let c0 : config := (pq0 P, []).
  Definition over_Sg (w : word) : Prop := Forall (fun a => In a (pSg P)) w.

  Definition SW (k : nat) (W : cmap) : Prop :=
    forall c w, cm_has W c w -> length w = k /\ over_Sg w /\ pda_reachx P c0 w c.
  Definition SR (k : nat) (L : list word) : Prop :=
    forall w, In w L -> length w <= k /\ over_Sg w /\ pda_langx P w.
  Definition EW (k : nat) (W : cmap) : Prop :=
    forall c w, cm_has W c w <-> length w = k /\ over_Sg w /\ pda_reachx P c0 w c.
  Definition ER (k : nat) (L : list word) : Prop :=
    forall w, In w L <-> length w <= k /\ over_Sg w /\ pda_langx P w.

  Lemma over_Sg_snoc w a : over_Sg (w ++ [a]) <-> over_Sg w /\ In a (pSg P).
  Proof.
    unfold over_Sg. rewrite Forall_app. split.
    - intros [Hw Ha]. inversion Ha; subst. split; assumption.
    - intros [Hw Ha]. split; [exact Hw | constructor; [exact Ha | constructor]].
  Qed.

  Lemma round_sound k W result trunc W1 r1 t1 :
    SW k W -> SR k result -> pda_words_round pick P limit W result trunc = (W1, r1, t1) ->
    SW (S k) W1 /\ SR (S k) r1.
  Proof.
    intros HW HR E.
    assert (HW1 : SW (S k) W1).
    { intros c' w' Hc. apply (@round_FW _ _ _ _ _ _ c' w' E) in Hc.
      destruct Hc as (c & ws & a & w & Hcw & Ha & Hw & Ew & Hr). subst w'.
      destruct (HW c w) as (Hl & Ho & Hre); [exists ws; split; assumption|].
      apply Rof_sound in Hr. destruct Hr as (r & Hm & Hs).
      split; [rewrite app_length; cbn [length]; lia|].
      split; [apply over_Sg_snoc; split; assumption|].
      apply pda_reachx_snoc with c r; assumption. }
    split; [exact HW1|].
    intros w' Hw'. apply (@round_FR _ _ _ _ _ _ w' E) in Hw'. destruct Hw' as [Hw'|([q st] & Hf & Hc)].
    - destruct (HR w' Hw') as (Hl & Ho & Hla). split; [lia|]. split; assumption.
    - destruct (HW1 _ _ Hc) as (Hl & Ho & Hre). split; [lia|]. split; [exact Ho|].
      exists q, st. split; [exact Hf | exact Hre].
  Qed.

  Lemma round_exact k W result trunc W1 r1 :
    EW k W -> ER k result -> pda_words_round pick P limit W result trunc = (W1, r1, false) ->
    EW (S k) W1 /\ ER (S k) r1.
  Proof.
    intros HW HR E. destruct (@round_FT _ _ _ _ _ E) as [_ Hnt].
    assert (HW1 : EW (S k) W1).
    { intros c' w'. split.
      - assert (HS : SW (S k) W1); [|apply HS].
        apply (@round_sound k W result trunc W1 r1 false); [| |exact E].
        + intros c w Hc. apply HW. exact Hc.
        + intros w Hw. apply HR. exact Hw.
      - intros (Hl & Ho & Hre).
        destruct (@exists_last _ w') as (w & a & Ew); [intros ->; discriminate|]. subst w'.
        rewrite app_length in Hl. cbn [length] in Hl. apply over_Sg_snoc in Ho. destruct Ho as [Ho Ha].
        destruct (@pda_reachx_snoc_inv _ _ _ _ Hre w a eq_refl) as (r0 & r & Hu & Hm & Hs).
        assert (Hh : cm_has W r0 w) by (apply HW; split; [lia | split; assumption]).
        destruct Hh as (ws & Hcw & Hw).
        apply (@round_FW _ _ _ _ _ _ c' (w ++ [a]) E). exists r0, ws, a, w. repeat split; auto.
        apply Rof_complete with r; [apply (Hnt r0 ws a Hcw Ha) | exact Hm | exact Hs]. }
    split; [exact HW1|].
    intros w'. rewrite (@round_FR _ _ _ _ _ _ w' E). split.
    - intros [Hw'|([q st] & Hf & Hc)].
      + apply HR in Hw'. destruct Hw' as (Hl & Ho & Hla). split; [lia|]. split; assumption.
      + apply HW1 in Hc. destruct Hc as (Hl & Ho & Hre). split; [lia|]. split; [exact Ho|].
        exists q, st. split; [exact Hf | exact Hre].
    - intros (Hl & Ho & Hla). destruct (Nat.eq_dec (length w') (S k)) as [El|Nl].
      + right. destruct Hla as (q & st & Hf & Hre). exists (q, st). split; [exact Hf|].
        apply HW1. split; [exact El | split; assumption].
      + left. apply HR. split; [lia | split; assumption].
  Qed.

  Lemma pda_words_loop_trunc n : forall W result trunc L,
    pda_words_loop pick P limit n W result trunc = (L, false) -> trunc = false.
  Proof.
    induction n as [|n IH]; intros W result trunc L E; cbn [pda_words_loop] in E.
    - inversion E; reflexivity.
    - destruct (pda_words_round pick P limit W result trunc) as [[W1 r1] t1] eqn:Er.
      apply IH in E. subst t1. apply (@round_FT _ _ _ _ _ Er).
  Qed.

  Lemma pda_words_loop_sound n : forall k W result trunc L tr,
    SW k W -> SR k result -> pda_words_loop pick P limit n W result trunc = (L, tr) -> SR (k + n) L.
  Proof.
    induction n as [|n IH]; intros k W result trunc L tr HW HR E; cbn [pda_words_loop] in E.
    - inversion E; subst. rewrite Nat.add_0_r. exact HR.
    - destruct (pda_words_round pick P limit W result trunc) as [[W1 r1] t1] eqn:Er.
      destruct (@round_sound _ _ _ _ _ _ _ HW HR Er) as [HW1 HR1].
      replace (k + S n) with (S k + n) by lia. apply (IH (S k) W1 r1 t1 L tr HW1 HR1 E).
  Qed.

  Lemma pda_words_loop_exact n : forall k W result trunc L,
    EW k W -> ER k result -> pda_words_loop pick P limit n W result trunc = (L, false) -> ER (k + n) L.
  Proof.
    induction n as [|n IH]; intros k W result trunc L HW HR E; cbn [pda_words_loop] in E.
    - inversion E; subst. rewrite Nat.add_0_r. exact HR.
    - destruct (pda_words_round pick P limit W result trunc) as [[W1 r1] t1] eqn:Er.
      assert (Et := pda_words_loop_trunc _ _ _ _ E). subst t1.
      destruct (@round_exact _ _ _ _ _ _ HW HR Er) as [HW1 HR1].
      replace (k + S n) with (S k + n) by lia. apply (IH (S k) W1 r1 false L HW1 HR1 E).
  Qed.

  Lemma init_cm_has R0 c w : cm_has (map (fun r : config => (r, [[]])) R0) c w <-> In c R0 /\ w = [].
  Proof.
    unfold cm_has. split.
    - intros (ws & Hi & Hw). apply in_map_iff in Hi. destruct Hi as (r & Er & Hr). inversion Er; subst.
      destruct Hw as [Hw|[]]. split; [exact Hr | symmetry; exact Hw].
    - intros [Hc Ew]. subst w. exists [[]]. split; [|left; reflexivity].
      apply in_map_iff. exists c. split; [reflexivity | exact Hc].
  Qed.

  Lemma pda_words_soundx n L tr : pda_words pick P limit n = (L, tr) -> SR n L.
  Proof.
    unfold pda_words. destruct (pda_eclose pick P limit [(pq0 P, [])]) as [R0 t0] eqn:E0. intros E.
    assert (H0 := @pda_init_sound _ _ _ Hpick _ _ E0).
    apply (@pda_words_loop_sound n 0 _ _ _ L tr) in E; [exact E| |].
    - intros c w Hc. apply init_cm_has in Hc. destruct Hc as [Hc Ew]. subst w.
      split; [reflexivity|]. split; [constructor | apply H0; exact Hc].
    - intros w. match goal with |- context [if ?b then _ else _] => destruct b eqn:Ex end; intros Hw; [|destruct Hw].
      destruct Hw as [Hw|[]]. subst w. split; [cbn; lia|]. split; [constructor|].
      apply final_existsb in Ex. destruct Ex as (q & st & Hq & Hc). exists q, st. split; [exact Hq | apply H0; exact Hc].
  Qed.

  Lemma pda_words_exactx n L : pda_words pick P limit n = (L, false) -> ER n L.
  Proof.
    unfold pda_words. destruct (pda_eclose pick P limit [(pq0 P, [])]) as [R0 t0] eqn:E0. intros E.
    assert (Et := pda_words_loop_trunc _ _ _ _ E). destruct t0 as [|x t0]; [|discriminate].
    assert (H0 := @pda_init_exact _ _ _ Hpick _ E0).
    apply (@pda_words_loop_exact n 0 _ _ _ L) in E; [exact E| |].
    - intros c w. rewrite init_cm_has. split.
      + intros [Hc Ew]. subst w. split; [reflexivity|]. split; [constructor | apply H0; exact Hc].
      + intros (Hl & _ & Hre). destruct w; [|discriminate]. split; [apply H0; exact Hre | reflexivity].
    - intros w. match goal with |- context [if ?b then _ else _] => destruct b eqn:Ex end.
      + apply final_existsb in Ex. destruct Ex as (q & st & Hq & Hc). split.
        * intros [Hw|[]]. subst w. split; [cbn; lia|]. split; [constructor|].
          exists q, st. split; [exact Hq | apply H0; exact Hc].
        * intros (Hl & _ & _). destruct w; [left; reflexivity | cbn in Hl; lia].
      + split; [intros []|]. intros (Hl & _ & (q & st & Hq & Hre)). destruct w; [|cbn in Hl; lia].
        assert (Hf : existsb (fun c : config => mem (fst c) (pF P)) R0 = true); [|pose proof (eq_trans (eq_sym Hf) Ex) as Hx; discriminate Hx].
        apply final_existsb. exists q, st. split; [exact Hq | apply H0; exact Hre].
  Qed.
End Words.

Lemma pda_wf_eps_not_Sg P : pda_wf P -> ~ In (peps P) (pSg P).
Proof.
  unfold pda_wf, pda_wf_b. rewrite !andb_true_iff. intros [[[[[_ H] _] _] _] _].
  apply negb_true_iff, mem_nIn in H. exact H.
Qed.

Lemma over_Sg_no_eps P w : ~ In (peps P) (pSg P) -> Forall (fun a => In a (pSg P)) w -> Forall (fun a => a <> peps P) w.
Proof.
  intros Hn Hw. induction Hw as [|a w Ha Hw IH]; constructor; [|exact IH].
  intros Ea. subst a. contradiction.
Qed.

Theorem pda_words_sound pick P limit n L tr : picker_ok pick -> pda_wf P -> pda_words pick P limit n = (L, tr) ->
  forall w, In w L -> length w <= n /\ Forall (fun a => In a (pSg P)) w /\ pda_lang P w.
Proof.
  intros Hpick Hwf E w Hw. destruct (@pda_words_soundx pick P limit Hpick n L tr E w Hw) as (Hl & Ho & Hla).
  split; [exact Hl|]. split; [exact Ho|].
  apply pda_langx_lang; [|exact Hla]. apply over_Sg_no_eps; [apply pda_wf_eps_not_Sg; exact Hwf | exact Ho].
Qed.

Theorem pda_words_exact pick P limit n L : picker_ok pick -> pda_wf P -> pda_words pick P limit n = (L, false) ->
  forall w, In w L <-> length w <= n /\ Forall (fun a => In a (pSg P)) w /\ pda_lang P w.
Proof.
  intros Hpick Hwf E w. rewrite (@pda_words_exactx pick P limit Hpick n L E w). unfold over_Sg. split.
  - intros (Hl & Ho & Hla). split; [exact Hl|]. split; [exact Ho|].
    apply pda_langx_lang; [|exact Hla]. apply over_Sg_no_eps; [apply pda_wf_eps_not_Sg; exact Hwf | exact Ho].
  - intros (Hl & Ho & Hla). split; [exact Hl|]. split; [exact Ho|].
    apply pda_langx_lang; [|exact Hla]. apply over_Sg_no_eps; [apply pda_wf_eps_not_Sg; exact Hwf | exact Ho].
Qed.

(* the set of configurations after reading w, when nothing was truncated, is exactly the set of configurations
   reachable by w *)
Theorem pda_run_configs_exact pick P limit w R0 t0 R : picker_ok pick -> Forall (fun a => a <> peps P) w ->
  pda_eclose pick P limit [(pq0 P, [])] = (R0, t0) ->
  pda_run pick P limit w R0 (match t0 with [] => false | _ => true end) = (R, false) ->
  forall c, In c R <-> pda_reach P (pq0 P, []) w c.
Proof.
  intros Hpick Hw E0 E1 c.
  assert (Et := @pda_run_trunc _ _ _ _ _ _ _ E1). destruct t0 as [|t t0]; [|discriminate].
  assert (HR := @pda_run_exact _ _ _ Hpick (pq0 P, []) w [] R0 _ R (@pda_init_exact _ _ _ Hpick R0 E0) E1 c).
  cbn [app] in HR. rewrite HR. split; [apply pda_reachx_reach; exact Hw | apply pda_reach_reachx].
Qed.
