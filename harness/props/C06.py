"""C06 - regexp -> NFA and DFA -> regexp vs the proved models (Model/NFAOps.v, Model/GNFA.v) with exact equivalence oracles."""
import coqlit as L
import gen as G
import conv

COQ_IMPORTS = ['Model.DFA', 'Model.NFA', 'Model.Regexp', 'Model.NFAOps', 'Model.GNFA', 'Judge.C06_judge']
PDA_FREE = True      # no PDA is involved: the recycling pass runs with GambaTools.pda_epsilon_closure_max_iterations = 3
LOG_SAFE = True      # no printed output is read back: the recycling pass runs with GambaTools.enable_logging = True
RULE = ('regexps: all trees with <= 4 nodes over {0,1,a,b} (thorough <= 5) and random trees of depth <= 5: regexp_to_nfa (states q{i} coded by i); '
        'DFAs: all total DFAs 2x1, 2x2, 3x1 and random <= 5 states x <= 2 symbols: dfa_to_gnfa (every edge label) and dfa_to_regexp under 4 (quick) / 16 (thorough) PYTHONHASHSEED values (state-elimination order). '
        'Relation: NFA valid, agrees with the proved matcher on all words <= 4 and is language-equal (exact) to the model NFA; regexp language-equal to the DFA for all word lengths (exact: proved regexp->NFA model + '
        'proved subset construction + proved product reachability); structural layer: the regexp equals the model result for some elimination order (<= 3 states). '
        'Non-trivial = the language is neither empty nor everything on words <= 3; distinct by object text.')
RULE += ' Added after the seeded rounds: unusual state names (incl. the empty name).'
CODES = {2: 'regexp_to_nfa raised', 3: 'regexp_to_nfa returned an invalid NFA', 4: 'NFA disagrees with the regexp semantics on a word <= 4', 5: 'NFA not language-equal to the model NFA', 8: 'internal: model out of names',
         9: 'generated DFA invalid (harness)', 10: 'dfa_to_gnfa edge labels differ', 11: 'dfa_to_regexp raised / model rejects', 12: 'dfa_to_regexp: expression not language-equal to the DFA',
         1: 'structure differs from the model, property-level relation holds'}
ASSUMPTIONS = ["state names 'start' and 'accept' not in Q (asserted by dfa_to_gnfa)", 'single-character symbols']
RESIDUE = 'IdentifierGenerator naming; set iteration order of gnfa_minimize sampled through PYTHONHASHSEED and covered by the order-quantified theorem'
SHARD = 40


def hashseeds(tier):
    return [0, 1, 2, 3] if tier == 'quick' else list(range(16))


def gen(rng, tier):
    quick = tier == 'quick'
    cases = []
    i = 0
    for n in range(1, 5 if quick else 6):
        for t in G.re_trees(n, 2):
            i += 1
            cases.append({'kind': 're', 'r': G.relabel_re(t, G.CODE_SETS[i % len(G.CODE_SETS)])})
    for _ in range(120 if quick else 2500):
        inner = rng.choice([['+', ['1'], ['s', 0]], ['+', ['*', ['s', 0]], ['s', 1]], ['.', ['*', ['s', 0]], ['*', ['s', 1]]], ['*', ['s', 0]], ['1'],
                            ['+', ['s', 0], ['1']]])
        star = ['*', inner]
        other = G.random_re(rng, rng.randint(1, 2), 2)
        t = rng.choice([['+', star, other], ['+', other, star], ['.', star, other], ['.', other, star], ['*', ['+', star, other]], ['+', star, ['*', other]],
                        # the empty word added to a concatenation that starts or ends with a star of a nullable expression (three levels)
                        ['+', ['1'], ['.', star, other]], ['+', ['.', star, other], ['1']], ['+', ['1'], ['.', other, star]], ['.', ['+', ['1'], star], other],
                        ['+', ['1'], ['.', star, ['s', 1]]], ['+', ['.', star, ['s', 1]], ['1']]])
        cases.append({'kind': 're', 'r': t})
    for _ in range(150 if quick else 3000):
        t = G.random_re(rng, rng.randint(2, 5), 2)
        if G.re_nodes(t) <= 16:
            cases.append({'kind': 're', 'r': t})
    ds = G.all_dfas(2, 'a') + G.all_dfas(2, 'ab') + G.all_dfas(1, 'ab')
    ds += rng.sample(G.all_dfas(3, 'a'), 80) if quick else G.all_dfas(3, 'a')
    ds += [G.random_dfa(rng, rng.randint(1, 5), rng.choice(['a', 'ab', '', '01', '1', 'a1', '_ε'])) for _ in range(120 if quick else 3000)]
    ds += [dict(d, Sigma=['0', '1'], delta=[[q, {'a': '0', 'b': '1'}[a], t] for q, a, t in d['delta']]) for d in (rng.sample(G.all_dfas(2, 'ab'), 40) if quick else G.all_dfas(2, 'ab'))]
    for _ in range(60 if quick else 1200):
        # several symbols lead from one state to the same target; the transition relation is listed symbol by symbol / shuffled
        d = G.random_dfa(rng, rng.randint(1, 3), rng.choice(['abc', 'abcd', 'abc']), pfinal=0.5)
        if rng.random() < 0.5:
            d['delta'] = sorted(d['delta'], key=lambda t: (t[1], t[0]))
        else:
            rng.shuffle(d['delta'])
        ds.append(d)
    for i, d in enumerate(ds):
        cases.append({'kind': 'dfa', 'D': G.retag(d, rng, allow_empty=True) if i % 6 == 1 and len(d['Q']) <= 6 else d})
    return cases


def _gn(G_):
    return sorted([p, q, conv.re_from_obj(r)] for (p, q), r in G_.delta.items())


def observe(c):
    from gambatools import regexp_algorithms as RA
    from implutil import safe, ok
    if c['kind'] == 're':
        r = safe(RA.regexp_to_nfa, conv.re_to_obj(c['r']))
        return {'N': conv.nfa_case(r[1]) if ok(r) else None}
    D = conv.dfa_obj(c['D'])
    g = safe(RA.dfa_to_gnfa, D)
    r = safe(RA.dfa_to_regexp, D)
    return {'gnfa': _gn(g[1]) if ok(g) else None, 're': conv.re_from_obj(r[1]) if ok(r) else None}


def _qcode(name):
    if name.startswith('q') and name[1:].isdigit():
        return int(name[1:])
    return 80


def encode(c, o):
    if c['kind'] == 're':
        n = o['N']
        if n is None:
            return 'judge_C06_re %s None' % L.re(c['r'])
        f = lambda a: 90 if a == n['eps'] else conv.SYMS.index(a)
        delta = L.lst(L.pair(L.pair(L.nat(_qcode(q)), L.nat(f(a))), L.nats(_qcode(t) for t in ts)) for (q, a, ts) in n['delta'])
        lit = '(mkNFA %s %s %s %s %s %s)' % (L.nats(_qcode(q) for q in n['Q']), L.nats(f(a) for a in n['Sigma']), delta, L.nat(_qcode(n['q0'])), L.nats(_qcode(q) for q in n['F']), L.nat(f(n['eps'])))
        return 'judge_C06_re %s (Some %s)' % (L.re(c['r']), lit)
    d = c['D']
    st = L.state_names(d)
    s, a = st('start'), st('accept')
    sy = lambda x: conv.SYMS.index(x)

    def dl():
        delta = L.lst(L.pair(L.pair(L.nat(st(q)), L.nat(sy(x))), L.nat(st(q1))) for (q, x, q1) in d['delta'])
        return '(mkDFA %s %s %s %s %s)' % (L.nats(st(q) for q in d['Q']), L.nats(sy(x) for x in d['Sigma']), delta, L.nat(st(d['q0'])), L.nats(st(q) for q in d['F']))
    gn = L.option(o['gnfa'], lambda g: L.lst(L.pair(L.pair(L.nat(st(p)), L.nat(st(q))), L.re(r)) for p, q, r in g))
    return 'judge_C06_dfa %s %d %d %s %s' % (dl(), s, a, gn, L.option(o['re'], L.re))


def explain(c):
    if c['kind'] == 're':
        return 'explain_C06_re %s' % L.re(c['r'])
    d = c['D']
    st = L.state_names(d)
    s, a = st('start'), st('accept')
    sy = lambda x: conv.SYMS.index(x)
    delta = L.lst(L.pair(L.pair(L.nat(st(q)), L.nat(sy(x))), L.nat(st(q1))) for (q, x, q1) in d['delta'])
    return 'explain_C06_dfa (mkDFA %s %s %s %s %s) %d %d' % (L.nats(st(q) for q in d['Q']), L.nats(sy(x) for x in d['Sigma']), delta, L.nat(st(d['q0'])), L.nats(st(q) for q in d['F']), s, a)


def key(c):
    return 're|' + conv.re_str(c['r']) if c['kind'] == 're' else 'dfa|' + conv.dfa_text(c['D'])


def nontrivial(c, o):
    if c['kind'] == 're':
        s = conv.re_str(c['r'])
        return ('*' in s or '.' in s or '+' in s) and ('a' in s or 'b' in s)
    return 0 < len(c['D']['F']) < len(c['D']['Q'])


def describe(c):
    return {'regexp': conv.re_str(c['r'])} if c['kind'] == 're' else {'dfa': conv.dfa_text(c['D'])}


def reproduce(c):
    if c['kind'] == 're':
        return 'from gambatools.regexp_algorithms import *; from gambatools.regexp_simple_parser import *; N = regexp_to_nfa(<%s>)' % conv.re_str(c['r'])
    return 'from gambatools.dfa_algorithms import *; from gambatools.regexp_algorithms import *; D = parse_dfa(%r); print(dfa_to_regexp(D))' % conv.dfa_text(c['D'])


def signature(c, o, code):
    return 'C06:code%d:%s' % (code, key(c))


def distribution(cases, obs):
    d = {'re': 0, 'dfa': 0, 'dfa_states': {}, 're_nodes': {}}
    for c in cases:
        d[c['kind']] += 1
        if c['kind'] == 'dfa':
            k = str(len(c['D']['Q']))
            d['dfa_states'][k] = d['dfa_states'].get(k, 0) + 1
        else:
            k = str(G.re_nodes(c['r']))
            d['re_nodes'][k] = d['re_nodes'].get(k, 0) + 1
    return d


def shrink(c):
    out = []
    if c['kind'] == 're':
        def subs(t):
            for x in t[1:]:
                if isinstance(x, list):
                    yield x
                    for y in subs(x):
                        yield y
        return [{'kind': 're', 'r': s} for s in subs(c['r'])]
    d = c['D']
    for q in d['Q']:
        if q == d['q0']:
            continue
        e = {'Q': [x for x in d['Q'] if x != q], 'Sigma': d['Sigma'], 'q0': d['q0'], 'F': [x for x in d['F'] if x != q],
             'delta': [[p, a, (d['q0'] if t == q else t)] for (p, a, t) in d['delta'] if p != q]}
        out.append({'kind': 'dfa', 'D': e})
    return out


LEVEL_TEXT = ('Coq theorems: the model of regexp_to_nfa returns a valid NFA with exactly the denoted language (induction on the expression over the C18 constructions); the model of dfa_to_regexp returns an expression '
              'with exactly the DFA language for every elimination order (GNFA path language + rip lemma). See evidence for statements still _partial. Tied to the Python by in-Coq evaluation with exact equivalence oracles (all word lengths).')
LEVEL_NOTE = 'Trusted: Coq kernel + vm_compute, models Model/NFAOps.v, Model/GNFA.v, Model/Regexp.v, harness. No axioms.'
TECHNIQUE = 'Coq proofs (structural induction; rip lemma on GNFA path languages) + verified regexp/NFA/DFA equivalence oracles evaluated in Coq on implementation outputs'
