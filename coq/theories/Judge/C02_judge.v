From GT Require Import Base.Prelude Model.DFA Model.NFA Model.Regexp Model.TM Model.CFG Model.Chomsky Model.CYK Model.PDA Judge.Common.

Definition oseteq2 (o : option (list word)) (m : list word) : bool := match o with Some l => seteqb l m | None => false end.
(* three observations per (object, n): the enumerator, generate_language, and the words <= n filtered by the acceptance test *)
Definition obs3 := (option (list word) * option (list word) * option (list word))%type.
Definition judge3 (o : obs3) (m : option (list word)) (c : nat) : nat :=
  let '(oe, og, of_) := o in
  match m with
  | None => check (match oe, og with None, None => true | _, _ => false end) (c + 3)
  | Some L => worst_code [check (oseteq2 oe L) c; check (oseteq2 og L) (c + 1); check (oseteq2 of_ L) (c + 2)]
  end.

Definition judge_C02_dfa (D : dfa nat) (runs : list (nat * obs3)) : nat :=
  worst_code (check (dfa_wf_b D) 9 :: map (fun r => judge3 (snd r) (dfa_words D (fst r)) 10) runs).
Definition judge_C02_nfa (N : nfa nat) (runs : list (nat * obs3)) : nat :=
  worst_code (check (nfa_wf_b N) 9 :: map (fun r => judge3 (snd r) (nfa_words N (fst r)) 20) runs).
Definition judge_C02_re (r : re) (runs : list (nat * obs3)) : nat :=
  worst_code (map (fun x => judge3 (snd x) (Some (re_words r (fst x))) 30) runs).
(* TM: (n, step budget) *)
Definition judge_C02_tm (T : tm) (runs : list (nat * nat * obs3)) : nat :=
  worst_code (check (tm_wf_b T) 9 :: map (fun x => let '(n, k, o) := x in judge3 o (Some (tm_words T n k)) 40) runs).
Definition judge_C02_cfg (G : cfg) (stream : list nat) (runs : list (nat * obs3)) : nat :=
  worst_code (check (cfg_wf_b G) 9 :: map (fun r => judge3 (snd r) (cfg_words (fun l => l) stream G (fst r)) 50) runs).
(* PDA: when no closure is truncated the sets must be equal; otherwise only soundness w.r.t. a larger budget is required *)
Definition judge_C02_pda (P : pda) (limit : nat) (runs : list (nat * obs3)) : nat :=
  worst_code (check (pda_wf_b P) 9 :: map (fun r =>
    let '(n, o) := r in
    let '(L, tr) := pda_words pick_head P limit n in
    if negb tr then judge3 o (Some L) 60
    else let '(oe, og, _) := o in
         (* truncated: every enumerated word must have an accepting computation (decided word by word with a larger budget) *)
         let verdict := fun w => let '(v, t) := pda_accepts pick_head P (2 * limit + 20) w in if v then 0 else if t then 1 else 64 in
         match oe, og with
         | Some le, Some lg => worst_code (map verdict (dedup (le ++ lg)))
         | _, _ => 63
         end) runs).

Definition explain_C02_cfg (G : cfg) (stream : list nat) (n : nat) := cfg_words (fun l => l) stream G n.
Definition explain_C02_pda (P : pda) (limit n : nat) := pda_words pick_head P limit n.
