"""C08 - Chomsky conversion phase by phase vs the proved model (Model/Chomsky.v)."""
import coqlit as L
import gen as G
import conv
import syntax as SX

COQ_IMPORTS = ['Model.CFG', 'Model.Chomsky', 'Model.CYK', 'Model.FreshName', 'Judge.Common', 'Judge.C08_judge', 'Judge.Extra_judge']
PDA_FREE = True      # no PDA is involved: the recycling pass runs with GambaTools.pda_epsilon_closure_max_iterations = 3
LOG_SAFE = True      # no printed output is read back: the recycling pass runs with GambaTools.enable_logging = True
EXTRA_JUDGES = ['Extra']
RULE = ('grammars: all one-rule grammars and a seeded sample of 2-3-rule grammars from right-hand sides of length <= 2 over {S,A,a,b}; random grammars with nullable start, cyclic unit rules, duplicate rules, '
        'right-hand sides up to length 5, variables named like the fresh-name candidates (S0, A, B ...), and grammars with 24-30 variables; 2 (quick) / 8 (thorough) PYTHONHASHSEED values. '
        'Observed: the five phase functions and cfg_to_chomsky (non-in-place wrappers, input snapshot), the fresh names each call chose (cfg_fresh_variable wrapped in the worker), '
        'cfg_nullable_variables, expand_nullable_variables, cfg_derivable_variables. Relation: result = model result under the same fresh names (as sets of rules); otherwise valid + phase postcondition + '
        'fresh names new + language equal on all words <= 4 through the proved enumerator. Non-trivial = the grammar has an epsilon or unit rule or a long rule, and >= 2 rules; distinct by grammar text.')
RULE += ' Added after the seeded rounds: the concrete naming policy of cfg_fresh_variable compared with Model/FreshName.v (informational); notebook_chomsky.cfg_apply_chomsky observed with an argument snapshot.'
CODES = {66: 'notebook_chomsky.cfg_apply_chomsky modified its argument', 70: 'cfg_nullable_variables differs', 71: 'expand_nullable_variables differs', 72: 'cfg_derivable_variables differs', 9: 'generated grammar invalid (harness)',
         1: 'result differs structurally from the model, property-level relation holds'}
for k, nme in [(1, 'cfg_add_new_start_variable'), (2, 'cfg_remove_epsilon_rules'), (3, 'cfg_eliminate_unit_rules'), (4, 'cfg_make_rules_of_length_two'), (5, 'cfg_eliminate_terminals'), (6, 'cfg_to_chomsky')]:
    CODES[10 * k] = nme + ' raised / timed out'
    CODES[10 * k + 1] = nme + ' modified its argument'
    CODES[10 * k + 2] = nme + ' result invalid or variable set not extended by distinct names'
    CODES[10 * k + 3] = nme + ' postcondition violated'
    CODES[10 * k + 4] = nme + ' changed the language (word <= 4)'
    CODES[10 * k + 5] = nme + ' introduced a variable that already existed'
ASSUMPTIONS = ['variable names and terminal names are disjoint strings', 'terminals are single characters']
RESIDUE = 'copy.deepcopy; Alternative object sharing (modelled by rule ids); str.upper / str.format in cfg_fresh_variable (modelled separately in FreshName.v)'
STREAM = list(range(300, 380))
SHARD = 30


def hashseeds(tier):
    return [0, 1] if tier == 'quick' else list(range(8))


def gen(rng, tier):
    quick = tier == 'quick'
    gs = []
    pool = G.all_rules(['S', 'A'], ['a', 'b'], 2)
    for r in pool:
        gs.append(G.mk_cfg([r], 'S', extra_vars=['A']))
    for _ in range(150 if quick else 3000):
        gs.append(G.mk_cfg([rng.choice(pool) for _ in range(rng.choice([2, 3]))], 'S', extra_vars=['A']))
    for _ in range(250 if quick else 4000):
        names = rng.choice([None, None, ['S', 'S0', 'A', 'B'], ['A', 'B', 'C', 'S'], ['S', 'T', 'U']])
        gs.append(G.random_cfg(rng, rng.randint(1, 5), rng.randint(1, 3), rng.randint(1, 7), maxlen=rng.choice([2, 3, 5]), peps=rng.choice([0.1, 0.3]), punit=rng.choice([0.1, 0.3]), varnames=names))
    import string
    for _ in range(25 if quick else 300):
        n = rng.randint(24, 30)
        names = list(string.ascii_uppercase[:min(n, 26)]) + ['S%d' % i for i in range(max(0, n - 26))]
        rng.shuffle(names)
        if 'S' in names:
            names.remove('S')
        names = ['S'] + names
        g = G.random_cfg(rng, len(names), 2, rng.randint(3, 8), maxlen=4, varnames=names)
        gs.append(g)
    gs += [G.unit_cycle_cfg(rng) for _ in range(15 if quick else 300)] + [G.nullable_chain_cfg(rng) for _ in range(15 if quick else 300)]
    return [{'G': g} for g in gs]


PHASES = [(1, 'cfg_add_new_start_variable'), (2, 'cfg_remove_epsilon_rules'), (3, 'cfg_eliminate_unit_rules'), (4, 'cfg_make_rules_of_length_two'),
          (5, 'cfg_eliminate_terminals'), (6, 'cfg_to_chomsky')]


def observe(c):
    import gambatools.cfg_algorithms as CA
    from gambatools.cfg import Variable
    from implutil import safe, ok
    Gm = conv.cfg_obj(c['G'])
    log = []
    calls = []
    orig = CA.cfg_fresh_variable

    def wrapped(Gx, hint):
        V0 = sorted(str(v) for v in Gx.V)
        r = orig(Gx, hint)
        log.append(str(r))
        if len(calls) < 6:
            calls.append([V0, str(hint), None if r is None else str(r)])
        return r
    CA.cfg_fresh_variable = wrapped
    try:
        phases = []
        for k, name in PHASES:
            del log[:]
            before = conv.cfg_case(Gm)
            r = safe(getattr(CA, name), Gm)
            phases.append({'k': k, 'used': list(log), 'G': conv.cfg_case(r[1]) if ok(r) else None, 'unchanged': conv.cfg_case(Gm) == before,
                           'err': None if ok(r) else r[1]})
    finally:
        CA.cfg_fresh_variable = orig
    # the phase pipeline as the Chomsky exercise applies it (notebook_chomsky.cfg_apply_chomsky): the input grammar stays untouched and the
    # result of the pipeline up to phase k has the language of the input (compared through the library's own enumerator on a fresh copy)
    apply = []
    try:
        from gambatools.notebook_chomsky import cfg_apply_chomsky
        for phase in (1, 2, 3, 4, 5):
            before = conv.cfg_case(Gm)
            r = safe(cfg_apply_chomsky, Gm, phase, 'Z')
            apply.append([phase, conv.cfg_case(Gm) == before, conv.cfg_case(r[1]) if ok(r) else None])
    except ImportError:
        pass
    r = safe(CA.cfg_nullable_variables, Gm)
    nullable = sorted(str(v) for v in r[1]) if ok(r) else None
    W = set(Variable(v) for v in (nullable or []))
    expand = []
    for rule in Gm.R[:6]:
        e = safe(CA.expand_nullable_variables, rule.alternative.symbols, W)
        expand.append({'x': [['V' if isinstance(s, Variable) else 'T', str(s)] for s in rule.alternative.symbols], 'W': sorted(W),
                       'r': [[['V' if isinstance(s, Variable) else 'T', str(s)] for s in y] for y in e[1]] if ok(e) else None})
    deriv = []
    for A in c['G']['V'][:6]:
        d = safe(CA.cfg_derivable_variables, Gm, Variable(A))
        deriv.append([A, sorted(str(v) for v in d[1]) if ok(d) else None])
    return {'phases': phases, 'nullable': nullable, 'expand': expand, 'deriv': deriv, 'fresh_calls': calls, 'apply': apply}


def _nm(c, o=None):
    nm = L.Names()
    g = c['G']
    for v in g['V']:
        nm(v)
    for t in g['Sigma']:
        nm(t)
    return nm


def encode(c, o):
    g = c['G']
    nm = _nm(c)
    lit = L.cfg(g, nm)
    ph = []
    for p in o['phases']:
        used = L.nats(nm(x) for x in p['used'])
        og = L.option(p['G'], lambda x: L.cfg(x, nm))
        ph.append(L.pair(L.nat(p['k']), used, og, L.boolean(p['unchanged'])))
    assert len(nm.m) < 290, 'too many names'
    nullable = L.option(o['nullable'], lambda s: L.nats(nm(v) for v in s))
    expand = L.lst(L.pair(L.lst(L.csym(s, nm) for s in e['x']), L.nats(nm(v) for v in e['W']), L.option(e['r'], lambda r: L.lst(L.lst(L.csym(s, nm) for s in y) for y in r))) for e in o['expand'])
    deriv = L.lst(L.pair(L.nat(nm(A)), L.option(d, lambda s: L.nats(nm(v) for v in s))) for A, d in o['deriv'])
    main = 'judge_C08 %s %s %s %s %s %s' % (lit, L.nats(STREAM), L.lst(ph), nullable, expand, deriv)
    # the concrete naming policy (Model/FreshName.v) on the calls the implementation made: same name, character by character
    fresh = ['judge_fresh_variable %s %s %s' % (SX.toks(V0), SX.tok(hint), SX.opt_codes(r)) for V0, hint, r in o.get('fresh_calls', [])
             if all(SX.codes(x) is not None for x in V0 + [hint] + ([r] if r is not None else []))]
    # cfg_apply_chomsky(G, phase, start): argument untouched (code 66); its result for phase 5 is judged like cfg_to_chomsky's by language
    app = ['(if %s then 0 else 66)' % L.boolean(all(u for _, u, _ in o.get('apply', [])))]
    return 'worst_code [%s]' % '; '.join([main] + fresh + app)


def explain(c):
    nm = _nm(c)
    return 'explain_C08 %s 6 %s' % (L.cfg(c['G'], nm), L.nats(STREAM))


def key(c):
    return conv.cfg_text(c['G'])


def nontrivial(c, o):
    R = c['G']['R']
    return len(R) >= 2 and any(len(rhs) == 0 or len(rhs) > 2 or (len(rhs) == 1 and rhs[0][0] == 'V') for _, rhs in R)


def describe(c):
    return {'grammar': conv.cfg_text(c['G'])}


def reproduce(c):
    return 'from gambatools.cfg_algorithms import *; G = <grammar: %s>; cfg_to_chomsky(G) and the five phase functions' % conv.cfg_text(c['G']).replace('\n', ' ; ')


def signature(c, o, code):
    return 'C08:code%d:%s' % (code, key(c))


def distribution(cases, obs):
    d = {'variables': {}, 'nullable_start': 0, 'unit_cycle_candidates': 0, 'long_rules': 0, 'fresh_names_used': 0, 'ge26_variables': 0}
    for c, o in zip(cases, obs):
        k = str(min(len(c['G']['V']), 26))
        d['variables'][k] = d['variables'].get(k, 0) + 1
        d['ge26_variables'] += 1 if len(c['G']['V']) >= 24 else 0
        d['nullable_start'] += 1 if o['nullable'] and c['G']['S'] in o['nullable'] else 0
        d['long_rules'] += sum(1 for _, rhs in c['G']['R'] if len(rhs) > 2)
        d['unit_cycle_candidates'] += 1 if sum(1 for _, rhs in c['G']['R'] if len(rhs) == 1 and rhs[0][0] == 'V') >= 2 else 0
        d['fresh_names_used'] += sum(len(p['used']) for p in o['phases'])
    return d


def shrink(c):
    out = []
    g = c['G']
    for i in range(len(g['R'])):
        e = dict(g, R=g['R'][:i] + g['R'][i + 1:])
        e.pop('rid', None)
        out.append({'G': e})
    for i, (v, rhs) in enumerate(g['R']):
        for j in range(len(rhs)):
            e = dict(g, R=g['R'][:i] + [[v, rhs[:j] + rhs[j + 1:]]] + g['R'][i + 1:])
            e.pop('rid', None)
            out.append({'G': e})
    return out


LEVEL_TEXT = ('Coq theorems about the models of the five conversion phases and of cfg_to_chomsky, for every fresh-name stream the implementation may choose and every iteration order of V: postconditions, freshness '
              'and language preservation through parse trees (see evidence for the statements that are still _partial). Tied to the Python by in-Coq evaluation of each phase under the very names the implementation chose, '
              'plus a property-level oracle (validity, postcondition, exact bounded language) when the structure differs.')
LEVEL_NOTE = 'Trusted: Coq kernel + vm_compute, models Model/CFG.v, Model/Chomsky.v, Model/CYK.v, the worker-side wrapper that records the names returned by cfg_fresh_variable, harness. No axioms.'
TECHNIQUE = 'Coq proofs on parse trees (pruning / unfolding) + replay of the implementation\'s fresh-name choices in the model, evaluated inside Coq'
