(* Additional judges for C12 / C13:
   - j_feedback: a counterexample word printed by a checker must be genuine, have the right polarity and (for the
     language-comparison feedback) minimal length in its difference set   (C12, last sentence of the property);
   - further exercise kinds: language from a reference file (any pair of object kinds), accept/reject lists for a DFA,
     word list for a grammar, automata_checker.check_dfa/nfa_for_given_language.
   A1 = bounded language of the answer, A2 = bounded language of the reference (None = not computable: code 1). *)
From GT Require Import Base.Prelude Model.DFA Model.NFA Model.DFAOps Model.Lang Model.Regexp Model.CFG Model.Chomsky Model.CYK Model.Checkers
     Judge.Common Judge.C12_judge.

Definition shorter_than_all (w : word) (L : list word) : bool := forallb (fun v => Nat.leb (length w) (length v)) L.
(* fb = (extra, w):  extra = true: "w should not be accepted" ; false: "w should be accepted" / "w is not accepted" *)
Definition feedback_genuine (A1 A2 : list word) (fb : bool * word) (minimal : bool) : bool :=
  let '(extra, w) := fb in
  if extra then mem w A1 && negb (mem w A2) && (negb minimal || shorter_than_all w (diff A1 A2))
  else mem w A2 && negb (mem w A1) && (negb minimal || shorter_than_all w (diff A2 A1)).
Definition j_feedback (A1 A2 : option (list word)) (fb : option (bool * word)) (minimal : bool) (code : nat) : nat :=
  match fb with
  | None => 0
  | Some f => match A1, A2 with Some a1, Some a2 => check (feedback_genuine a1 a2 f minimal) code | _, _ => 1 end
  end.
(* a checker that printed OK must not also have printed a counterexample, and when the languages differ and it reports
   words at all ... (nothing more is required by the property) *)

Definition j_lang_eq (A1 A2 : option (list word)) (p m : bool) (code : nat) : nat :=
  match A1, A2 with Some a1, Some a2 => verdict (lang_ok a1 a2) p m code | _, _ => 1 end.
Definition j_lang_eq_opt {X} (ans : option X) (words_of : X -> option (list word)) (A2 : option (list word)) (p m : bool) (code : nat) : nat :=
  match ans with None => unparsed p m code | Some x => j_lang_eq (words_of x) A2 p m code end.

Definition accepted_of {X} (acc : X -> word -> option bool) (x : X) (ws : list word) : option (list word) :=
  option_map (fun vs => map fst (filter snd (combine ws vs))) (all_some (map (acc x) ws)).
Definition j_accrej_dfa (D : option (dfa nat)) (acc rej : list word) (p m : bool) : nat :=
  match D with
  | Some D => match all_some (map (dfa_accepts D) acc), all_some (map (dfa_accepts D) rej) with
              | Some va, Some vr => verdict (check_accepts_rejects va vr) p m 20
              | _, _ => 1
              end
  | None => unparsed p m 20
  end.
(* bounded language of a grammar through the proved enumerator *)
Definition cfg_words_id (stream : list nat) (G : cfg) (n : nat) : option (list word) := cfg_words (fun l => l) stream G n.
