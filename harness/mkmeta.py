#!/usr/bin/env python3
"""Writes seeded/<id>/meta.json for every seeded change that has a result.json (written by harness/seedtest.py) but no meta.json yet.
usage: mkmeta.py [--force]   ;  result2.json (a re-run after the harness was strengthened), strengthening.txt are used when present."""
import glob
import json
import os
import sys

VERIF = os.path.dirname(os.path.dirname(os.path.abspath(__file__)))
force = '--force' in sys.argv
for d in sorted(glob.glob(os.path.join(VERIF, 'seeded', 'C*-*'))):
    meta = os.path.join(d, 'meta.json')
    res = os.path.join(d, 'result.json')
    if not os.path.exists(res) or (os.path.exists(meta) and not force):
        continue
    sid = os.path.basename(d)
    prop = sid.split('-')[0]
    r1 = json.load(open(res))
    r2p = os.path.join(d, 'result2.json')
    r2 = json.load(open(r2p)) if os.path.exists(r2p) else None
    note = open(os.path.join(d, 'note.txt')).read().strip() if os.path.exists(os.path.join(d, 'note.txt')) else ''
    st = os.path.join(d, 'strengthening.txt')
    first = r1['checks'][prop]
    final = (r2 or r1)['checks'][prop]
    detected_by = prop
    for q, v in (r2 or r1)['checks'].items():       # a change filed under one property may break (only) another one
        if v.get('exit') == 1 and final.get('exit') != 1:
            final, detected_by = v, q
    tf = os.path.join(d, 'triage_first.json')
    first_caught = first['exit'] == 1
    first_how = 'the confirmation run against /repo (result.json)'
    if os.path.exists(tf):
        t = json.load(open(tf))
        first_caught = None if t['check_exit_first_version'] is None else t['check_exit_first_version'] == 1
        first_how = t['how']
    m = {'id': sid, 'breaks_property': prop,
         'source': 'independent sub-agent given only the property text and a scratch worktree of /repo',
         'needs_to_manifest': note,
         'confirmed': {'applies_to_repo_HEAD': bool(r1.get('applied')), 'existing_tests': r1.get('tests'),
                       'demo_exit_with_change': r1.get('demo_with_change'), 'demo_exit_without_change': r1.get('demo_without_change')},
         'ran': r1.get('how') or 'harness/seedtest.py seeded/%s %s  (git apply to /repo, pytest, demo, ./check %s --tier quick, git reset --hard, demo)' % (sid, prop, prop),
         'check_result': {'exit': final['exit'], 'first_replay': final.get('first_replay'), 'wall_s': final.get('wall_s')},
         'caught_by_first_version_of_the_check': first_caught, 'first_version_measured_by': first_how, 'detected_by': detected_by if detected_by != prop else None,
         'strengthening': open(st).read().strip() if os.path.exists(st) else None}
    with open(meta, 'w') as f:
        json.dump(m, f, indent=1, ensure_ascii=False)
    print(sid, 'detected' if final['exit'] == 1 else 'MISSED', '(first version: %s)' % first_caught)
