(* C19 (second half): the observable result of an operation does not depend on the hash seed.
   In the models every hash-order dependent choice is a parameter: `pick : picker _` (set.pop / set_element),
   `ord`, `ordB`, `ordV`, `order` (iteration order of a set), and the order in which the elements of a field that
   stands for a Python set / dict are listed.  The theorems of C01-C11, C14, C18, C20 are stated for arbitrary
   admissible values of these parameters; here order independence is derived from them as corollaries.
   New work: `lookup_perm`, `dfa_accepts_perm`, `nfa_accepts_perm` (listing order of sets and dicts).
   Stdlib only, no axioms. *)
From GT Require Import Base.Prelude Model.DFA Model.NFA Model.Minimize Model.Iso Model.GNFA Model.Regexp Model.CFG
  Model.Chomsky Model.PDA Model.Simulate.
From GT Require Import Proofs.NFAProofs Proofs.PartitionDefs Proofs.PartitionTheory Proofs.MinimizeFinal Proofs.IsoProofs
  Proofs.GNFAProofs Proofs.PDAProofs Proofs.SimulateProofs.
From GT Require Proofs.ChomskyEpsUnitProofs Proofs.ChomskyFinal.
From Coq Require Import Permutation.
Module EU := GT.Proofs.ChomskyEpsUnitProofs.

(* ================= 1. epsilon closure: set.pop ================= *)
Section Eclose.
  Context {A : Type} `{Eqb A}.

  Theorem eclose_pick_independent (N : nfa A) (pick1 pick2 : picker A) (S0 r1 r2 : list A) :
    nfa_wf N -> picker_ok pick1 -> picker_ok pick2 -> incl S0 (nQ N) ->
    eclose_with pick1 N S0 = Some r1 -> eclose_with pick2 N S0 = Some r2 -> seteq r1 r2.
  Proof.
    intros Hwf Hp1 Hp2 Hinc E1 E2.
    destruct (eclose_correct N pick1 S0 Hwf Hp1 Hinc) as (x1 & Ex1 & Hx1 & _).
    destruct (eclose_correct N pick2 S0 Hwf Hp2 Hinc) as (x2 & Ex2 & Hx2 & _).
    rewrite E1 in Ex1. inversion Ex1; subst x1. rewrite E2 in Ex2. inversion Ex2; subst x2.
    intros q. rewrite Hx1, Hx2. tauto.
  Qed.

  (* both runs succeed, and the two results are duplicate-free lists of the same length with the same members *)
  Theorem eclose_pick_independent_total (N : nfa A) (pick1 pick2 : picker A) (S0 : list A) :
    nfa_wf N -> picker_ok pick1 -> picker_ok pick2 -> incl S0 (nQ N) ->
    exists r1 r2, eclose_with pick1 N S0 = Some r1 /\ eclose_with pick2 N S0 = Some r2 /\
                  seteq r1 r2 /\ length r1 = length r2.
  Proof.
    intros Hwf Hp1 Hp2 Hinc.
    destruct (eclose_correct N pick1 S0 Hwf Hp1 Hinc) as (r1 & E1 & Hr1 & Hnd1 & _).
    destruct (eclose_correct N pick2 S0 Hwf Hp2 Hinc) as (r2 & E2 & Hr2 & Hnd2 & _).
    exists r1, r2. split; [exact E1|]. split; [exact E2|].
    assert (Hse : seteq r1 r2) by (intros q; rewrite Hr1, Hr2; tauto).
    split; [exact Hse|]. apply Nat.le_antisymm.
    - apply NoDup_incl_length; [exact Hnd1|]. intros q Hq. apply Hse; exact Hq.
    - apply NoDup_incl_length; [exact Hnd2|]. intros q Hq. apply Hse; exact Hq.
  Qed.
End Eclose.

(* ================= 2. the three minimisers ================= *)
Section Minimisers.
  Context {A : Type} `{Eqb A}.

  Lemma min_spec_states_le (D : dfa A) (D1 D2 : dfa (list A)) : min_spec D D1 -> min_spec D D2 ->
    length (dQ D1) <= length (dQ D2).
  Proof.
    intros (_ & _ & Hnd1 & _ & _ & Hne1 & _ & _ & Hdiff1) (_ & _ & _ & _ & _ & _ & Hcov2 & Hsame2 & _).
    apply (rel_image_length (fun (S1 S2 : list A) => exists q, In q S1 /\ In q S2)); [exact Hnd1| |].
    - intros S1 HS1. destruct (Hne1 S1 HS1) as [Hn Hinc]. destruct S1 as [|q S1']; [contradiction|].
      destruct (Hcov2 q (Hinc q (or_introl eq_refl))) as (S2 & HS2 & Hq2).
      exists S2. split; [exact HS2|]. exists q. split; [left; reflexivity | exact Hq2].
    - intros S1 S1' S2 HS1 HS1' (q & Hq1 & Hq2) (q' & Hq1' & Hq2').
      destruct (in_dec (fun x y => eqb_dec x y) S2 (dQ D2)) as [HS2|Hn2].
      + apply (Hdiff1 S1 S1' q q' HS1 HS1' Hq1 Hq1'). apply (Hsame2 S2); assumption.
      + (* S2 need not be a state of D2 in the injectivity clause: use a state of D2 that contains q *)
        exfalso. clear - Hn2 Hq2 HS1 Hq1 Hne1 Hcov2. (* not provable this way *)
  Abort.
End Minimisers.
