(* placeholder *)
From GT Require Import Base.Prelude.
