From Coq Require Import List Arith Bool Lia Relations.
Import ListNotations.
Set Implicit Arguments.

Section Worklist.
  Variable A : Type.
  Variable eqb : A -> A -> bool.
  Hypothesis eqb_eq : forall x y, eqb x y = true <-> x = y.
  Variable succ : A -> list A.

  Definition mem (x:A) (l:list A) : bool := existsb (eqb x) l.
  Lemma mem_In x l : mem x l = true <-> In x l.
  Proof. unfold mem. rewrite existsb_exists. split.
    - intros [y [Hy He]]. apply eqb_eq in He. subst; auto.
    - intros H. exists x. split; auto. apply eqb_eq; auto. Qed.

  (* pick: an arbitrary selection strategy for the "todo" set *)
  Variable pick : list A -> option (A * list A).
  Hypothesis pick_nil : pick [] = None.
  Hypothesis pick_some : forall l, l <> [] -> exists x r, pick l = Some (x, r) /\ (forall y, In y l <-> y = x \/ In y r) /\ length r < length l.

  Fixpoint add_new (ys result todo : list A) : list A * list A :=
    match ys with
    | [] => (result, todo)
    | y :: ys' => if mem y result then add_new ys' result todo
                  else add_new ys' (y :: result) (y :: todo)
    end.

  Fixpoint wl (fuel:nat) (result todo : list A) : option (list A) :=
    match fuel with
    | 0 => None
    | S f => match pick todo with
             | None => Some result
             | Some (x, rest) => let '(r', t') := add_new (succ x) result rest in wl f r' t'
             end
    end.

  Inductive reach (S0 : list A) : A -> Prop :=
  | reach0 x : In x S0 -> reach S0 x
  | reachS x y : reach S0 x -> In y (succ x) -> reach S0 y.

  Lemma add_new_spec ys : forall result todo r t, add_new ys result todo = (r, t) ->
     (forall z, In z r <-> In z result \/ In z ys) /\
     (forall z, In z t <-> In z todo \/ (In z ys /\ ~ In z result)) /\
     (forall z, In z t -> In z todo \/ ~ In z result).
  Proof.
    induction ys as [|y ys IH]; intros result todo r t H; cbn in H.
    - inversion H; subst. split; [|split]; intros z; cbn; tauto.
    - destruct (mem y result) eqn:Hm.
      + apply mem_In in Hm. destruct (IH _ _ _ _ H) as (H1 & H2 & H3).
        split; [|split]; intros z.
        * rewrite H1. cbn. intuition (subst; auto).
        * rewrite H2. cbn. intuition (subst; tauto).
        * auto.
      + assert (Hn: ~ In y result) by (intro Hc; apply mem_In in Hc; congruence).
        destruct (IH _ _ _ _ H) as (H1 & H2 & H3).
        split; [|split]; intros z.
        * rewrite H1. cbn. intuition (subst; auto).
        * rewrite H2. cbn.
          assert (Hd: z = y \/ z <> y).
          { destruct (eqb z y) eqn:E; [left; apply eqb_eq; auto | right; intro Hc; apply eqb_eq in Hc; congruence]. }
          destruct Hd as [->|Hd]; [tauto|].
          assert (y <> z) by congruence. tauto.
        * intros Hz. apply H3 in Hz. cbn in Hz. destruct Hz as [[->|Hz]|Hz]; [right; exact Hn|left; exact Hz|right; tauto].
  Qed.

  (* invariant: result sound; todo ⊆ result; everything in result\todo has its successors in result *)
  Definition Inv (S0 result todo : list A) : Prop :=
    (forall x, In x S0 -> In x result) /\
    (forall x, In x result -> reach S0 x) /\
    (forall x, In x todo -> In x result) /\
    (forall x y, In x result -> ~ In x todo -> In y (succ x) -> In y result).

  Lemma wl_sound_complete S0 fuel : forall result todo r,
     Inv S0 result todo -> wl fuel result todo = Some r ->
     forall x, In x r <-> reach S0 x.
  Proof.
    induction fuel as [|f IH]; intros result todo r HI H; cbn in H; [discriminate|].
    destruct (pick todo) as [[x rest]|] eqn:Hp.
    - destruct (add_new (succ x) result rest) as [r' t'] eqn:Ha.
      destruct todo as [|t0 todo0]; [rewrite pick_nil in Hp; discriminate|].
      destruct (pick_some (l:=t0::todo0)) as (x' & rest' & Hp' & Hperm & _); [discriminate|].
      rewrite Hp in Hp'. inversion Hp'; subst x' rest'. clear Hp'.
      destruct (add_new_spec _ _ _ Ha) as (H1 & H2 & H3).
      destruct HI as (I1 & I2 & I3 & I4).
      apply (IH r' t' r); auto. repeat split.
      + intros z Hz. apply H1. auto.
      + intros z Hz. apply H1 in Hz. destruct Hz as [Hz|Hz]; auto.
        apply reachS with x; auto. apply I2, I3, Hperm. auto.
      + intros z Hz. apply H2 in Hz. apply H1. destruct Hz as [Hz|[Hz _]]; auto.
        left. apply I3, Hperm. auto.
      + intros u v Hu Hnu Hv. apply H1.
        apply H1 in Hu. destruct Hu as [Hu|Hu].
        * destruct (eqb u x) eqn:Hux.
          -- apply eqb_eq in Hux. subst. auto.
          -- left. apply I4 with u; auto. intro Hc. apply Hperm in Hc. destruct Hc as [->|Hc].
             ++ assert (eqb x x = true) by (apply eqb_eq; auto). congruence.
             ++ apply Hnu, H2. auto.
        * destruct (mem u result) eqn:Hm.
          -- apply mem_In in Hm. destruct (eqb u x) eqn:Hux.
             ++ apply eqb_eq in Hux. subst. auto.
             ++ left. apply I4 with u; auto. intro Hc. apply Hperm in Hc. destruct Hc as [->|Hc].
                ** assert (eqb x x = true) by (apply eqb_eq; auto). congruence.
                ** apply Hnu, H2. auto.
          -- exfalso. apply Hnu, H2. right. split; auto. intro Hc. apply mem_In in Hc. congruence.
    - inversion H; subst. destruct HI as (I1 & I2 & I3 & I4).
      assert (todo = []) as ->.
      { destruct todo; auto. destruct (pick_some (l:=a::todo)) as (? & ? & Hq & _); [discriminate|]. congruence. }
      intros x. split; auto. induction 1; auto. eapply I4; eauto.
  Qed.
End Worklist.
