(* C12 — the exercise checkers: "OK only when the answer satisfies the exercise's criterion; a reported counterexample
   word is genuine, has the right polarity, and is of minimal length".

   The checkers are modelled at object level in Model/Checkers.v (the answer text has already been parsed by the
   library's own parsers, C16/C17); `check_* ... = true` holds exactly when the Python routine prints OK.
   Formal reading, per checker:

   compare_languages A1 A2 (A1 = the answer's words, A2 = the expected words, both finite sets):
     - no feedback            <->  A1 and A2 are equal as sets                                   (C12_compare_none)
     - "w should not be accepted" (Some (true, w)): w in A1 \ A2 and no word of A1 \ A2 is shorter (C12_compare_extra)
     - "w should be accepted"  (Some (false, w)): A1 is included in A2 (extra words are reported first),
                                w in A2 \ A1 and no word of A2 \ A1 is shorter                    (C12_compare_missing)
     - feedback is produced exactly when the sets differ                                          (C12_compare_some)
   check_language_from_words: OK <-> the state bound is respected (max_states = 0 means no bound) and the given word list
     is, as a set, the set of words of length <= n over the alphabet in the language of the answer; instances for DFA,
     NFA and regular-expression answers, using the exactness of the three enumerators (C02).
   check_dfa2regexp: OK => the regular expression and the DFA agree on every word of length <= n.
   check_accepts_rejects: OK <-> every word of the accept list is accepted and every word of the reject list is rejected.
   check_dfa_product (union / intersection / symmetric difference; ptype = 0 / 1 / 2): OK => the product D of the
     library exists, the states of the answer are pairs of states, same alphabet, initial state (q01, q02), every
     transition ((q1,q2),a) -> t of the answer is the componentwise one, the final states are exactly the pairs
     selected by the operation, and the answer agrees with the language operation on all words of length <= n.
   check_dfa_complement: OK => same alphabet, states, initial state and transition function as D1, final states =
     Q \ F; hence the answer recognises the complement.
   check_dfa_reverse: OK => same alphabet, all old states kept, every transition reversed, a new initial state, the only
     final state is the old initial state, and L(answer) = reverse of L(D) on words of length <= n.
   check_dfa_minimal: OK => same alphabet, same language on words of length <= n, and the number of distinct states of
     the answer equals the number of Myhill-Nerode classes of D (the state count of the library's quotient, which
     satisfies the specification of C04); with all states of D reachable no DFA for L(D) has fewer states.
   check_nfa_to_dfa: OK => the answer has states, has the alphabet of N, its states are sets of states of N, it is total
     and deterministic on its alphabet, its initial state is the epsilon closure of N's initial state, a state is final
     iff it contains a final state of N, and the target of every transition is the set of the subset construction.
   check_cyk_matrix (G in Chomsky normal form): OK => |w| rows, row k (top-down) has k+1 cells, and the cell j of the row
     of span i (row |w|-1-i) is, as a set, { A in V | A derives w[j..j+i] }.
   check_cfg_derivation (mode 0 leftmost, 1 rightmost, 2 any): OK => the first form is the start variable, the last is
     the word, every symbol is a variable or terminal of G, every step rewrites one variable occurrence by a rule of G
     (the leftmost one in mode 0, the rightmost one in mode 1); hence w is in L(G).
   check_chomsky (phase 1..5): OK => the postconditions of phases 1..phase hold (start variable; epsilon rules only for
     the start variable; no unit rules; right-hand sides of length <= 2; every right-hand side is empty, one terminal or
     two variables), and under the side conditions of the exactness theorem of the word enumerator (C07/C08) the two
     grammars agree on all words of length <= n.
   State types are generic (any type with a decidable equality); words are lists of symbol codes. *)
From GT Require Import Base.Prelude Base.Sort Model.DFA Model.NFA Model.DFAOps Model.Minimize Model.Lang Model.Regexp
  Model.CFG Model.Chomsky Model.CYK Model.Simulate Model.Checkers.
From GT Require Import Proofs.PartitionDefs Proofs.MinimizeFinal Proofs.CheckersProofs.
From GT Require Model.Checkers2 Proofs.Checkers2Proofs.
From Coq Require Import Permutation.

(* ---------------- compare_languages ---------------- *)
Theorem C12_compare_none : forall A1 A2 : list word, compare_languages A1 A2 = None <-> (forall w, In w A1 <-> In w A2).
Proof. exact compare_languages_none. Qed.

Theorem C12_compare_extra : forall (A1 A2 : list word) (w : word), compare_languages A1 A2 = Some (true, w) ->
  In w A1 /\ ~ In w A2 /\ forall v, In v A1 -> ~ In v A2 -> length w <= length v.
Proof. exact compare_languages_extra. Qed.

Theorem C12_compare_missing : forall (A1 A2 : list word) (w : word), compare_languages A1 A2 = Some (false, w) ->
  (forall v, In v A1 -> In v A2) /\ In w A2 /\ ~ In w A1 /\ forall v, In v A2 -> ~ In v A1 -> length w <= length v.
Proof. exact compare_languages_missing. Qed.

Theorem C12_compare_some : forall A1 A2 : list word,
  (exists b w, compare_languages A1 A2 = Some (b, w)) <-> ~ (forall w, In w A1 <-> In w A2).
Proof. exact compare_languages_some. Qed.

(* ---------------- word lists ---------------- *)
Theorem C12_words : forall (L : list word) (nstates max_states : nat) (words : list word),
  check_language_from_words L nstates max_states words = true <->
  (max_states = 0 \/ nstates <= max_states) /\ (forall w, In w L <-> In w words).
Proof. exact check_language_from_words_spec. Qed.

Theorem C12_words_dfa : forall (A : Type) (HA : Eqb A) (D : dfa A) (n max_states : nat) (L words : list word),
  dfa_wf D -> dfa_words D n = Some L ->
  check_language_from_words L (length (dedup (dQ D))) max_states words = true ->
  (max_states = 0 \/ length (dedup (dQ D)) <= max_states) /\
  forall w, In w words <-> length w <= n /\ Forall (fun a => In a (dS D)) w /\ dfa_lang D w.
Proof. exact (fun A HA => @check_language_from_words_dfa_sound A HA). Qed.

Theorem C12_words_nfa : forall (A : Type) (HA : Eqb A) (N : nfa A) (n max_states : nat) (L words : list word),
  nfa_wf N -> nfa_words N n = Some L ->
  check_language_from_words L (length (dedup (nQ N))) max_states words = true ->
  (max_states = 0 \/ length (dedup (nQ N)) <= max_states) /\
  forall w, In w words <-> length w <= n /\ Forall (fun a => In a (nS N)) w /\ nfa_lang N w.
Proof. exact (fun A HA => @check_language_from_words_nfa_sound A HA). Qed.

Theorem C12_words_regexp : forall (r : re) (n : nat) (words : list word),
  check_language_from_words (re_words r n) 0 0 words = true ->
  forall w, In w words <-> length w <= n /\ re_lang r w.
Proof. exact check_language_from_words_re_sound. Qed.

Theorem C12_dfa2regexp : forall (A : Type) (HA : Eqb A) (D : dfa A) (r : re) (n : nat) (L : list word),
  dfa_wf D -> dfa_words D n = Some L -> lang_ok (re_words r n) L = true ->
  forall w, length w <= n -> (re_lang r w <-> Forall (fun a => In a (dS D)) w /\ dfa_lang D w).
Proof. exact (fun A HA => @check_dfa2regexp_sound A HA). Qed.

Theorem C12_accepts_rejects : forall va vr : list bool,
  check_accepts_rejects va vr = true <-> Forall (fun b => b = true) va /\ Forall (fun b => b = false) vr.
Proof. exact check_accepts_rejects_sound. Qed.

(* ---------------- DFA constructions ---------------- *)
Theorem C12_product : forall (A B : Type) (HA : Eqb A) (HB : Eqb B) (ptype n : nat) (D1 : dfa A) (D2 : dfa B) (answer : dfa (A * B)),
  dfa_wf D1 -> dfa_wf D2 -> dfa_wf answer -> check_dfa_product ptype n D1 D2 answer = true ->
  exists D, dfa_product ptype D1 D2 = Some D /\
    (forall q, In q (dQ answer) -> In (fst q) (dQ D1) /\ In (snd q) (dQ D2)) /\
    (forall a, In a (dS D1) <-> In a (dS answer)) /\ dq0 answer = (dq0 D1, dq0 D2) /\
    (forall q a q1, In ((q, a), q1) (dD answer) -> forall t, ddelta D q a = Some t -> q1 = t) /\
    (forall q1 q2 a t, In (((q1, q2), a), t) (dD answer) -> ddelta D1 q1 a = Some (fst t) /\ ddelta D2 q2 a = Some (snd t)) /\
    (forall q, In q (dF answer) <-> In (fst q) (dQ D1) /\ In (snd q) (dQ D2) /\ prod_final ptype D1 D2 q = true) /\
    (forall w, length w <= n -> Forall (fun a => In a (dS D1)) w ->
       (dfa_lang answer w <-> match ptype with
                              | 0 => dfa_lang D1 w \/ dfa_lang D2 w
                              | 1 => dfa_lang D1 w /\ dfa_lang D2 w
                              | _ => (dfa_lang D1 w /\ ~ dfa_lang D2 w) \/ (~ dfa_lang D1 w /\ dfa_lang D2 w)
                              end)).
Proof. exact (fun A B HA HB => @check_dfa_product_sound A B HA HB). Qed.

Theorem C12_complement : forall (A : Type) (HA : Eqb A) (D1 answer : dfa A), check_dfa_complement D1 answer = true ->
  (forall a, In a (dS D1) <-> In a (dS answer)) /\ (forall q, In q (dQ D1) <-> In q (dQ answer)) /\ dq0 D1 = dq0 answer /\
  (forall q a, ddelta answer q a = ddelta D1 q a) /\
  (forall q, In q (dF answer) <-> In q (dQ D1) /\ ~ In q (dF D1)).
Proof. exact (fun A HA => @check_dfa_complement_sound A HA). Qed.

Theorem C12_complement_language : forall (A : Type) (HA : Eqb A) (D1 answer : dfa A),
  dfa_wf D1 -> check_dfa_complement D1 answer = true ->
  forall w, Forall (fun a => In a (dS D1)) w -> (dfa_lang answer w <-> ~ dfa_lang D1 w).
Proof. exact (fun A HA => @check_dfa_complement_lang A HA). Qed.

Theorem C12_reverse : forall (A : Type) (HA : Eqb A) (n : nat) (D : dfa A) (answer : nfa A), check_dfa_reverse n D answer = true ->
  (forall a, In a (dS D) <-> In a (nS answer)) /\ incl (dQ D) (nQ answer) /\
  (forall q a q1, In ((q, a), q1) (dD D) -> In q (ndelta answer q1 a)) /\
  ~ In (nq0 answer) (dQ D) /\ (forall q, In q (nF answer) <-> q = dq0 D) /\
  (dfa_wf D -> nfa_wf answer ->
   forall w, length w <= n -> Forall (fun a => In a (dS D)) w -> (nfa_lang answer w <-> dfa_lang D (rev w))).
Proof. exact (fun A HA => @check_dfa_reverse_sound A HA). Qed.

Theorem C12_minimal : forall (B : Type) (HB : Eqb B) (n : nat) (D : dfa nat) (answer : dfa B),
  check_dfa_minimal n D answer = true -> dfa_wf D -> NoDup (dQ D) -> NoDup (dF D) -> dfa_wf answer ->
  (forall a, In a (dS D) <-> In a (dS answer)) /\
  (forall w, length w <= n -> Forall (fun a => In a (dS D)) w -> (dfa_lang answer w <-> dfa_lang D w)) /\
  (exists Dq, dfa_quotient canon_nat (fun l => l) (@hd_error nat) D = Some Dq /\ min_spec D Dq /\
              length (dedup (dQ answer)) = length (dQ Dq)) /\
  (forall l, NoDup l -> incl l (dQ D) ->
     (forall p q, In p l -> In q l -> p <> q ->
        ~ (forall w, Forall (fun a => In a (dS D)) w -> (In (drun D p w) (dF D) <-> In (drun D q w) (dF D)))) ->
     length l <= length (dedup (dQ answer))) /\
  length (dedup (dQ answer)) <= length (dQ D).
Proof. exact (fun B HB => @check_dfa_minimal_criterion B HB). Qed.

Theorem C12_minimal_least : forall (B C : Type) (HB : Eqb B) (HC : Eqb C) (n : nat) (D : dfa nat) (answer : dfa B) (D2 : dfa C),
  check_dfa_minimal n D answer = true -> dfa_wf D -> NoDup (dQ D) -> NoDup (dF D) -> dfa_wf answer ->
  (forall q, In q (dQ D) -> exists w, Forall (fun a => In a (dS D)) w /\ drun D (dq0 D) w = q) ->
  dfa_wf D2 -> dS D2 = dS D -> (forall w, Forall (fun a => In a (dS D)) w -> (dfa_lang D w <-> dfa_lang D2 w)) ->
  length (dedup (dQ answer)) <= length (dQ D2).
Proof. exact (fun B C HB HC => @check_dfa_minimal_least B C HB HC). Qed.

Theorem C12_nfa_to_dfa : forall (N : nfa nat) (answer : nfa (list nat)), check_nfa_to_dfa N answer = true ->
  nQ answer <> [] /\ (forall a, In a (nS N) <-> In a (nS answer)) /\
  (forall q, In q (nQ answer) -> incl q (nQ N)) /\
  (forall x, In x (nq0 answer) <-> In x (eclose N [nq0 N])) /\
  (forall q, In q (nQ answer) -> (In q (nF answer) <-> exists x, In x q /\ In x (nF N))) /\
  (forall q a, In q (nQ answer) -> In a (nS answer) ->
     exists q1, ndelta answer q a = [q1] /\
                forall x, In x q1 <-> In x (eclose N (big_union (map (fun x => ndelta N x a) q)))) /\
  (nfa_wf N ->
     (forall x, In x (nq0 answer) <-> eps_star N (nq0 N) x) /\
     (forall q a q1, In q (nQ answer) -> In a (nS answer) -> In q1 (ndelta answer q a) ->
        forall p, In p q1 <-> exists x x1, In x q /\ In x1 (ndelta N x a) /\ eps_star N x1 p)).
Proof. exact check_nfa_to_dfa_sound. Qed.

(* ---------------- grammars ---------------- *)
Theorem C12_cyk_matrix : forall (G : cfg) (w : word) (rows : list (list (list nat))),
  is_chomsky G -> cfg_wf G -> check_cyk_matrix G w rows = true ->
  length rows = length w /\
  (forall k, k < length w -> length (nth k rows []) = S k) /\
  (forall k j A, In A (nth j (nth k rows []) []) -> In A (gV G)) /\
  forall i j, i + j < length w ->
    forall A, In A (nth j (nth (length w - 1 - i) rows []) []) <->
              In A (gV G) /\ yields G (Var A) (firstn (S (i + j) - j) (skipn j w)).
Proof. exact check_cyk_matrix_sound. Qed.

Theorem C12_derivation : forall (G : cfg) (mode : nat) (w : word) (steps : list (list sym)),
  check_cfg_derivation G mode w steps = true ->
  hd_error steps = Some [Var (gS G)] /\ last steps [] = tword w /\
  (forall x s, In x steps -> In s x -> if is_var s then In (sname s) (gV G) else In (sname s) (gSg G)) /\
  (forall i, S i < length steps ->
     exists pre A post rhs, nth i steps [] = pre ++ Var A :: post /\ nth (S i) steps [] = pre ++ rhs ++ post /\
       has_rule G A rhs /\
       (mode = 0 -> forallb (fun s => negb (is_var s)) pre = true) /\
       (mode = 1 -> forallb (fun s => negb (is_var s)) post = true)) /\
  cfg_lang G w.
Proof. exact check_cfg_derivation_sound. Qed.

Theorem C12_chomsky : forall (ordV : list nat -> list nat) (stream : list nat) (G G1 : cfg) (phase start n : nat),
  check_chomsky ordV stream G G1 phase start n = true ->
  (1 <= phase -> gS G1 = start) /\
  (2 <= phase -> forall r, In r (gR G1) -> rrhs r = [] -> rvar r = gS G1) /\
  (3 <= phase -> forall r, In r (gR G1) -> is_unit r = false) /\
  (4 <= phase -> forall r, In r (gR G1) -> length (rrhs r) <= 2) /\
  (5 <= phase -> forall r, In r (gR G1) -> alt_is_chomsky (rrhs r) = true) /\
  ((forall l, Permutation (ordV l) l) ->
   cfg_wf G -> (forall x, In x (gV G) -> ~ In x (gSg G)) -> In (gS G) (gV G) -> (forall x, In x stream -> ~ In x (gSg G)) ->
   cfg_wf G1 -> (forall x, In x (gV G1) -> ~ In x (gSg G1)) -> In (gS G1) (gV G1) -> (forall x, In x stream -> ~ In x (gSg G1)) ->
   forall w, length w <= n -> (cfg_lang G1 w <-> cfg_lang G w)).
Proof. exact check_chomsky_sound. Qed.

(* ---------------- language from a reference file; given-language checker (automata_checker) ---------------- *)
(* bounded_lang n P L: L is exactly the set of words of length <= n satisfying P; established for the enumerators of
   DFAs, NFAs and regular expressions (the objects generate_language is applied to) *)
Theorem C12_bounded_languages :
  (forall (A : Type) (HA : Eqb A) (D : dfa A) (n : nat) (L : list word), dfa_wf D -> dfa_words D n = Some L ->
     Checkers2Proofs.bounded_lang n (fun w => Forall (fun a => In a (dS D)) w /\ dfa_lang D w) L) /\
  (forall (A : Type) (HA : Eqb A) (N : nfa A) (n : nat) (L : list word), nfa_wf N -> nfa_words N n = Some L ->
     Checkers2Proofs.bounded_lang n (fun w => Forall (fun a => In a (nS N)) w /\ nfa_lang N w) L) /\
  (forall (r : re) (n : nat), Checkers2Proofs.bounded_lang n (re_lang r) (re_words r n)).
Proof.
  split; [|split].
  - exact (fun A HA D n L => @Checkers2Proofs.dfa_bounded A HA D n L).
  - exact (fun A HA N n L => @Checkers2Proofs.nfa_bounded A HA N n L).
  - exact Checkers2Proofs.re_bounded.
Qed.

(* check_X_language_from_file prints OK exactly when answer and reference agree on every word of length <= n *)
Theorem C12_from_file : forall (n : nat) (P1 P2 : word -> Prop) (L1 L2 : list word),
  Checkers2Proofs.bounded_lang n P1 L1 -> Checkers2Proofs.bounded_lang n P2 L2 ->
  (Checkers2.check_language_from_file L1 L2 = true <-> forall w, length w <= n -> (P1 w <-> P2 w)).
Proof.
  intros n P1 P2 L1 L2 H1 H2. split.
  - exact (Checkers2Proofs.from_file_sound n P1 P2 L1 L2 H1 H2).
  - exact (Checkers2Proofs.from_file_complete n P1 P2 L1 L2 H1 H2).
Qed.

(* the counterexample reported by the language comparison is genuine, has the right polarity and minimal length *)
Theorem C12_from_file_feedback : forall (n : nat) (P1 P2 : word -> Prop) (L1 L2 : list word) (w : word),
  Checkers2Proofs.bounded_lang n P1 L1 -> Checkers2Proofs.bounded_lang n P2 L2 ->
  (compare_languages L1 L2 = Some (true, w) ->
     length w <= n /\ P1 w /\ ~ P2 w /\ forall v, length v <= n -> P1 v -> ~ P2 v -> length w <= length v) /\
  (compare_languages L1 L2 = Some (false, w) ->
     length w <= n /\ P2 w /\ ~ P1 w /\ forall v, length v <= n -> P2 v -> ~ P1 v -> length w <= length v).
Proof.
  intros n P1 P2 L1 L2 w H1 H2. split.
  - exact (Checkers2Proofs.from_file_feedback_extra n P1 P2 L1 L2 w H1 H2).
  - exact (Checkers2Proofs.from_file_feedback_missing n P1 P2 L1 L2 w H1 H2).
Qed.

(* automata_checker.check_{dfa,nfa}_for_given_language: 'correct' exactly when the word list is the bounded language of the
   answer; a reported word is genuine with the right polarity, whichever element next(iter(...)) returns *)
Theorem C12_given_language : forall (pick : picker word) (n : nat) (P : word -> Prop) (L words : list word),
  picker_ok pick -> Checkers2Proofs.bounded_lang n P L ->
  (Checkers2.given_language_ok pick L words = true <-> forall w, In w words <-> length w <= n /\ P w) /\
  (forall w, Checkers2.compare_words pick L words = Some (true, w) -> (length w <= n /\ P w) /\ ~ In w words) /\
  (forall w, Checkers2.compare_words pick L words = Some (false, w) -> In w words /\ ~ (length w <= n /\ P w)).
Proof.
  intros pick n P L words Hp HL. split; [|split].
  - split.
    + exact (Checkers2Proofs.given_language_sound pick n P L words Hp HL).
    + intro Hq. apply (Checkers2Proofs.given_language_ok_spec pick L words Hp). intro w. rewrite (HL w). symmetry. apply Hq.
  - intros w Hc. destruct (Checkers2Proofs.compare_words_extra pick L words w Hp Hc) as [Hi Hn]. split; [apply HL; exact Hi|exact Hn].
  - intros w Hc. destruct (Checkers2Proofs.compare_words_missing pick L words w Hp Hc) as [Hi Hn]. split; [exact Hi|]. intro Hq. apply Hn. apply HL. exact Hq.
Qed.

Print Assumptions C12_compare_none.
Print Assumptions C12_compare_extra.
Print Assumptions C12_compare_missing.
Print Assumptions C12_compare_some.
Print Assumptions C12_words.
Print Assumptions C12_words_dfa.
Print Assumptions C12_words_nfa.
Print Assumptions C12_words_regexp.
Print Assumptions C12_dfa2regexp.
Print Assumptions C12_accepts_rejects.
Print Assumptions C12_product.
Print Assumptions C12_complement.
Print Assumptions C12_complement_language.
Print Assumptions C12_reverse.
Print Assumptions C12_minimal.
Print Assumptions C12_minimal_least.
Print Assumptions C12_nfa_to_dfa.
Print Assumptions C12_cyk_matrix.
Print Assumptions C12_derivation.
Print Assumptions C12_chomsky.
Print Assumptions C12_bounded_languages.
Print Assumptions C12_from_file.
Print Assumptions C12_from_file_feedback.
Print Assumptions C12_given_language.
