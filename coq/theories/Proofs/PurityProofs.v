(* C19 (second half): the observable result of an operation does not depend on the hash seed.
   In the models every hash-order dependent choice is a parameter: `pick : picker _` (set.pop / set_element),
   `ord`, `ordB`, `ordV`, `order` (iteration order of a set), and the order in which the elements of a field that
   stands for a Python set / dict are listed.  The theorems of C01-C11, C14, C18, C20 are stated for arbitrary
   admissible values of these parameters; here order independence is derived from them as corollaries.
   New work: `lookup_perm`, `dfa_accepts_perm`, `nfa_accepts_perm` (listing order of sets and dicts).
   Stdlib only, no axioms. *)
From GT Require Import Base.Prelude Model.DFA Model.NFA Model.Minimize Model.Iso Model.GNFA Model.Regexp Model.CFG
  Model.Chomsky Model.PDA Model.Simulate.
From GT Require Import Proofs.NFAProofs Proofs.PartitionDefs Proofs.PartitionTheory Proofs.MinimizeFinal Proofs.IsoProofs
  Proofs.GNFAProofs Proofs.PDAProofs Proofs.SimulateProofs.
From GT Require Proofs.ChomskyEpsUnitProofs Proofs.ChomskyFinal.
From Coq Require Import Permutation.
Module EU := GT.Proofs.ChomskyEpsUnitProofs.

(* ================= 1. epsilon closure: set.pop ================= *)
Section Eclose.
  Context {A : Type} `{Eqb A}.

  Theorem eclose_pick_independent (N : nfa A) (pick1 pick2 : picker A) (S0 r1 r2 : list A) :
    nfa_wf N -> picker_ok pick1 -> picker_ok pick2 -> incl S0 (nQ N) ->
    eclose_with pick1 N S0 = Some r1 -> eclose_with pick2 N S0 = Some r2 -> seteq r1 r2.
  Proof.
    intros Hwf Hp1 Hp2 Hinc E1 E2.
    destruct (eclose_correct N pick1 S0 Hwf Hp1 Hinc) as (x1 & Ex1 & Hx1 & _).
    destruct (eclose_correct N pick2 S0 Hwf Hp2 Hinc) as (x2 & Ex2 & Hx2 & _).
    rewrite E1 in Ex1. inversion Ex1; subst x1. rewrite E2 in Ex2. inversion Ex2; subst x2.
    intros q. rewrite Hx1, Hx2. tauto.
  Qed.

  (* both runs succeed, and the two results are duplicate-free lists of the same length with the same members *)
  Theorem eclose_pick_independent_total (N : nfa A) (pick1 pick2 : picker A) (S0 : list A) :
    nfa_wf N -> picker_ok pick1 -> picker_ok pick2 -> incl S0 (nQ N) ->
    exists r1 r2, eclose_with pick1 N S0 = Some r1 /\ eclose_with pick2 N S0 = Some r2 /\
                  seteq r1 r2 /\ length r1 = length r2.
  Proof.
    intros Hwf Hp1 Hp2 Hinc.
    destruct (eclose_correct N pick1 S0 Hwf Hp1 Hinc) as (r1 & E1 & Hr1 & Hnd1 & _).
    destruct (eclose_correct N pick2 S0 Hwf Hp2 Hinc) as (r2 & E2 & Hr2 & Hnd2 & _).
    exists r1, r2. split; [exact E1|]. split; [exact E2|].
    assert (Hse : seteq r1 r2) by (intros q; rewrite Hr1, Hr2; tauto).
    split; [exact Hse|]. apply Nat.le_antisymm.
    - apply NoDup_incl_length; [exact Hnd1|]. intros q Hq. apply Hse; exact Hq.
    - apply NoDup_incl_length; [exact Hnd2|]. intros q Hq. apply Hse; exact Hq.
  Qed.
End Eclose.

(* ================= 2. the three minimisers ================= *)
Section Minimisers.
  Context {A : Type} `{Eqb A}.

  Lemma min_spec_states_le (D : dfa A) (D1 D2 : dfa (list A)) : min_spec D D1 -> min_spec D D2 ->
    length (dQ D1) <= length (dQ D2).
  Proof.
    intros (_ & _ & Hnd1 & _ & _ & Hne1 & _ & _ & Hdiff1) (_ & _ & _ & _ & _ & _ & Hcov2 & Hsame2 & _).
    apply (rel_image_length (fun (S1 S2 : list A) => In S2 (dQ D2) /\ exists q, In q S1 /\ In q S2)); [exact Hnd1| |].
    - intros S1 HS1. destruct (Hne1 S1 HS1) as [Hn Hinc]. destruct S1 as [|q S1']; [contradiction|].
      destruct (Hcov2 q (Hinc q (or_introl eq_refl))) as (S2 & HS2 & Hq2).
      exists S2. split; [exact HS2|]. split; [exact HS2|]. exists q. split; [left; reflexivity | exact Hq2].
    - intros S1 S1' S2 HS1 HS1' (HS2 & q & Hq1 & Hq2) (_ & q' & Hq1' & Hq2').
      apply (Hdiff1 S1 S1' q q' HS1 HS1' Hq1 Hq1'). apply (Hsame2 S2); assumption.
  Qed.

  Lemma min_spec_states_match (D : dfa A) (D1 D2 : dfa (list A)) : min_spec D D1 -> min_spec D D2 ->
    forall S1, In S1 (dQ D1) -> exists S2, In S2 (dQ D2) /\ seteq S1 S2.
  Proof.
    intros (_ & _ & _ & _ & _ & Hne1 & Hcov1 & Hsame1 & Hdiff1) (_ & _ & _ & _ & _ & Hne2 & Hcov2 & Hsame2 & Hdiff2) S1 HS1.
    destruct (Hne1 S1 HS1) as [Hn Hinc1]. destruct S1 as [|q S1']; [contradiction|]. clear Hn.
    set (S1 := q :: S1') in *. assert (Hq1 : In q S1) by (left; reflexivity).
    destruct (Hcov2 q (Hinc1 q Hq1)) as (S2 & HS2 & Hq2). exists S2. split; [exact HS2|].
    destruct (Hne2 S2 HS2) as [_ Hinc2]. intros x. split.
    - intros Hx. destruct (Hcov2 x (Hinc1 x Hx)) as (S2' & HS2' & Hx2).
      assert (E : S2 = S2') by (apply (Hdiff2 S2 S2' q x HS2 HS2' Hq2 Hx2); apply (Hsame1 S1); assumption).
      rewrite E. exact Hx2.
    - intros Hx. destruct (Hcov1 x (Hinc2 x Hx)) as (S1'' & HS1'' & Hx1).
      assert (E : S1 = S1'') by (apply (Hdiff1 S1 S1'' q x HS1 HS1'' Hq1 Hx1); apply (Hsame2 S2); assumption).
      rewrite E. exact Hx1.
  Qed.

  (* any two automata that satisfy the common specification of the minimisers: same language, same number of states,
     and the same states up to the order in which the members of a block are listed *)
  Theorem min_spec_unique (D : dfa A) (D1 D2 : dfa (list A)) : min_spec D D1 -> min_spec D D2 ->
    (forall w, over D w -> (dfa_lang D1 w <-> dfa_lang D2 w)) /\
    dS D1 = dS D2 /\
    length (dQ D1) = length (dQ D2) /\
    (forall S1, In S1 (dQ D1) -> exists S2, In S2 (dQ D2) /\ seteq S1 S2).
  Proof.
    intros H1 H2. split; [|split; [|split]].
    - intros w Hw. destruct H1 as (_ & _ & _ & L1 & _). destruct H2 as (_ & _ & _ & L2 & _).
      rewrite (L1 w Hw), (L2 w Hw). tauto.
    - destruct H1 as (_ & E1 & _). destruct H2 as (_ & E2 & _). rewrite E1, E2. reflexivity.
    - apply Nat.le_antisymm; [apply (min_spec_states_le D D1 D2 H1 H2) | apply (min_spec_states_le D D2 D1 H2 H1)].
    - apply (min_spec_states_match D D1 D2 H1 H2).
  Qed.

  (* D' is the result of some run of one of the three minimisers, for some admissible choice of the naming function,
     the iteration orders, the representative function and the picker *)
  Definition is_min_run (D : dfa A) (D' : dfa (list A)) : Prop :=
    exists canon : list A -> list A, (forall l y, In y (canon l) <-> In y l) /\
      ((exists ord : list A -> list A, (forall l, Permutation (ord l) l) /\ dfa_minimize canon ord D = Some D') \/
       (exists (ord : list A -> list A) (rep : list A -> option A),
          (forall l, Permutation (ord l) l) /\ (forall l, l <> [] -> exists x, rep l = Some x /\ In x l) /\
          dfa_quotient canon ord rep D = Some D') \/
       (exists (ordB : list (list A) -> list (list A)) (pick : picker (list A * nat)),
          (forall l, Permutation (ordB l) l) /\ picker_ok pick /\ dfa_hopcroft canon ordB pick D = Some D')).

  Lemma is_min_run_spec (D : dfa A) (D' : dfa (list A)) : dfa_wf D -> NoDup (dQ D) -> NoDup (dF D) ->
    is_min_run D D' -> min_spec D D'.
  Proof.
    intros Hwf HndQ HndF (canon & Hcanon & [(ord & Hord & E)|[(ord & rep & Hord & Hrep & E)|(ordB & pick & HordB & Hpick & E)]]).
    - destruct (dfa_minimize_spec canon Hcanon ord Hord D Hwf HndQ HndF) as (D0 & E0 & Hs).
      rewrite E in E0. inversion E0; subst D0. exact Hs.
    - destruct (dfa_quotient_spec canon Hcanon ord rep Hord Hrep D Hwf HndQ HndF) as (D0 & E0 & Hs).
      rewrite E in E0. inversion E0; subst D0. exact Hs.
    - destruct (dfa_hopcroft_spec canon Hcanon ordB pick HordB Hpick D Hwf HndQ HndF) as (D0 & E0 & Hs).
      rewrite E in E0. inversion E0; subst D0. exact Hs.
  Qed.

  (* all nine combinations (and different naming functions) in one statement *)
  Theorem minimisers_order_independent (D : dfa A) (D1 D2 : dfa (list A)) :
    dfa_wf D -> NoDup (dQ D) -> NoDup (dF D) -> is_min_run D D1 -> is_min_run D D2 ->
    (forall w, over D w -> (dfa_lang D1 w <-> dfa_lang D2 w)) /\
    dS D1 = dS D2 /\
    length (dQ D1) = length (dQ D2) /\
    (forall S1, In S1 (dQ D1) -> exists S2, In S2 (dQ D2) /\ seteq S1 S2).
  Proof.
    intros Hwf HndQ HndF R1 R2.
    apply (min_spec_unique D D1 D2); apply is_min_run_spec; assumption.
  Qed.
End Minimisers.

(* ================= 3. isomorphism tests: set_element ================= *)
Section IsoPick.
  Context {A B : Type} `{Eqb A} `{Eqb B}.

  Lemma bool_same_spec (b1 b2 : bool) (P : Prop) : (b1 = true <-> P) -> (b2 = true <-> P) -> b1 = b2.
  Proof. intros H1 H2. destruct b1, b2; try reflexivity; [symmetry|]; tauto. Qed.

  (* the two routines, with any two pickers, return the same verdict *)
  Theorem iso_pick_independent (D1 : dfa A) (D2 : dfa B) (pick1 pick2 : picker (A * B)) :
    dfa_wf D1 -> dfa_wf D2 -> seteq (dS D1) (dS D2) -> picker_ok pick1 -> picker_ok pick2 ->
    iso_matrix pick1 D1 D2 = iso_matrix pick2 D1 D2 /\
    iso1 pick1 D1 D2 = iso1 pick2 D1 D2 /\
    iso_matrix pick1 D1 D2 = iso1 pick2 D1 D2.
  Proof.
    intros Hwf1 Hwf2 HS Hp1 Hp2.
    destruct (iso_matrix_correct D1 D2 pick1 Hwf1 Hwf2 HS Hp1) as (m1 & Em1 & Hm1).
    destruct (iso_matrix_correct D1 D2 pick2 Hwf1 Hwf2 HS Hp2) as (m2 & Em2 & Hm2).
    destruct (iso1_correct D1 D2 pick1 Hwf1 Hwf2 HS Hp1) as (i1 & Ei1 & Hi1).
    destruct (iso1_correct D1 D2 pick2 Hwf1 Hwf2 HS Hp2) as (i2 & Ei2 & Hi2).
    rewrite Em1, Em2, Ei1, Ei2.
    rewrite (bool_same_spec m1 m2 _ Hm1 Hm2), (bool_same_spec i1 i2 _ Hi1 Hi2), (bool_same_spec m2 i2 _ Hm2 Hi2).
    auto.
  Qed.
End IsoPick.

(* ================= 4. dfa_to_regexp: elimination order ================= *)
Section RegexpOrder.
  Context {A : Type} `{Eqb A}.

  Theorem dfa_to_regexp_order_independent (start accept : A) (order1 order2 : list A) (D : dfa A) (r1 r2 : re) :
    dfa_wf D -> NoDup (map fst (dD D)) -> NoDup (dQ D) -> start <> accept ->
    Permutation order1 (dQ D) -> Permutation order2 (dQ D) ->
    dfa_to_regexp start accept order1 D = Some r1 -> dfa_to_regexp start accept order2 D = Some r2 ->
    forall w, re_lang r1 w <-> re_lang r2 w.
  Proof.
    intros Hwf Hk Hnd Hsa P1 P2 E1 E2 w.
    rewrite (dfa_to_regexp_correct Hwf Hk Hnd Hsa P1 E1 w), (dfa_to_regexp_correct Hwf Hk Hnd Hsa P2 E2 w). tauto.
  Qed.

  (* success does not depend on the order either *)
  Theorem dfa_to_regexp_order_independent_fail (start accept : A) (order1 order2 : list A) (D : dfa A) :
    dfa_to_regexp start accept order1 D = None <-> dfa_to_regexp start accept order2 D = None.
  Proof. rewrite !dfa_to_regexp_none. tauto. Qed.
End RegexpOrder.

(* ================= 5. Chomsky normal form: iteration order over the variables ================= *)
Theorem elim_unit_order_independent ordV1 ordV2 G G1 G2 :
  cfg_wf G -> EU.names_disjoint G -> EU.perm_order ordV1 -> EU.perm_order ordV2 ->
  elim_unit ordV1 G = Some G1 -> elim_unit ordV2 G = Some G2 ->
  gV G1 = gV G2 /\ gSg G1 = gSg G2 /\ gS G1 = gS G2 /\
  forall A rhs, has_rule G1 A rhs <-> has_rule G2 A rhs.
Proof.
  intros Hwf Hdj P1 P2 E1 E2.
  destruct (EU.elim_unit_correct ordV1 G G1 Hwf Hdj P1 E1) as (_ & V1 & Sg1 & S1 & _ & _ & _ & _ & Hind).
  destruct (EU.elim_unit_correct ordV2 G G2 Hwf Hdj P2 E2) as (_ & V2 & Sg2 & S2 & _).
  split; [congruence|]. split; [congruence|]. split; [congruence|].
  exact (Hind ordV2 G2 P2 E2).
Qed.

(* two iteration orders (and, more generally, two fresh-name streams; take stream1 = stream2 for two runs of the same call) *)
Theorem to_chomsky_order_independent ordV1 ordV2 stream1 stream2 G G1 rest1 G2 rest2 :
  cfg_wf G -> EU.names_disjoint G -> In (gS G) (gV G) -> EU.perm_order ordV1 -> EU.perm_order ordV2 ->
  (forall x, In x stream1 -> ~ In x (gSg G)) -> (forall x, In x stream2 -> ~ In x (gSg G)) ->
  to_chomsky ordV1 stream1 G = Some (G1, rest1) -> to_chomsky ordV2 stream2 G = Some (G2, rest2) ->
  gSg G1 = gSg G2 /\ forall w, cfg_lang G1 w <-> cfg_lang G2 w.
Proof.
  intros Hwf Hdj HS P1 P2 Hs1 Hs2 E1 E2.
  destruct (ChomskyFinal.to_chomsky_correct ordV1 stream1 G G1 rest1 Hwf Hdj HS P1 Hs1 E1) as (_ & _ & Sg1 & _ & L1).
  destruct (ChomskyFinal.to_chomsky_correct ordV2 stream2 G G2 rest2 Hwf Hdj HS P2 Hs2 E2) as (_ & _ & Sg2 & _ & L2).
  split; [congruence|]. intros w. rewrite (L1 w), (L2 w). tauto.
Qed.

(* ================= 6. PDA simulation: set.pop in the closure ================= *)
(* restated from PDAProofs, with independent limits *)
Theorem pda_accepts_pick_independent pick1 pick2 P limit1 limit2 w v1 v2 : picker_ok pick1 -> picker_ok pick2 ->
  pda_accepts pick1 P limit1 w = (v1, false) -> pda_accepts pick2 P limit2 w = (v2, false) -> v1 = v2.
Proof.
  intros H1 H2 E1 E2.
  apply (@pda_accepts_completex pick1 P limit1 H1 w v1) in E1.
  apply (@pda_accepts_completex pick2 P limit2 H2 w v2) in E2.
  destruct v1, v2; try reflexivity; [symmetry|]; tauto.
Qed.

Theorem pda_words_pick_independent pick1 pick2 P limit1 limit2 n L1 L2 : picker_ok pick1 -> picker_ok pick2 ->
  pda_words pick1 P limit1 n = (L1, false) -> pda_words pick2 P limit2 n = (L2, false) -> seteq L1 L2.
Proof.
  intros H1 H2 E1 E2 w.
  rewrite (@pda_words_exactx pick1 P limit1 H1 n L1 E1 w), (@pda_words_exactx pick2 P limit2 H2 n L2 E2 w). tauto.
Qed.

(* the closure itself: two picks, neither truncated, same set of configurations *)
Theorem pda_eclose_pick_independent pick1 pick2 P limit1 limit2 R res1 res2 : picker_ok pick1 -> picker_ok pick2 ->
  pda_eclose pick1 P limit1 R = (res1, []) -> pda_eclose pick2 P limit2 R = (res2, []) -> seteq res1 res2.
Proof.
  intros H1 H2 E1 E2 c.
  rewrite (@pda_eclose_exact pick1 P H1 limit1 R res1 E1 c), (@pda_eclose_exact pick2 P H2 limit2 R res2 E2 c). tauto.
Qed.

(* ================= 7. nfa_simulate_word: the verdict (a run / no run) ================= *)
Section SimVerdict.
  Context {A : Type} `{Eqb A}.

  Theorem nfa_simulate_pick_independent_verdict (pick1 pick2 : picker A) (N : nfa A) (w : word) :
    picker_ok pick1 -> picker_ok pick2 -> nfa_wf N -> Forall (fun a => In a (nS N)) w ->
    (nfa_accepts N w = Some true /\
     exists run1 run2, nfa_simulate pick1 N w = Some run1 /\ nfa_simulate pick2 N w = Some run2 /\
                       nfa_run_ok N w run1 = true /\ nfa_run_ok N w run2 = true) \/
    (nfa_accepts N w = Some false /\ nfa_simulate pick1 N w = None /\ nfa_simulate pick2 N w = None).
  Proof.
    intros H1 H2 Hwf Hw. destruct (nfa_accepts_correct N w Hwf Hw) as (b & Eb & _). destruct b.
    - left. split; [exact Eb|].
      destruct (nfa_simulate_sound pick1 H1 N Hwf w Hw Eb) as (run1 & E1 & K1).
      destruct (nfa_simulate_sound pick2 H2 N Hwf w Hw Eb) as (run2 & E2 & K2).
      exists run1, run2. auto.
    - right. split; [exact Eb|]. split.
      + apply (nfa_simulate_none pick1 H1 N Hwf w Hw Eb).
      + apply (nfa_simulate_none pick2 H2 N Hwf w Hw Eb).
  Qed.
End SimVerdict.

(* ================= 8. listing order of sets and dicts ================= *)
(* A Python set / dict field of an automaton is modelled by a list.  Two processes with different hash seeds hold
   the same sets but may list them in different orders: the lists are permutations of each other (dict: a permutation
   of the items, the keys being unique).  Verdicts do not depend on the listing. *)
Section AssocPerm.
  Context {K V : Type} `{Eqb K}.

  Lemma lookup_unique_key (k : K) (v : V) (m : list (K * V)) : NoDup (map fst m) -> In (k, v) m -> lookup k m = Some v.
  Proof.
    induction m as [|[k1 v1] m IH]; cbn [map fst lookup]; [intros _ []|].
    intros Hnd Hin. inversion Hnd as [|k2 l2 Hnin Hnd']; subst. destruct (eqb k k1) eqn:E.
    - apply eqb_true in E. subst k1. destruct Hin as [Hin|Hin]; [inversion Hin; reflexivity|].
      exfalso. apply Hnin. apply in_map_iff. exists (k, v). split; [reflexivity | exact Hin].
    - apply eqb_neq in E. destruct Hin as [Hin|Hin]; [inversion Hin; congruence|]. apply IH; assumption.
  Qed.

  (* lookup in a permuted association list with unique keys *)
  Lemma lookup_perm (k : K) (m1 m2 : list (K * V)) : NoDup (map fst m1) -> Permutation m1 m2 -> lookup k m1 = lookup k m2.
  Proof.
    intros Hnd Hp.
    assert (Hnd2 : NoDup (map fst m2)) by (apply (Permutation_NoDup (Permutation_map fst Hp)); exact Hnd).
    destruct (lookup k m1) as [v|] eqn:E1; symmetry.
    - apply lookup_unique_key; [exact Hnd2|]. apply (Permutation_in _ Hp). apply lookup_In; exact E1.
    - apply lookup_None. intros v Hc. apply (proj1 (lookup_None k m1) E1 v).
      apply (Permutation_in _ (Permutation_sym Hp)). exact Hc.
  Qed.

  (* items with equal keys and related values *)
  Lemma lookup_Forall2 (R : V -> V -> Prop) (k : K) (m1 m2 : list (K * V)) :
    Forall2 (fun e1 e2 => fst e1 = fst e2 /\ R (snd e1) (snd e2)) m1 m2 ->
    match lookup k m1, lookup k m2 with
    | Some v1, Some v2 => R v1 v2
    | None, None => True
    | _, _ => False
    end.
  Proof.
    intros HF. induction HF as [|[k1 v1] [k2 v2] m1 m2 [Ek Hr] HF IH]; cbn [lookup]; [exact I|].
    cbn [fst snd] in Ek, Hr. subst k2. destruct (eqb k k1); [exact Hr | exact IH].
  Qed.

  Lemma Forall2_In_r {X Y} (R : X -> Y -> Prop) (l1 : list X) (l2 : list Y) y :
    Forall2 R l1 l2 -> In y l2 -> exists x, In x l1 /\ R x y.
  Proof.
    intros HF. induction HF as [|x0 y0 l1 l2 Hr HF IH]; intros Hy; [destruct Hy|].
    destruct Hy as [<-|Hy]; [exists x0; split; [left; reflexivity | exact Hr]|].
    destruct (IH Hy) as (x & Hx & Hrx). exists x. split; [right; exact Hx | exact Hrx].
  Qed.
End AssocPerm.

Lemma mem_perm {A} `{Eqb A} (x : A) (l1 l2 : list A) : Permutation l1 l2 -> mem x l1 = mem x l2.
Proof.
  intros Hp. destruct (mem x l2) eqn:E.
  - apply mem_In. apply mem_In in E. apply (Permutation_in _ (Permutation_sym Hp)); exact E.
  - apply mem_nIn. apply mem_nIn in E. intros Hc. apply E. apply (Permutation_in _ Hp); exact Hc.
Qed.

Section DFAPerm.
  Context {A : Type} `{Eqb A}.

  (* D2 is D1 with its sets and its transition dict listed in another order *)
  Definition dfa_perm (D1 D2 : dfa A) : Prop :=
    Permutation (dQ D1) (dQ D2) /\ Permutation (dS D1) (dS D2) /\ Permutation (dD D1) (dD D2) /\
    dq0 D1 = dq0 D2 /\ Permutation (dF D1) (dF D2).

  Lemma ddelta_perm (D1 D2 : dfa A) : NoDup (map fst (dD D1)) -> Permutation (dD D1) (dD D2) ->
    forall q a, ddelta D1 q a = ddelta D2 q a.
  Proof. intros Hnd Hp q a. unfold ddelta. apply lookup_perm; assumption. Qed.

  Lemma dfa_run_ext (D1 D2 : dfa A) : (forall q a, ddelta D1 q a = ddelta D2 q a) ->
    forall w q, dfa_run D1 q w = dfa_run D2 q w.
  Proof.
    intros Hd. induction w as [|a w IH]; intros q; cbn [dfa_run]; [reflexivity|].
    rewrite Hd. destruct (ddelta D2 q a) as [q1|]; [apply IH | reflexivity].
  Qed.

  (* the verdict (including the KeyError outcome None) is the identical value *)
  Theorem dfa_accepts_perm (D1 D2 : dfa A) (w : word) : NoDup (map fst (dD D1)) -> dfa_perm D1 D2 ->
    dfa_accepts D1 w = dfa_accepts D2 w.
  Proof.
    intros Hnd (_ & _ & HD & Hq0 & HF). unfold dfa_accepts.
    rewrite (dfa_run_ext D1 D2 (ddelta_perm D1 D2 Hnd HD) w), Hq0.
    destruct (dfa_run D2 (dq0 D2) w) as [q|]; [|reflexivity]. rewrite (mem_perm q _ _ HF). reflexivity.
  Qed.

  (* validity is not affected either *)
  Theorem dfa_wf_perm (D1 D2 : dfa A) : NoDup (map fst (dD D1)) -> dfa_perm D1 D2 -> dfa_wf D1 -> dfa_wf D2.
  Proof.
    intros Hnd (HQ & HS & HD & Hq0 & HF) (W1 & W2 & W3 & W4).
    assert (Hd := ddelta_perm D1 D2 Hnd HD).
    assert (PQ : forall x, In x (dQ D1) <-> In x (dQ D2))
      by (intros x; split; [apply (Permutation_in _ HQ) | apply (Permutation_in _ (Permutation_sym HQ))]).
    assert (PS : forall x, In x (dS D1) <-> In x (dS D2))
      by (intros x; split; [apply (Permutation_in _ HS) | apply (Permutation_in _ (Permutation_sym HS))]).
    split; [|split; [|split]].
    - rewrite <- Hq0. apply PQ. exact W1.
    - intros x Hx. apply PQ. apply W2. apply (Permutation_in _ (Permutation_sym HF)). exact Hx.
    - intros q a q1 Hin. apply (Permutation_in _ (Permutation_sym HD)) in Hin.
      destruct (W3 q a q1 Hin) as (K1 & K2 & K3). rewrite <- (PQ q), <- (PS a), <- (PQ q1). auto.
    - intros q a Hq Ha. rewrite <- Hd. apply W4; [apply PQ; exact Hq | apply PS; exact Ha].
  Qed.
End DFAPerm.

Section NFAPerm.
  Context {A : Type} `{Eqb A}.

  (* same start state, epsilon symbol, and the same transition relation and accepting set as sets *)
  Definition nfa_same (N1 N2 : nfa A) : Prop :=
    nq0 N1 = nq0 N2 /\ neps N1 = neps N2 /\ seteq (nF N1) (nF N2) /\
    forall q a, seteq (ndelta N1 q a) (ndelta N2 q a).

  Lemma nfa_path_same (N1 N2 : nfa A) : nfa_same N1 N2 -> forall p w q, nfa_path N1 p w q -> nfa_path N2 p w q.
  Proof.
    intros (_ & He & _ & Hd) p w q Hp. induction Hp as [q|q q1 w q2 Hin Hp IH|q a q1 w q2 Hin Hp IH].
    - apply np_nil.
    - apply np_eps with q1; [|exact IH]. rewrite <- He. apply Hd. exact Hin.
    - apply np_sym with q1; [|exact IH]. apply Hd. exact Hin.
  Qed.

  Lemma nfa_same_sym (N1 N2 : nfa A) : nfa_same N1 N2 -> nfa_same N2 N1.
  Proof.
    intros (E1 & E2 & E3 & E4). split; [auto|]. split; [auto|]. split.
    - intros x. symmetry. apply E3.
    - intros q a x. symmetry. apply E4.
  Qed.

  Lemma nfa_lang_same (N1 N2 : nfa A) (w : word) : nfa_same N1 N2 -> (nfa_lang N1 w <-> nfa_lang N2 w).
  Proof.
    intros Hs. assert (Hs' := nfa_same_sym N1 N2 Hs). unfold nfa_lang. split.
    - intros (qf & Hp & Hf). exists qf. apply (nfa_path_same N1 N2 Hs) in Hp.
      destruct Hs as (E1 & _ & E3 & _). rewrite <- E1. split; [exact Hp | apply E3; exact Hf].
    - intros (qf & Hp & Hf). exists qf. apply (nfa_path_same N2 N1 Hs') in Hp.
      destruct Hs' as (E1 & _ & E3 & _). rewrite <- E1. split; [exact Hp | apply E3; exact Hf].
  Qed.

  (* two valid automata that are equal as mathematical objects: identical verdict *)
  Theorem nfa_accepts_same (N1 N2 : nfa A) (w : word) : nfa_wf N1 -> nfa_wf N2 -> nfa_same N1 N2 ->
    Forall (fun a => In a (nS N1)) w -> Forall (fun a => In a (nS N2)) w ->
    nfa_accepts N1 w = nfa_accepts N2 w.
  Proof.
    intros W1 W2 Hs Hw1 Hw2.
    destruct (nfa_accepts_correct N1 w W1 Hw1) as (b1 & E1 & K1).
    destruct (nfa_accepts_correct N2 w W2 Hw2) as (b2 & E2 & K2).
    rewrite E1, E2. f_equal. pose proof (nfa_lang_same N1 N2 w Hs) as HL.
    destruct b1, b2; try reflexivity; [symmetry|]; tauto.
  Qed.

  (* N2 is N1 with every set (states, alphabet, accepting states, each target set) and the transition dict listed in
     another order *)
  Definition nfa_perm (N1 N2 : nfa A) : Prop :=
    Permutation (nQ N1) (nQ N2) /\ Permutation (nS N1) (nS N2) /\ nq0 N1 = nq0 N2 /\ neps N1 = neps N2 /\
    Permutation (nF N1) (nF N2) /\
    exists d, Permutation (nD N1) d /\
              Forall2 (fun e1 e2 => fst e1 = fst e2 /\ Permutation (snd e1) (snd e2)) d (nD N2).

  Lemma nfa_perm_same (N1 N2 : nfa A) : NoDup (map fst (nD N1)) -> nfa_perm N1 N2 -> nfa_same N1 N2.
  Proof.
    intros Hnd (_ & _ & Hq0 & He & HF & d & Hp & HF2). split; [exact Hq0|]. split; [exact He|]. split.
    - intros x. split; [apply (Permutation_in _ HF) | apply (Permutation_in _ (Permutation_sym HF))].
    - intros q a. unfold ndelta. rewrite (lookup_perm (q, a) _ _ Hnd Hp).
      pose proof (lookup_Forall2 (fun s1 s2 : list A => Permutation s1 s2) (q, a) _ _ HF2) as HL.
      destruct (lookup (q, a) d) as [s1|], (lookup (q, a) (nD N2)) as [s2|]; try contradiction.
      + intros x. split; [apply (Permutation_in _ HL) | apply (Permutation_in _ (Permutation_sym HL))].
      + intros x. tauto.
  Qed.

  Theorem nfa_wf_perm (N1 N2 : nfa A) : nfa_perm N1 N2 -> nfa_wf N1 -> nfa_wf N2.
  Proof.
    intros (HQ & HS & Hq0 & He & HF & d & Hp & HF2) (W1 & W2 & W3 & W4).
    assert (PQ : forall x, In x (nQ N1) <-> In x (nQ N2))
      by (intros x; split; [apply (Permutation_in _ HQ) | apply (Permutation_in _ (Permutation_sym HQ))]).
    assert (PS : forall x, In x (nS N1) <-> In x (nS N2))
      by (intros x; split; [apply (Permutation_in _ HS) | apply (Permutation_in _ (Permutation_sym HS))]).
    split; [|split; [|split]].
    - rewrite <- Hq0. apply PQ. exact W1.
    - intros x Hx. apply PQ. apply W2. apply (Permutation_in _ (Permutation_sym HF)). exact Hx.
    - rewrite <- He. intros Hc. apply W3. apply PS. exact Hc.
    - intros q a s Hin. destruct (Forall2_In_r _ _ _ _ HF2 Hin) as ([[q' a'] s'] & Hin' & Ek & Hps).
      cbn [fst snd] in Ek, Hps. inversion Ek; subst q' a'.
      apply (Permutation_in _ (Permutation_sym Hp)) in Hin'.
      destruct (W4 q a s' Hin') as (K1 & K2 & K3). split; [apply PQ; exact K1|]. split.
      + destruct K2 as [K2|K2]; [left; apply PS; exact K2 | right; rewrite <- He; exact K2].
      + intros x Hx. apply PQ. apply K3. apply (Permutation_in _ (Permutation_sym Hps)). exact Hx.
  Qed.

  Theorem nfa_accepts_perm (N1 N2 : nfa A) (w : word) : nfa_wf N1 -> NoDup (map fst (nD N1)) -> nfa_perm N1 N2 ->
    Forall (fun a => In a (nS N1)) w -> nfa_accepts N1 w = nfa_accepts N2 w.
  Proof.
    intros W1 Hnd Hp Hw. apply nfa_accepts_same.
    - exact W1.
    - apply (nfa_wf_perm N1 N2 Hp W1).
    - apply nfa_perm_same; assumption.
    - exact Hw.
    - destruct Hp as (_ & HS & _). apply Forall_forall. intros a Ha. rewrite Forall_forall in Hw.
      apply (Permutation_in _ HS). apply Hw. exact Ha.
  Qed.
End NFAPerm.

Print Assumptions eclose_pick_independent.
Print Assumptions eclose_pick_independent_total.
Print Assumptions min_spec_unique.
Print Assumptions minimisers_order_independent.
Print Assumptions iso_pick_independent.
Print Assumptions dfa_to_regexp_order_independent.
Print Assumptions dfa_to_regexp_order_independent_fail.
Print Assumptions elim_unit_order_independent.
Print Assumptions to_chomsky_order_independent.
Print Assumptions pda_accepts_pick_independent.
Print Assumptions pda_words_pick_independent.
Print Assumptions pda_eclose_pick_independent.
Print Assumptions nfa_simulate_pick_independent_verdict.
Print Assumptions lookup_perm.
Print Assumptions dfa_accepts_perm.
Print Assumptions dfa_wf_perm.
Print Assumptions nfa_accepts_same.
Print Assumptions nfa_wf_perm.
Print Assumptions nfa_accepts_perm.

(* ================= 9. CFG membership and enumeration through the conversion ================= *)
(* different iteration orders and even different fresh-name streams: identical verdict, same set of words *)
Theorem cfg_accepts_order_independent ordV1 ordV2 stream1 stream2 G w b1 b2 :
  cfg_wf G -> EU.names_disjoint G -> In (gS G) (gV G) -> EU.perm_order ordV1 -> EU.perm_order ordV2 ->
  (forall x, In x stream1 -> ~ In x (gSg G)) -> (forall x, In x stream2 -> ~ In x (gSg G)) ->
  CYK.cfg_accepts ordV1 stream1 G w = Some b1 -> CYK.cfg_accepts ordV2 stream2 G w = Some b2 -> b1 = b2.
Proof.
  intros Hwf Hdj HS P1 P2 Hs1 Hs2 E1 E2.
  pose proof (ChomskyFinal.cfg_accepts_correct ordV1 stream1 G w b1 Hwf Hdj HS P1 Hs1 E1) as K1.
  pose proof (ChomskyFinal.cfg_accepts_correct ordV2 stream2 G w b2 Hwf Hdj HS P2 Hs2 E2) as K2.
  destruct b1, b2; try reflexivity; [symmetry|]; tauto.
Qed.

Theorem cfg_words_order_independent ordV1 ordV2 stream1 stream2 G n L1 L2 :
  cfg_wf G -> EU.names_disjoint G -> In (gS G) (gV G) -> EU.perm_order ordV1 -> EU.perm_order ordV2 ->
  (forall x, In x stream1 -> ~ In x (gSg G)) -> (forall x, In x stream2 -> ~ In x (gSg G)) ->
  CYK.cfg_words ordV1 stream1 G n = Some L1 -> CYK.cfg_words ordV2 stream2 G n = Some L2 -> seteq L1 L2.
Proof.
  intros Hwf Hdj HS P1 P2 Hs1 Hs2 E1 E2 w.
  rewrite (ChomskyFinal.cfg_words_exact ordV1 stream1 G n L1 Hwf Hdj HS P1 Hs1 E1 w),
          (ChomskyFinal.cfg_words_exact ordV2 stream2 G n L2 Hwf Hdj HS P2 Hs2 E2 w). tauto.
Qed.

Print Assumptions cfg_accepts_order_independent.
Print Assumptions cfg_words_order_independent.
