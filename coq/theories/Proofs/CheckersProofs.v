(* C12 / C13: soundness of the object-level exercise checkers of Model/Checkers.v ("OK only when the answer satisfies
   the criterion of the exercise; a reported counterexample word is genuine, of the right polarity and of minimal
   length") and acceptance of the library's own answers by these checkers. *)
From GT Require Import Base.Prelude Base.Sort Model.DFA Model.NFA Model.DFAOps Model.Minimize Model.Lang Model.Regexp
  Model.CFG Model.Chomsky Model.CYK Model.Simulate Model.Checkers Decide.DFAEquiv.
From GT Require Import Proofs.EnumProofs Proofs.RegexpProofs Proofs.LangProofs Proofs.DFAOpsProofs Proofs.NFAProofs
  Proofs.SubsetProofs Proofs.PartitionDefs Proofs.MinimizeFinal Proofs.CYKProofs Proofs.CFGEnumProofs Proofs.ChomskyFinal
  Proofs.SimulateProofs Proofs.CFGBasics.
From Coq Require Import Permutation.
Set Implicit Arguments.

(* ================================================================= compare_languages *)
Lemma shortest_None (L : list word) : shortest L = None <-> L = [].
Proof.
  destruct L as [|w L]; cbn [shortest]; [tauto|].
  split; [|discriminate].
  destruct (shortest L) as [v|]; [destruct (Nat.leb (length w) (length v))|]; discriminate.
Qed.

Lemma shortest_Some (L : list word) : forall w, shortest L = Some w ->
  In w L /\ forall v, In v L -> length w <= length v.
Proof.
  induction L as [|u L IH]; intros w Hs; cbn [shortest] in Hs; [discriminate|].
  destruct (shortest L) as [v0|] eqn:E.
  - destruct (IH v0 eq_refl) as [Hin Hmin].
    destruct (Nat.leb (length u) (length v0)) eqn:El; inversion Hs; subst w.
    + apply Nat.leb_le in El. split; [left; reflexivity|].
      intros v [<-|Hv]; [lia|]. specialize (Hmin v Hv). lia.
    + apply Nat.leb_gt in El. split; [right; exact Hin|].
      intros v [<-|Hv]; [lia|]. apply Hmin; exact Hv.
  - apply shortest_None in E. subst L. inversion Hs; subst w. split; [left; reflexivity|].
    intros v [<-|[]]. lia.
Qed.

Lemma diff_nil_incl (A1 A2 : list word) : diff A1 A2 = [] <-> incl A1 A2.
Proof.
  split.
  - intros E w Hw. destruct (mem w A2) eqn:Em; [apply mem_In; exact Em|].
    apply mem_nIn in Em. assert (Hd : In w (diff A1 A2)) by (apply diff_In; auto). rewrite E in Hd. destruct Hd.
  - intros Hi. destruct (diff A1 A2) as [|w r] eqn:E; [reflexivity|].
    assert (Hd : In w (diff A1 A2)) by (rewrite E; left; reflexivity).
    apply diff_In in Hd. destruct Hd as [H1 H2]. exfalso. apply H2, Hi, H1.
Qed.

Theorem compare_languages_none (A1 A2 : list word) : compare_languages A1 A2 = None <-> seteq A1 A2.
Proof.
  unfold compare_languages. split.
  - intros Hc. destruct (shortest (diff A1 A2)) as [w|] eqn:E1; [discriminate|].
    destruct (shortest (diff A2 A1)) as [w|] eqn:E2; [discriminate|].
    apply shortest_None, diff_nil_incl in E1. apply shortest_None, diff_nil_incl in E2.
    intros w. split; [apply E1 | apply E2].
  - intros Hs.
    assert (E1 : diff A1 A2 = []) by (apply diff_nil_incl; intros w Hw; apply Hs; exact Hw).
    assert (E2 : diff A2 A1 = []) by (apply diff_nil_incl; intros w Hw; apply Hs; exact Hw).
    rewrite E1, E2. reflexivity.
Qed.

Theorem compare_languages_extra (A1 A2 : list word) (w : word) : compare_languages A1 A2 = Some (true, w) ->
  In w A1 /\ ~ In w A2 /\ forall v, In v A1 -> ~ In v A2 -> length w <= length v.
Proof.
  unfold compare_languages. intros Hc.
  destruct (shortest (diff A1 A2)) as [w1|] eqn:E1.
  - inversion Hc; subst w1. apply shortest_Some in E1. destruct E1 as [Hin Hmin].
    apply diff_In in Hin. destruct Hin as [Hi1 Hi2]. split; [exact Hi1|]. split; [exact Hi2|].
    intros v Hv1 Hv2. apply Hmin. apply diff_In. auto.
  - destruct (shortest (diff A2 A1)); discriminate.
Qed.

Theorem compare_languages_missing (A1 A2 : list word) (w : word) : compare_languages A1 A2 = Some (false, w) ->
  (forall v, In v A1 -> In v A2) /\ In w A2 /\ ~ In w A1 /\ forall v, In v A2 -> ~ In v A1 -> length w <= length v.
Proof.
  unfold compare_languages. intros Hc.
  destruct (shortest (diff A1 A2)) as [w1|] eqn:E1; [discriminate|].
  apply shortest_None, diff_nil_incl in E1. split; [exact E1|].
  destruct (shortest (diff A2 A1)) as [w2|] eqn:E2; [|discriminate].
  inversion Hc; subst w2. apply shortest_Some in E2. destruct E2 as [Hin Hmin].
  apply diff_In in Hin. destruct Hin as [Hi1 Hi2]. split; [exact Hi1|]. split; [exact Hi2|].
  intros v Hv1 Hv2. apply Hmin. apply diff_In. auto.
Qed.

(* every verdict of compare_languages is one of the three above; Some _ is reported exactly when the sets differ *)
Theorem compare_languages_some (A1 A2 : list word) : (exists b w, compare_languages A1 A2 = Some (b, w)) <-> ~ seteq A1 A2.
Proof.
  rewrite <- compare_languages_none. destruct (compare_languages A1 A2) as [[b w]|].
  - split; [intros _; discriminate | intros _; exists b, w; reflexivity].
  - split; [intros (b & w & E); discriminate | intros Hn; exfalso; apply Hn; reflexivity].
Qed.

Lemma lang_ok_spec (A1 A2 : list word) : lang_ok A1 A2 = true <-> seteq A1 A2.
Proof.
  unfold lang_ok. rewrite <- compare_languages_none.
  destruct (compare_languages A1 A2); split; try reflexivity; discriminate.
Qed.

Lemma seteq_refl {X} `{Eqb X} (l : list X) : seteq l l.
Proof. intros x; reflexivity. Qed.

Lemma seteqb_refl {X} `{Eqb X} (l : list X) : seteqb l l = true.
Proof. apply seteqb_seteq. apply seteq_refl. Qed.

Lemma subsetb_refl {X} `{Eqb X} (l : list X) : subsetb l l = true.
Proof. apply subsetb_incl. apply incl_refl. Qed.

Lemma lang_ok_refl (L : list word) : lang_ok L L = true.
Proof. apply lang_ok_spec. apply seteq_refl. Qed.

(* ================================================================= check_max_states / check_language_from_words *)
Lemma check_max_states_spec (nstates max_states : nat) :
  check_max_states nstates max_states = true <-> max_states = 0 \/ nstates <= max_states.
Proof.
  unfold check_max_states. rewrite negb_true_iff, andb_false_iff, !Nat.ltb_ge. lia.
Qed.

Theorem check_language_from_words_spec (L : list word) (nstates max_states : nat) (words : list word) :
  check_language_from_words L nstates max_states words = true <->
  (max_states = 0 \/ nstates <= max_states) /\ seteq L words.
Proof.
  unfold check_language_from_words. rewrite andb_true_iff, check_max_states_spec, lang_ok_spec. reflexivity.
Qed.

Theorem check_language_from_words_dfa_sound {A} `{Eqb A} (D : dfa A) (n max_states : nat) (L words : list word) :
  dfa_wf D -> dfa_words D n = Some L ->
  check_language_from_words L (length (dedup (dQ D))) max_states words = true ->
  (max_states = 0 \/ length (dedup (dQ D)) <= max_states) /\
  forall w, In w words <-> length w <= n /\ Forall (fun a => In a (dS D)) w /\ dfa_lang D w.
Proof.
  intros Hwf HL Hc. apply check_language_from_words_spec in Hc. destruct Hc as [Hm Hs]. split; [exact Hm|].
  destruct (dfa_words_lang D n Hwf) as (L' & HL' & Hspec). rewrite HL in HL'. inversion HL'; subst L'.
  intros w. rewrite <- (Hs w). apply Hspec.
Qed.

Theorem check_language_from_words_nfa_sound {A} `{Eqb A} (N : nfa A) (n max_states : nat) (L words : list word) :
  nfa_wf N -> nfa_words N n = Some L ->
  check_language_from_words L (length (dedup (nQ N))) max_states words = true ->
  (max_states = 0 \/ length (dedup (nQ N)) <= max_states) /\
  forall w, In w words <-> length w <= n /\ Forall (fun a => In a (nS N)) w /\ nfa_lang N w.
Proof.
  intros Hwf HL Hc. apply check_language_from_words_spec in Hc. destruct Hc as [Hm Hs]. split; [exact Hm|].
  destruct (nfa_words_lang N n Hwf) as (L' & HL' & Hspec). rewrite HL in HL'. inversion HL'; subst L'.
  intros w. rewrite <- (Hs w). apply Hspec.
Qed.

Theorem check_language_from_words_re_sound (r : re) (n : nat) (words : list word) :
  check_language_from_words (re_words r n) 0 0 words = true ->
  forall w, In w words <-> length w <= n /\ re_lang r w.
Proof.
  intros Hc. apply check_language_from_words_spec in Hc. destruct Hc as [_ Hs].
  intros w. rewrite <- (Hs w). apply re_words_exact.
Qed.

(* check_dfa2regexp: the regular expression against the DFA, both enumerated up to n *)
Theorem check_dfa2regexp_sound {A} `{Eqb A} (D : dfa A) (r : re) (n : nat) (L : list word) :
  dfa_wf D -> dfa_words D n = Some L -> lang_ok (re_words r n) L = true ->
  forall w, length w <= n -> (re_lang r w <-> Forall (fun a => In a (dS D)) w /\ dfa_lang D w).
Proof.
  intros Hwf HL Hc w Hl. apply lang_ok_spec in Hc.
  destruct (dfa_words_lang D n Hwf) as (L' & HL' & Hspec). rewrite HL in HL'. inversion HL'; subst L'.
  specialize (Hc w). rewrite re_words_exact, Hspec in Hc. tauto.
Qed.

(* ================================================================= check_accepts_rejects *)
Theorem check_accepts_rejects_sound (va vr : list bool) :
  check_accepts_rejects va vr = true <-> Forall (fun b => b = true) va /\ Forall (fun b => b = false) vr.
Proof.
  unfold check_accepts_rejects. rewrite andb_true_iff, !forallb_forall, !Forall_forall.
  split; intros [Ha Hr]; (split; [exact Ha|]); intros b Hb; [apply negb_true_iff | apply negb_true_iff]; apply Hr; exact Hb.
Qed.

(* ================================================================= generic helpers *)
Lemma dfa_path_ext {A} `{Eqb A} (D1 D2 : dfa A) : (forall q a, ddelta D2 q a = ddelta D1 q a) ->
  forall q w p, dfa_path D1 q w p -> dfa_path D2 q w p.
Proof.
  intros He q w p Hp. induction Hp as [q|q a q1 w q2 Hd Hp IH]; [constructor|].
  apply dp_cons with q1; [rewrite He; exact Hd | exact IH].
Qed.

Lemma Forall_seteq (l1 l2 : list nat) (w : word) : seteq l1 l2 ->
  Forall (fun a => In a l1) w -> Forall (fun a => In a l2) w.
Proof. intros Hs Hf. rewrite Forall_forall in *. intros a Ha. apply Hs, Hf, Ha. Qed.

Lemma forallb_combine_seq {X} (f : nat * X -> bool) (d : X) (l : list X) : forall s,
  forallb f (combine (seq s (length l)) l) = true <-> forall i, i < length l -> f (s + i, nth i l d) = true.
Proof.
  induction l as [|x l IH]; intros s; cbn [length seq combine forallb].
  - split; [intros _ i Hi; lia | reflexivity].
  - rewrite andb_true_iff, IH. split.
    + intros [Hx Hl] [|i] Hi; cbn [nth]; [rewrite Nat.add_0_r; exact Hx|].
      replace (s + S i) with (S s + i) by lia. apply Hl. lia.
    + intros Hall. split.
      * specialize (Hall 0 ltac:(lia)). cbn [nth] in Hall. rewrite Nat.add_0_r in Hall. exact Hall.
      * intros i Hi. specialize (Hall (S i) ltac:(lia)). cbn [nth] in Hall.
        replace (S s + i) with (s + S i) by lia. exact Hall.
Qed.

Lemma NoDup_dedup {X} `{Eqb X} (l : list X) : NoDup l -> dedup l = l.
Proof.
  induction l as [|x l IH]; intros Hnd; cbn [dedup]; [reflexivity|].
  inversion Hnd as [|y ys Hnin Hnd']; subst.
  apply mem_nIn in Hnin. rewrite Hnin, (IH Hnd'). reflexivity.
Qed.

(* ================================================================= complement *)
Section SingleP.
  Context {A : Type} `{Eqb A}.

  Lemma delta_eqb_sound (D1 D2 : dfa A) : delta_eqb D1 D2 = true -> forall q a, ddelta D2 q a = ddelta D1 q a.
  Proof.
    unfold delta_eqb. rewrite andb_true_iff, !forallb_forall. intros [H1 H2] q a.
    destruct (ddelta D1 q a) as [x|] eqn:E1.
    - apply lookup_In in E1. specialize (H1 _ E1). cbn [fst snd] in H1. apply eqb_true in H1. exact H1.
    - destruct (ddelta D2 q a) as [y|] eqn:E2; [|reflexivity].
      apply lookup_In in E2. specialize (H2 _ E2). cbn [fst snd] in H2. apply eqb_true in H2. congruence.
  Qed.

  Lemma delta_eqb_refl (D : dfa A) : NoDup (map fst (dD D)) -> delta_eqb D D = true.
  Proof.
    intros Hnd. unfold delta_eqb.
    assert (E : forallb (fun e => eqb (ddelta D (fst (fst e)) (snd (fst e))) (Some (snd e))) (dD D) = true).
    { apply forallb_forall. intros [[q a] q1] He. cbn [fst snd]. unfold ddelta.
      rewrite (lookup_NoDup _ _ _ Hnd He). apply eqb_refl. }
    rewrite E. reflexivity.
  Qed.

  Theorem check_dfa_complement_sound (D1 answer : dfa A) : check_dfa_complement D1 answer = true ->
    seteq (dS D1) (dS answer) /\ seteq (dQ D1) (dQ answer) /\ dq0 D1 = dq0 answer /\
    (forall q a, ddelta answer q a = ddelta D1 q a) /\
    (forall q, In q (dF answer) <-> In q (dQ D1) /\ ~ In q (dF D1)).
  Proof.
    unfold check_dfa_complement. cbn [dfa_complement dS dQ dq0 dF].
    rewrite !andb_true_iff. intros [[[[[HS HQ] Hq0] Hd] HF1] HF2].
    apply seteqb_seteq in HS. apply seteqb_seteq in HQ. apply eqb_true in Hq0.
    apply subsetb_incl in HF1. apply subsetb_incl in HF2.
    split; [exact HS|]. split; [exact HQ|]. split; [exact Hq0|]. split.
    - intros q a. apply (delta_eqb_sound _ _ Hd q a).
    - intros q. rewrite <- diff_In. split; [apply HF2 | apply HF1].
  Qed.

  (* consequence for the language: the accepted answer recognises the complement *)
  Theorem check_dfa_complement_lang (D1 answer : dfa A) : dfa_wf D1 -> check_dfa_complement D1 answer = true ->
    forall w, Forall (fun a => In a (dS D1)) w -> (dfa_lang answer w <-> ~ dfa_lang D1 w).
  Proof.
    intros Hwf Hc w Hw. destruct (check_dfa_complement_sound _ _ Hc) as (_ & _ & Hq0 & Hd & HF).
    destruct (@complement_correct _ _ D1 Hwf) as (_ & _ & HL). rewrite <- (HL w Hw).
    unfold dfa_lang. cbn [dfa_complement dq0 dF]. rewrite <- Hq0.
    split; intros (qf & Hp & Hf); exists qf; split.
    - apply (@dfa_path_ext _ _ answer (dfa_complement D1)); [intros q a; cbn [dfa_complement ddelta dD]; symmetry; apply Hd | exact Hp].
    - apply diff_In. apply HF. exact Hf.
    - apply (@dfa_path_ext _ _ (dfa_complement D1) answer); [intros q a; apply Hd | exact Hp].
    - apply HF. apply diff_In. exact Hf.
  Qed.

  Theorem own_complement_accepted (D1 : dfa A) : NoDup (map fst (dD D1)) ->
    check_dfa_complement D1 (dfa_complement D1) = true.
  Proof.
    intros Hnd. unfold check_dfa_complement. rewrite !seteqb_refl, eqb_refl, !subsetb_refl.
    rewrite (delta_eqb_refl (dfa_complement D1) Hnd). reflexivity.
  Qed.
End SingleP.

(* the side condition of own_complement_accepted is needed: a transition list with a repeated key (which the Python
   dict cannot represent) is rejected by the model checker *)
Lemma own_complement_needs_unique_keys : dfa_wf D_dupkey /\ check_dfa_complement D_dupkey (dfa_complement D_dupkey) = false.
Proof. split; [exact D_dupkey_wf | vm_compute; reflexivity]. Qed.

(* ================================================================= product *)
Section ProductP.
  Context {A B : Type} `{Eqb A} `{Eqb B}.

  (* what a successful dfa_product looks like *)
  Lemma dfa_product_Some (ptype : nat) (D1 : dfa A) (D2 : dfa B) (D : dfa (A * B)) : dfa_product ptype D1 D2 = Some D ->
    seteq (dS D1) (dS D2) /\ dS D = dS D1 /\ dQ D = list_prod (dQ D1) (dQ D2) /\ dq0 D = (dq0 D1, dq0 D2) /\
    dF D = filter (prod_final ptype D1 D2) (list_prod (dQ D1) (dQ D2)) /\
    (forall q a t, In ((q, a), t) (dD D) ->
       In q (list_prod (dQ D1) (dQ D2)) /\ In a (dS D1) /\
       ddelta D1 (fst q) a = Some (fst t) /\ ddelta D2 (snd q) a = Some (snd t) /\ ddelta D q a = Some t) /\
    (forall q a x y, In q (list_prod (dQ D1) (dQ D2)) -> In a (dS D1) ->
       ddelta D1 (fst q) a = Some x -> ddelta D2 (snd q) a = Some y -> ddelta D q a = Some (x, y)).
  Proof.
    unfold dfa_product. destruct (seteqb (dS D1) (dS D2)) eqn:Es; cbn [negb]; [|discriminate].
    apply seteqb_seteq in Es.
    set (states := list_prod (dQ D1) (dQ D2)).
    set (g := fun pa : (A * B) * nat =>
                match ddelta D1 (fst (fst pa)) (snd pa), ddelta D2 (snd (fst pa)) (snd pa) with
                | Some x, Some y => Some (pa, (x, y))
                | _, _ => None
                end).
    destruct (all_some (map g (list_prod states (dS D1)))) as [delta|] eqn:Hdelta; [|discriminate].
    intros E. inversion E; subst D; clear E. cbn [dS dQ dq0 dF dD].
    assert (Hgfst : forall x y, g x = Some y -> fst y = x).
    { intros x y. unfold g. destruct (ddelta D1 (fst (fst x)) (snd x)); [|discriminate].
      destruct (ddelta D2 (snd (fst x)) (snd x)); [|discriminate].
      intros E; inversion E; reflexivity. }
    assert (Hlk : forall q a x y, In q states -> In a (dS D1) ->
       ddelta D1 (fst q) a = Some x -> ddelta D2 (snd q) a = Some y -> lookup (q, a) delta = Some (x, y)).
    { intros q a x y Hq Ha E1 E2.
      assert (Hin : In (q, a) (list_prod states (dS D1))) by (apply in_prod_iff; split; assumption).
      destruct (all_some_map_lookup g _ Hdelta Hgfst _ Hin) as [v [Hv Hl]].
      unfold g in Hv. cbn [fst snd] in Hv. rewrite E1, E2 in Hv. inversion Hv; subst v. exact Hl. }
    split; [exact Es|]. split; [reflexivity|]. split; [reflexivity|]. split; [reflexivity|]. split; [reflexivity|].
    split.
    - intros q a t Hi. apply (all_some_map_In g _ Hdelta) in Hi. destruct Hi as [pa [Hpa Hgpa]].
      pose proof (Hgfst _ _ Hgpa) as Efst. cbn [fst] in Efst. subst pa.
      apply in_prod_iff in Hpa. destruct Hpa as [Hq Ha].
      unfold g in Hgpa. cbn [fst snd] in Hgpa.
      destruct (ddelta D1 (fst q) a) as [x|] eqn:E1; [|discriminate].
      destruct (ddelta D2 (snd q) a) as [y|] eqn:E2; [|discriminate].
      inversion Hgpa; subst t. cbn [fst snd].
      split; [exact Hq|]. split; [exact Ha|]. split; [reflexivity|]. split; [reflexivity|].
      unfold ddelta at 1. cbn [dD]. apply Hlk; assumption.
    - intros q a x y Hq Ha E1 E2. unfold ddelta. cbn [dD]. apply Hlk; assumption.
  Qed.

  Lemma check_product_automaton_spec (D : dfa (A * B)) (D1 : dfa A) (D2 : dfa B) (answer : dfa (A * B)) :
    check_product_automaton D D1 D2 answer = true <->
    (forall q, In q (dQ answer) -> In (fst q) (dQ D1) /\ In (snd q) (dQ D2)) /\
    seteq (dS D) (dS answer) /\ dq0 answer = dq0 D /\
    (forall q a q1, In ((q, a), q1) (dD answer) -> forall t, ddelta D q a = Some t -> q1 = t) /\
    seteq (dF D) (dF answer).
  Proof.
    unfold check_product_automaton. rewrite !andb_true_iff, !forallb_forall, seteqb_seteq, eqb_eq, !subsetb_incl.
    split.
    - intros [[[[[HQ HS] Hq0] HD] HF1] HF2]. split; [|split; [exact HS|split; [exact Hq0|split]]].
      + intros q Hq. specialize (HQ q Hq). apply andb_true_iff in HQ. rewrite !mem_In in HQ. exact HQ.
      + intros q a q1 Hi t Ht. specialize (HD _ Hi). cbn beta iota in HD. rewrite Ht in HD. apply eqb_true in HD. exact HD.
      + intros q. split; [apply HF1 | apply HF2].
    - intros (HQ & HS & Hq0 & HD & HF). split; [split; [split; [split; [split|]|]|]|].
      + intros q Hq. apply andb_true_iff. rewrite !mem_In. apply HQ; exact Hq.
      + exact HS.
      + exact Hq0.
      + intros [[q a] q1] Hi. destruct (ddelta D q a) as [t|] eqn:Et; [|reflexivity].
        rewrite (HD q a q1 Hi t Et). apply eqb_refl.
      + intros q Hq. apply HF; exact Hq.
      + intros q Hq. apply HF; exact Hq.
  Qed.

  Theorem check_dfa_product_sound (ptype n : nat) (D1 : dfa A) (D2 : dfa B) (answer : dfa (A * B)) :
    dfa_wf D1 -> dfa_wf D2 -> dfa_wf answer -> check_dfa_product ptype n D1 D2 answer = true ->
    exists D, dfa_product ptype D1 D2 = Some D /\
      (forall q, In q (dQ answer) -> In (fst q) (dQ D1) /\ In (snd q) (dQ D2)) /\
      seteq (dS D1) (dS answer) /\ dq0 answer = (dq0 D1, dq0 D2) /\
      (forall q a q1, In ((q, a), q1) (dD answer) -> forall t, ddelta D q a = Some t -> q1 = t) /\
      (forall q1 q2 a t, In (((q1, q2), a), t) (dD answer) ->
         ddelta D1 q1 a = Some (fst t) /\ ddelta D2 q2 a = Some (snd t)) /\
      (forall q, In q (dF answer) <-> In (fst q) (dQ D1) /\ In (snd q) (dQ D2) /\ prod_final ptype D1 D2 q = true) /\
      (forall w, length w <= n -> Forall (fun a => In a (dS D1)) w ->
         (dfa_lang answer w <-> match ptype with
                                | 0 => dfa_lang D1 w \/ dfa_lang D2 w
                                | 1 => dfa_lang D1 w /\ dfa_lang D2 w
                                | _ => (dfa_lang D1 w /\ ~ dfa_lang D2 w) \/ (~ dfa_lang D1 w /\ dfa_lang D2 w)
                                end)).
  Proof.
    intros Hwf1 Hwf2 Hwfa Hc. unfold check_dfa_product in Hc.
    destruct (dfa_product ptype D1 D2) as [D|] eqn:EP; [|discriminate].
    destruct (dfa_words_lang D1 n Hwf1) as (L1 & EL1 & HL1).
    destruct (dfa_words_lang D2 n Hwf2) as (L2 & EL2 & HL2).
    destruct (dfa_words_lang answer n Hwfa) as (L & EL & HL).
    rewrite EL1, EL2, EL in Hc. apply andb_true_iff in Hc. destruct Hc as [Hca Hlang].
    apply check_product_automaton_spec in Hca. destruct Hca as (HQ & HS & Hq0 & HD & HF).
    destruct (dfa_product_Some _ _ _ EP) as (Hse & ES & EQ & Eq0 & EF & Hent & Hlk).
    rewrite ES in HS. rewrite Eq0 in Hq0.
    exists D. split; [reflexivity|]. split; [exact HQ|]. split; [exact HS|]. split; [exact Hq0|]. split; [exact HD|].
    split; [|split].
    - intros q1 q2 a t Hi.
      destruct Hwfa as (_ & _ & Hda & _). destruct (Hda _ _ _ Hi) as (Hq & Ha & _).
      destruct (HQ _ Hq) as [Hq1 Hq2]. cbn [fst snd] in Hq1, Hq2. apply HS in Ha.
      destruct (dfa_wf_step q1 a Hwf1 Hq1 Ha) as [E1 _].
      destruct (dfa_wf_step q2 a Hwf2 Hq2 (proj1 (Hse a) Ha)) as [E2 _].
      assert (Hst : In (q1, q2) (list_prod (dQ D1) (dQ D2))) by (apply in_prod_iff; split; assumption).
      pose proof (Hlk (q1, q2) a _ _ Hst Ha E1 E2) as Ek.
      rewrite (HD _ _ _ Hi _ Ek). cbn [fst snd]. split; assumption.
    - intros q. rewrite <- (HF q), EF, filter_In. destruct q as [q1 q2]. rewrite in_prod_iff. cbn [fst snd]. tauto.
    - intros w Hl Hw.
      assert (Hw2 : Forall (fun a => In a (dS D2)) w) by (apply (Forall_seteq Hse); exact Hw).
      assert (Hwa : Forall (fun a => In a (dS answer)) w) by (apply (Forall_seteq HS); exact Hw).
      apply lang_ok_spec in Hlang. specialize (Hlang w).
      assert (EA : In w L <-> dfa_lang answer w) by (rewrite HL; tauto).
      assert (E1 : In w L1 <-> dfa_lang D1 w) by (rewrite HL1; tauto).
      assert (E2 : In w L2 <-> dfa_lang D2 w) by (rewrite HL2; tauto).
      rewrite <- EA, Hlang. destruct ptype as [|[|k]].
      + rewrite l_union_spec, E1, E2. reflexivity.
      + rewrite l_intersection_spec, E1, E2. reflexivity.
      + rewrite l_symmetric_difference_spec, E1, E2. tauto.
  Qed.

  Theorem own_product_accepted (ptype n : nat) (D1 : dfa A) (D2 : dfa B) (D : dfa (A * B)) :
    dfa_wf D1 -> dfa_wf D2 -> dfa_product ptype D1 D2 = Some D -> check_dfa_product ptype n D1 D2 D = true.
  Proof.
    intros Hwf1 Hwf2 EP.
    destruct (dfa_product_Some _ _ _ EP) as (Hse & ES & EQ & Eq0 & EF & Hent & Hlk).
    destruct (@product_correct _ _ _ _ ptype D1 D2 Hwf1 Hwf2 Hse) as (D' & EP' & HwfD & _ & Hlang).
    rewrite EP in EP'. inversion EP'; subst D'; clear EP'.
    unfold check_dfa_product. rewrite EP.
    destruct (dfa_words_lang D1 n Hwf1) as (L1 & EL1 & HL1).
    destruct (dfa_words_lang D2 n Hwf2) as (L2 & EL2 & HL2).
    destruct (dfa_words_lang D n HwfD) as (L & EL & HL).
    rewrite EL1, EL2, EL. apply andb_true_iff. split.
    - apply check_product_automaton_spec. split; [|split; [apply seteq_refl|split; [reflexivity|split; [|apply seteq_refl]]]].
      + intros [q1 q2] Hq. rewrite EQ in Hq. apply in_prod_iff in Hq. exact Hq.
      + intros q a q1 Hi t Ht. destruct (Hent _ _ _ Hi) as (_ & _ & _ & _ & Ek). congruence.
    - apply lang_ok_spec. intros w. rewrite HL, ES.
      assert (E12 : forall w, Forall (fun a => In a (dS D1)) w <-> Forall (fun a => In a (dS D2)) w).
      { intros v. split; apply Forall_seteq; [exact Hse | intros a; symmetry; apply Hse]. }
      destruct ptype as [|[|k]].
      + rewrite l_union_spec, HL1, HL2. split.
        * intros (Hl & Hw & Hd). apply (Hlang w Hw) in Hd. pose proof (proj1 (E12 w) Hw). tauto.
        * intros [(Hl & Hw & Hd)|(Hl & Hw & Hd)]; [|apply E12 in Hw]; (split; [exact Hl|split; [exact Hw|]]);
            apply (Hlang w Hw); tauto.
      + rewrite l_intersection_spec, HL1, HL2. split.
        * intros (Hl & Hw & Hd). apply (Hlang w Hw) in Hd. pose proof (proj1 (E12 w) Hw). tauto.
        * intros [(Hl & Hw & Hd) (_ & _ & Hd2)]. split; [exact Hl|split; [exact Hw|]]. apply (Hlang w Hw); tauto.
      + rewrite l_symmetric_difference_spec, HL1, HL2. split.
        * intros (Hl & Hw & Hd). apply (Hlang w Hw) in Hd. pose proof (proj1 (E12 w) Hw). tauto.
        * intros [[(Hl & Hw & Hd) Hn]|[(Hl & Hw & Hd) Hn]]; [|apply E12 in Hw]; (split; [exact Hl|split; [exact Hw|]]);
            apply (Hlang w Hw); pose proof (proj1 (E12 w) Hw); tauto.
  Qed.
End ProductP.

(* ================================================================= CYK matrix *)
Lemma nth_map_seq {X} (f : nat -> X) (s n i : nat) (d : X) : i < n -> nth i (map f (seq s n)) d = f (s + i).
Proof.
  intros Hi. rewrite (nth_indep _ d (f 0)) by (rewrite map_length, seq_length; exact Hi).
  rewrite map_nth. rewrite seq_nth by exact Hi. reflexivity.
Qed.

(* the rows of the answer are written top-down: row k (k = 0 is the top row, the longest spans) has k+1 cells and its
   cell j is X[j, j + (n-1-k)]; in the theorem i = n-1-k is the span, so that the cell is X[j, j+i] = the set of
   variables deriving w[j..j+i] *)
Theorem check_cyk_matrix_sound (G : cfg) (w : word) (rows : list (list (list nat))) :
  is_chomsky G -> cfg_wf G -> check_cyk_matrix G w rows = true ->
  length rows = length w /\
  (forall k, k < length w -> length (nth k rows []) = S k) /\
  (forall k j A, In A (nth j (nth k rows []) []) -> In A (gV G)) /\
  forall i j, i + j < length w ->
    forall A, In A (nth j (nth (length w - 1 - i) rows []) []) <-> In A (gV G) /\ yields G (Var A) (subword w j (i + j)).
Proof.
  intros Hc Hwf Hchk. unfold check_cyk_matrix in Hchk.
  apply andb_true_iff in Hchk. destruct Hchk as [Hchk H4].
  apply andb_true_iff in Hchk. destruct Hchk as [Hchk H3].
  apply andb_true_iff in Hchk. destruct Hchk as [H1 H2].
  apply Nat.eqb_eq in H1.
  pose proof (proj1 (forallb_combine_seq _ [] rows 0) H2) as H2'. cbn [fst snd Nat.add] in H2'.
  split; [exact H1|]. split; [|split].
  - intros k Hk. apply Nat.eqb_eq. apply H2'. lia.
  - intros k j A HA. rewrite forallb_forall in H3.
    destruct (Nat.lt_ge_cases k (length rows)) as [Hk|Hk].
    + assert (Hrow : In (nth k rows []) rows) by (apply nth_In; exact Hk).
      specialize (H3 _ Hrow). rewrite forallb_forall in H3.
      destruct (Nat.lt_ge_cases j (length (nth k rows []))) as [Hj|Hj].
      * assert (Hcell : In (nth j (nth k rows []) []) (nth k rows [])) by (apply nth_In; exact Hj).
        specialize (H3 _ Hcell). apply subsetb_incl in H3. apply H3. exact HA.
      * rewrite (nth_overflow _ _ Hj) in HA. destruct HA.
    + rewrite (nth_overflow rows [] Hk) in HA. destruct j; destruct HA.
  - intros i j Hij A.
    rewrite <- (rev_length rows) in H4.
    pose proof (proj1 (forallb_combine_seq _ [] (rev rows) 0) H4 i) as H4'. cbn [Nat.add] in H4'.
    rewrite rev_length in H4'. specialize (H4' ltac:(lia)). cbn beta iota in H4'.
    rewrite rev_nth in H4' by lia.
    replace (length rows - S i) with (length w - 1 - i) in H4' by lia.
    pose proof (proj1 (forallb_combine_seq _ [] (nth (length w - 1 - i) rows []) 0) H4' j) as H5. cbn [Nat.add] in H5.
    assert (Hlen : length (nth (length w - 1 - i) rows []) = S (length w - 1 - i)).
    { apply Nat.eqb_eq. apply H2'. lia. }
    rewrite Hlen in H5. specialize (H5 ltac:(lia)). cbn beta iota in H5.
    apply seteqb_seteq in H5. rewrite (H5 A). apply cyk_cell_exact; [exact Hc | exact Hwf | lia | lia].
Qed.

(* the library's own matrix in the layout of the exercise *)
Definition cyk_rows (G : cfg) (w : word) : list (list (list nat)) :=
  map (fun i => map (fun j => cget (cyk G w) j (j + (length w - 1 - i))) (seq 0 (S i))) (seq 0 (length w)).

Theorem own_cyk_accepted (G : cfg) (w : word) : is_chomsky G -> cfg_wf G -> check_cyk_matrix G w (cyk_rows G w) = true.
Proof.
  intros Hc Hwf. unfold check_cyk_matrix.
  assert (Hlen : length (cyk_rows G w) = length w) by (unfold cyk_rows; rewrite map_length, seq_length; reflexivity).
  assert (Hrow : forall i, i < length w -> nth i (cyk_rows G w) [] =
                 map (fun j => cget (cyk G w) j (j + (length w - 1 - i))) (seq 0 (S i))).
  { intros i Hi. unfold cyk_rows. rewrite nth_map_seq by exact Hi. reflexivity. }
  apply andb_true_iff. split; [apply andb_true_iff; split; [apply andb_true_iff; split|]|].
  - rewrite Hlen. apply Nat.eqb_refl.
  - apply (forallb_combine_seq _ []). intros i Hi. cbn [fst snd Nat.add]. rewrite Hlen in Hi.
    rewrite (Hrow i Hi), map_length, seq_length. apply Nat.eqb_refl.
  - apply forallb_forall. intros row Hr. unfold cyk_rows in Hr. apply in_map_iff in Hr.
    destruct Hr as (i & <- & Hi). apply in_seq in Hi.
    apply forallb_forall. intros cell Hcell. apply in_map_iff in Hcell. destruct Hcell as (j & <- & Hj). apply in_seq in Hj.
    apply subsetb_incl. intros A HA.
    apply (cyk_cell_exact G w j (j + (length w - 1 - i)) A Hc Hwf) in HA; [tauto | lia | lia].
  - rewrite <- (rev_length (cyk_rows G w)). apply (forallb_combine_seq _ []). intros i Hi. cbn [Nat.add].
    rewrite rev_length, Hlen in Hi. rewrite rev_nth by (rewrite Hlen; exact Hi). rewrite Hlen.
    rewrite (Hrow (length w - S i)) by lia.
    apply (forallb_combine_seq _ []). intros j Hj. cbn [Nat.add]. rewrite map_length, seq_length in Hj.
    rewrite nth_map_seq by exact Hj. cbn [Nat.add].
    replace (j + (length w - 1 - (length w - S i))) with (i + j) by lia. apply seteqb_refl.
Qed.

(* ================================================================= derivations *)
Definition sym_ok (G : cfg) (s : sym) : Prop := if is_var s then In (sname s) (gV G) else In (sname s) (gSg G).

Lemma split_all_spec (x : list sym) : forall pre p A post,
  In (p, A, post) (split_all pre x) <-> exists u, x = u ++ Var A :: post /\ p = pre ++ u.
Proof.
  induction x as [|[b k] x IH]; intros pre p A post; cbn [split_all].
  - split; [intros [] | intros (u & E & _); destruct u; discriminate].
  - rewrite in_app_iff, IH. unfold is_var, sname. cbn [fst snd]. split.
    + intros [Hi|(u & Ex & Ep)].
      * destruct b; [|destruct Hi]. destruct Hi as [Hi|[]]. inversion Hi; subst.
        exists []. split; [reflexivity | rewrite app_nil_r; reflexivity].
      * exists ((b, k) :: u). split; [cbn [app]; rewrite Ex; reflexivity | rewrite Ep, <- app_assoc; reflexivity].
    + intros (u & Ex & Ep). destruct u as [|s u]; cbn [app] in Ex.
      * inversion Ex; subst. left. left. rewrite app_nil_r. reflexivity.
      * inversion Ex; subst. right. exists u. split; [reflexivity | rewrite <- app_assoc; reflexivity].
Qed.

(* mode >= 2: some variable occurrence is rewritten by a rule *)
Lemma cfg_has_derivation_any (G : cfg) (k : nat) (x y : list sym) : cfg_has_derivation G (S (S k)) x y = true <->
  exists pre A post rhs, x = pre ++ Var A :: post /\ y = pre ++ rhs ++ post /\ has_rule G A rhs.
Proof.
  cbn [cfg_has_derivation]. rewrite existsb_exists. split.
  - intros ([[pre A] post] & Hi & He). apply split_all_spec in Hi. destruct Hi as (u & Ex & Ep). cbn [app] in Ep. subst pre.
    apply rule_existsb_spec in He. destruct He as (rhs & Hr & Ey). exists u, A, post, rhs. auto.
  - intros (pre & A & post & rhs & Ex & Ey & Hr). exists (pre, A, post). split.
    + apply split_all_spec. exists pre. auto.
    + apply rule_existsb_spec. exists rhs. auto.
Qed.

Lemma cfg_has_derivation_spec (G : cfg) (mode : nat) (x y : list sym) : cfg_has_derivation G mode x y = true ->
  exists pre A post rhs, x = pre ++ Var A :: post /\ y = pre ++ rhs ++ post /\ has_rule G A rhs /\
    (mode = 0 -> all_terminals pre = true) /\ (mode = 1 -> all_terminals post = true).
Proof.
  destruct mode as [|[|k]]; intros Hs.
  - cbn [cfg_has_derivation] in Hs. apply deriv_step_ok_leftmost in Hs.
    destruct Hs as (pre & A & post & rhs & Ex & Ey & Hr & Hp). exists pre, A, post, rhs.
    split; [exact Ex|]. split; [exact Ey|]. split; [exact Hr|]. split; [intros _; exact Hp | discriminate].
  - cbn [cfg_has_derivation] in Hs. apply deriv_step_ok_rightmost in Hs; [|discriminate].
    destruct Hs as (pre & A & post & rhs & Ex & Ey & Hr & Hp). exists pre, A, post, rhs.
    split; [exact Ex|]. split; [exact Ey|]. split; [exact Hr|]. split; [discriminate | intros _; exact Hp].
  - apply cfg_has_derivation_any in Hs. destruct Hs as (pre & A & post & rhs & Ex & Ey & Hr). exists pre, A, post, rhs.
    split; [exact Ex|]. split; [exact Ey|]. split; [exact Hr|]. split; discriminate.
Qed.

Lemma step_chain_derives (G : cfg) (step : list sym -> list sym -> bool) :
  (forall x y, step x y = true -> exists pre A post rhs, x = pre ++ Var A :: post /\ y = pre ++ rhs ++ post /\ has_rule G A rhs) ->
  forall l x, chain_ok step (x :: l) = true -> derives G x (last (x :: l) x).
Proof.
  intros Hstep. induction l as [|y l IH]; intros x Hc.
  - cbn [last]. constructor.
  - rewrite chain_ok_cons in Hc. apply andb_true_iff in Hc. destruct Hc as [Hs Hc].
    rewrite last_cons_cons, (last_default y l x y).
    destruct (Hstep _ _ Hs) as (pre & A & post & rhs & -> & Ey & Hr).
    eapply d_step; [exact Hr|]. rewrite <- Ey. apply IH. exact Hc.
Qed.

Lemma chain_ok_mono {X} (s1 s2 : X -> X -> bool) : (forall x y, s1 x y = true -> s2 x y = true) ->
  forall l, chain_ok s1 l = true -> chain_ok s2 l = true.
Proof.
  intros Hm. induction l as [|x l IH]; [reflexivity|]. destruct l as [|y l]; [reflexivity|].
  rewrite !chain_ok_cons, !andb_true_iff. intros [Hs Hc]. split; [apply Hm; exact Hs | apply IH; exact Hc].
Qed.

Lemma chain_ok_nth_all {X} (step : X -> X -> bool) (d : X) : forall l, chain_ok step l = true ->
  forall i, S i < length l -> step (nth i l d) (nth (S i) l d) = true.
Proof. intros l Hc i Hi. apply chain_ok_nth; assumption. Qed.

Theorem check_cfg_derivation_sound (G : cfg) (mode : nat) (w : word) (steps : list (list sym)) :
  check_cfg_derivation G mode w steps = true ->
  hd_error steps = Some [Var (gS G)] /\ last steps [] = tword w /\
  (forall x s, In x steps -> In s x -> sym_ok G s) /\
  (forall i, S i < length steps ->
     exists pre A post rhs, nth i steps [] = pre ++ Var A :: post /\ nth (S i) steps [] = pre ++ rhs ++ post /\
       has_rule G A rhs /\ (mode = 0 -> all_terminals pre = true) /\ (mode = 1 -> all_terminals post = true)) /\
  cfg_lang G w.
Proof.
  unfold check_cfg_derivation. destruct steps as [|x0 l]; [discriminate|]. intros Hok.
  apply andb_true_iff in Hok. destruct Hok as [Hok El]. apply andb_true_iff in Hok. destruct Hok as [Hok Hc].
  apply andb_true_iff in Hok. destruct Hok as [Hsym E0].
  apply eqb_true in E0. apply eqb_true in El. subst x0.
  split; [reflexivity|]. split; [rewrite (last_default [Var (gS G)] l [] [Var (gS G)]); exact El|].
  split; [|split].
  - intros x s Hx Hs. rewrite forallb_forall in Hsym. specialize (Hsym x Hx). rewrite forallb_forall in Hsym.
    specialize (Hsym s Hs). unfold sym_ok. destruct (is_var s); apply mem_In; exact Hsym.
  - intros i Hi. apply cfg_has_derivation_spec. apply chain_ok_nth; assumption.
  - unfold cfg_lang. rewrite <- El. apply step_chain_derives with (step := cfg_has_derivation G mode); [|exact Hc].
    intros x y Hs. destruct (cfg_has_derivation_spec _ _ _ _ Hs) as (pre & A & post & rhs & Ex & Ey & Hr & _).
    exists pre, A, post, rhs. auto.
Qed.

(* ---- the library's own derivations (cfg_derive_word, checked by derivation_ok in C15) are accepted ---- *)
Lemma deriv_step_ok_split (G : cfg) (mode : nat) (x y : list sym) : deriv_step_ok G mode x y = true ->
  exists pre A post rhs, x = pre ++ Var A :: post /\ y = pre ++ rhs ++ post /\ has_rule G A rhs.
Proof.
  intros Hs. destruct (Nat.eq_dec mode 0) as [->|Hm].
  - apply deriv_step_ok_leftmost in Hs. destruct Hs as (pre & A & post & rhs & Ex & Ey & Hr & _). exists pre, A, post, rhs. auto.
  - apply (deriv_step_ok_rightmost G mode x y Hm) in Hs.
    destruct Hs as (pre & A & post & rhs & Ex & Ey & Hr & _). exists pre, A, post, rhs. auto.
Qed.

Lemma deriv_chain_sym_ok (G : cfg) (mode : nat) : cfg_wf G -> forall l x, (forall s, In s x -> sym_ok G s) ->
  chain_ok (deriv_step_ok G mode) (x :: l) = true -> forall y s, In y (x :: l) -> In s y -> sym_ok G s.
Proof.
  intros Hwf. induction l as [|z l IH]; intros x Hx Hc y s Hy Hs.
  - destruct Hy as [<-|[]]. apply Hx; exact Hs.
  - rewrite chain_ok_cons in Hc. apply andb_true_iff in Hc. destruct Hc as [Hst Hc].
    destruct Hy as [<-|Hy]; [apply Hx; exact Hs|].
    apply (IH z) with (y := y); [|exact Hc|exact Hy|exact Hs].
    intros s' Hs'. destruct (deriv_step_ok_split _ _ _ _ Hst) as (pre & A & post & rhs & Ex & Ez & (r & Hr & Ev & Er)).
    subst x z. rewrite !in_app_iff in Hs'. destruct Hs' as [Hs'|[Hs'|Hs']].
    + apply Hx. rewrite in_app_iff. left; exact Hs'.
    + destruct (Hwf r Hr) as [_ Hrhs]. subst rhs. apply Hrhs. exact Hs'.
    + apply Hx. rewrite in_app_iff. right; right; exact Hs'.
Qed.

Lemma own_derivation_symbols (G : cfg) (mode : nat) (w : word) (steps : list (list sym)) :
  cfg_wf G -> In (gS G) (gV G) -> derivation_ok G mode w steps = true ->
  forallb (fun x => forallb (fun s => if is_var s then mem (sname s) (gV G) else mem (sname s) (gSg G)) x) steps = true.
Proof.
  intros Hwf HS Hok. unfold derivation_ok in Hok. destruct steps as [|x0 l]; [discriminate|].
  apply andb_true_iff in Hok. destruct Hok as [Hok _]. apply andb_true_iff in Hok. destruct Hok as [E0 Hc].
  apply eqb_true in E0. subst x0.
  apply forallb_forall. intros y Hy. apply forallb_forall. intros s Hs.
  assert (Hok : sym_ok G s).
  { apply (@deriv_chain_sym_ok G mode Hwf l [Var (gS G)]) with (y := y); [|exact Hc|exact Hy|exact Hs].
    intros s' [<-|[]]. exact HS. }
  unfold sym_ok in Hok. destruct (is_var s); apply mem_In; exact Hok.
Qed.

(* leftmost derivations are accepted in mode 0, rightmost derivations in mode 1 *)
Theorem own_derivation_accepted (G : cfg) (mode : nat) (w : word) (steps : list (list sym)) :
  mode <= 1 -> cfg_wf G -> In (gS G) (gV G) -> derivation_ok G mode w steps = true ->
  check_cfg_derivation G mode w steps = true.
Proof.
  intros Hm Hwf HS Hok. pose proof (@own_derivation_symbols G mode w steps Hwf HS Hok) as Hsym.
  unfold check_cfg_derivation. unfold derivation_ok in Hok. destruct steps as [|x0 l]; [discriminate|].
  rewrite Hsym. cbn [andb].
  assert (E : cfg_has_derivation G mode = deriv_step_ok G mode) by (destruct mode as [|[|k]]; [reflexivity | reflexivity | lia]).
  rewrite E. exact Hok.
Qed.

(* both kinds are accepted when any derivation is asked for (mode 2) *)
Theorem own_derivation_accepted_any (G : cfg) (m k : nat) (w : word) (steps : list (list sym)) :
  cfg_wf G -> In (gS G) (gV G) -> derivation_ok G m w steps = true ->
  check_cfg_derivation G (S (S k)) w steps = true.
Proof.
  intros Hwf HS Hok. pose proof (@own_derivation_symbols G m w steps Hwf HS Hok) as Hsym.
  unfold check_cfg_derivation. unfold derivation_ok in Hok. destruct steps as [|x0 l]; [discriminate|].
  rewrite Hsym. cbn [andb].
  apply andb_true_iff in Hok. destruct Hok as [Hok El]. apply andb_true_iff in Hok. destruct Hok as [E0 Hc].
  rewrite E0, El. cbn [andb]. rewrite andb_true_r.
  apply (chain_ok_mono (deriv_step_ok G m)); [|exact Hc].
  intros x y Hs. apply cfg_has_derivation_any. apply (deriv_step_ok_split _ _ _ _ Hs).
Qed.
