(* Property C07: the CYK table is exact on a grammar in Chomsky normal form; cnf_accepts decides membership.
   Hypotheses used: is_chomsky G and cfg_wf G.  Name disjointness of variables/terminals is NOT needed:
   in a CNF grammar the shape of the right-hand side already determines the kinds of its symbols. *)
From GT Require Import Base.Prelude Model.CFG Model.Chomsky Model.CYK Proofs.CFGBasics.

Definition subword (w : word) (i j : nat) : word := firstn (S j - i) (skipn i w).      (* w[i..j] inclusive *)

(* ---- list facts ---- *)
Lemma firstn_add {A} (a b : nat) (u : list A) : firstn (a + b) u = firstn a u ++ firstn b (skipn a u).
Proof.
  revert u; induction a as [|a IH]; intros u; [reflexivity|].
  destruct u as [|x u]; cbn [plus firstn skipn app].
  - destruct b; reflexivity.
  - f_equal. apply IH.
Qed.

Lemma skipn_add {A} (a b : nat) (u : list A) : skipn (a + b) u = skipn b (skipn a u).
Proof.
  revert u; induction a as [|a IH]; intros u; [reflexivity|].
  destruct u as [|x u]; cbn [plus skipn]; [rewrite skipn_nil; reflexivity | apply IH].
Qed.

Lemma app_inv_length {A} (a b c d : list A) : length a = length c -> a ++ b = c ++ d -> a = c /\ b = d.
Proof.
  revert c; induction a as [|x a IH]; intros [|y c] Hl E; cbn in Hl; try discriminate.
  - split; [reflexivity | exact E].
  - cbn in E. inversion E; subst. destruct (IH c) as [-> ->]; [lia | assumption | split; reflexivity].
Qed.

Lemma subword_length w i j : i <= j -> j < length w -> length (subword w i j) = S j - i.
Proof. intros Hij Hj. unfold subword. rewrite firstn_length, skipn_length. lia. Qed.

Lemma subword_split w i k j : i <= k -> k < j -> j < length w ->
  subword w i j = subword w i k ++ subword w (S k) j.
Proof.
  intros Hik Hkj Hj. unfold subword.
  replace (S j - i) with ((S k - i) + (S j - S k)) by lia.
  rewrite firstn_add. f_equal. f_equal. rewrite <- skipn_add. f_equal. lia.
Qed.

Lemma firstn1_skipn (w : word) i : i < length w -> firstn 1 (skipn i w) = [nth i w 0].
Proof.
  revert w; induction i as [|i IH]; intros [|a w] Hl; cbn [length] in Hl; try lia.
  - reflexivity.
  - cbn [skipn nth]. apply IH. lia.
Qed.

Lemma subword_diag w i : i < length w -> subword w i i = [nth i w 0].
Proof. intros Hi. unfold subword. replace (S i - i) with 1 by lia. apply firstn1_skipn; exact Hi. Qed.

Lemma subword_full w : subword w 0 (length w - 1) = w.
Proof.
  unfold subword. cbn [skipn]. destruct w as [|a w]; [reflexivity|].
  replace (S (length (a :: w) - 1) - 0) with (length (a :: w)) by (cbn [length]; lia). apply firstn_all.
Qed.

Lemma lookup_app {K V} `{Eqb K} (k : K) (X Y : list (K * V)) :
  lookup k (X ++ Y) = match lookup k X with Some v => Some v | None => lookup k Y end.
Proof.
  induction X as [|[k' v'] X IH]; cbn; [reflexivity|]. destruct (eqb k k'); [reflexivity | exact IH].
Qed.

Lemma fold_union_gen {T} (f : T -> list nat) (l : list T) (A : nat) :
  forall acc, In A (fold_left (fun a t => union a (f t)) l acc) <-> In A acc \/ exists t, In t l /\ In A (f t).
Proof.
  induction l as [|t l IH]; intros acc; cbn [fold_left].
  - split; [auto | intros [Hy|[t [[] _]]]; exact Hy].
  - rewrite IH, union_In. split.
    + intros [[Hy|Hy]|[t' [Ht Hy]]]; [left; exact Hy | right; exists t; cbn; auto | right; exists t'; cbn; auto].
    + intros [Hy|[t' [[<-|Ht] Hy]]]; [left; left; exact Hy | left; right; exact Hy | right; exists t'; auto].
Qed.

Lemma fold_fold_union {K T} (L : K -> list T) (f : T -> list nat) (ks : list K) (A : nat) :
  forall acc, In A (fold_left (fun acc k => fold_left (fun a t => union a (f t)) (L k) acc) ks acc) <->
              In A acc \/ exists k t, In k ks /\ In t (L k) /\ In A (f t).
Proof.
  induction ks as [|k ks IH]; intros acc; cbn [fold_left].
  - split; [auto | intros [Hy|[k [t [[] _]]]]; exact Hy].
  - rewrite IH, fold_union_gen. split.
    + intros [[Hy|[t [Ht Hy]]]|[k' [t [Hk [Ht Hy]]]]].
      * left; exact Hy.
      * right. exists k, t. cbn; auto.
      * right. exists k', t. cbn; auto.
    + intros [Hy|[k' [t [[<-|Hk] [Ht Hy]]]]].
      * left; left; exact Hy.
      * left; right. exists t; auto.
      * right. exists k', t; auto.
Qed.

(* ---- parse trees of a grammar in Chomsky normal form ---- *)
Section CNF.
  Variable G : cfg.
  Hypothesis Hc : is_chomsky G.

  Lemma cnf_nonnull A u : A <> gS G -> yields G (Var A) u -> u <> [].
  Proof. intros HA Hy ->. apply HA. apply (chomsky_nullable G A Hc Hy). Qed.

  Lemma cnf_yields_inv A u : yields G (Var A) u ->
    (u = [] /\ A = gS G /\ has_rule G A []) \/
    (exists a, u = [a] /\ has_rule G A [Tm a]) \/
    (exists B C u1 u2, u = u1 ++ u2 /\ has_rule G A [Var B; Var C] /\ yields G (Var B) u1 /\ yields G (Var C) u2 /\
                       u1 <> [] /\ u2 <> [] /\ B <> gS G /\ C <> gS G).
  Proof.
    intros Hy. apply yields_var_inv in Hy. destruct Hy as [rhs [Hr Hl]].
    assert (Hr' := Hr). destruct Hr' as [r [Hin [Hv Hrhs]]].
    subst rhs. destruct (Hc r Hin) as [[E E2]|[[a E]|[B [C [E [HB HC]]]]]]; rewrite E in Hl, Hr.
    - left. apply yields_list_nil_inv in Hl. repeat split; [exact Hl | congruence | exact Hr].
    - right; left. apply yields_list_single in Hl. apply yields_tm_inv in Hl. exists a. split; assumption.
    - right; right. apply yields_list_pair in Hl. destruct Hl as [u1 [u2 [-> [H1 H2]]]].
      exists B, C, u1, u2. repeat split; try assumption.
      + apply (cnf_nonnull B u1 HB H1).
      + apply (cnf_nonnull C u2 HC H2).
  Qed.

  Lemma cnf_yields_single A a : yields G (Var A) [a] <-> has_rule G A [Tm a].
  Proof.
    split.
    - intros Hy. apply cnf_yields_inv in Hy.
      destruct Hy as [[E _]|[[b [E Hr]]|[B [C [u1 [u2 [E [_ [_ [_ [N1 [N2 _]]]]]]]]]]]].
      + discriminate.
      + inversion E; subst. exact Hr.
      + exfalso. destruct u1 as [|x u1]; [congruence|]. destruct u2 as [|y u2]; [congruence|].
        apply (f_equal (@length nat)) in E. rewrite app_length in E. cbn in E. lia.
    - intros Hr. econstructor; [exact Hr|]. apply yields_list_single. constructor.
  Qed.

  Lemma cyk_base_spec A a : In A (cyk_base G a) <-> In A (gV G) /\ has_rule G A [Tm a].
  Proof.
    unfold cyk_base. rewrite filter_In, existsb_exists. split.
    - intros [HV [r [Hin Hb]]]. split; [exact HV|]. apply andb_true_iff in Hb. destruct Hb as [H1 H2].
      apply Nat.eqb_eq in H1. exists r. repeat split; [exact Hin | exact H1|].
      destruct (Hc r Hin) as [[E _]|[[b E]|[B [C [E _]]]]]; rewrite E in H2; try discriminate.
      cbn in H2. apply Nat.eqb_eq in H2. subst. exact E.
    - intros [HV [r [Hin [H1 H2]]]]. split; [exact HV|]. exists r. split; [exact Hin|].
      rewrite H2. cbn. rewrite Nat.eqb_refl, andb_true_r. apply Nat.eqb_eq; exact H1.
  Qed.

  Lemma cyk_pair_spec A B C : In A (cyk_pair G B C) <-> In A (gV G) /\ has_rule G A [Var B; Var C].
  Proof.
    unfold cyk_pair. rewrite filter_In, existsb_exists. split.
    - intros [HV [r [Hin Hb]]]. split; [exact HV|]. apply andb_true_iff in Hb. destruct Hb as [H1 H2].
      apply Nat.eqb_eq in H1. exists r. repeat split; [exact Hin | exact H1|].
      destruct (Hc r Hin) as [[E _]|[[b E]|[B' [C' [E _]]]]]; rewrite E in H2; try discriminate.
      cbn in H2. apply andb_true_iff in H2. destruct H2 as [H2 H3].
      apply Nat.eqb_eq in H2. apply Nat.eqb_eq in H3. subst. exact E.
    - intros [HV [r [Hin [H1 H2]]]]. split; [exact HV|]. exists r. split; [exact Hin|].
      rewrite H2. cbn. rewrite !Nat.eqb_refl, andb_true_r. apply Nat.eqb_eq; exact H1.
  Qed.

  Lemma In_cyk_cell X i j A :
    In A (cyk_cell G X i j) <->
    exists k B C, i <= k /\ k < j /\ In B (cget X i k) /\ In C (cget X (S k) j) /\ In A (cyk_pair G B C).
  Proof.
    unfold cyk_cell.
    rewrite (fold_fold_union (fun k => list_prod (cget X i k) (cget X (S k) j))
                             (fun BC => cyk_pair G (fst BC) (snd BC))).
    split.
    - intros [[]|[k [[B C] [Hk [HBC HA]]]]]. apply in_seq in Hk. apply in_prod_iff in HBC.
      exists k, B, C. cbn [fst snd] in HA. repeat split; try tauto; lia.
    - intros [k [B [C [H1 [H2 [HB [HC HA]]]]]]]. right. exists k, (B, C). repeat split.
      + apply in_seq. lia.
      + apply in_prod_iff. auto.
      + exact HA.
  Qed.

  (* ---- the table invariant ---- *)
  Hypothesis Hwf : cfg_wf G.
  Variable w : word.

  Definition cexact (s : list nat) (i j : nat) : Prop :=
    forall A, In A s <-> In A (gV G) /\ yields G (Var A) (subword w i j).

  Definition cdone (m p i j : nat) : Prop :=
    i <= j /\ j < length w /\ (j - i < m \/ (j - i = m /\ i < p)).

  Definition cinv (X : ctable) (D : nat -> nat -> Prop) : Prop :=
    forall i j, (D i j -> exists s, lookup (i, j) X = Some s /\ cexact s i j) /\
                (~ D i j -> lookup (i, j) X = None).

  Lemma cinv_ext X (D D' : nat -> nat -> Prop) : (forall i j, D i j <-> D' i j) -> cinv X D -> cinv X D'.
  Proof.
    intros He Hi i j. destruct (Hi i j) as [H1 H2]. split.
    - intros Hd. apply H1. apply He; exact Hd.
    - intros Hd. apply H2. intros Hd'. apply Hd. apply He; exact Hd'.
  Qed.

  Lemma cinv_cget X D i j : cinv X D -> D i j -> cexact (cget X i j) i j.
  Proof.
    intros Hi Hd. destruct (proj1 (Hi i j) Hd) as [s [E Hs]]. unfold cget. rewrite E. exact Hs.
  Qed.

  Lemma rule_var_in A B C : has_rule G A [Var B; Var C] -> In A (gV G) /\ In B (gV G) /\ In C (gV G).
  Proof.
    intros [r [Hin [H1 H2]]]. destruct (Hwf r Hin) as [HA Hx]. rewrite H2 in Hx. subst A.
    split; [exact HA|]. split.
    - apply (Hx (Var B)). cbn; auto.
    - apply (Hx (Var C)). cbn; auto.
  Qed.

  Lemma cell_exact X m p : 1 <= m -> p + m < length w -> cinv X (cdone m p) ->
    cexact (cyk_cell G X p (p + m)) p (p + m).
  Proof.
    intros Hm Hp Hi A. rewrite In_cyk_cell. split.
    - intros [k [B [C [H1 [H2 [HB [HC HA]]]]]]].
      apply (cinv_cget X _ p k Hi) in HB; [|unfold cdone; lia].
      apply (cinv_cget X _ (S k) (p + m) Hi) in HC; [|unfold cdone; lia].
      apply cyk_pair_spec in HA. destruct HA as [HV Hr]. split; [exact HV|].
      rewrite (subword_split w p k (p + m)) by lia.
      econstructor; [exact Hr|]. apply yields_list_pair.
      exists (subword w p k), (subword w (S k) (p + m)). repeat split; tauto.
    - intros [HV Hy]. apply cnf_yields_inv in Hy.
      assert (Hlen : length (subword w p (p + m)) = S m) by (rewrite subword_length; lia).
      destruct Hy as [[E _]|[[a [E _]]|[B [C [u1 [u2 [E [Hr [HB [HC [N1 [N2 _]]]]]]]]]]]].
      + rewrite E in Hlen. cbn in Hlen. lia.
      + rewrite E in Hlen. cbn in Hlen. lia.
      + assert (L1 : length u1 <> 0) by (destruct u1; [congruence | cbn; lia]).
        assert (L2 : length u2 <> 0) by (destruct u2; [congruence | cbn; lia]).
        assert (L12 : length u1 + length u2 = S m) by (rewrite <- Hlen, E, app_length; reflexivity).
        remember (p + length u1 - 1) as k eqn:Ek.
        rewrite (subword_split w p k (p + m)) in E by lia.
        symmetry in E. apply app_inv_length in E; [|rewrite subword_length; lia].
        destruct E as [E1 E2]. rewrite E1 in HB. rewrite E2 in HC.
        destruct (rule_var_in A B C Hr) as [_ [HBV HCV]].
        exists k, B, C. split; [lia|]. split; [lia|]. split; [|split].
        * apply (cinv_cget X _ p k Hi); [unfold cdone; lia | split; assumption].
        * apply (cinv_cget X _ (S k) (p + m) Hi); [unfold cdone; lia | split; assumption].
        * apply cyk_pair_spec. split; assumption.
  Qed.

  Lemma cinv_step X m p : 1 <= m -> p + m < length w -> cinv X (cdone m p) ->
    cinv (X ++ [((p, p + m), cyk_cell G X p (p + m))]) (cdone m (S p)).
  Proof.
    intros Hm Hp Hi i j. rewrite lookup_app. split.
    - intros Hd. assert (Hcase : cdone m p i j \/ (i = p /\ j = p + m)) by (unfold cdone in *; lia).
      destruct Hcase as [Hd'|[-> ->]].
      + destruct (proj1 (Hi i j) Hd') as [s [E Hs]]. rewrite E. exists s. split; [reflexivity | exact Hs].
      + rewrite (proj2 (Hi p (p + m))) by (unfold cdone; lia).
        cbn [lookup]. rewrite eqb_refl. eexists. split; [reflexivity|]. apply cell_exact; assumption.
    - intros Hd. rewrite (proj2 (Hi i j)) by (unfold cdone in *; lia).
      cbn [lookup]. destruct (eqb (i, j) (p, p + m)) eqn:E; [|reflexivity].
      apply eqb_true in E. inversion E; subst. exfalso. apply Hd. unfold cdone. lia.
  Qed.

  Lemma cinv_row_gen m : 1 <= m -> forall cnt p X, p + cnt = length w - m -> cinv X (cdone m p) ->
    cinv (fold_left (fun X i => X ++ [((i, i + m), cyk_cell G X i (i + m))]) (seq p cnt) X) (cdone m (p + cnt)).
  Proof.
    intros Hm. induction cnt as [|cnt IH]; intros p X Hp Hi; cbn [seq fold_left].
    - rewrite Nat.add_0_r. exact Hi.
    - replace (p + S cnt) with (S p + cnt) by lia. apply IH; [lia|]. apply cinv_step; [exact Hm | lia | exact Hi].
  Qed.

  Lemma cinv_row X m : 1 <= m -> cinv X (cdone m 0) -> cinv (cyk_row G (length w) m X) (cdone (S m) 0).
  Proof.
    intros Hm Hi. unfold cyk_row.
    apply cinv_ext with (D := cdone m (0 + (length w - m))); [intros i j; unfold cdone; lia|].
    apply cinv_row_gen; [exact Hm | lia | exact Hi].
  Qed.

  Lemma cinv_rows : forall cnt m X, 1 <= m -> cinv X (cdone m 0) ->
    cinv (fold_left (fun X m => cyk_row G (length w) m X) (seq m cnt) X) (cdone (m + cnt) 0).
  Proof.
    induction cnt as [|cnt IH]; intros m X Hm Hi; cbn [seq fold_left].
    - rewrite Nat.add_0_r. exact Hi.
    - replace (m + S cnt) with (S m + cnt) by lia. apply IH; [lia|]. apply cinv_row; assumption.
  Qed.

  Lemma lookup_diag (g : nat -> list nat) (l : list nat) i j :
    lookup (i, j) (map (fun i => ((i, i), g i)) l) = if Nat.eqb i j && mem i l then Some (g i) else None.
  Proof.
    induction l as [|a l IH]; cbn [map lookup].
    - rewrite andb_false_r. reflexivity.
    - change (eqb (i, j) (a, a)) with (Nat.eqb i a && Nat.eqb j a). rewrite IH.
      change (mem i (a :: l)) with (Nat.eqb i a || mem i l).
      destruct (Nat.eqb i a) eqn:E1.
      + apply Nat.eqb_eq in E1. subst a. rewrite Nat.eqb_sym. cbn [andb orb].
        destruct (Nat.eqb i j) eqn:E2; [|reflexivity]. reflexivity.
      + reflexivity.
  Qed.

  Lemma cinv_X0 :
    cinv (map (fun i => ((i, i), dedup (cyk_base G (nth i w 0)))) (seq 0 (length w))) (cdone 1 0).
  Proof.
    intros i j. rewrite lookup_diag. split.
    - intros Hd. assert (j = i /\ i < length w) as [-> Hi] by (unfold cdone in Hd; lia).
      rewrite Nat.eqb_refl. replace (mem i (seq 0 (length w))) with true
        by (symmetry; apply mem_In, in_seq; lia).
      eexists. split; [reflexivity|]. intros A. rewrite dedup_In, cyk_base_spec, subword_diag by exact Hi.
      rewrite cnf_yields_single. tauto.
    - intros Hd. destruct (Nat.eqb i j) eqn:E1; [|reflexivity]. apply Nat.eqb_eq in E1. subst j.
      destruct (mem i (seq 0 (length w))) eqn:E2; [|reflexivity]. apply mem_In, in_seq in E2.
      exfalso. apply Hd. unfold cdone. lia.
  Qed.

  Lemma cinv_cyk : cinv (cyk G w) (fun i j => i <= j /\ j < length w).
  Proof.
    unfold cyk. apply cinv_ext with (D := cdone (1 + (length w - 1)) 0); [intros i j; unfold cdone; lia|].
    apply cinv_rows; [lia | exact cinv_X0].
  Qed.
End CNF.

Theorem cyk_cell_exact G w i j A : is_chomsky G -> cfg_wf G -> i <= j -> j < length w ->
  (In A (cget (cyk G w) i j) <-> In A (gV G) /\ yields G (Var A) (subword w i j)).
Proof.
  intros Hc Hwf Hij Hj.
  apply (cinv_cget G w _ _ i j (cinv_cyk G Hc Hwf w)). split; assumption.
Qed.

Theorem cnf_accepts_yields G w : is_chomsky G -> cfg_wf G -> (cnf_accepts G w = true <-> yields G (Var (gS G)) w).
Proof.
  intros Hc Hwf. destruct w as [|a w].
  - cbn [cnf_accepts]. rewrite has_rule_b_spec. split.
    + intros Hr. econstructor; [exact Hr | constructor].
    + intros Hy. apply (chomsky_nullable G _ Hc Hy).
  - cbn [cnf_accepts]. rewrite mem_In, cyk_cell_exact by (cbn [length]; assumption || lia).
    rewrite subword_full. split; [tauto|]. intros Hy. split; [|exact Hy].
    apply yields_var_inv in Hy. destruct Hy as [rhs [[r [Hin [Hv _]]] _]]. rewrite <- Hv. apply (Hwf r Hin).
Qed.

Theorem cnf_accepts_correct G w : is_chomsky G -> cfg_wf G -> (cnf_accepts G w = true <-> cfg_lang G w).
Proof. intros Hc Hwf. rewrite derives_yields. apply cnf_accepts_yields; assumption. Qed.

Print Assumptions cyk_cell_exact.
Print Assumptions cnf_accepts_correct.
