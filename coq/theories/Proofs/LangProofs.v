(* Membership characterisations of the finite-language helpers of Model/Lang.v. *)
From GT Require Import Base.Prelude Model.Lang.

Theorem l_reverse_spec (L : list word) (w : word) : In w (l_reverse L) <-> In (rev w) L.
Proof.
  unfold l_reverse. rewrite in_map_iff. split.
  - intros [x [Hx Hi]]. subst w. rewrite rev_involutive. exact Hi.
  - intros Hi. exists (rev w). split; [apply rev_involutive | exact Hi].
Qed.

Theorem l_concatenation_spec (L1 L2 : list word) (w : word) :
  In w (l_concatenation L1 L2) <-> exists u v, In u L1 /\ In v L2 /\ w = u ++ v.
Proof.
  unfold l_concatenation. rewrite in_flat_map. split.
  - intros [u [Hu Hw]]. apply in_map_iff in Hw. destruct Hw as [v [Hv Hi]].
    exists u, v. auto.
  - intros [u [v [Hu [Hv Hw]]]]. exists u. split; [exact Hu|].
    apply in_map_iff. exists v. auto.
Qed.

Theorem l_union_spec (L1 L2 : list word) (w : word) : In w (l_union L1 L2) <-> In w L1 \/ In w L2.
Proof. unfold l_union. apply union_In. Qed.

Theorem l_intersection_spec (L1 L2 : list word) (w : word) : In w (l_intersection L1 L2) <-> In w L1 /\ In w L2.
Proof. unfold l_intersection. apply inter_In. Qed.

Theorem l_symmetric_difference_spec (L1 L2 : list word) (w : word) :
  In w (l_symmetric_difference L1 L2) <-> (In w L1 /\ ~ In w L2) \/ (In w L2 /\ ~ In w L1).
Proof. unfold l_symmetric_difference. rewrite in_app_iff, !diff_In. tauto. Qed.

Theorem l_words_of_length_n_spec (Sg : list nat) (n : nat) (w : word) :
  In w (l_words_of_length_n Sg n) <-> length w = n /\ Forall (fun a => In a Sg) w.
Proof. unfold l_words_of_length_n. apply words_of_length_spec. Qed.

Theorem l_words_up_to_n_spec (Sg : list nat) (n : nat) (w : word) :
  In w (l_words_up_to_n Sg n) <-> length w <= n /\ Forall (fun a => In a Sg) w.
Proof. unfold l_words_up_to_n. apply words_upto_spec. Qed.

Lemma has_prefix_in_spec (L : list word) (w : word) :
  has_prefix_in L w = true <-> exists i, i < length w /\ In (firstn i w) L.
Proof.
  unfold has_prefix_in. rewrite existsb_exists. split.
  - intros [i [Hi Hm]]. apply in_seq in Hi. apply mem_In in Hm. exists i. split; [lia | exact Hm].
  - intros [i [Hi Hm]]. exists i. split; [apply in_seq; lia | apply mem_In; exact Hm].
Qed.

Theorem l_no_prefix_spec (L : list word) (w : word) :
  In w (l_no_prefix L) <-> In w L /\ forall i, i < length w -> ~ In (firstn i w) L.
Proof.
  unfold l_no_prefix. rewrite filter_In, negb_true_iff. split.
  - intros [Hw Hp]. split; [exact Hw|]. intros i Hi Hc.
    assert (Ht : has_prefix_in L w = true) by (apply has_prefix_in_spec; exists i; auto).
    congruence.
  - intros [Hw Hp]. split; [exact Hw|].
    destruct (has_prefix_in L w) eqn:E; [|reflexivity].
    apply has_prefix_in_spec in E. destruct E as [i [Hi Hc]]. exfalso. exact (Hp i Hi Hc).
Qed.

Lemma is_prefix_spec (v : word) : forall w, is_prefix v w = true <-> exists u, w = v ++ u.
Proof.
  induction v as [|a v IH]; intros w.
  - cbn [is_prefix]. split; [intros _; exists w; reflexivity | reflexivity].
  - destruct w as [|b w]; cbn [is_prefix].
    + split; [discriminate | intros [u Hu]; discriminate].
    + rewrite andb_true_iff, Nat.eqb_eq, IH. split.
      * intros [-> [u ->]]. exists u. reflexivity.
      * intros [u Hu]. cbn in Hu. inversion Hu. split; [reflexivity | exists u; reflexivity].
Qed.

Lemma is_proper_prefix_spec (w v : word) :
  is_proper_prefix w v = true <-> exists u, u <> [] /\ v = w ++ u.
Proof.
  unfold is_proper_prefix. rewrite andb_true_iff, negb_true_iff, is_prefix_spec. split.
  - intros [[u Hu] Hne]. exists u. split; [|exact Hu].
    intros ->. rewrite app_nil_r in Hu. subst v.
    assert (Ht : eqb w w = true) by apply eqb_refl. congruence.
  - intros [u [Hne Hu]]. split; [exists u; exact Hu|].
    apply eqb_neq. intros Hc. subst v. apply Hne.
    apply (app_inv_head w). rewrite app_nil_r. exact Hc.
Qed.

Theorem l_no_extend_spec (L : list word) (w : word) :
  In w (l_no_extend L) <-> In w L /\ forall v, In v L -> ~ (exists u, u <> [] /\ v = w ++ u).
Proof.
  unfold l_no_extend. rewrite filter_In, forallb_forall. split.
  - intros [Hw Hf]. split; [exact Hw|]. intros v Hv Hc.
    specialize (Hf v Hv). apply negb_true_iff in Hf.
    apply is_proper_prefix_spec in Hc. congruence.
  - intros [Hw Hf]. split; [exact Hw|]. intros v Hv. apply negb_true_iff.
    destruct (is_proper_prefix w v) eqn:E; [|reflexivity].
    apply is_proper_prefix_spec in E. exfalso. exact (Hf v Hv E).
Qed.
