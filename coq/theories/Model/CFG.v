(* Model of gambatools.cfg: grammars, the specification of derivations, CFG.is_valid, CFG.is_chomsky.
   A symbol is (is_variable, name); names are nat codes (the harness maps Python strings injectively).
   A rule carries the identity of its Alternative object (`rid`): two rules with the same rid share one
   Alternative, so an in-place change of its symbols is seen by both (created by unit-rule elimination). *)
From GT Require Import Base.Prelude.

Definition sym := (bool * nat)%type.           (* (true, A) = Variable A ; (false, a) = Terminal a *)
Definition Var (A : nat) : sym := (true, A).
Definition Tm (a : nat) : sym := (false, a).
Definition is_var (x : sym) : bool := fst x.
Definition sname (x : sym) : nat := snd x.

Record rule := mkRule { rvar : nat; rid : nat; rrhs : list sym }.
Record cfg := mkCFG { gV : list nat; gSg : list nat; gR : list rule; gS : nat }.

Definition rule_eqb (r1 r2 : rule) : bool := Nat.eqb (rvar r1) (rvar r2) && eqb (rrhs r1) (rrhs r2).   (* Rule.__eq__ ignores identity *)
Definition has_rule (G : cfg) (A : nat) (rhs : list sym) : Prop := exists r, In r (gR G) /\ rvar r = A /\ rrhs r = rhs.
Definition has_rule_b (R : list rule) (A : nat) (rhs : list sym) : bool := existsb (fun r => Nat.eqb (rvar r) A && eqb (rrhs r) rhs) R.

(* ---- specification: derivations on sentential forms, and parse trees ---- *)
Inductive derives (G : cfg) : list sym -> list sym -> Prop :=
| d_refl u : derives G u u
| d_step u A v rhs t : has_rule G A rhs -> derives G (u ++ rhs ++ v) t -> derives G (u ++ Var A :: v) t.
Definition tword (w : word) : list sym := map Tm w.
Definition cfg_lang (G : cfg) (w : word) : Prop := derives G [Var (gS G)] (tword w).

(* yield of a parse tree rooted at a symbol: a terminal yields itself, a variable applies one of its rules *)
Inductive yields (G : cfg) : sym -> word -> Prop :=
| y_tm a : yields G (Tm a) [a]
| y_var A rhs w : has_rule G A rhs -> yields_list G rhs w -> yields G (Var A) w
with yields_list (G : cfg) : list sym -> word -> Prop :=
| yl_nil : yields_list G [] []
| yl_cons x xs w1 w2 : yields G x w1 -> yields_list G xs w2 -> yields_list G (x :: xs) (w1 ++ w2).

(* ---- CFG.is_valid ---- *)
Definition cfg_wf (G : cfg) : Prop :=
  forall r, In r (gR G) -> In (rvar r) (gV G) /\ forall x, In x (rrhs r) -> if is_var x then In (sname x) (gV G) else In (sname x) (gSg G).
Definition cfg_wf_b (G : cfg) : bool :=
  forallb (fun r => mem (rvar r) (gV G) && forallb (fun x => if is_var x then mem (sname x) (gV G) else mem (sname x) (gSg G)) (rrhs r)) (gR G).
(* rules sharing an Alternative object have the same right-hand side *)
Definition ids_consistent (R : list rule) : Prop := forall r1 r2, In r1 R -> In r2 R -> rid r1 = rid r2 -> rrhs r1 = rrhs r2.
Definition ids_consistent_b (R : list rule) : bool :=
  forallb (fun r1 => forallb (fun r2 => negb (Nat.eqb (rid r1) (rid r2)) || eqb (rrhs r1) (rrhs r2)) R) R.

(* ---- Alternative.is_chomsky, CFG.is_chomsky ---- *)
Definition alt_is_chomsky (rhs : list sym) : bool :=
  match rhs with
  | [] => true
  | [x] => negb (is_var x)
  | [x; y] => is_var x && is_var y
  | _ => false
  end.
Definition is_chomsky_b (G : cfg) : bool :=
  forallb (fun r => alt_is_chomsky (rrhs r) && negb (existsb (fun x => is_var x && Nat.eqb (sname x) (gS G)) (rrhs r))) (gR G) &&
  forallb (fun r => negb (match rrhs r with [] => true | _ => false end) || Nat.eqb (rvar r) (gS G)) (gR G).
Definition is_chomsky (G : cfg) : Prop :=
  forall r, In r (gR G) ->
    (rrhs r = [] /\ rvar r = gS G) \/
    (exists a, rrhs r = [Tm a]) \/
    (exists B C, rrhs r = [Var B; Var C] /\ B <> gS G /\ C <> gS G).
