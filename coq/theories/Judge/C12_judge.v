From GT Require Import Base.Prelude Base.Sort Model.DFA Model.NFA Model.DFAOps Model.Minimize Model.Lang Model.Regexp Model.CFG Model.Chomsky Model.CYK Model.Simulate Model.Checkers Judge.Common.

(* crit = the model checker's verdict on the parsed objects (proved to imply the exercise criterion);
   printed_ok = the real checker printed exactly "OK"; must_ok = the answer is the library's own (C13) *)
Definition verdict (crit printed_ok must_ok : bool) (c : nat) : nat :=
  if printed_ok && negb crit then c                 (* C12: OK for an answer that violates the criterion *)
  else if must_ok && negb printed_ok then c + 1     (* C13: the library's own answer was not accepted *)
  else if must_ok && negb crit then c + 2           (* C13: the model rejects the library's own answer *)
  else 0.
(* the answer text could not be parsed by the checker's parser: it must not print OK *)
Definition unparsed (printed_ok must_ok : bool) (c : nat) : nat := if printed_ok then c else if must_ok then c + 1 else 0.

Definition j_words (answer_words : option (list word)) (nstates max_states : nat) (words : list word) (p m : bool) : nat :=
  match answer_words with Some L => verdict (check_language_from_words L nstates max_states words) p m 10 | None => unparsed p m 10 end.
Definition j_dfa_words (D : option (dfa nat)) (n max_states : nat) (words : list word) (p m : bool) : nat :=
  match D with Some D => j_words (dfa_words D n) (length (dedup (dQ D))) max_states words p m | None => unparsed p m 10 end.
Definition j_nfa_words (N : option (nfa nat)) (n max_states : nat) (words : list word) (p m : bool) : nat :=
  match N with Some N => j_words (nfa_words N n) (length (dedup (nQ N))) max_states words p m | None => unparsed p m 10 end.
Definition j_re_words (r : option re) (n : nat) (words : list word) (p m : bool) : nat :=
  match r with Some r => j_words (Some (re_words r n)) 0 0 words p m | None => unparsed p m 10 end.
Definition j_accrej (G : option cfg) (stream : list nat) (acc rej : list word) (p m : bool) : nat :=
  match G with
  | Some G => match all_some (map (cfg_accepts (fun l => l) stream G) acc), all_some (map (cfg_accepts (fun l => l) stream G) rej) with
              | Some va, Some vr => verdict (check_accepts_rejects va vr) p m 20
              | _, _ => 1
              end
  | None => unparsed p m 20
  end.
Definition j_product (ptype n : nat) (D1 D2 : dfa nat) (ans : option (dfa (nat * nat))) (p m : bool) : nat :=
  match ans with Some A => verdict (check_dfa_product ptype n D1 D2 A) p m 30 | None => unparsed p m 30 end.
Definition j_complement (D1 : dfa nat) (ans : option (dfa nat)) (p m : bool) : nat :=
  match ans with Some A => verdict (check_dfa_complement D1 A) p m 40 | None => unparsed p m 40 end.
Definition j_reverse (n : nat) (D : dfa nat) (ans : option (nfa nat)) (p m : bool) : nat :=
  match ans with Some A => verdict (check_dfa_reverse n D A) p m 50 | None => unparsed p m 50 end.
Definition j_minimal (n : nat) (D : dfa nat) (ans : option (dfa nat)) (p m : bool) : nat :=
  match ans with Some A => verdict (check_dfa_minimal n D A) p m 60 | None => unparsed p m 60 end.
Definition j_nfa2dfa (N : nfa nat) (ans : option (nfa (list nat))) (p m : bool) : nat :=
  match ans with Some A => verdict (check_nfa_to_dfa N A) p m 70 | None => unparsed p m 70 end.
Definition j_dfa2regexp (n : nat) (D : dfa nat) (ans : option re) (p m : bool) : nat :=
  match ans with
  | Some r => match dfa_words D n with Some L => verdict (lang_ok (re_words r n) L) p m 80 | None => 1 end
  | None => unparsed p m 80
  end.
Definition j_cyk (G : cfg) (w : word) (rows : option (list (list (list nat)))) (p m : bool) : nat :=
  match rows with Some R => verdict (check_cyk_matrix G w R) p m 90 | None => unparsed p m 90 end.
Definition j_derivation (G : cfg) (mode : nat) (w : word) (steps : option (list (list sym))) (p m : bool) : nat :=
  match steps with Some st => verdict (check_cfg_derivation G mode w st) p m 100 | None => unparsed p m 100 end.
Definition j_chomsky (G : cfg) (G1 : option cfg) (phase start n : nat) (stream : list nat) (p m : bool) : nat :=
  match G1 with Some G1 => verdict (check_chomsky (fun l => l) stream G G1 phase start n) p m 110 | None => unparsed p m 110 end.
