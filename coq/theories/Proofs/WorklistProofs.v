(* Proofs about the generic worklist closure of Base/Worklist.v: soundness, completeness,
   duplicate-freeness and termination with explicit fuel. *)
From GT Require Import Base.Prelude Base.Worklist.
Set Implicit Arguments.

Lemma NoDup_app_intro {A} (l1 l2 : list A) :
  NoDup l1 -> NoDup l2 -> (forall x, In x l1 -> ~ In x l2) -> NoDup (l1 ++ l2).
Proof.
  induction l1 as [|a l1 IH]; intros H1 H2 Hd; cbn; [exact H2|].
  inversion H1 as [|a' l1' Hna Hnd]; subst.
  constructor.
  - rewrite in_app_iff. intros [Hc|Hc]; [contradiction|]. apply (Hd a); [left; reflexivity | exact Hc].
  - apply IH; auto. intros x Hx. apply Hd. right; exact Hx.
Qed.

Section P.
  Context {A : Type} `{Eqb A}.
  Variable succ : A -> list A.

  Lemma add_new_spec ys : forall result todo r t, add_new ys result todo = (r, t) ->
    exists new, r = result ++ new /\ t = todo ++ new /\ NoDup new /\
      forall z, In z new <-> In z ys /\ ~ In z result.
  Proof.
    induction ys as [|y ys IH]; intros result todo r t E; cbn [add_new] in E.
    - inversion E; subst. exists []. rewrite !app_nil_r.
      split; [reflexivity|]. split; [reflexivity|]. split; [constructor|]. intros z; cbn; tauto.
    - destruct (mem y result) eqn:Hm.
      + apply mem_In in Hm. destruct (IH _ _ _ _ E) as (new & Hr & Ht & Hnd & Hin).
        exists new. split; [exact Hr|]. split; [exact Ht|]. split; [exact Hnd|].
        intros z. rewrite Hin. cbn [In]. split.
        * intros [Hz Hn]. split; [right; exact Hz | exact Hn].
        * intros [[Hz|Hz] Hn]; [subst z; contradiction | split; assumption].
      + apply mem_nIn in Hm. destruct (IH _ _ _ _ E) as (new & Hr & Ht & Hnd & Hin).
        exists (y :: new). split; [rewrite Hr, <- app_assoc; reflexivity|].
        split; [rewrite Ht, <- app_assoc; reflexivity|]. split.
        * constructor; [|exact Hnd]. rewrite Hin. intros [_ Hc]. apply Hc. apply in_or_app. right. left. reflexivity.
        * intros z. cbn [In]. rewrite Hin, in_app_iff. cbn [In].
          destruct (eqb_dec z y) as [Hzy|Hne].
          -- subst z. split; [intros _; split; [left; reflexivity | exact Hm] | intros _; left; reflexivity].
          -- assert (Hne' : y <> z) by congruence. tauto.
  Qed.

  (* invariant: result sound; todo included in result; everything in result\todo has its successors in result *)
  Definition Inv (S0 result todo : list A) : Prop :=
    (forall x, In x S0 -> In x result) /\
    (forall x, In x result -> reach succ S0 x) /\
    (forall x, In x todo -> In x result) /\
    (forall x y, In x result -> ~ In x todo -> In y (succ x) -> In y result).

  Lemma Inv_step S0 result x rest new :
    Inv S0 result (x :: rest) ->
    (forall z, In z new <-> In z (succ x) /\ ~ In z result) ->
    Inv S0 (result ++ new) (rest ++ new).
  Proof.
    intros (I1 & I2 & I3 & I4) Hin. repeat split.
    - intros z Hz. apply in_or_app. left. apply I1; exact Hz.
    - intros z Hz. apply in_app_or in Hz. destruct Hz as [Hz|Hz]; [apply I2; exact Hz|].
      apply Hin in Hz. destruct Hz as [Hz _]. apply reachS with x; [|exact Hz]. apply I2, I3. left; reflexivity.
    - intros z Hz. apply in_or_app. apply in_app_or in Hz. destruct Hz as [Hz|Hz]; [left|right; exact Hz].
      apply I3. right; exact Hz.
    - intros u v Hu Hnu Hv. apply in_or_app.
      assert (Hsx : forall z, In z (succ x) -> In z result \/ In z new).
      { intros z Hz. destruct (mem z result) eqn:Hm; [left; apply mem_In; exact Hm|].
        right. apply Hin. split; [exact Hz | apply mem_nIn; exact Hm]. }
      apply in_app_or in Hu. destruct Hu as [Hu|Hu].
      + destruct (eqb_dec u x) as [Hux|Hux].
        * subst u. apply Hsx; exact Hv.
        * left. apply I4 with u; auto. intros [Hc|Hc]; [congruence|].
          apply Hnu. apply in_or_app. left; exact Hc.
      + exfalso. apply Hnu. apply in_or_app. right; exact Hu.
  Qed.

  Lemma closure_loop_inv S0 fuel : forall result todo r,
    Inv S0 result todo -> NoDup result -> closure_loop succ fuel result todo = Some r ->
    (forall x, In x r <-> reach succ S0 x) /\ NoDup r.
  Proof.
    induction fuel as [|f IH]; intros result todo r HI Hnd E; cbn [closure_loop] in E; [discriminate|].
    destruct todo as [|x rest].
    - inversion E; subst r. destruct HI as (I1 & I2 & I3 & I4). split; [|exact Hnd].
      intros x. split; [apply I2|]. intros Hr. induction Hr as [x Hx|x y Hr IHr Hy].
      + apply I1; exact Hx.
      + apply I4 with x; auto.
    - destruct (add_new (succ x) result rest) as [r' t'] eqn:Ha.
      destruct (add_new_spec _ _ _ Ha) as (new & -> & -> & Hndn & Hin).
      assert (HI' : Inv S0 (result ++ new) (rest ++ new)) by (eapply Inv_step; eassumption).
      apply (IH _ _ _ HI'); [|exact E].
      apply NoDup_app_intro; auto. intros z Hz Hc. apply Hin in Hc. tauto.
  Qed.

  Lemma Inv_init init : Inv init (dedup init) (dedup init).
  Proof.
    repeat split.
    - intros x Hx. apply dedup_In; exact Hx.
    - intros x Hx. apply reach0. rewrite <- dedup_In. exact Hx.
    - auto.
    - intros x y Hx Hn. contradiction.
  Qed.

  Theorem closure_sound_complete : forall fuel init r, closure succ fuel init = Some r ->
    forall x, In x r <-> reach succ init x.
  Proof.
    intros fuel init r E. unfold closure in E.
    apply (@closure_loop_inv init fuel _ _ _ (Inv_init init) (dedup_NoDup init) E).
  Qed.

  Theorem closure_NoDup : forall fuel init r, closure succ fuel init = Some r -> NoDup r.
  Proof.
    intros fuel init r E. unfold closure in E.
    apply (@closure_loop_inv init fuel _ _ _ (Inv_init init) (dedup_NoDup init) E).
  Qed.

  Lemma closure_loop_term (U : list A) S0 :
    (forall x, reach succ S0 x -> In x U) ->
    forall fuel result todo, Inv S0 result todo -> NoDup result ->
      length U + length todo - length result < fuel ->
      closure_loop succ fuel result todo <> None.
  Proof.
    intros HU. induction fuel as [|f IH]; intros result todo HI Hnd Hf; [lia|].
    cbn [closure_loop]. destruct todo as [|x rest]; [discriminate|].
    destruct (add_new (succ x) result rest) as [r' t'] eqn:Ha.
    destruct (add_new_spec _ _ _ Ha) as (new & -> & -> & Hndn & Hin).
    assert (HI' : Inv S0 (result ++ new) (rest ++ new)) by (eapply Inv_step; eassumption).
    assert (Hnd' : NoDup (result ++ new)).
    { apply NoDup_app_intro; auto. intros z Hz Hc. apply Hin in Hc. tauto. }
    apply IH; auto.
    assert (Hle : length (result ++ new) <= length U).
    { apply NoDup_incl_length; [exact Hnd'|]. intros z Hz. apply HU. destruct HI' as (_ & I2 & _). apply I2; exact Hz. }
    rewrite !app_length in *. cbn [length] in Hf. lia.
  Qed.

  (* termination: if everything reachable lies in a finite universe U, fuel 2*|U|+2 (or any larger) suffices
     (in fact |U|+1 suffices) *)
  Theorem closure_terminates_tight : forall (U : list A) init fuel,
    (forall x, reach succ init x -> In x U) -> length U + 1 <= fuel -> closure succ fuel init <> None.
  Proof.
    intros U init fuel HU Hf. unfold closure.
    apply (@closure_loop_term U init HU fuel _ _ (Inv_init init) (dedup_NoDup init)). lia.
  Qed.

  Theorem closure_terminates : forall (U : list A) init fuel,
    (forall x, reach succ init x -> In x U) -> 2 * length U + 2 <= fuel -> closure succ fuel init <> None.
  Proof.
    intros U init fuel HU Hf. apply (@closure_terminates_tight U init fuel HU). lia.
  Qed.
End P.

Print Assumptions closure_sound_complete.
Print Assumptions closure_NoDup.
Print Assumptions closure_terminates.
