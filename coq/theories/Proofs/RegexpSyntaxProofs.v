(* Proofs about Model/RegexpSyntax.v:
     - the reference parser of the simple syntax inverts print_simple on left-associated expressions,
     - every expression has a left-associated normal form with the same printed text and the same language,
     - hence print_simple r re-parses to an expression with the same text and the same language (C16),
     - print_full is injective (prefix-free). *)
From GT Require Import Base.Prelude Model.Regexp Model.RegexpSyntax Proofs.RegexpProofs.

(* the text of an operand of an operator of precedence k *)
Definition print_at (k : nat) (r : re) : list nat := paren (Nat.ltb (prec r) k) (print_simple r).

(* nesting depth of the parentheses in print_simple r / print_at k r *)
Fixpoint pdepth (r : re) : nat :=
  match r with
  | Zero | One | Sym _ => 0
  | Star x => if Nat.ltb (prec x) 9 then S (pdepth x) else pdepth x
  | Sum l x => Nat.max (pdepth l) (pdepth x)
  | Cat l x => Nat.max (if Nat.ltb (prec l) 8 then S (pdepth l) else pdepth l)
                       (if Nat.ltb (prec x) 8 then S (pdepth x) else pdepth x)
  end.
Definition pd (k : nat) (r : re) : nat := if Nat.ltb (prec r) k then S (pdepth r) else pdepth r.

Lemma print_at_7 r : print_at 7 r = print_simple r.
Proof. destruct r; reflexivity. Qed.

Lemma print_at_lo k r : prec r < k -> print_at k r = c_lpar :: print_simple r ++ [c_rpar].
Proof. intros H. unfold print_at, paren. apply Nat.ltb_lt in H. rewrite H. reflexivity. Qed.

Lemma pd_lo k r : prec r < k -> pd k r = S (pdepth r).
Proof. intros H. unfold pd. apply Nat.ltb_lt in H. rewrite H. reflexivity. Qed.

Lemma noncat_89 r : is_cat r = false -> print_at 8 r = print_at 9 r /\ pd 8 r = pd 9 r.
Proof. destruct r; intros H; try discriminate; split; reflexivity. Qed.

Lemma nonsum_8 r : is_sum r = false -> print_simple r = print_at 8 r /\ pdepth r = pd 8 r.
Proof. destruct r; intros H; try discriminate; split; reflexivity. Qed.

Lemma pdepth_length r : pdepth r <= length (print_simple r).
Proof.
  induction r as [| |a|l IHl x IHx|l IHl x IHx|x IHx]; cbn [pdepth print_simple]; unfold paren;
    repeat match goal with |- context [if ?c then _ else _] => destruct c end;
    cbn [length app]; rewrite ?app_length; cbn [length app]; rewrite ?app_length; cbn [length]; lia.
Qed.

(* ---- first characters ---- *)
Lemma print_simple_hd r : symbols_ok r -> exists c t, print_simple r = c :: t /\ atom_start c = true.
Proof.
  induction r as [| |a|l IHl x IHx|l IHl x IHx|x IHx]; intros Hs.
  - exists c_0, []. split; reflexivity.
  - exists c_1, []. split; reflexivity.
  - exists a, []. split; [reflexivity|]. cbn [symbols_ok] in Hs. unfold atom_start. rewrite Hs. reflexivity.
  - destruct Hs as [Hl _]. destruct (IHl Hl) as [c [t [E Hc]]]. cbn [print_simple]. unfold paren.
    destruct (Nat.ltb (prec l) 7).
    + exists c_lpar. eexists. split; [reflexivity | reflexivity].
    + rewrite E. exists c. eexists. split; [reflexivity | exact Hc].
  - destruct Hs as [Hl _]. destruct (IHl Hl) as [c [t [E Hc]]]. cbn [print_simple]. unfold paren.
    destruct (Nat.ltb (prec l) 8).
    + exists c_lpar. eexists. split; [reflexivity | reflexivity].
    + rewrite E. exists c. eexists. split; [reflexivity | exact Hc].
  - cbn [symbols_ok] in Hs. destruct (IHx Hs) as [c [t [E Hc]]]. cbn [print_simple]. unfold paren.
    destruct (Nat.ltb (prec x) 9).
    + exists c_lpar. eexists. split; [reflexivity | reflexivity].
    + rewrite E. exists c. eexists. split; [reflexivity | exact Hc].
Qed.

Lemma print_at_hd k r : symbols_ok r -> exists c t, print_at k r = c :: t /\ atom_start c = true.
Proof.
  intros Hs. unfold print_at, paren. destruct (Nat.ltb (prec r) k).
  - exists c_lpar. eexists. split; reflexivity.
  - apply print_simple_hd. exact Hs.
Qed.

Lemma atom_start_nostar c : atom_start c = true -> Nat.eqb c c_star = false.
Proof.
  intros H. destruct (Nat.eqb c c_star) eqn:E; [|reflexivity].
  apply Nat.eqb_eq in E. subst c. vm_compute in H. discriminate.
Qed.

(* ---- follow conditions ---- *)
Definition nostar (rest : list nat) : Prop :=
  match rest with [] => True | c :: _ => Nat.eqb c c_star = false end.
Definition cat_end (rest : list nat) : Prop :=
  match rest with [] => True | c :: _ => Nat.eqb c c_star = false /\ atom_start c = false end.
Definition sum_end (rest : list nat) : Prop :=
  match rest with [] => True | c :: _ => Nat.eqb c c_star = false /\ atom_start c = false /\ Nat.eqb c c_plus = false end.

Lemma cat_end_nostar rest : cat_end rest -> nostar rest.
Proof. destruct rest as [|c t]; cbn; tauto. Qed.
Lemma sum_end_cat_end rest : sum_end rest -> cat_end rest.
Proof. destruct rest as [|c t]; cbn; tauto. Qed.
Lemma sum_end_rpar rest : sum_end (c_rpar :: rest).
Proof. cbn. repeat split; reflexivity. Qed.

Section LevelProofs.
  Variable inner : list nat -> option (re * list nat).
  Variable F : nat.
  Hypothesis Hinner : forall x rest, symbols_ok x -> left_normal x -> pdepth x < F ->
    inner (print_simple x ++ c_rpar :: rest) = Some (x, c_rpar :: rest).

  Lemma p_atom_paren s x rest : inner s = Some (x, c_rpar :: rest) -> p_atom inner (c_lpar :: s) = Some (x, rest).
  Proof.
    intros E. unfold p_atom.
    change (is_symbol_code c_lpar) with false. change (Nat.eqb c_lpar c_0) with false.
    change (Nat.eqb c_lpar c_1) with false. change (Nat.eqb c_lpar c_lpar) with true. cbv iota.
    rewrite E. change (Nat.eqb c_rpar c_rpar) with true. reflexivity.
  Qed.

  Lemma star_loop_nostar r rest : nostar rest -> star_loop r rest = (r, rest).
  Proof. destruct rest as [|c t]; cbn [nostar star_loop]; [reflexivity|]. intros H. rewrite H. reflexivity. Qed.

  Lemma cat_loop_end n acc rest : cat_end rest -> cat_loop inner n acc rest = Some (acc, rest).
  Proof. destruct n, rest as [|c t]; cbn [cat_end cat_loop]; try reflexivity; intros [_ H]; rewrite H; reflexivity. Qed.

  Lemma sum_loop_end n acc rest : sum_end rest -> sum_loop inner n acc rest = Some (acc, rest).
  Proof. destruct n, rest as [|c t]; cbn [sum_end sum_loop]; try reflexivity; intros [_ [_ H]]; rewrite H; reflexivity. Qed.

  Lemma star_paren r rest : symbols_ok r -> left_normal r -> prec r < 9 -> pd 9 r <= F ->
    p_star inner (print_at 9 r ++ rest) = Some (star_loop r rest).
  Proof.
    intros Hs Hn Hp Hd. rewrite (print_at_lo 9 r Hp). rewrite (pd_lo 9 r Hp) in Hd.
    unfold p_star. cbn [app]. rewrite <- app_assoc. cbn [app].
    rewrite (p_atom_paren (print_simple r ++ c_rpar :: rest) r rest); [reflexivity|].
    apply Hinner; [exact Hs | exact Hn | lia].
  Qed.

  Lemma star_level r : symbols_ok r -> left_normal r -> pd 9 r <= F ->
    forall rest, p_star inner (print_at 9 r ++ rest) = Some (star_loop r rest).
  Proof.
    induction r as [| |a|l IHl x IHx|l IHl x IHx|x IHx]; intros Hs Hn Hd rest.
    - reflexivity.
    - reflexivity.
    - change (print_at 9 (Sym a)) with [a]. cbn [symbols_ok] in Hs. unfold p_star, p_atom. cbn [app]. rewrite Hs. reflexivity.
    - apply star_paren; [exact Hs | exact Hn | cbn [prec]; lia | exact Hd].
    - apply star_paren; [exact Hs | exact Hn | cbn [prec]; lia | exact Hd].
    - change (print_at 9 (Star x)) with (print_at 9 x ++ [c_star]). rewrite <- app_assoc.
      change (pd 9 (Star x)) with (pd 9 x) in Hd.
      rewrite (IHx Hs Hn Hd). reflexivity.
  Qed.

  Lemma cat_level r : symbols_ok r -> left_normal r -> pd 8 r <= F ->
    forall rest, nostar rest ->
    exists n, length rest <= n /\ p_cat inner (print_at 8 r ++ rest) = cat_loop inner n r rest.
  Proof.
    assert (Hnc : forall r, is_cat r = false -> symbols_ok r -> left_normal r -> pd 8 r <= F ->
              forall rest, nostar rest -> p_cat inner (print_at 8 r ++ rest) = cat_loop inner (length rest) r rest).
    { intros r0 Hc Hs Hn Hd rest Hr. destruct (noncat_89 r0 Hc) as [E1 E2]. rewrite E1. rewrite E2 in Hd.
      unfold p_cat. rewrite (star_level r0 Hs Hn Hd), (star_loop_nostar r0 rest Hr). reflexivity. }
    induction r as [| |a|l IHl x IHx|l IHl x IHx|x IHx]; intros Hs Hn Hd rest Hr;
      try (exists (length rest); split; [apply Nat.le_refl | apply Hnc; [reflexivity | assumption ..]]).
    destruct Hs as [Hsl Hsx]. destruct Hn as [Hnl [Hnx Hcx]].
    change (print_at 8 (Cat l x)) with (print_at 8 l ++ print_at 8 x). rewrite <- app_assoc.
    change (pd 8 (Cat l x)) with (Nat.max (pd 8 l) (pd 8 x)) in Hd.
    destruct (noncat_89 x Hcx) as [E1 E2]. rewrite E1. rewrite E2 in Hd.
    destruct (print_at_hd 9 x Hsx) as [c [t [Eh Hc]]].
    assert (Hr' : nostar (print_at 9 x ++ rest)).
    { rewrite Eh. cbn [app nostar]. apply atom_start_nostar. exact Hc. }
    destruct (IHl Hsl Hnl ltac:(lia) _ Hr') as [n [Hlen E]]. rewrite E.
    rewrite app_length, Eh in Hlen. cbn [length] in Hlen.
    destruct n as [|n]; [lia|].
    exists n. split; [lia|].
    assert (Estep : cat_loop inner (S n) l (print_at 9 x ++ rest) =
                    match p_star inner (print_at 9 x ++ rest) with
                    | Some (r1, rest1) => cat_loop inner n (Cat l r1) rest1
                    | None => None
                    end).
    { rewrite Eh. cbn [app cat_loop]. rewrite Hc. reflexivity. }
    rewrite Estep. rewrite (star_level x Hsx Hnx ltac:(lia)), (star_loop_nostar x rest Hr). reflexivity.
  Qed.

  Lemma sum_level r : symbols_ok r -> left_normal r -> pdepth r <= F ->
    forall rest, cat_end rest ->
    exists n, length rest <= n /\ p_sum_level inner (print_simple r ++ rest) = sum_loop inner n r rest.
  Proof.
    assert (Hns : forall r, is_sum r = false -> symbols_ok r -> left_normal r -> pdepth r <= F ->
              forall rest, cat_end rest -> p_cat inner (print_simple r ++ rest) = Some (r, rest)).
    { intros r0 Hc Hs Hn Hd rest Hr. destruct (nonsum_8 r0 Hc) as [E1 E2]. rewrite E1. rewrite E2 in Hd.
      destruct (cat_level r0 Hs Hn Hd rest (cat_end_nostar _ Hr)) as [n [_ E]]. rewrite E. apply cat_loop_end. exact Hr. }
    induction r as [| |a|l IHl x IHx|l IHl x IHx|x IHx]; intros Hs Hn Hd rest Hr;
      try (exists (length rest); split; [apply Nat.le_refl |
             unfold p_sum_level; rewrite Hns; [reflexivity | reflexivity | assumption ..]]).
    destruct Hs as [Hsl Hsx]. destruct Hn as [Hnl [Hnx Hcx]].
    change (print_simple (Sum l x)) with (print_at 7 l ++ [c_plus] ++ print_at 7 x).
    rewrite !print_at_7. rewrite <- !app_assoc. cbn [pdepth] in Hd.
    assert (Hr' : cat_end ([c_plus] ++ print_simple x ++ rest)).
    { cbn [app cat_end]. split; reflexivity. }
    destruct (IHl Hsl Hnl ltac:(lia) _ Hr') as [n [Hlen E]]. rewrite E.
    cbn [app length] in Hlen. rewrite app_length in Hlen.
    destruct n as [|n]; [lia|].
    exists n. split; [lia|].
    cbn [app sum_loop]. change (Nat.eqb c_plus c_plus) with true. cbv iota.
    rewrite (Hns x Hcx Hsx Hnx ltac:(lia) rest Hr). reflexivity.
  Qed.
End LevelProofs.

Lemma p_sum_unfold F s : p_sum F s = p_sum_level (match F with 0 => fun _ => None | S f => p_sum f end) s.
Proof. destruct F; reflexivity. Qed.

Lemma p_sum_correct : forall F x rest, symbols_ok x -> left_normal x -> pdepth x <= F -> sum_end rest ->
  p_sum F (print_simple x ++ rest) = Some (x, rest).
Proof.
  induction F as [|F IH]; intros x rest Hs Hn Hd Hr; rewrite p_sum_unfold.
  - assert (Hin : forall y rest', symbols_ok y -> left_normal y -> pdepth y < 0 ->
                    (fun _ : list nat => @None (re * list nat)) (print_simple y ++ c_rpar :: rest') = Some (y, c_rpar :: rest')).
    { intros y rest' _ _ Hlt. lia. }
    destruct (sum_level (fun _ => None) 0 Hin x Hs Hn Hd rest (sum_end_cat_end _ Hr)) as [n [_ E]]. rewrite E.
    apply sum_loop_end. exact Hr.
  - assert (Hin : forall y rest', symbols_ok y -> left_normal y -> pdepth y < S F ->
                    p_sum F (print_simple y ++ c_rpar :: rest') = Some (y, c_rpar :: rest')).
    { intros y rest' Hsy Hny Hlt. apply IH; [exact Hsy | exact Hny | lia | apply sum_end_rpar]. }
    destruct (sum_level (p_sum F) (S F) Hin x Hs Hn Hd rest (sum_end_cat_end _ Hr)) as [n [_ E]]. rewrite E.
    apply sum_loop_end. exact Hr.
Qed.

(* the reference parser inverts the printer on left-associated expressions *)
Theorem parse_print_simple_left_normal : forall r, symbols_ok r -> left_normal r ->
  parse_simple (print_simple r) = Some r.
Proof.
  intros r Hs Hn. unfold parse_simple.
  pose proof (p_sum_correct (length (print_simple r)) r [] Hs Hn (pdepth_length r) I) as E.
  rewrite app_nil_r in E. rewrite E. reflexivity.
Qed.

(* ---- the left-associated normal form ---- *)
Lemma sum_app_is_sum l b : is_sum (sum_app l b) = true /\ prec (sum_app l b) = 7.
Proof. destruct b; split; reflexivity. Qed.
Lemma cat_app_is_cat l b : is_cat (cat_app l b) = true /\ prec (cat_app l b) = 8.
Proof. destruct b; split; reflexivity. Qed.

Lemma print_sum_app l b : print_simple (sum_app l b) = print_simple l ++ [c_plus] ++ print_simple b.
Proof.
  assert (Hb : forall l b, print_simple (Sum l b) = print_simple l ++ [c_plus] ++ print_simple b).
  { intros l0 b0. change (print_simple (Sum l0 b0)) with (print_at 7 l0 ++ [c_plus] ++ print_at 7 b0).
    rewrite !print_at_7. reflexivity. }
  induction b as [| |a|b1 IH1 b2 IH2|b1 IH1 b2 IH2|b1 IH1]; cbn [sum_app]; try apply Hb.
  rewrite !Hb, IH1. rewrite <- !app_assoc. reflexivity.
Qed.

Lemma print_cat_app l b : print_simple (cat_app l b) = print_at 8 l ++ print_at 8 b.
Proof.
  induction b as [| |a|b1 IH1 b2 IH2|b1 IH1 b2 IH2|b1 IH1]; cbn [cat_app]; try reflexivity.
  change (print_simple (Cat (cat_app l b1) b2)) with (print_at 8 (cat_app l b1) ++ print_at 8 b2).
  change (print_at 8 (Cat b1 b2)) with (print_at 8 b1 ++ print_at 8 b2).
  assert (E : print_at 8 (cat_app l b1) = print_simple (cat_app l b1)).
  { unfold print_at. destruct (cat_app_is_cat l b1) as [_ Ep]. rewrite Ep. reflexivity. }
  rewrite E, IH1, <- app_assoc. reflexivity.
Qed.

Lemma lassoc_prec r : prec (lassoc r) = prec r.
Proof.
  destruct r; try reflexivity; cbn [lassoc].
  - apply sum_app_is_sum.
  - apply cat_app_is_cat.
Qed.

Theorem lassoc_print : forall r, print_simple (lassoc r) = print_simple r.
Proof.
  assert (Hat : forall k r, print_simple (lassoc r) = print_simple r -> print_at k (lassoc r) = print_at k r).
  { intros k r E. unfold print_at. rewrite lassoc_prec, E. reflexivity. }
  induction r as [| |a|l IHl x IHx|l IHl x IHx|x IHx]; try reflexivity; cbn [lassoc].
  - rewrite print_sum_app, IHl, IHx.
    change (print_simple (Sum l x)) with (print_at 7 l ++ [c_plus] ++ print_at 7 x). rewrite !print_at_7. reflexivity.
  - rewrite print_cat_app, (Hat 8 l IHl), (Hat 8 x IHx). reflexivity.
  - change (print_simple (Star (lassoc x))) with (print_at 9 (lassoc x) ++ [c_star]).
    rewrite (Hat 9 x IHx). reflexivity.
Qed.

Lemma ln_sum l b : is_sum b = false -> left_normal l -> left_normal b -> left_normal (Sum l b).
Proof. intros H1 H2 H3. cbn [left_normal]. auto. Qed.
Lemma ln_cat l b : is_cat b = false -> left_normal l -> left_normal b -> left_normal (Cat l b).
Proof. intros H1 H2 H3. cbn [left_normal]. auto. Qed.

Lemma sum_app_normal l b : left_normal l -> left_normal b -> left_normal (sum_app l b).
Proof.
  intros Hl. induction b as [| |a|b1 IH1 b2 IH2|b1 IH1 b2 IH2|b1 IH1]; intros Hb; cbn [sum_app];
    try (apply ln_sum; [reflexivity | assumption | assumption]).
  cbn [left_normal] in Hb. destruct Hb as [H1 [H2 H3]]. cbn [left_normal]. repeat split; [apply IH1; exact H1 | exact H2 | exact H3].
Qed.

Lemma cat_app_normal l b : left_normal l -> left_normal b -> left_normal (cat_app l b).
Proof.
  intros Hl. induction b as [| |a|b1 IH1 b2 IH2|b1 IH1 b2 IH2|b1 IH1]; intros Hb; cbn [cat_app];
    try (apply ln_cat; [reflexivity | assumption | assumption]).
  cbn [left_normal] in Hb. destruct Hb as [H1 [H2 H3]]. cbn [left_normal]. repeat split; [apply IH1; exact H1 | exact H2 | exact H3].
Qed.

Theorem lassoc_normal : forall r, left_normal (lassoc r).
Proof.
  induction r as [| |a|l IHl x IHx|l IHl x IHx|x IHx]; cbn [lassoc left_normal]; try exact I.
  - apply sum_app_normal; assumption.
  - apply cat_app_normal; assumption.
  - exact IHx.
Qed.

Lemma sum_app_ok l b : symbols_ok l -> symbols_ok b -> symbols_ok (sum_app l b).
Proof.
  intros Hl. induction b as [| |a|b1 IH1 b2 IH2|b1 IH1 b2 IH2|b1 IH1]; intros Hb; cbn [sum_app];
    try (cbn [symbols_ok]; split; assumption).
  cbn [symbols_ok] in Hb. destruct Hb as [H1 H2]. cbn [symbols_ok]. split; [apply IH1; exact H1 | exact H2].
Qed.

Lemma cat_app_ok l b : symbols_ok l -> symbols_ok b -> symbols_ok (cat_app l b).
Proof.
  intros Hl. induction b as [| |a|b1 IH1 b2 IH2|b1 IH1 b2 IH2|b1 IH1]; intros Hb; cbn [cat_app];
    try (cbn [symbols_ok]; split; assumption).
  cbn [symbols_ok] in Hb. destruct Hb as [H1 H2]. cbn [symbols_ok]. split; [apply IH1; exact H1 | exact H2].
Qed.

Theorem lassoc_symbols_ok : forall r, symbols_ok r -> symbols_ok (lassoc r).
Proof.
  induction r as [| |a|l IHl x IHx|l IHl x IHx|x IHx]; intros Hs; cbn [lassoc]; try exact Hs.
  - destruct Hs as [H1 H2]. apply sum_app_ok; auto.
  - destruct Hs as [H1 H2]. apply cat_app_ok; auto.
  - cbn [symbols_ok] in *. auto.
Qed.

Lemma sum_assoc a b c : re_equiv (Sum (Sum a b) c) (Sum a (Sum b c)).
Proof.
  intros w. split; intros H.
  - inversion H as [| |? ? ? H1|? ? ? H1| | |]; subst.
    + inversion H1 as [| |? ? ? H2|? ? ? H2| | |]; subst.
      * apply LSumL. exact H2.
      * apply LSumR. apply LSumL. exact H2.
    + apply LSumR. apply LSumR. exact H1.
  - inversion H as [| |? ? ? H1|? ? ? H1| | |]; subst.
    + apply LSumL. apply LSumL. exact H1.
    + inversion H1 as [| |? ? ? H2|? ? ? H2| | |]; subst.
      * apply LSumL. apply LSumR. exact H2.
      * apply LSumR. exact H2.
Qed.

Lemma cat_assoc a b c : re_equiv (Cat (Cat a b) c) (Cat a (Cat b c)).
Proof.
  intros w. split; intros H.
  - inversion H as [| | | |? ? u v H1 H2| |]; subst.
    inversion H1 as [| | | |? ? u1 v1 H3 H4| |]; subst.
    rewrite <- app_assoc. constructor; [exact H3|]. constructor; [exact H4 | exact H2].
  - inversion H as [| | | |? ? u v H1 H2| |]; subst.
    inversion H2 as [| | | |? ? u1 v1 H3 H4| |]; subst.
    rewrite app_assoc. constructor; [|exact H4]. constructor; [exact H1 | exact H3].
Qed.

Lemma sum_app_equiv l b : re_equiv (sum_app l b) (Sum l b).
Proof.
  induction b as [| |a|b1 IH1 b2 IH2|b1 IH1 b2 IH2|b1 IH1]; cbn [sum_app]; try apply re_equiv_refl.
  eapply re_equiv_trans; [apply sum_congr; [exact IH1 | apply re_equiv_refl] | apply sum_assoc].
Qed.

Lemma cat_app_equiv l b : re_equiv (cat_app l b) (Cat l b).
Proof.
  induction b as [| |a|b1 IH1 b2 IH2|b1 IH1 b2 IH2|b1 IH1]; cbn [cat_app]; try apply re_equiv_refl.
  eapply re_equiv_trans; [apply cat_congr; [exact IH1 | apply re_equiv_refl] | apply cat_assoc].
Qed.

Theorem lassoc_equiv : forall r, re_equiv (lassoc r) r.
Proof.
  induction r as [| |a|l IHl x IHx|l IHl x IHx|x IHx]; cbn [lassoc]; try apply re_equiv_refl.
  - eapply re_equiv_trans; [apply sum_app_equiv | apply sum_congr; assumption].
  - eapply re_equiv_trans; [apply cat_app_equiv | apply cat_congr; assumption].
  - apply star_congr. exact IHx.
Qed.

Theorem lassoc_idem : forall r, left_normal r -> lassoc r = r.
Proof.
  induction r as [| |a|l IHl x IHx|l IHl x IHx|x IHx]; intros Hn; cbn [lassoc]; try reflexivity.
  - destruct Hn as [H1 [H2 H3]]. rewrite (IHl H1), (IHx H2). destruct x; try reflexivity; discriminate.
  - destruct Hn as [H1 [H2 H3]]. rewrite (IHl H1), (IHx H2). destruct x; try reflexivity; discriminate.
  - cbn [left_normal] in Hn. rewrite (IHx Hn). reflexivity.
Qed.

(* C16, simple syntax: the printed text re-parses to an expression with the same printed text and the same language;
   more precisely to the left-associated form of r *)
Theorem parse_print_simple_lassoc : forall r, symbols_ok r -> parse_simple (print_simple r) = Some (lassoc r).
Proof.
  intros r Hs. rewrite <- (lassoc_print r).
  apply parse_print_simple_left_normal; [apply lassoc_symbols_ok; exact Hs | apply lassoc_normal].
Qed.

Theorem parse_print_simple : forall r, symbols_ok r ->
  exists r', parse_simple (print_simple r) = Some r' /\ print_simple r' = print_simple r /\
             (forall w, re_lang r' w <-> re_lang r w).
Proof.
  intros r Hs. exists (lassoc r). split; [apply parse_print_simple_lassoc; exact Hs|].
  split; [apply lassoc_print | apply lassoc_equiv].
Qed.

(* ---- the fully parenthesised syntax is injective (no printed text is a proper prefix of another) ---- *)
Lemma cons_eq_tail {A} (a : A) (x y : list A) : a :: x = a :: y -> x = y.
Proof. intros E. inversion E. reflexivity. Qed.

Ltac pf_peel E := repeat (apply cons_eq_tail in E).
Ltac pf_leaf E Hr Hs :=
  first [ discriminate E
        | injection E as Ea Eu; subst;
          first [ split; reflexivity
                | exfalso; first [ vm_compute in Hr; discriminate Hr | vm_compute in Hs; discriminate Hs ] ] ].
Ltac pf_finish E := first [ discriminate E | split; [reflexivity | exact E] ].

Lemma print_full_prefix_free : forall r s u v, symbols_ok r -> symbols_ok s ->
  print_full r ++ u = print_full s ++ v -> r = s /\ u = v.
Proof.
  induction r as [| |a|l IHl x IHx|l IHl x IHx|x IHx]; intros s u v Hr Hs E;
    destruct s as [| |b|l' x'|l' x'|x']; cbn [print_full] in E; rewrite <- ?app_assoc in E; cbn [app] in E;
    unfold c_0, c_1, c_lpar, c_rpar, c_star, c_plus, c_dot, c_space in E;
    try (pf_leaf E Hr Hs; fail);
    cbn [symbols_ok] in Hr, Hs; pf_peel E; try (split; [reflexivity | exact E]).
  (* Sum / Cat / Star against Sum / Cat / Star *)
  - apply IHl in E; [|tauto|tauto]. destruct E as [-> E]. pf_peel E.
    apply IHx in E; [|tauto|tauto]. destruct E as [-> E]. pf_peel E. pf_finish E.
  - apply IHl in E; [|tauto|tauto]. destruct E as [-> E]. pf_peel E. discriminate E.
  - apply IHl in E; [|tauto|tauto]. destruct E as [-> E]. pf_peel E. discriminate E.
  - apply IHl in E; [|tauto|tauto]. destruct E as [-> E]. pf_peel E. discriminate E.
  - apply IHl in E; [|tauto|tauto]. destruct E as [-> E]. pf_peel E.
    apply IHx in E; [|tauto|tauto]. destruct E as [-> E]. pf_peel E. pf_finish E.
  - apply IHl in E; [|tauto|tauto]. destruct E as [-> E]. pf_peel E. discriminate E.
  - apply IHx in E; [|tauto|tauto]. destruct E as [-> E]. pf_peel E. discriminate E.
  - apply IHx in E; [|tauto|tauto]. destruct E as [-> E]. pf_peel E. discriminate E.
  - apply IHx in E; [|tauto|tauto]. destruct E as [-> E]. pf_peel E. pf_finish E.
Qed.

Theorem print_full_injective : forall r s, symbols_ok r -> symbols_ok s -> print_full r = print_full s -> r = s.
Proof.
  intros r s Hr Hs E.
  apply (print_full_prefix_free r s [] []); [exact Hr | exact Hs | rewrite !app_nil_r; exact E].
Qed.

(* ---- Regexp.__str__ is print_simple with " . " / " + " : deleting blanks and dots gives the simple text ---- *)
Definition strip (s : list nat) : list nat := filter (fun c => negb (Nat.eqb c c_space || Nat.eqb c c_dot)) s.

Lemma is_symbol_code_not a c : is_symbol_code a = true -> In c syntax_chars -> Nat.eqb a c = false.
Proof.
  intros Ha Hc. unfold is_symbol_code in Ha. apply negb_true_iff in Ha. apply mem_nIn in Ha.
  apply Nat.eqb_neq. intros ->. contradiction.
Qed.

Lemma strip_app s t : strip (s ++ t) = strip s ++ strip t.
Proof. apply filter_app. Qed.

Lemma strip_paren b s : strip (paren b s) = paren b (strip s).
Proof. destruct b; cbn [paren]; [|reflexivity]. change (c_lpar :: s ++ [c_rpar]) with ([c_lpar] ++ s ++ [c_rpar]). rewrite !strip_app. reflexivity. Qed.

Theorem strip_print_str : forall r, symbols_ok r -> strip (print_str r) = print_simple r.
Proof.
  induction r as [| |a|l IHl x IHx|l IHl x IHx|x IHx]; intros Hs; cbn [print_str print_simple symbols_ok] in *.
  - reflexivity.
  - reflexivity.
  - unfold strip. cbn [filter].
    rewrite (is_symbol_code_not a c_space Hs), (is_symbol_code_not a c_dot Hs); [reflexivity | | ]; cbn; tauto.
  - destruct Hs as [H1 H2]. rewrite !strip_app, !strip_paren, (IHl H1), (IHx H2). reflexivity.
  - destruct Hs as [H1 H2]. rewrite !strip_app, !strip_paren, (IHl H1), (IHx H2). reflexivity.
  - rewrite strip_app, strip_paren, (IHx Hs). reflexivity.
Qed.

Print Assumptions parse_print_simple_left_normal.
Print Assumptions parse_print_simple_lassoc.
Print Assumptions parse_print_simple.
Print Assumptions lassoc_print.
Print Assumptions lassoc_equiv.
Print Assumptions lassoc_normal.
Print Assumptions print_full_injective.
Print Assumptions strip_print_str.
