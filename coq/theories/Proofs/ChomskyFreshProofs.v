(* Property C08: the phases of cfg_to_chomsky that introduce fresh variables
   (add_start, len_two, elim_terminals) preserve the language, establish their postcondition,
   introduce only variables that are new and pairwise distinct, and keep the grammar valid.
   Languages are stated with parse trees (yields). Stdlib only, no axioms. *)
From GT Require Import Base.Prelude Model.CFG Model.Chomsky.

Scheme yields_mut := Minimality for yields Sort Prop
  with yields_list_mut := Minimality for yields_list Sort Prop.
Combined Scheme yields_both from yields_mut, yields_list_mut.

Definition ylang (G : cfg) (w : word) : Prop := yields G (Var (gS G)) w.

(* ---- parse-tree basics ---- *)
Lemma yl_app G u v w1 w2 : yields_list G u w1 -> yields_list G v w2 -> yields_list G (u ++ v) (w1 ++ w2).
Proof.
  intros Hu Hv. induction Hu as [|x xs wa wb Hx Hxs IH]; cbn [app].
  - exact Hv.
  - rewrite <- app_assoc. constructor; assumption.
Qed.

Lemma yl_app_inv G u : forall v w, yields_list G (u ++ v) w ->
  exists w1 w2, w = w1 ++ w2 /\ yields_list G u w1 /\ yields_list G v w2.
Proof.
  induction u as [|x u IH]; cbn [app]; intros v w Hy.
  - exists [], w. repeat split; [constructor | exact Hy].
  - inversion Hy as [|x0 xs0 wa wb Hx Hxs]; subst.
    destruct (IH _ _ Hxs) as (w3 & w4 & -> & Hu & Hv).
    exists (wa ++ w3), w4. rewrite app_assoc. repeat split; [constructor; assumption | exact Hv].
Qed.

Lemma yl_single G x w : yields_list G [x] w <-> yields G x w.
Proof.
  split.
  - intros Hy. inversion Hy as [|x0 xs0 wa wb Hx Hxs]; subst.
    inversion Hxs; subst. rewrite app_nil_r. exact Hx.
  - intros Hy. rewrite <- (app_nil_r w). constructor; [exact Hy | constructor].
Qed.

Lemma yl_pair G x y w1 w2 : yields G x w1 -> yields G y w2 -> yields_list G [x; y] (w1 ++ w2).
Proof. intros Hx Hy. constructor; [exact Hx | apply yl_single; exact Hy]. Qed.

(* ---- association-list facts ---- *)
Lemma lookup_app_Some {K V} `{Eqb K} (k : K) (v : V) m m2 : lookup k m = Some v -> lookup k (m ++ m2) = Some v.
Proof.
  induction m as [|[k' v'] m IH]; cbn; [discriminate|]. destruct (eqb k k'); auto.
Qed.

Lemma lookup_notin {K V} `{Eqb K} (k : K) (m : list (K * V)) : ~ In k (map fst m) -> lookup k m = None.
Proof.
  intros Hn. apply lookup_None. intros v Hin. apply Hn. apply in_map_iff. exists (k, v). auto.
Qed.

Lemma In_lookup {K V} `{Eqb K} (k : K) (v : V) m : NoDup (map fst m) -> In (k, v) m -> lookup k m = Some v.
Proof.
  induction m as [|[k' v'] m IH]; cbn; intros Hnd Hin; [tauto|].
  inversion Hnd as [|k0 l0 Hnk Hnd']; subst.
  destruct Hin as [E|Hin].
  - inversion E; subst. rewrite eqb_refl. reflexivity.
  - destruct (eqb k k') eqn:E.
    + apply eqb_true in E. subst k'. exfalso. apply Hnk. apply in_map_iff. exists (k, v). auto.
    + auto.
Qed.

Lemma NoDup_app_intro {A} (l1 l2 : list A) : NoDup l1 -> NoDup l2 -> (forall x, In x l2 -> ~ In x l1) -> NoDup (l1 ++ l2).
Proof.
  intros H1 H2 Hd. induction H1 as [|x l1 Hx H1 IH]; cbn [app]; [exact H2|].
  constructor.
  - rewrite in_app_iff. intros [Hc|Hc]; [contradiction|]. apply (Hd x Hc). left; reflexivity.
  - apply IH. intros y Hy Hc. apply (Hd y Hy). right; exact Hc.
Qed.

Lemma Forall2_mono {A B} (R1 R2 : A -> B -> Prop) l1 l2 : (forall a b, R1 a b -> R2 a b) -> Forall2 R1 l1 l2 -> Forall2 R2 l1 l2.
Proof. intros Hm Hf. induction Hf; constructor; auto. Qed.

Lemma Forall2_length {A B} (R : A -> B -> Prop) l1 l2 : Forall2 R l1 l2 -> length l1 = length l2.
Proof. intros Hf. induction Hf; cbn; auto. Qed.

(* ---- well-formed symbols ---- *)
Definition wfsym (V Sg : list nat) (x : sym) : Prop := if is_var x then In (sname x) V else In (sname x) Sg.

Lemma wfsym_mono V V' Sg x : incl V V' -> wfsym V Sg x -> wfsym V' Sg x.
Proof. unfold wfsym. destruct (is_var x); auto. Qed.

Lemma cfg_wf_unfold G : cfg_wf G <-> forall r, In r (gR G) -> In (rvar r) (gV G) /\ forall x, In x (rrhs r) -> wfsym (gV G) (gSg G) x.
Proof. reflexivity. Qed.

(* ---- fresh names ---- *)
Lemma take_fresh_spec V stream x rest : take_fresh V stream = Some (x, rest) -> stream = x :: rest /\ ~ In x V.
Proof.
  unfold take_fresh. destruct stream as [|y rest']; [discriminate|].
  destruct (mem y V) eqn:E; [discriminate|]. intros Ev. inversion Ev; subst.
  split; [reflexivity | apply mem_nIn; exact E].
Qed.

Lemma take_fresh_n_spec n : forall V stream names V' rest, take_fresh_n n V stream = Some (names, V', rest) ->
  V' = V ++ names /\ length names = n /\ NoDup names /\ (forall x, In x names -> ~ In x V).
Proof.
  induction n as [|n IH]; intros V stream names V' rest Ht; cbn [take_fresh_n] in Ht.
  - inversion Ht; subst. rewrite app_nil_r. repeat split; [constructor | intros x []].
  - destruct (take_fresh V stream) as [[x rest1]|] eqn:E1; [|discriminate].
    destruct (take_fresh_n n (V ++ [x]) rest1) as [[[xs V1] rest2]|] eqn:E2; [|discriminate].
    inversion Ht; subst. apply take_fresh_spec in E1. destruct E1 as [_ Hx].
    destruct (IH _ _ _ _ _ E2) as (HV & Hlen & Hnd & Hdis).
    split; [rewrite HV, <- app_assoc; reflexivity|].
    split; [cbn; lia|].
    split.
    + constructor; [|exact Hnd]. intros Hc. apply (Hdis x Hc). apply in_or_app. right. left. reflexivity.
    + intros y [<-|Hy]; [exact Hx|]. intros Hc. apply (Hdis y Hy). apply in_or_app. left. exact Hc.
Qed.

(* ---- generic extension argument ----
   G' extends G with new variables; `sub` maps each new variable to the string of old symbols it stands for. *)
Definition expand (sub : list (nat * list sym)) (x : sym) : list sym :=
  if is_var x then match lookup (sname x) sub with Some s => s | None => [x] end else [x].
Definition expand_list (sub : list (nat * list sym)) (u : list sym) : list sym := flat_map (expand sub) u.

Lemma expand_wf sub V Sg x : (forall A, In A (map fst sub) -> ~ In A V) -> wfsym V Sg x -> expand sub x = [x].
Proof.
  destruct x as [[|] n]; unfold expand, wfsym; cbn; intros Hd Hin; [|reflexivity].
  rewrite lookup_notin; [reflexivity|]. intros Hc. exact (Hd _ Hc Hin).
Qed.

Lemma expand_list_wf sub V Sg u : (forall A, In A (map fst sub) -> ~ In A V) -> (forall x, In x u -> wfsym V Sg x) -> expand_list sub u = u.
Proof.
  intros Hd. induction u as [|x u IH]; intros Hu; cbn; [reflexivity|].
  rewrite (expand_wf sub V Sg x Hd); [|apply Hu; left; reflexivity].
  cbn. f_equal. apply IH. intros y Hy. apply Hu. right; exact Hy.
Qed.

Lemma expand_new sub A s : lookup A sub = Some s -> expand sub (Var A) = s.
Proof. unfold expand. cbn. intros ->. reflexivity. Qed.

Section Ext.
  Variables (G G' : cfg) (sub : list (nat * list sym)).
  Hypothesis H1 : forall r', In r' (gR G') ->
    match lookup (rvar r') sub with
    | Some s => expand_list sub (rrhs r') = s
    | None => has_rule G (rvar r') (expand_list sub (rrhs r'))
    end.

  Lemma ext_sound : (forall x w, yields G' x w -> yields_list G (expand sub x) w) /\
                    (forall u w, yields_list G' u w -> yields_list G (expand_list sub u) w).
  Proof.
    apply yields_both.
    - intros a. unfold expand; cbn. apply yl_single. constructor.
    - intros A rhs w [r' (Hin & Hv & Hr)] _ IH. specialize (H1 _ Hin). rewrite Hv, Hr in H1.
      unfold expand; cbn. destruct (lookup A sub) as [s|].
      + subst s. exact IH.
      + apply yl_single. econstructor; eauto.
    - constructor.
    - intros x xs w1 w2 _ IHx _ IHxs. cbn. apply yl_app; assumption.
  Qed.

  Hypothesis H2 : forall r, In r (gR G) -> exists r', In r' (gR G') /\ rvar r' = rvar r /\ expand_list sub (rrhs r') = rrhs r.
  Hypothesis H3 : forall A s, lookup A sub = Some s -> forall w, yields_list G' s w -> yields G' (Var A) w.

  Lemma unexpand u : forall w, yields_list G' (expand_list sub u) w -> yields_list G' u w.
  Proof.
    induction u as [|x u IH]; cbn; intros w Hy; [exact Hy|].
    apply yl_app_inv in Hy. destruct Hy as (w1 & w2 & -> & Hx & Hu).
    constructor; [|apply IH; exact Hu].
    unfold expand in Hx. destruct x as [[|] n]; cbn in Hx.
    - destruct (lookup n sub) as [s|] eqn:E.
      + eapply H3; eauto.
      + apply yl_single; exact Hx.
    - apply yl_single; exact Hx.
  Qed.

  Lemma ext_complete : (forall x w, yields G x w -> yields G' x w) /\
                       (forall u w, yields_list G u w -> yields_list G' u w).
  Proof.
    apply yields_both.
    - constructor.
    - intros A rhs w [r (Hin & Hv & Hr)] _ IH. destruct (H2 _ Hin) as (r' & Hin' & Hv' & He).
      apply y_var with (rhs := rrhs r').
      + exists r'. repeat split; [exact Hin' | congruence].
      + apply unexpand. rewrite He, Hr. exact IH.
    - constructor.
    - intros x xs w1 w2 _ IHx _ IHxs. constructor; assumption.
  Qed.

  Theorem ext_old A w : lookup A sub = None -> (yields G' (Var A) w <-> yields G (Var A) w).
  Proof.
    intros Hn. split.
    - intros Hy. apply (proj1 ext_sound) in Hy. unfold expand in Hy. cbn in Hy. rewrite Hn in Hy.
      apply yl_single; exact Hy.
    - apply (proj1 ext_complete).
  Qed.

  Theorem ext_new A s w : lookup A sub = Some s -> (yields G' (Var A) w <-> yields_list G s w).
  Proof.
    intros Hs. split.
    - intros Hy. apply (proj1 ext_sound) in Hy. rewrite (expand_new _ _ _ Hs) in Hy. exact Hy.
    - intros Hy. apply (H3 _ _ Hs). apply (proj2 ext_complete). exact Hy.
  Qed.
End Ext.

Lemma fold_left_none {A B} (f : option A -> B -> option A) (l : list B) : (forall b, f None b = None) -> fold_left f l None = None.
Proof. intros Hn. induction l as [|b l IH]; cbn; [reflexivity|]. rewrite Hn. exact IH. Qed.

Lemma fold_opt_inv {St} (step : option St -> rule -> option St) (R : list rule) (Inv : list rule -> St -> Prop) :
  (forall r, step None r = None) ->
  (forall pre r st st', incl pre R -> In r R -> Inv pre st -> step (Some st) r = Some st' -> Inv (pre ++ [r]) st') ->
  forall suf pre st st', incl (pre ++ suf) R -> Inv pre st -> fold_left step suf (Some st) = Some st' -> Inv (pre ++ suf) st'.
Proof.
  intros Hn Hs. induction suf as [|r suf IH]; intros pre st st' Hincl Hinv Hf; cbn [fold_left] in Hf.
  - inversion Hf; subst. rewrite app_nil_r. exact Hinv.
  - destruct (step (Some st) r) as [st1|] eqn:E.
    + replace (pre ++ r :: suf) with ((pre ++ [r]) ++ suf) by (rewrite <- app_assoc; reflexivity).
      apply IH with st1; [rewrite <- app_assoc; exact Hincl | | exact Hf].
      apply Hs with st; [ | | exact Hinv | exact E].
      * intros y Hy. apply Hincl. apply in_or_app. left; exact Hy.
      * apply Hincl. apply in_or_app. right. left. reflexivity.
    + rewrite fold_left_none in Hf by exact Hn. discriminate.
Qed.

(* ================= phase 1: add_start ================= *)
Theorem add_start_correct stream G G' rest : cfg_wf G -> In (gS G) (gV G) -> add_start stream G = Some (G', rest) ->
  cfg_wf G' /\ ~ In (gS G') (gV G) /\ gV G' = gV G ++ [gS G'] /\ gSg G' = gSg G /\
  has_rule G' (gS G') [Var (gS G)] /\ (forall r x, In r (gR G') -> In x (rrhs r) -> x <> Var (gS G')) /\
  (forall w, ylang G' w <-> ylang G w) /\ (forall A w, In A (gV G) -> (yields G' (Var A) w <-> yields G (Var A) w)).
Proof.
  intros Hwf HS Ha. unfold add_start in Ha.
  destruct (take_fresh (gV G) stream) as [[S0 rest0]|] eqn:Et; [|discriminate].
  inversion Ha; subst G' rest; clear Ha. apply take_fresh_spec in Et. destruct Et as [_ Hfresh].
  cbn [gV gS gSg gR].
  set (r0 := mkRule S0 (S (max_id (gR G))) [Var (gS G)]).
  set (G' := mkCFG (gV G ++ [S0]) (gSg G) (r0 :: gR G) S0).
  set (sub := [(S0, [Var (gS G)])]).
  assert (Hkeys : forall A, In A (map fst sub) -> ~ In A (gV G)).
  { intros A [<-|[]]. exact Hfresh. }
  assert (Hold : forall A, In A (gV G) -> lookup A sub = None).
  { intros A HA. apply lookup_notin. intros Hc. exact (Hkeys _ Hc HA). }
  assert (HS0 : lookup S0 sub = Some [Var (gS G)]).
  { cbn. rewrite Nat.eqb_refl. reflexivity. }
  assert (Hexp : forall r, In r (gR G) -> expand_list sub (rrhs r) = rrhs r).
  { intros r Hr. apply expand_list_wf with (V := gV G) (Sg := gSg G); [exact Hkeys|]. apply (Hwf r Hr). }
  assert (E1 : forall r', In r' (gR G') ->
     match lookup (rvar r') sub with
     | Some s => expand_list sub (rrhs r') = s
     | None => has_rule G (rvar r') (expand_list sub (rrhs r'))
     end).
  { intros r' [<-|Hr].
    - cbn [rvar rrhs r0]. rewrite HS0. cbn [expand_list flat_map]. rewrite app_nil_r.
      apply expand_wf with (V := gV G) (Sg := gSg G); [exact Hkeys | exact HS].
    - rewrite (Hold _ (proj1 (Hwf r' Hr))). rewrite (Hexp _ Hr). exists r'. auto. }
  assert (E2 : forall r, In r (gR G) -> exists r', In r' (gR G') /\ rvar r' = rvar r /\ expand_list sub (rrhs r') = rrhs r).
  { intros r Hr. exists r. split; [right; exact Hr|]. split; [reflexivity | apply Hexp; exact Hr]. }
  assert (E3 : forall A s, lookup A sub = Some s -> forall w, yields_list G' s w -> yields G' (Var A) w).
  { intros A s Hl w Hy. cbn in Hl. destruct (Nat.eqb A S0) eqn:E; [|discriminate].
    apply Nat.eqb_eq in E. inversion Hl; subst. apply y_var with (rhs := [Var (gS G)]); [|exact Hy].
    exists r0. split; [left; reflexivity | split; reflexivity]. }
  split.
  { intros r [<-|Hr]; cbn [rvar rrhs r0].
    - split; [apply in_or_app; right; left; reflexivity|].
      intros x [<-|[]]. cbn. apply in_or_app. left. exact HS.
    - destruct (Hwf r Hr) as [Hv Hx]. split; [apply in_or_app; left; exact Hv|].
      intros x Hin. apply wfsym_mono with (V := gV G); [intros y Hy; apply in_or_app; left; exact Hy | apply Hx; exact Hin]. }
  split; [exact Hfresh|]. split; [reflexivity|]. split; [reflexivity|].
  split.
  { exists r0. split; [left; reflexivity | split; reflexivity]. }
  split.
  { intros r x [<-|Hr] Hx Hc; cbn [rrhs r0] in Hx.
    - destruct Hx as [<-|[]]. inversion Hc as [Hc']. apply Hfresh. rewrite <- Hc'. exact HS.
    - subst x. apply Hfresh. apply (proj2 (Hwf r Hr) _ Hx). }
  split.
  { intros w. unfold ylang. change (gS G') with S0.
    rewrite (ext_new G G' sub E1 E2 E3 S0 _ w HS0). apply yl_single. }
  intros A w HA. apply (ext_old G G' sub E1 E2 E3). apply Hold; exact HA.
Qed.

(* ================= phase 5: elim_terminals ================= *)
Definition sym_step (acc : option (list nat * list sym * list (nat * nat) * list nat)) (x : sym)
  : option (list nat * list sym * list (nat * nat) * list nat) :=
  match acc with
  | None => None
  | Some (V, syms, repl, stream) =>
    if is_var x then Some (V, syms ++ [x], repl, stream)
    else match lookup (sname x) repl with
         | Some A => Some (V, syms ++ [Var A], repl, stream)
         | None => match take_fresh V stream with
                   | None => None
                   | Some (A, rest) => Some (V ++ [A], syms ++ [Var A], repl ++ [(sname x, A)], rest)
                   end
         end
  end.

Lemma term_step_unfold V out repl stream r :
  term_step (Some (V, out, repl, stream)) r =
    if Nat.leb 2 (length (rrhs r)) then
      match fold_left sym_step (rrhs r) (Some (V, [], repl, stream)) with
      | None => None
      | Some (V', syms, repl', stream') => Some (V', out ++ [mkRule (rvar r) (rid r) syms], repl', stream')
      end
    else Some (V, out ++ [r], repl, stream).
Proof. reflexivity. Qed.

Definition is_new (G G' : cfg) (A : nat) : Prop := In A (gV G') /\ ~ In A (gV G).

(* a symbol of an old rule and the symbol that replaces it *)
Definition symrel (repl : list (nat * nat)) (x x' : sym) : Prop :=
  (is_var x = true /\ x' = x) \/ (exists a A, x = Tm a /\ x' = Var A /\ In (a, A) repl).

Definition rel5 (repl : list (nat * nat)) (r r' : rule) : Prop :=
  rvar r' = rvar r /\
  ((length (rrhs r) <= 1 /\ rrhs r' = rrhs r) \/ (2 <= length (rrhs r) /\ Forall2 (symrel repl) (rrhs r) (rrhs r'))).

Lemma symrel_mono repl ext x x' : symrel repl x x' -> symrel (repl ++ ext) x x'.
Proof.
  intros [Hv|(a & A & Hx & Hx' & Hin)]; [left; exact Hv|].
  right. exists a, A. repeat split; try assumption. apply in_or_app. left; exact Hin.
Qed.

Lemma rel5_mono repl ext r r' : rel5 repl r r' -> rel5 (repl ++ ext) r r'.
Proof.
  intros [Hv [Hs|[Hl Hf]]]; (split; [exact Hv|]); [left; exact Hs|].
  right. split; [exact Hl|]. eapply Forall2_mono; [|exact Hf]. intros a b. apply symrel_mono.
Qed.

Lemma symrel_all_var repl u u' : Forall2 (symrel repl) u u' -> forallb is_var u' = true.
Proof.
  intros Hf. induction Hf as [|x x' u u' Hx Hf IH]; cbn; [reflexivity|].
  rewrite IH, andb_true_r. destruct Hx as [[Hv ->]|(a & A & _ & -> & _)]; [exact Hv | reflexivity].
Qed.

Section Phase5.
  Variable G : cfg.
  Hypothesis Hwf : cfg_wf G.

  Definition P5 (V : list nat) (repl : list (nat * nat)) : Prop :=
    V = gV G ++ map snd repl /\ NoDup (map snd repl) /\
    (forall A, In A (map snd repl) -> ~ In A (gV G)) /\ (forall a A, In (a, A) repl -> In a (gSg G)).

  Lemma sym_fold xs : forall V syms repl stream V' syms' repl' stream',
    (forall x, In x xs -> is_var x = false -> In (sname x) (gSg G)) ->
    P5 V repl ->
    fold_left sym_step xs (Some (V, syms, repl, stream)) = Some (V', syms', repl', stream') ->
    exists syms2 ext, syms' = syms ++ syms2 /\ repl' = repl ++ ext /\ P5 V' repl' /\ Forall2 (symrel repl') xs syms2.
  Proof.
    induction xs as [|x xs IH]; intros V syms repl stream V' syms' repl' stream' Hsg HP Hf; cbn [fold_left] in Hf.
    - inversion Hf; subst. exists [], []. rewrite !app_nil_r.
      split; [reflexivity|]. split; [reflexivity|]. split; [exact HP | constructor].
    - assert (Hsg' : forall y, In y xs -> is_var y = false -> In (sname y) (gSg G)).
      { intros y Hy. apply Hsg. right; exact Hy. }
      assert (Hx : is_var x = false -> In (sname x) (gSg G)).
      { apply Hsg. left; reflexivity. }
      destruct x as [[|] a]; cbn [sym_step is_var fst sname snd] in Hf, Hx.
      + destruct (IH _ _ _ _ _ _ _ _ Hsg' HP Hf) as (syms2 & ext & Hs & He & HP' & HF).
        exists ((true, a) :: syms2), ext.
        split; [rewrite Hs, <- app_assoc; reflexivity|]. split; [exact He|]. split; [exact HP'|].
        constructor; [left; split; reflexivity | exact HF].
      + destruct (lookup a repl) as [A|] eqn:El.
        * destruct (IH _ _ _ _ _ _ _ _ Hsg' HP Hf) as (syms2 & ext & Hs & He & HP' & HF).
          exists (Var A :: syms2), ext.
          split; [rewrite Hs, <- app_assoc; reflexivity|]. split; [exact He|]. split; [exact HP'|].
          constructor; [|exact HF]. right. exists a, A. split; [reflexivity|]. split; [reflexivity|].
          rewrite He. apply in_or_app. left. apply lookup_In. exact El.
        * destruct (take_fresh V stream) as [[A rest1]|] eqn:Et.
          -- apply take_fresh_spec in Et. destruct Et as [_ HA].
             destruct HP as (HV & Hnd & Hdis & HSg).
             assert (HP1 : P5 (V ++ [A]) (repl ++ [(a, A)])).
             { split; [rewrite map_app, app_assoc, <- HV; reflexivity|].
               split.
               { rewrite map_app. apply NoDup_app_intro; [exact Hnd | constructor; [intros [] | constructor] |].
                 intros y [<-|[]] Hc. apply HA. rewrite HV. apply in_or_app. right; exact Hc. }
               split.
               { intros B HB. rewrite map_app in HB. apply in_app_iff in HB. destruct HB as [HB|[<-|[]]].
                 - apply Hdis; exact HB.
                 - intros Hc. apply HA. rewrite HV. apply in_or_app. left; exact Hc. }
               intros a1 A1 Hin. apply in_app_iff in Hin. destruct Hin as [Hin|[E|[]]].
               - eapply HSg; exact Hin.
               - inversion E; subst. apply Hx. reflexivity. }
             destruct (IH _ _ _ _ _ _ _ _ Hsg' HP1 Hf) as (syms2 & ext & Hs & He & HP' & HF).
             exists (Var A :: syms2), ((a, A) :: ext).
             split; [rewrite Hs, <- app_assoc; reflexivity|].
             split; [rewrite He, <- app_assoc; reflexivity|]. split; [exact HP'|].
             constructor; [|exact HF]. right. exists a, A. split; [reflexivity|]. split; [reflexivity|].
             rewrite He. apply in_or_app. left. apply in_or_app. right. left. reflexivity.
          -- rewrite fold_left_none in Hf by reflexivity. discriminate.
  Qed.

  Definition st5 := (list nat * list rule * list (nat * nat) * list nat)%type.
  Definition Inv5 (pre : list rule) (st : st5) : Prop :=
    match st with
    | (V, out, repl, stream) =>
      P5 V repl /\ (forall r', In r' out -> exists r, In r pre /\ rel5 repl r r') /\
      (forall r, In r pre -> exists r', In r' out /\ rel5 repl r r')
    end.

  Lemma term_step_inv pre r st st' : incl pre (gR G) -> In r (gR G) -> Inv5 pre st -> term_step (Some st) r = Some st' -> Inv5 (pre ++ [r]) st'.
  Proof.
    intros _ Hr Hinv Hs. destruct st as [[[V out] repl] stream]. rewrite term_step_unfold in Hs.
    destruct Hinv as (HP & Hout & Hpre).
    destruct (Nat.leb 2 (length (rrhs r))) eqn:El.
    - apply Nat.leb_le in El.
      destruct (fold_left sym_step (rrhs r) (Some (V, [], repl, stream))) as [[[[V1 syms] repl1] stream1]|] eqn:Ef; [|discriminate].
      inversion Hs; subst st'; clear Hs.
      apply sym_fold in Ef; [| | exact HP].
      2:{ intros x Hx Hv. pose proof (proj2 (Hwf r Hr) x Hx) as Hw. rewrite Hv in Hw. exact Hw. }
      destruct Ef as (syms2 & ext & Hsy & He & HP1 & HF). cbn [app] in Hsy. subst syms2 repl1.
      split; [exact HP1|]. split.
      + intros r' Hin. apply in_app_iff in Hin. destruct Hin as [Hin|[<-|[]]].
        * destruct (Hout _ Hin) as (r1 & Hr1 & Hrel). exists r1.
          split; [apply in_or_app; left; exact Hr1 | apply rel5_mono; exact Hrel].
        * exists r. split; [apply in_or_app; right; left; reflexivity|].
          split; [reflexivity|]. right. split; [exact El | exact HF].
      + intros r1 Hin. apply in_app_iff in Hin. destruct Hin as [Hin|[<-|[]]].
        * destruct (Hpre _ Hin) as (r' & Hr' & Hrel). exists r'.
          split; [apply in_or_app; left; exact Hr' | apply rel5_mono; exact Hrel].
        * exists (mkRule (rvar r) (rid r) syms). split; [apply in_or_app; right; left; reflexivity|].
          split; [reflexivity|]. right. split; [exact El | exact HF].
    - apply Nat.leb_gt in El. inversion Hs; subst st'; clear Hs.
      split; [exact HP|]. split.
      + intros r' Hin. apply in_app_iff in Hin. destruct Hin as [Hin|[<-|[]]].
        * destruct (Hout _ Hin) as (r1 & Hr1 & Hrel). exists r1.
          split; [apply in_or_app; left; exact Hr1 | exact Hrel].
        * exists r. split; [apply in_or_app; right; left; reflexivity|].
          split; [reflexivity|]. left. split; [lia | reflexivity].
      + intros r1 Hin. apply in_app_iff in Hin. destruct Hin as [Hin|[<-|[]]].
        * destruct (Hpre _ Hin) as (r' & Hr' & Hrel). exists r'.
          split; [apply in_or_app; left; exact Hr' | exact Hrel].
        * exists r. split; [apply in_or_app; right; left; reflexivity|].
          split; [reflexivity|]. left. split; [lia | reflexivity].
  Qed.

  Lemma term_fold_inv stream V out repl stream' :
    fold_left term_step (gR G) (Some (gV G, [], [], stream)) = Some (V, out, repl, stream') ->
    Inv5 (gR G) (V, out, repl, stream').
  Proof.
    intros Hf.
    apply (fold_opt_inv term_step (gR G) Inv5 (fun _ => eq_refl) term_step_inv (gR G) [] (gV G, [], [], stream)).
    - cbn [app]. apply incl_refl.
    - split.
      + split; [cbn; rewrite app_nil_r; reflexivity|]. split; [constructor|]. split; [intros A []|intros a A []].
      + split; [intros r' []|intros r []].
    - exact Hf.
  Qed.
End Phase5.

Definition sub5 (repl : list (nat * nat)) : list (nat * list sym) := map (fun ta : nat * nat => (snd ta, [Tm (fst ta)])) repl.

Lemma sub5_keys repl : map fst (sub5 repl) = map snd repl.
Proof. induction repl as [|ta repl IH]; cbn; [reflexivity | f_equal; exact IH]. Qed.

Lemma sub5_lookup repl a A : NoDup (map snd repl) -> In (a, A) repl -> lookup A (sub5 repl) = Some [Tm a].
Proof.
  intros Hnd Hin. apply In_lookup; [rewrite sub5_keys; exact Hnd|].
  unfold sub5. apply in_map_iff. exists (a, A). split; [reflexivity | exact Hin].
Qed.

Lemma expand_symrel G repl u u' :
  NoDup (map snd repl) -> (forall A, In A (map snd repl) -> ~ In A (gV G)) ->
  (forall x, In x u -> wfsym (gV G) (gSg G) x) -> Forall2 (symrel repl) u u' -> expand_list (sub5 repl) u' = u.
Proof.
  intros Hnd Hdis Hu Hf. induction Hf as [|x x' u u' Hx Hf IH]; [reflexivity|].
  cbn [expand_list flat_map]. fold (expand_list (sub5 repl) u'). rewrite IH by (intros y Hy; apply Hu; right; exact Hy).
  destruct Hx as [[Hv ->]|(a & A & -> & -> & Hin)].
  - rewrite (expand_wf (sub5 repl) (gV G) (gSg G) x); [reflexivity | rewrite sub5_keys; exact Hdis | apply Hu; left; reflexivity].
  - rewrite (expand_new _ _ _ (sub5_lookup repl a A Hnd Hin)). reflexivity.
Qed.

Lemma symrel_wf G V repl u u' :
  incl (gV G) V -> incl (map snd repl) V ->
  (forall x, In x u -> wfsym (gV G) (gSg G) x) -> Forall2 (symrel repl) u u' -> forall x', In x' u' -> wfsym V (gSg G) x'.
Proof.
  intros HV Hnew Hu Hf. induction Hf as [|x x' u u' Hx Hf IH]; intros y Hy; [destruct Hy|].
  destruct Hy as [<-|Hy].
  - destruct Hx as [[Hv ->]|(a & A & -> & -> & Hin)].
    + apply wfsym_mono with (V := gV G); [exact HV | apply Hu; left; reflexivity].
    + cbn. apply Hnew. apply in_map_iff. exists (a, A). split; [reflexivity | exact Hin].
  - apply IH; [intros z Hz; apply Hu; right; exact Hz | exact Hy].
Qed.

Definition phase5_post (G G' : cfg) : Prop :=
  cfg_wf G' /\ gS G' = gS G /\ gSg G' = gSg G /\
  (exists new, gV G' = gV G ++ new /\ NoDup new /\ forall x, In x new -> ~ In x (gV G)) /\
  (forall r, In r (gR G') -> length (rrhs r) <= 1 \/ forallb is_var (rrhs r) = true) /\
  (forall A w, In A (gV G) -> (yields G' (Var A) w <-> yields G (Var A) w)) /\
  (* every rule of G' is T_a -> a for a new variable T_a, or an old rule in which (if its length is >= 2)
     each terminal is replaced by a new variable; rules of length <= 1 are unchanged *)
  (forall r', In r' (gR G') ->
     (exists a, is_new G G' (rvar r') /\ rrhs r' = [Tm a]) \/
     (exists r, In r (gR G) /\ rvar r' = rvar r /\
        ((length (rrhs r) <= 1 /\ rrhs r' = rrhs r) \/
         (2 <= length (rrhs r) /\
          Forall2 (fun x x' => (is_var x = true /\ x' = x) \/ (exists a A, x = Tm a /\ x' = Var A /\ is_new G G' A)) (rrhs r) (rrhs r'))))).

Lemma phase5_final G V out repl stream' newrules :
  cfg_wf G -> Inv5 G (gR G) (V, out, repl, stream') ->
  (forall r', In r' newrules -> exists ta, In ta repl /\ rvar r' = snd ta /\ rrhs r' = [Tm (fst ta)]) ->
  (forall ta, In ta repl -> exists r', In r' newrules /\ rvar r' = snd ta /\ rrhs r' = [Tm (fst ta)]) ->
  phase5_post G (mkCFG V (gSg G) (out ++ newrules) (gS G)).
Proof.
  intros Hwf ((HV & Hnd & Hdis & HSg) & Hout & Hpre) Hnew Hnew2.
  set (G' := mkCFG V (gSg G) (out ++ newrules) (gS G)).
  set (sub := sub5 repl).
  assert (HinclV : incl (gV G) V). { intros y Hy. rewrite HV. apply in_or_app. left; exact Hy. }
  assert (HinclN : incl (map snd repl) V). { intros y Hy. rewrite HV. apply in_or_app. right; exact Hy. }
  assert (Hkeys : forall A, In A (map fst sub) -> ~ In A (gV G)).
  { intros A HA. unfold sub in HA. rewrite sub5_keys in HA. apply Hdis; exact HA. }
  assert (Hold : forall A, In A (gV G) -> lookup A sub = None).
  { intros A HA. apply lookup_notin. intros Hc. exact (Hkeys _ Hc HA). }
  assert (Hisnew : forall a A, In (a, A) repl -> is_new G G' A).
  { intros a A Hin. assert (HA : In A (map snd repl)) by (apply in_map_iff; exists (a, A); auto).
    split; [apply HinclN; exact HA | apply Hdis; exact HA]. }
  assert (Hexp : forall r r', In r (gR G) -> rel5 repl r r' -> expand_list sub (rrhs r') = rrhs r).
  { intros r r' Hr [_ [[_ Heq]|[_ Hf]]].
    - rewrite Heq. apply expand_list_wf with (V := gV G) (Sg := gSg G); [exact Hkeys | apply (Hwf r Hr)].
    - apply (expand_symrel G); [exact Hnd | exact Hdis | apply (Hwf r Hr) | exact Hf]. }
  assert (E1 : forall r', In r' (gR G') ->
     match lookup (rvar r') sub with
     | Some s => expand_list sub (rrhs r') = s
     | None => has_rule G (rvar r') (expand_list sub (rrhs r'))
     end).
  { intros r' Hin. cbn [gR G'] in Hin. apply in_app_iff in Hin. destruct Hin as [Hin|Hin].
    - destruct (Hout _ Hin) as (r & Hr & Hrel). pose proof (Hexp _ _ Hr Hrel) as He.
      destruct Hrel as [Hv _]. rewrite Hv, (Hold _ (proj1 (Hwf r Hr))), He. exists r. auto.
    - apply Hnew in Hin. destruct Hin as ([a A] & Hta & Hv & Hrhs). cbn [fst snd] in Hv, Hrhs.
      rewrite Hv, Hrhs. unfold sub. rewrite (sub5_lookup repl a A Hnd Hta). reflexivity. }
  assert (E2 : forall r, In r (gR G) -> exists r', In r' (gR G') /\ rvar r' = rvar r /\ expand_list sub (rrhs r') = rrhs r).
  { intros r Hr. destruct (Hpre _ Hr) as (r' & Hr' & Hrel). exists r'.
    split; [cbn [gR G']; apply in_or_app; left; exact Hr'|].
    split; [exact (proj1 Hrel) | exact (Hexp _ _ Hr Hrel)]. }
  assert (E3 : forall A s, lookup A sub = Some s -> forall w, yields_list G' s w -> yields G' (Var A) w).
  { intros A s Hl w Hy. apply lookup_In in Hl. unfold sub, sub5 in Hl. apply in_map_iff in Hl.
    destruct Hl as (ta & Heq & Hta). inversion Heq; subst A s.
    apply y_var with (rhs := [Tm (fst ta)]); [|exact Hy].
    destruct (Hnew2 _ Hta) as (r' & Hr' & Hv & Hrhs).
    exists r'. split; [cbn [gR G']; apply in_or_app; right; exact Hr' | split; assumption]. }
  split.
  { intros r' Hin. cbn [gR G'] in Hin. apply in_app_iff in Hin. destruct Hin as [Hin|Hin].
    - destruct (Hout _ Hin) as (r & Hr & Hv & Hcase). destruct (Hwf r Hr) as [Hrv Hsym].
      split; [rewrite Hv; apply HinclV; exact Hrv|]. cbn [gV gSg G'].
      destruct Hcase as [[_ Heq]|[_ Hf]].
      + rewrite Heq. intros x Hx. apply wfsym_mono with (V := gV G); [exact HinclV | apply Hsym; exact Hx].
      + apply (symrel_wf G V repl (rrhs r) (rrhs r') HinclV HinclN Hsym Hf).
    - apply Hnew in Hin. destruct Hin as ([a A] & Hta & Hv & Hrhs). cbn [fst snd] in Hv, Hrhs.
      rewrite Hv, Hrhs. split; [exact (proj1 (Hisnew _ _ Hta))|].
      intros x [<-|[]]. cbn. eapply HSg; exact Hta. }
  split; [reflexivity|]. split; [reflexivity|].
  split.
  { exists (map snd repl). split; [exact HV|]. split; [exact Hnd | exact Hdis]. }
  split.
  { intros r' Hin. cbn [gR G'] in Hin. apply in_app_iff in Hin. destruct Hin as [Hin|Hin].
    - destruct (Hout _ Hin) as (r & Hr & Hv & [[Hl Heq]|[_ Hf]]).
      + left. rewrite Heq. exact Hl.
      + right. eapply symrel_all_var; exact Hf.
    - apply Hnew in Hin. destruct Hin as (ta & _ & _ & Hrhs). left. rewrite Hrhs. cbn. lia. }
  split.
  { intros A w HA. apply (ext_old G G' sub E1 E2 E3). apply Hold; exact HA. }
  intros r' Hin. cbn [gR G'] in Hin. apply in_app_iff in Hin. destruct Hin as [Hin|Hin].
  - right. destruct (Hout _ Hin) as (r & Hr & Hv & Hcase). exists r. split; [exact Hr|]. split; [exact Hv|].
    destruct Hcase as [Hs|[Hl Hf]]; [left; exact Hs|]. right. split; [exact Hl|].
    eapply Forall2_mono; [|exact Hf]. intros x x' [Hx|(a & A & Hx & Hx' & Hin')]; [left; exact Hx|].
    right. exists a, A. split; [exact Hx|]. split; [exact Hx' | eapply Hisnew; exact Hin'].
  - left. apply Hnew in Hin. destruct Hin as ([a A] & Hta & Hv & Hrhs). cbn [fst snd] in Hv, Hrhs.
    exists a. split; [rewrite Hv; eapply Hisnew; exact Hta | exact Hrhs].
Qed.

Lemma elim_terminals_post stream G G' rest : cfg_wf G -> elim_terminals stream G = Some (G', rest) ->
  phase5_post G G'.
Proof.
  intros Hwf He. unfold elim_terminals in He.
  destruct (fold_left term_step (gR G) (Some (gV G, [], [], stream))) as [[[[V out] repl] stream']|] eqn:Ef; [|discriminate].
  cbv zeta in He. inversion He; subst G' rest; clear He.
  apply (term_fold_inv G Hwf) in Ef.
  apply (phase5_final G V out repl stream' _ Hwf Ef).
  - intros r' Hin. apply in_map_iff in Hin. destruct Hin as (ta & <- & Hta). exists ta. auto.
  - intros ta Hta. eexists. split; [apply in_map_iff; exists ta; split; [reflexivity | exact Hta]|]. split; reflexivity.
Qed.

Theorem elim_terminals_correct stream G G' rest : cfg_wf G -> elim_terminals stream G = Some (G', rest) ->
  cfg_wf G' /\ gS G' = gS G /\ gSg G' = gSg G /\
  (exists new, gV G' = gV G ++ new /\ NoDup new /\ forall x, In x new -> ~ In x (gV G)) /\
  (forall r, In r (gR G') -> length (rrhs r) <= 1 \/ forallb is_var (rrhs r) = true) /\
  (forall A w, In A (gV G) -> (yields G' (Var A) w <-> yields G (Var A) w)) /\
  (* every rule of G' is T_a -> a for a new variable T_a (is_new G G' A := In A (gV G') /\ ~ In A (gV G)), or an old rule
     in which, if its length is >= 2, each terminal is replaced by a new variable; rules of length <= 1 are unchanged *)
  (forall r', In r' (gR G') ->
     (exists a, is_new G G' (rvar r') /\ rrhs r' = [Tm a]) \/
     (exists r, In r (gR G) /\ rvar r' = rvar r /\
        ((length (rrhs r) <= 1 /\ rrhs r' = rrhs r) \/
         (2 <= length (rrhs r) /\
          Forall2 (fun x x' => (is_var x = true /\ x' = x) \/ (exists a A, x = Tm a /\ x' = Var A /\ is_new G G' A)) (rrhs r) (rrhs r'))))).
Proof. exact (elim_terminals_post stream G G' rest). Qed.

Corollary elim_terminals_lang stream G G' rest : cfg_wf G -> In (gS G) (gV G) -> elim_terminals stream G = Some (G', rest) ->
  forall w, ylang G' w <-> ylang G w.
Proof.
  intros Hwf HS He w. destruct (elim_terminals_correct stream G G' rest Hwf He) as (_ & HS' & _ & _ & _ & Hl & _).
  unfold ylang. rewrite HS'. apply Hl. exact HS.
Qed.

(* ================= phase 4: len_two ================= *)
(* the fresh variable A_k of a chain stands for the suffix u_{k+1} ... u_{n-1} *)
Fixpoint chain_sub (names : list nat) (u : list sym) : list (nat * list sym) :=
  match names, u with
  | Ak :: names', x :: u' => (Ak, x :: u') :: chain_sub names' u'
  | _, _ => []
  end.

Lemma chain_sub_keys names : forall u, length names <= length u -> map fst (chain_sub names u) = names.
Proof.
  induction names as [|Ak names IH]; intros [|x u] Hl; cbn in *; try reflexivity; try lia.
  f_equal. apply IH. lia.
Qed.

Lemma chain_sub_incl names : forall u A s, In (A, s) (chain_sub names u) -> incl s u.
Proof.
  induction names as [|Ak names IH]; intros [|x u] A s Hin; cbn in Hin; try tauto.
  destruct Hin as [E|Hin].
  - inversion E; subst. apply incl_refl.
  - apply incl_tl. eapply IH; exact Hin.
Qed.

Lemma chain_sub_len names : forall u A s, length names < length u -> In (A, s) (chain_sub names u) -> 2 <= length s.
Proof.
  induction names as [|Ak names IH]; intros [|x u] A s Hl Hin; cbn in Hin; try tauto.
  cbn [length] in Hl. destruct Hin as [E|Hin].
  - inversion E; subst. cbn [length]. lia.
  - apply (IH u A s); [lia | exact Hin].
Qed.

Definition link (sub : list (nat * list sym)) (r : rule) : Prop :=
  exists s, In (rvar r, s) sub /\
    (rrhs r = s \/ exists x A' s', rrhs r = [x; Var A'] /\ s = x :: s' /\ In (A', s') sub).

Lemma link_mono_l sub ext r : link sub r -> link (sub ++ ext) r.
Proof.
  intros (s & Hs & Hc). exists s. split; [apply in_or_app; left; exact Hs|].
  destruct Hc as [Hc|(x & A' & s' & E1 & E2 & Hin)]; [left; exact Hc|].
  right. exists x, A', s'. split; [exact E1|]. split; [exact E2|]. apply in_or_app; left; exact Hin.
Qed.

Lemma link_mono_r sub ext r : link ext r -> link (sub ++ ext) r.
Proof.
  intros (s & Hs & Hc). exists s. split; [apply in_or_app; right; exact Hs|].
  destruct Hc as [Hc|(x & A' & s' & E1 & E2 & Hin)]; [left; exact Hc|].
  right. exists x, A', s'. split; [exact E1|]. split; [exact E2|]. apply in_or_app; right; exact Hin.
Qed.

Lemma chain_rules_link names : forall u next, names <> [] -> length u = S (length names) ->
  forall r, In r (chain_rules names u next) -> length (rrhs r) = 2 /\ link (chain_sub names u) r.
Proof.
  induction names as [|Ak names IH]; intros u next Hne Hlen r Hin; [congruence|].
  destruct names as [|Ak1 names'].
  - destruct u as [|x [|y [|z u]]]; cbn in Hlen; try lia.
    cbn in Hin. destruct Hin as [<-|[]]. cbn. split; [reflexivity|].
    exists [x; y]. split; [left; reflexivity | left; reflexivity].
  - destruct u as [|x u']; [cbn in Hlen; lia|]. cbn [chain_rules] in Hin. destruct Hin as [<-|Hin].
    + cbn [rrhs rvar]. split; [reflexivity|]. exists (x :: u'). cbn [chain_sub].
      split; [left; reflexivity|]. right. exists x, Ak1, u'. split; [reflexivity|]. split; [reflexivity|].
      right. destruct u' as [|y u'']; [cbn in Hlen; lia|]. left. reflexivity.
    + assert (Hne' : Ak1 :: names' <> []) by discriminate.
      assert (Hlen' : length u' = S (length (Ak1 :: names'))) by (cbn in Hlen |- *; lia).
      destruct (IH u' (S next) Hne' Hlen' r Hin) as [Hl (s & Hs & Hc)]. split; [exact Hl|].
      exists s. cbn [chain_sub]. split; [right; exact Hs|].
      destruct Hc as [Hc|(x1 & A' & s' & E1 & E2 & Hin')]; [left; exact Hc|].
      right. exists x1, A', s'. split; [exact E1|]. split; [exact E2|]. right; exact Hin'.
Qed.

Lemma chain_rules_sem names : forall u next, names <> [] -> length u = S (length names) ->
  forall A s, In (A, s) (chain_sub names u) ->
  forall G', incl (chain_rules names u next) (gR G') -> forall w, yields_list G' s w -> yields G' (Var A) w.
Proof.
  induction names as [|Ak names IH]; intros u next Hne Hlen A s Hin G' Hincl w Hy; [congruence|].
  destruct names as [|Ak1 names'].
  - destruct u as [|x [|y [|z u]]]; cbn in Hlen; try lia.
    cbn in Hin. destruct Hin as [E|[]]. inversion E; subst A s.
    apply y_var with (rhs := [x; y]); [|exact Hy].
    exists (mkRule Ak next [x; y]). split; [apply Hincl; left; reflexivity | split; reflexivity].
  - destruct u as [|x u']; [cbn in Hlen; lia|]. cbn [chain_sub] in Hin. cbn [chain_rules] in Hincl.
    assert (Hne' : Ak1 :: names' <> []) by discriminate.
    assert (Hlen' : length u' = S (length (Ak1 :: names'))) by (cbn in Hlen |- *; lia).
    assert (Hincl' : incl (chain_rules (Ak1 :: names') u' (S next)) (gR G')).
    { intros r0 Hr0. apply Hincl. right; exact Hr0. }
    destruct Hin as [E|Hin].
    + inversion E; subst A s. inversion Hy as [|x0 xs0 w1 w2 Hx Hu']; subst.
      apply y_var with (rhs := [x; Var Ak1]).
      * exists (mkRule Ak next [x; Var Ak1]). split; [apply Hincl; left; reflexivity | split; reflexivity].
      * apply yl_pair; [exact Hx|].
        apply (IH u' (S next) Hne' Hlen' Ak1 u'); [|exact Hincl' | exact Hu'].
        destruct u' as [|y u'']; [cbn in Hlen; lia|]. left. reflexivity.
    + apply (IH u' (S next) Hne' Hlen' A s Hin G' Hincl' w Hy).
Qed.

Definition st4 := (list nat * list rule * list rule * list nat * list (nat * list sym) * nat)%type.

Lemma len2_step_unfold V head appended stream done next r :
  len2_step (Some (V, head, appended, stream, done, next)) r =
    match lookup (rid r) done with
    | Some newrhs => Some (V, head ++ [mkRule (rvar r) (rid r) newrhs], appended, stream, done, next)
    | None =>
      if Nat.leb (length (rrhs r)) 2 then Some (V, head ++ [r], appended, stream, done, next)
      else match take_fresh_n (length (rrhs r) - 2) V stream with
           | None => None
           | Some (names, V', stream') =>
             match rrhs r, names with
             | u0 :: urest, A0 :: _ =>
               Some (V', head ++ [mkRule (rvar r) (rid r) [u0; Var A0]], appended ++ chain_rules names urest next, stream',
                     (rid r, [u0; Var A0]) :: done, next + length names)
             | _, _ => None
             end
           end
    end.
Proof. reflexivity. Qed.

(* old rule r and the rule r' that replaces it *)
Definition rel4 (sub : list (nat * list sym)) (r r' : rule) : Prop :=
  rvar r' = rvar r /\
  ((rrhs r' = rrhs r /\ length (rrhs r) <= 2) \/
   (exists u0 A0 urest, rrhs r' = [u0; Var A0] /\ rrhs r = u0 :: urest /\ In (A0, urest) sub)).

Lemma rel4_mono sub ext r r' : rel4 sub r r' -> rel4 (sub ++ ext) r r'.
Proof.
  intros [Hv [Hs|(u0 & A0 & urest & E1 & E2 & Hin)]]; (split; [exact Hv|]); [left; exact Hs|].
  right. exists u0, A0, urest. split; [exact E1|]. split; [exact E2|]. apply in_or_app; left; exact Hin.
Qed.

Section Phase4.
  Variable G : cfg.
  Hypothesis Hwf : cfg_wf G.
  Hypothesis Hids : ids_consistent (gR G).

  Definition Inv4 (pre : list rule) (st : st4) : Prop :=
    match st with
    | (V, head, appended, stream, done, next) =>
      exists sub,
        V = gV G ++ map fst sub /\
        NoDup (map fst sub) /\
        (forall A, In A (map fst sub) -> ~ In A (gV G)) /\
        (forall A s x, In (A, s) sub -> In x s -> wfsym (gV G) (gSg G) x) /\
        (forall A s, In (A, s) sub -> 2 <= length s) /\
        (forall r', In r' head -> exists r, In r pre /\ rel4 sub r r') /\
        (forall r, In r pre -> exists r', In r' head /\ rel4 sub r r') /\
        (forall i newrhs, lookup i done = Some newrhs ->
           exists r u0 A0 urest, In r pre /\ rid r = i /\ newrhs = [u0; Var A0] /\ rrhs r = u0 :: urest /\ In (A0, urest) sub) /\
        (forall r, In r appended -> length (rrhs r) = 2 /\ link sub r) /\
        (forall A s, In (A, s) sub -> forall G', incl appended (gR G') -> forall w, yields_list G' s w -> yields G' (Var A) w)
    end.

  Lemma len2_step_inv pre r st st' : incl pre (gR G) -> In r (gR G) -> Inv4 pre st -> len2_step (Some st) r = Some st' -> Inv4 (pre ++ [r]) st'.
  Proof.
    intros Hpre Hr Hinv Hs. destruct st as [[[[[V head] appended] stream] done] next].
    rewrite len2_step_unfold in Hs.
    destruct Hinv as (sub & HV & Hnd & Hdis & Hsw & Hlens & Hhead & Hpre2 & Hdone & Happ & Hsem).
    assert (Hhead_old : forall sub', (forall r0 r', rel4 sub r0 r' -> rel4 sub' r0 r') ->
              forall r', In r' head -> exists r0, In r0 (pre ++ [r]) /\ rel4 sub' r0 r').
    { intros sub' Hm r' Hin. destruct (Hhead _ Hin) as (r0 & Hr0 & Hrel). exists r0.
      split; [apply in_or_app; left; exact Hr0 | apply Hm; exact Hrel]. }
    destruct (lookup (rid r) done) as [newrhs|] eqn:Ed.
    - (* shared alternative, already rewritten *)
      inversion Hs; subst st'; clear Hs.
      destruct (Hdone _ _ Ed) as (r1 & u0 & A0 & urest & Hr1 & Hid & -> & Hrhs1 & HA0).
      assert (Hrhs : rrhs r = u0 :: urest).
      { rewrite <- Hrhs1. apply Hids; [exact Hr | apply Hpre; exact Hr1 | symmetry; exact Hid]. }
      assert (Hrel : rel4 sub r (mkRule (rvar r) (rid r) [u0; Var A0])).
      { split; [reflexivity|]. right. exists u0, A0, urest. auto. }
      exists sub. split; [exact HV|]. split; [exact Hnd|]. split; [exact Hdis|]. split; [exact Hsw|]. split; [exact Hlens|].
      split.
      { intros r' Hin. apply in_app_iff in Hin. destruct Hin as [Hin|[<-|[]]].
        - apply (Hhead_old sub); [auto | exact Hin].
        - exists r. split; [apply in_or_app; right; left; reflexivity | exact Hrel]. }
      split.
      { intros r0 Hin. apply in_app_iff in Hin. destruct Hin as [Hin|[<-|[]]].
        - destruct (Hpre2 _ Hin) as (r' & Hr' & Hrel'). exists r'. split; [apply in_or_app; left; exact Hr' | exact Hrel'].
        - eexists. split; [apply in_or_app; right; left; reflexivity | exact Hrel]. }
      split.
      { intros i nr Hl. destruct (Hdone _ _ Hl) as (r2 & v0 & B0 & vrest & Hr2 & Hrest).
        exists r2, v0, B0, vrest. split; [apply in_or_app; left; exact Hr2 | exact Hrest]. }
      split; [exact Happ | exact Hsem].
    - destruct (Nat.leb (length (rrhs r)) 2) eqn:El.
      + (* already short *)
        apply Nat.leb_le in El. inversion Hs; subst st'; clear Hs.
        assert (Hrel : rel4 sub r r). { split; [reflexivity|]. left. split; [reflexivity | exact El]. }
        exists sub. split; [exact HV|]. split; [exact Hnd|]. split; [exact Hdis|]. split; [exact Hsw|]. split; [exact Hlens|].
        split.
        { intros r' Hin. apply in_app_iff in Hin. destruct Hin as [Hin|[<-|[]]].
          - apply (Hhead_old sub); [auto | exact Hin].
          - exists r. split; [apply in_or_app; right; left; reflexivity | exact Hrel]. }
        split.
        { intros r0 Hin. apply in_app_iff in Hin. destruct Hin as [Hin|[<-|[]]].
          - destruct (Hpre2 _ Hin) as (r' & Hr' & Hrel'). exists r'. split; [apply in_or_app; left; exact Hr' | exact Hrel'].
          - exists r. split; [apply in_or_app; right; left; reflexivity | exact Hrel]. }
        split.
        { intros i nr Hl. destruct (Hdone _ _ Hl) as (r2 & v0 & B0 & vrest & Hr2 & Hrest).
          exists r2, v0, B0, vrest. split; [apply in_or_app; left; exact Hr2 | exact Hrest]. }
        split; [exact Happ | exact Hsem].
      + (* a new chain *)
        apply Nat.leb_gt in El.
        destruct (take_fresh_n (length (rrhs r) - 2) V stream) as [[[names V'] stream']|] eqn:Et; [|discriminate].
        apply take_fresh_n_spec in Et. destruct Et as (HV' & Hlen & Hndn & Hdisn).
        destruct (rrhs r) as [|u0 urest] eqn:Eu; [discriminate|].
        destruct names as [|A0 names']; [discriminate|].
        inversion Hs; subst st'; clear Hs.
        set (names := A0 :: names') in *.
        assert (Hne : names <> []) by discriminate.
        assert (Hlen2 : length urest = S (length names)) by (cbn [length] in El, Hlen |- *; lia).
        set (cs := chain_sub names urest).
        assert (Hcs_keys : map fst cs = names) by (apply chain_sub_keys; lia).
        assert (HA0 : In (A0, urest) (sub ++ cs)).
        { apply in_or_app. right. unfold cs, names. destruct urest as [|y urest']; [cbn in Hlen2; lia|]. left. reflexivity. }
        assert (Hrel : rel4 (sub ++ cs) r (mkRule (rvar r) (rid r) [u0; Var A0])).
        { split; [reflexivity|]. right. exists u0, A0, urest. rewrite Eu. auto. }
        exists (sub ++ cs).
        split; [rewrite map_app, Hcs_keys, HV', HV, app_assoc; reflexivity|].
        split.
        { rewrite map_app, Hcs_keys. apply NoDup_app_intro; [exact Hnd | exact Hndn|].
          intros x Hx Hc. apply (Hdisn x Hx). rewrite HV. apply in_or_app. right; exact Hc. }
        split.
        { intros A HA. rewrite map_app, Hcs_keys in HA. apply in_app_iff in HA. destruct HA as [HA|HA].
          - apply Hdis; exact HA.
          - intros Hc. apply (Hdisn A HA). rewrite HV. apply in_or_app. left; exact Hc. }
        split.
        { intros A s x Hin Hx. apply in_app_iff in Hin. destruct Hin as [Hin|Hin].
          - eapply Hsw; eassumption.
          - apply (proj2 (Hwf r Hr)). rewrite Eu. right. eapply chain_sub_incl; eassumption. }
        split.
        { intros A s Hin. apply in_app_iff in Hin. destruct Hin as [Hin|Hin].
          - eapply Hlens; exact Hin.
          - apply (chain_sub_len names urest A s); [lia | exact Hin]. }
        split.
        { intros r' Hin. apply in_app_iff in Hin. destruct Hin as [Hin|[<-|[]]].
          - apply (Hhead_old (sub ++ cs)); [intros r0 r1; apply rel4_mono | exact Hin].
          - exists r. split; [apply in_or_app; right; left; reflexivity | exact Hrel]. }
        split.
        { intros r0 Hin. apply in_app_iff in Hin. destruct Hin as [Hin|[<-|[]]].
          - destruct (Hpre2 _ Hin) as (r' & Hr' & Hrel'). exists r'.
            split; [apply in_or_app; left; exact Hr' | apply rel4_mono; exact Hrel'].
          - eexists. split; [apply in_or_app; right; left; reflexivity | exact Hrel]. }
        split.
        { intros i nr Hl. cbn [lookup] in Hl. destruct (eqb i (rid r)) eqn:Ei.
          - apply eqb_true in Ei. inversion Hl; subst nr. exists r, u0, A0, urest.
            split; [apply in_or_app; right; left; reflexivity|]. split; [symmetry; exact Ei|].
            split; [reflexivity|]. split; [exact Eu | exact HA0].
          - destruct (Hdone _ _ Hl) as (r2 & v0 & B0 & vrest & Hr2 & E1 & E2 & E3 & Hin).
            exists r2, v0, B0, vrest. split; [apply in_or_app; left; exact Hr2|].
            split; [exact E1|]. split; [exact E2|]. split; [exact E3|]. apply in_or_app; left; exact Hin. }
        split.
        { intros r0 Hin. apply in_app_iff in Hin. destruct Hin as [Hin|Hin].
          - destruct (Happ _ Hin) as [Hl Hlk]. split; [exact Hl | apply link_mono_l; exact Hlk].
          - destruct (chain_rules_link names urest next Hne Hlen2 r0 Hin) as [Hl Hlk].
            split; [exact Hl | apply link_mono_r; exact Hlk]. }
        intros A s Hin G' Hincl w Hy. apply in_app_iff in Hin. destruct Hin as [Hin|Hin].
        * apply (Hsem A s Hin G'); [|exact Hy]. intros r0 Hr0. apply Hincl. apply in_or_app. left; exact Hr0.
        * apply (chain_rules_sem names urest next Hne Hlen2 A s Hin G'); [|exact Hy].
          intros r0 Hr0. apply Hincl. apply in_or_app. right; exact Hr0.
  Qed.

  Lemma len2_fold_inv stream V head appended stream' done next :
    fold_left len2_step (gR G) (Some (gV G, [], [], stream, [], S (max_id (gR G)))) = Some (V, head, appended, stream', done, next) ->
    Inv4 (gR G) (V, head, appended, stream', done, next).
  Proof.
    intros Hf.
    apply (fold_opt_inv len2_step (gR G) Inv4 (fun _ => eq_refl) len2_step_inv (gR G) [] (gV G, [], [], stream, [], S (max_id (gR G)))).
    - cbn [app]. apply incl_refl.
    - exists []. cbn [map]. rewrite app_nil_r. split; [reflexivity|]. split; [constructor|].
      split; [intros A []|]. split; [intros A s x []|]. split; [intros A s []|]. split; [intros r' []|]. split; [intros r []|].
      split; [intros i nr Hl; discriminate|]. split; [intros r []|intros A s []].
    - exact Hf.
  Qed.
End Phase4.

Theorem len_two_correct stream G G' rest : cfg_wf G -> ids_consistent (gR G) -> len_two stream G = Some (G', rest) ->
  cfg_wf G' /\ gS G' = gS G /\ gSg G' = gSg G /\
  (exists new, gV G' = gV G ++ new /\ NoDup new /\ forall x, In x new -> ~ In x (gV G)) /\
  (forall r, In r (gR G') -> length (rrhs r) <= 2) /\
  (forall A w, In A (gV G) -> (yields G' (Var A) w <-> yields G (Var A) w)) /\
  (* nothing else changes: rules of length <= 2 are kept, no epsilon or unit rule is introduced *)
  (forall r, In r (gR G') -> rrhs r = [] \/ (exists x, rrhs r = [x]) ->
     exists r0, In r0 (gR G) /\ rvar r0 = rvar r /\ rrhs r0 = rrhs r) /\
  (forall r0, In r0 (gR G) -> length (rrhs r0) <= 2 -> has_rule G' (rvar r0) (rrhs r0)).
Proof.
  intros Hwf Hids Hl. unfold len_two in Hl.
  destruct (fold_left len2_step (gR G) (Some (gV G, [], [], stream, [], S (max_id (gR G)))))
    as [[[[[[V head] appended] stream'] done] next]|] eqn:Ef; [|discriminate].
  inversion Hl; subst G' rest; clear Hl.
  apply (len2_fold_inv G Hwf Hids) in Ef.
  destruct Ef as (sub & HV & Hnd & Hdis & Hsw & Hlens & Hhead & Hpre & _ & Happ & Hsem).
  set (G' := mkCFG V (gSg G) (head ++ appended) (gS G)).
  assert (HinclV : incl (gV G) V). { intros y Hy. rewrite HV. apply in_or_app. left; exact Hy. }
  assert (HinclN : incl (map fst sub) V). { intros y Hy. rewrite HV. apply in_or_app. right; exact Hy. }
  assert (Hold : forall A, In A (gV G) -> lookup A sub = None).
  { intros A HA. apply lookup_notin. intros Hc. exact (Hdis _ Hc HA). }
  assert (Hkey : forall A s, In (A, s) sub -> In A (map fst sub)).
  { intros A s Hin. apply in_map_iff. exists (A, s). auto. }
  assert (Hexp_s : forall A s, In (A, s) sub -> expand_list sub s = s).
  { intros A s Hin. apply expand_list_wf with (V := gV G) (Sg := gSg G); [exact Hdis|].
    intros x Hx. eapply Hsw; eassumption. }
  assert (Hexp_head : forall r r', In r (gR G) -> rel4 sub r r' -> expand_list sub (rrhs r') = rrhs r).
  { intros r r' Hr [_ [[Heq _]|(u0 & A0 & urest & E1 & E2 & Hin)]].
    - rewrite Heq. apply expand_list_wf with (V := gV G) (Sg := gSg G); [exact Hdis | apply (Hwf r Hr)].
    - rewrite E1, E2. cbn [expand_list flat_map].
      rewrite (expand_wf sub (gV G) (gSg G) u0 Hdis) by (apply (proj2 (Hwf r Hr)); rewrite E2; left; reflexivity).
      rewrite (expand_new _ _ _ (In_lookup A0 urest sub Hnd Hin)). rewrite app_nil_r. reflexivity. }
  assert (Hexp_app : forall r, In r appended -> lookup (rvar r) sub = Some (expand_list sub (rrhs r))).
  { intros r Hr. destruct (Happ r Hr) as [_ (s & Hs & Hc)]. rewrite (In_lookup _ _ sub Hnd Hs). f_equal.
    destruct Hc as [->|(x & A' & s' & E1 & E2 & Hin)].
    - symmetry. eapply Hexp_s; exact Hs.
    - rewrite E1, E2. cbn [expand_list flat_map].
      rewrite (expand_wf sub (gV G) (gSg G) x Hdis) by (apply (Hsw _ _ x Hs); rewrite E2; left; reflexivity).
      rewrite (expand_new _ _ _ (In_lookup A' s' sub Hnd Hin)). rewrite app_nil_r. reflexivity. }
  assert (E1 : forall r', In r' (gR G') ->
     match lookup (rvar r') sub with
     | Some s => expand_list sub (rrhs r') = s
     | None => has_rule G (rvar r') (expand_list sub (rrhs r'))
     end).
  { intros r' Hin. cbn [gR G'] in Hin. apply in_app_iff in Hin. destruct Hin as [Hin|Hin].
    - destruct (Hhead _ Hin) as (r & Hr & Hrel). pose proof (Hexp_head _ _ Hr Hrel) as He.
      destruct Hrel as [Hv _]. rewrite Hv, (Hold _ (proj1 (Hwf r Hr))), He. exists r. auto.
    - rewrite (Hexp_app _ Hin). reflexivity. }
  assert (E2 : forall r, In r (gR G) -> exists r', In r' (gR G') /\ rvar r' = rvar r /\ expand_list sub (rrhs r') = rrhs r).
  { intros r Hr. destruct (Hpre _ Hr) as (r' & Hr' & Hrel). exists r'.
    split; [cbn [gR G']; apply in_or_app; left; exact Hr'|].
    split; [exact (proj1 Hrel) | exact (Hexp_head _ _ Hr Hrel)]. }
  assert (E3 : forall A s, lookup A sub = Some s -> forall w, yields_list G' s w -> yields G' (Var A) w).
  { intros A s Hlk w Hy. apply lookup_In in Hlk. apply (Hsem A s Hlk G'); [|exact Hy].
    intros r0 Hr0. cbn [gR G']. apply in_or_app. right; exact Hr0. }
  split.
  { intros r' Hin. cbn [gR G'] in Hin. cbn [gV gSg G']. apply in_app_iff in Hin. destruct Hin as [Hin|Hin].
    - destruct (Hhead _ Hin) as (r & Hr & Hv & Hcase). destruct (Hwf r Hr) as [Hrv Hsym].
      split; [rewrite Hv; apply HinclV; exact Hrv|].
      destruct Hcase as [[Heq _]|(u0 & A0 & urest & Eq1 & Eq2 & HA0)].
      + rewrite Heq. intros x Hx. apply wfsym_mono with (V := gV G); [exact HinclV | apply Hsym; exact Hx].
      + rewrite Eq1. intros x [<-|[<-|[]]].
        * apply wfsym_mono with (V := gV G); [exact HinclV | apply Hsym; rewrite Eq2; left; reflexivity].
        * cbn. apply HinclN. eapply Hkey; exact HA0.
    - destruct (Happ _ Hin) as [_ (s & Hs & Hc)].
      split; [apply HinclN; eapply Hkey; exact Hs|].
      destruct Hc as [->|(x & A' & s' & Eq1 & Eq2 & HA')].
      + intros x Hx. apply wfsym_mono with (V := gV G); [exact HinclV | eapply Hsw; eassumption].
      + rewrite Eq1. intros y [<-|[<-|[]]].
        * apply wfsym_mono with (V := gV G); [exact HinclV|]. apply (Hsw _ _ x Hs). rewrite Eq2. left; reflexivity.
        * cbn. apply HinclN. eapply Hkey; exact HA'. }
  split; [reflexivity|]. split; [reflexivity|].
  split.
  { exists (map fst sub). split; [exact HV|]. split; [exact Hnd | exact Hdis]. }
  split.
  { intros r' Hin. cbn [gR G'] in Hin. apply in_app_iff in Hin. destruct Hin as [Hin|Hin].
    - destruct (Hhead _ Hin) as (r & Hr & Hv & [[Heq Hle]|(u0 & A0 & urest & Eq1 & _)]).
      + rewrite Heq. exact Hle.
      + rewrite Eq1. cbn. lia.
    - rewrite (proj1 (Happ _ Hin)). lia. }
  split.
  { intros A w HA. apply (ext_old G G' sub E1 E2 E3). apply Hold; exact HA. }
  split.
  { intros r' Hin Hshort. cbn [gR G'] in Hin. apply in_app_iff in Hin. destruct Hin as [Hin|Hin].
    - destruct (Hhead _ Hin) as (r & Hr & Hv & [[Heq Hle]|(u0 & A0 & urest & Eq1 & _)]).
      + exists r. split; [exact Hr|]. split; [symmetry; exact Hv | symmetry; exact Heq].
      + exfalso. rewrite Eq1 in Hshort. destruct Hshort as [Hc|[x Hc]]; discriminate.
    - exfalso. pose proof (proj1 (Happ _ Hin)) as Hl2.
      destruct Hshort as [Hc|[x Hc]]; rewrite Hc in Hl2; discriminate. }
  intros r0 Hr0 Hle. destruct (Hpre _ Hr0) as (r' & Hr' & Hv & [[Heq _]|(u0 & A0 & urest & Eq1 & Eq2 & HA0)]).
  - exists r'. split; [cbn [gR G']; apply in_or_app; left; exact Hr'|]. split; assumption.
  - exfalso. (* a rewritten rule had length >= 3: its new variable stands for >= 2 symbols *)
    pose proof (Hlens _ _ HA0) as Hl2. rewrite Eq2 in Hle. cbn [length] in Hle. lia.
Qed.

Corollary len_two_lang stream G G' rest : cfg_wf G -> ids_consistent (gR G) -> In (gS G) (gV G) -> len_two stream G = Some (G', rest) ->
  forall w, ylang G' w <-> ylang G w.
Proof.
  intros Hwf Hids HS He w. destruct (len_two_correct stream G G' rest Hwf Hids He) as (_ & HS' & _ & _ & _ & Hl & _).
  unfold ylang. rewrite HS'. apply Hl. exact HS.
Qed.

(* ---- the hypothesis In (gS G) (gV G) of the two language corollaries is needed: a start variable outside V
   has no rule (cfg_wf), but its name may be handed out as a fresh name, after which it has rules ---- *)
Lemma no_rule_no_yield G A w : (forall r, In r (gR G) -> rvar r <> A) -> ~ yields G (Var A) w.
Proof. intros Hn Hy. inversion Hy as [|A0 rhs w0 Hr Hl]; subst. destruct Hr as [r (Hin & Hv & _)]. exact (Hn r Hin Hv). Qed.

Example len_two_lang_needs_start :
  exists stream G G' rest, cfg_wf G /\ ids_consistent (gR G) /\ len_two stream G = Some (G', rest) /\
    exists w, ylang G' w /\ ~ ylang G w.
Proof.
  exists [5], (mkCFG [0] [1] [mkRule 0 0 [Tm 1; Tm 1; Tm 1]] 5).
  eexists. eexists. split.
  { intros r [<-|[]]. cbn. split; [left; reflexivity|]. intros x [<-|[<-|[<-|[]]]]; cbn; left; reflexivity. }
  split.
  { intros r1 r2 [<-|[]] [<-|[]] _. reflexivity. }
  split; [vm_compute; reflexivity|].
  exists [1; 1]. split.
  - unfold ylang. cbn [gS]. apply y_var with (rhs := [Tm 1; Tm 1]).
    + eexists. split; [right; left; reflexivity | split; reflexivity].
    + apply (yl_pair _ (Tm 1) (Tm 1) [1] [1]); constructor.
  - apply no_rule_no_yield. intros r [<-|[]]. cbn. discriminate.
Qed.

Example elim_terminals_lang_needs_start :
  exists stream G G' rest, cfg_wf G /\ elim_terminals stream G = Some (G', rest) /\
    exists w, ylang G' w /\ ~ ylang G w.
Proof.
  exists [5], (mkCFG [0] [1] [mkRule 0 0 [Tm 1; Tm 1]] 5).
  eexists. eexists. split.
  { intros r [<-|[]]. cbn. split; [left; reflexivity|]. intros x [<-|[<-|[]]]; cbn; left; reflexivity. }
  split; [vm_compute; reflexivity|].
  exists [1]. split.
  - unfold ylang. cbn [gS]. apply y_var with (rhs := [Tm 1]).
    + eexists. split; [right; left; reflexivity | split; reflexivity].
    + apply yl_single. constructor.
  - apply no_rule_no_yield. intros r [<-|[]]. cbn. discriminate.
Qed.

(* a run with a shared alternative (two rules with the same rid), to see the hypotheses are satisfiable *)
Example len_two_shared :
  len_two [7; 8] (mkCFG [0; 1] [2] [mkRule 0 0 [Tm 2; Var 1; Tm 2; Var 1]; mkRule 1 0 [Tm 2; Var 1; Tm 2; Var 1]; mkRule 1 1 [Tm 2]] 0) =
  Some (mkCFG [0; 1; 7; 8] [2]
          [mkRule 0 0 [Tm 2; Var 7]; mkRule 1 0 [Tm 2; Var 7]; mkRule 1 1 [Tm 2];
           mkRule 7 2 [Var 1; Var 8]; mkRule 8 3 [Tm 2; Var 1]] 0, []).
Proof. vm_compute. reflexivity. Qed.

Print Assumptions add_start_correct.
Print Assumptions len_two_correct.
Print Assumptions len_two_lang.
Print Assumptions elim_terminals_correct.
Print Assumptions elim_terminals_lang.
Print Assumptions len_two_lang_needs_start.
Print Assumptions elim_terminals_lang_needs_start.
