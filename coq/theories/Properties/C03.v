(* C03 — Subset construction yields an equivalent total deterministic automaton.
   `canon` = print_state_set (a canonical name per set of states; sorted lists for nat states).
   nfa_to_dfa_fuel is the model of nfa_to_dfa with an explicit bound on the number of loop iterations. *)
From GT Require Import Base.Prelude Base.Sort Model.DFA Model.NFA Decide.DFAEquiv Proofs.SubsetProofs.

Theorem C03_subset_construction_correct : forall (N : nfa nat) (fuel : nat) (D : dfa (list nat)),
  nfa_wf N -> nfa_to_dfa_fuel canon_nat N fuel = Some D ->
  dfa_wf D /\ dS D = nS N /\
  (forall w, Forall (fun a => In a (nS N)) w -> (dfa_lang D w <-> nfa_lang N w)) /\
  (forall q, In q (dq0 D) <-> eps_star N (nq0 N) q) /\
  (forall S0, In S0 (dQ D) -> exists w, Forall (fun a => In a (nS N)) w /\ dfa_path D (dq0 D) w S0) /\
  NoDup (dQ D).
Proof. exact (nfa_to_dfa_correct canon_nat (fun l y => canon_nat_In y l) canon_nat_ext). Qed.

Theorem C03_subset_construction_terminates : forall (N : nfa nat) (fuel : nat),
  nfa_wf N -> S (2 ^ length (nQ N)) <= fuel -> nfa_to_dfa_fuel canon_nat N fuel <> None.
Proof. exact (nfa_to_dfa_terminates canon_nat (fun l y => canon_nat_In y l) canon_nat_ext). Qed.

(* the oracle used by the judge to compare an NFA with the implementation's DFA is exact *)
Theorem C03_oracle_exact : forall (N : nfa nat) (D : dfa (list nat)), nfa_wf N -> dfa_wf D ->
  (nfa_dfa_equivb N D = true <-> seteq (nS N) (dS D) /\ forall w, Forall (fun a => In a (nS N)) w -> (nfa_lang N w <-> dfa_lang D w)).
Proof. exact (fun N D => nfa_dfa_equivb_correct N D). Qed.

Print Assumptions C03_subset_construction_correct.
Print Assumptions C03_subset_construction_terminates.
Print Assumptions C03_oracle_exact.
