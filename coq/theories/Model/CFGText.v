(* The simple text format of context-free grammars (gambatools/cfg_algorithms.py: cfg_is_simple, cfg_print_simple,
   SimpleCFGParser; cfg.py: CFG.ordered_variables).
   Line level: a text is a list of lines  X -> alt | alt | ...  ; a line is modelled after the splits at "->" and "|"
   and after strip() as  (X, [alt; ...])  where X is the character of the left-hand side and an alternative is the
   list of its characters (coding of Model/Tokens.v: 'A'..'Z' = 165..190, 'a'..'z' = 197..222, 'ε' = 301, '_' = 195,
   '@' = 64).  The splitting of the strings, the comment / `epsilon = c` lines and the regular-expression check of a
   line are done by the harness.  Grammars are Model/CFG.v's `cfg` with names = character codes.
   Deviations from the Python text, all outside the domain of the theorems:
     - the left-hand side of a parsed line is a single character (Python: \w+);
     - str.islower / str.isupper are modelled on ASCII letters and 'ε' only (is_lower_code, is_upper_code);
     - the epsilon field of the parsed CFG object is not part of `cfg` (CFG.__eq__ ignores it);
     - parsed rules get the Alternative identities 0, 1, 2, ... (each parsed rule owns a new Alternative object).
   Definitions only. *)
From GT Require Import Base.Prelude Model.Tokens Model.CFG.

Definition c_at := 64.       (* '@' : SimpleCFGParser.zero *)
Definition is_upper_code (c : nat) : bool := Nat.leb 165 c && Nat.leb c 190.
Definition is_lower_code (c : nat) : bool := (Nat.leb 197 c && Nat.leb c 222) || Nat.eqb c c_eps.

(* cfg_is_simple: names are one character long by construction *)
Definition cfg_is_simple_b (G : cfg) : bool := forallb is_upper_code (gV G) && forallb is_lower_code (gSg G).

(* CFG.ordered_variables: the variables in the order of first appearance as a left-hand side in R *)
Fixpoint ordered_from (done : list nat) (R : list rule) : list nat :=
  match R with
  | [] => []
  | r :: R' => if mem (rvar r) done then ordered_from done R' else rvar r :: ordered_from (rvar r :: done) R'
  end.
Definition ordered_variables (G : cfg) : list nat := ordered_from [] (gR G).

(* print_alternative *)
Definition print_alt (rhs : list sym) : list nat :=
  match rhs with
  | [] => [c_eps]
  | _ => map sname rhs
  end.

(* rule_map[X] *)
Definition alternatives_of (R : list rule) (X : nat) : list (list sym) :=
  map rrhs (filter (fun r => Nat.eqb (rvar r) X) R).

Definition cfg_line := (nat * list (list nat))%type.

Definition print_cfg_lines (G : cfg) : list cfg_line :=
  map (fun X => (X, map print_alt (alternatives_of (gR G) X))) (ordered_variables G).

(* cfg_print_simple: raises if the grammar is not in simple format *)
Definition print_cfg_simple (G : cfg) : option (list cfg_line) :=
  if cfg_is_simple_b G then Some (print_cfg_lines G) else None.

(* ---- SimpleCFGParser ---- *)
(* parse_variable *)
Definition parse_symbol (c : nat) : sym := if is_lower_code c then Tm c else Var c.

(* parse_alternative *)
Definition parse_alternative (eps : nat) (alt : list nat) : option (list sym) :=
  if eqb alt [c_at] then None
  else if eqb alt [eps] then Some []
  else Some (map parse_symbol alt).

(* parse_rule: the rules of one line as (variable, right-hand side) *)
Definition parse_rule (eps : nat) (ln : cfg_line) : list (nat * list sym) :=
  flat_map (fun alt => match parse_alternative eps alt with Some rhs => [(fst ln, rhs)] | None => [] end) (snd ln).

Fixpoint number_from (i : nat) (l : list (nat * list sym)) : list rule :=
  match l with
  | [] => []
  | (A, rhs) :: l' => mkRule A i rhs :: number_from (S i) l'
  end.

(* Alternative.terminals *)
Definition terminals_of (rhs : list sym) : list nat := map sname (filter (fun x => negb (is_var x)) rhs).

(* parse_grammar, given the epsilon character *)
Definition parse_cfg_lines (eps : nat) (lines : list cfg_line) : option cfg :=
  let R := flat_map (parse_rule eps) lines in
  match R with
  | [] => None                                                    (* 'the grammar has no rules' *)
  | (S0, _) :: _ =>
    Some (mkCFG (dedup (map fst R)) (dedup (flat_map (fun p => terminals_of (snd p)) R)) (number_from 0 R) S0)
  end.

(* parse_epsilon without an `epsilon = c` line: 'ε' if it occurs in some line, else '_' *)
Definition detect_eps (lines : list cfg_line) : nat :=
  if existsb (fun ln => Nat.eqb (fst ln) c_eps || existsb (fun alt => mem c_eps alt) (snd ln)) lines
  then c_eps else c_underscore.

Definition parse_cfg_text (lines : list cfg_line) : option cfg := parse_cfg_lines (detect_eps lines) lines.

(* comparison: a rule without the identity of its Alternative *)
Definition rule_key (r : rule) : nat * list sym := (rvar r, rrhs r).
