From GT Require Import Base.Prelude Model.CFG Model.Chomsky Model.CYK Judge.Common.

Definition idV8 (l : list nat) := l.
Definition rule_pairs (R : list rule) : list (nat * list sym) := map (fun r => (rvar r, rrhs r)) R.
Definition cfg_struct_eqb (G1 G2 : cfg) : bool :=
  seteqb (gV G1) (gV G2) && seteqb (gSg G1) (gSg G2) && Nat.eqb (gS G1) (gS G2) && seteqb (rule_pairs (gR G1)) (rule_pairs (gR G2)).

(* postcondition of phase k (1..5), 6 = full conversion *)
Definition on_rhs (A : nat) (R : list rule) : bool := existsb (fun r => existsb (fun x => is_var x && Nat.eqb (sname x) A) (rrhs r)) R.
Definition phase_post (k : nat) (G G' : cfg) : bool :=
  match k with
  | 1 => negb (mem (gS G') (gV G)) && has_rule_b (gR G') (gS G') [Var (gS G)] && negb (on_rhs (gS G') (gR G'))
  | 2 => forallb (fun r => match rrhs r with [] => Nat.eqb (rvar r) (gS G') | _ => true end) (gR G')
  | 3 => forallb (fun r => negb (is_unit r)) (gR G')
  | 4 => forallb (fun r => Nat.leb (length (rrhs r)) 2) (gR G')
  | 5 => forallb (fun r => Nat.leb (length (rrhs r)) 1 || forallb is_var (rrhs r)) (gR G')
  | _ => is_chomsky_b G'
  end.
(* bounded language comparison through the model enumerator (proved exact), words of length <= n *)
Definition lang_agree (G G' : cfg) (stream : list nat) (n : nat) : bool :=
  match cfg_words idV8 stream G n, cfg_words idV8 stream G' n with
  | Some L1, Some L2 => seteqb L1 L2
  | _, _ => false
  end.
Definition new_vars_fresh (G G' : cfg) : bool :=
  subsetb (gV G) (gV G') && Nat.eqb (length (dedup (gV G'))) (length (gV G')).

Definition model_phase (k : nat) (used : list nat) (G : cfg) : option cfg :=
  match k with
  | 1 => option_map fst (add_start used G)
  | 2 => remove_eps G
  | 3 => elim_unit idV8 G
  | 4 => option_map fst (len_two used G)
  | 5 => option_map fst (elim_terminals used G)
  | _ => option_map fst (to_chomsky idV8 used G)
  end.

(* k: phase; used: the fresh names the implementation chose, in order; oG': implementation result; stream: unused names for the oracle *)
Definition judge_phase (k : nat) (G : cfg) (used : list nat) (oG' : option cfg) (unchanged : bool) (stream : list nat) (c : nat) : nat :=
  match oG' with
  | None => c
  | Some G' =>
    if negb unchanged then c + 1
    else match model_phase k used G with
         | Some M => if cfg_struct_eqb G' M then 0
                     else if negb (cfg_wf_b G' && new_vars_fresh G G') then c + 2
                     else if negb (phase_post k G G') then c + 3
                     else if negb (lang_agree G G' stream 4) then c + 4
                     else 1
         | None => c + 5           (* a name chosen by the implementation was not fresh (or the model ran out of fuel) *)
         end
  end.

Definition judge_C08 (G : cfg) (stream : list nat)
           (phases : list (nat * list nat * option cfg * bool))
           (onullable : option (list nat))
           (oexpand : list (list sym * list nat * option (list (list sym))))
           (oderivable : list (nat * option (list nat))) : nat :=
  worst_code (check (cfg_wf_b G) 9 ::
    map (fun p => let '(k, used, oG', unch) := p in judge_phase k G used oG' unch stream (10 * k)) phases ++
    [ match onullable, cfg_nullable G with Some s, Some m => check (seteqb s m) 70 | _, _ => 70 end;
      (* expand_nullable_variables: the SET of expansions is what the epsilon-removal phase depends on; their order in the returned
         list (and repetitions) is a choice of the implementation - a different order is reported on the informational layer only *)
      worst_code (map (fun e => let '(x, W, o) := e in
                        match o with
                        | Some l => if eqb l (expand_nullable x W) then 0 else if seteqb l (expand_nullable x W) then 1 else 71
                        | None => 71 end) oexpand);
      check (forallb (fun e => let '(A, o) := e in match o, cfg_derivable G A with Some s, Some m => seteqb s m | _, _ => false end) oderivable) 72 ]).

Definition explain_C08 (G : cfg) (k : nat) (used : list nat) := (model_phase k used G, cfg_nullable G).
