(* Property C02 for grammars: cnf_words G n enumerates exactly the words of length <= n of a CNF grammar.
   Hypothesis used for cnf_words_exact: is_chomsky G only (neither cfg_wf nor name disjointness is needed);
   the corollary relating it to cnf_accepts additionally needs cfg_wf G (through the CYK theorem). *)
From GT Require Import Base.Prelude Model.CFG Model.Chomsky Model.CYK Proofs.CFGBasics Proofs.CYKProofs.

Section Enum.
  Variable G : cfg.
  Hypothesis Hc : is_chomsky G.

  (* ---- R1_of / R2_of ---- *)
  Lemma R1_of_spec A a : In a (R1_of G A) <-> has_rule G A [Tm a].
  Proof.
    unfold R1_of. rewrite in_flat_map. split.
    - intros [r [Hin Ha]]. destruct (Nat.eqb (rvar r) A) eqn:EA; [|destruct Ha].
      apply Nat.eqb_eq in EA. exists r. repeat split; [exact Hin | exact EA|].
      destruct (Hc r Hin) as [[E _]|[[b E]|[B [C [E _]]]]]; rewrite E in Ha; cbn in Ha; try tauto.
      destruct Ha as [<-|[]]. exact E.
    - intros [r [Hin [H1 H2]]]. exists r. split; [exact Hin|].
      rewrite H1, Nat.eqb_refl, H2. cbn. auto.
  Qed.

  Lemma R2_of_spec A l : In l (R2_of G A) <-> exists B C, l = [B; C] /\ has_rule G A [Var B; Var C].
  Proof.
    unfold R2_of. rewrite in_flat_map. split.
    - intros [r [Hin Ha]]. destruct (Nat.eqb (rvar r) A) eqn:EA; [|destruct Ha].
      apply Nat.eqb_eq in EA.
      destruct (Hc r Hin) as [[E _]|[[b E]|[B [C [E _]]]]]; rewrite E in Ha; cbn in Ha; try tauto.
      destruct Ha as [<-|[]]. exists B, C. split; [reflexivity|]. exists r. auto.
    - intros [B [C [-> [r [Hin [H1 H2]]]]]]. exists r. split; [exact Hin|].
      rewrite H1, Nat.eqb_refl, H2. cbn. auto.
  Qed.

  (* ---- make_words ---- *)
  Definition R1rel (A a : nat) : Prop := has_rule G A [Tm a].

  Lemma make_words_spec x : forall u, In u (make_words G x) <-> x <> [] /\ Forall2 R1rel x u.
  Proof.
    induction x as [|A x IH]; intros u.
    - cbn. split; [intros [] | intros [Hn _]; apply Hn; reflexivity].
    - destruct x as [|A' x].
      + cbn [make_words]. rewrite in_map_iff. split.
        * intros [a [<- Ha]]. apply R1_of_spec in Ha. split; [discriminate|]. constructor; [exact Ha | constructor].
        * intros [_ Hf]. inversion Hf as [|A0 a x0 u0 Ha Hf' E1 E2]; subst. inversion Hf'; subst.
          exists a. split; [reflexivity | apply R1_of_spec; exact Ha].
      + change (make_words G (A :: A' :: x)) with
          (flat_map (fun a => map (cons a) (make_words G (A' :: x))) (R1_of G A)).
        rewrite in_flat_map. split.
        * intros [a [Ha Hu]]. apply in_map_iff in Hu. destruct Hu as [u' [<- Hu']].
          apply IH in Hu'. destruct Hu' as [_ Hf]. split; [discriminate|].
          constructor; [apply R1_of_spec; exact Ha | exact Hf].
        * intros [_ Hf]. inversion Hf as [|A0 a x0 u0 Ha Hf' E1 E2]; subst.
          exists a. split; [apply R1_of_spec; exact Ha|]. apply in_map. apply IH. split; [discriminate | exact Hf'].
  Qed.

  (* ---- binary steps on strings of variables ---- *)
  Definition bstep (y z : list nat) : Prop :=
    exists x1 A x2 B C, y = x1 ++ A :: x2 /\ has_rule G A [Var B; Var C] /\ z = x1 ++ B :: C :: x2.

  Inductive bder : list nat -> list nat -> Prop :=
  | bd_refl x : bder x x
  | bd_step x y z : bder x y -> bstep y z -> bder x z.

  Lemma bstep_length y z : bstep y z -> length z = S (length y).
  Proof.
    intros [x1 [A [x2 [B [C [-> [_ ->]]]]]]]. rewrite !app_length. cbn [length]. lia.
  Qed.

  Lemma bder_length x y : bder x y -> x = y \/ length x < length y.
  Proof.
    intros Hd; induction Hd as [x|x y z Hd IH Hs]; [left; reflexivity|].
    right. apply bstep_length in Hs. destruct IH as [->|IH]; lia.
  Qed.

  Lemma bder_trans x y z : bder x y -> bder y z -> bder x z.
  Proof.
    intros H1 H2; induction H2 as [y|y z z' H2 IH Hs]; [exact H1|].
    eapply bd_step; [apply IH; exact H1 | exact Hs].
  Qed.

  Lemma bstep_ctx l r y z : bstep y z -> bstep (l ++ y ++ r) (l ++ z ++ r).
  Proof.
    intros [x1 [A [x2 [B [C [-> [Hr ->]]]]]]]. exists (l ++ x1), A, (x2 ++ r), B, C.
    repeat split; [|exact Hr|]; rewrite <- !app_assoc; reflexivity.
  Qed.

  Lemma bder_ctx l r y z : bder y z -> bder (l ++ y ++ r) (l ++ z ++ r).
  Proof.
    intros Hd; induction Hd as [y|y z z' Hd IH Hs]; [constructor|].
    eapply bd_step; [exact IH | apply bstep_ctx; exact Hs].
  Qed.

  Lemma replace_one_spec x : forall pre y, In y (replace_one G pre x) <->
    exists x1 A x2 B C, x = x1 ++ A :: x2 /\ has_rule G A [Var B; Var C] /\ y = pre ++ x1 ++ B :: C :: x2.
  Proof.
    induction x as [|A x IH]; intros pre y; cbn [replace_one].
    - split; [intros [] | intros [x1 [A [x2 [B [C [E _]]]]]]; destruct x1; discriminate].
    - rewrite in_app_iff, in_map_iff, IH. split.
      + intros [[rhs [<- Hrhs]]|[x1 [A' [x2 [B [C [-> [Hr ->]]]]]]]].
        * apply R2_of_spec in Hrhs. destruct Hrhs as [B [C [-> Hr]]].
          exists [], A, x, B, C. repeat split; [exact Hr].
        * exists (A :: x1), A', x2, B, C. repeat split; [exact Hr|]. rewrite <- app_assoc. reflexivity.
      + intros [x1 [A' [x2 [B [C [E [Hr ->]]]]]]]. destruct x1 as [|a x1]; cbn [app] in E; inversion E; subst.
        * left. exists [B; C]. split; [reflexivity|]. apply R2_of_spec. exists B, C. auto.
        * right. exists x1, A', x2, B, C. repeat split; [exact Hr|]. rewrite <- app_assoc. reflexivity.
  Qed.

  Lemma replace_one_bstep x y : In y (replace_one G [] x) <-> bstep x y.
  Proof. rewrite replace_one_spec. unfold bstep. cbn [app]. reflexivity. Qed.

  Lemma forms_spec i : forall y, In y (forms G i) <-> bder [gS G] y /\ length y = S i.
  Proof.
    induction i as [|i IH]; intros y.
    - cbn [forms]. split.
      + intros [<-|[]]. split; [constructor | reflexivity].
      + intros [Hd Hl]. apply bder_length in Hd. destruct Hd as [<-|Hd]; [left; reflexivity|].
        cbn [length] in Hd. lia.
    - cbn [forms]. rewrite dedup_In, in_flat_map. split.
      + intros [y' [Hy' Hs]]. apply replace_one_bstep in Hs. apply IH in Hy'. destruct Hy' as [Hd Hl]. split.
        * eapply bd_step; [exact Hd | exact Hs].
        * apply bstep_length in Hs. lia.
      + intros [Hd Hl]. inversion Hd as [x E|x y' z Hd' Hs E1 E2]; subst.
        * cbn [length] in Hl. lia.
        * exists y'. split; [|apply replace_one_bstep; exact Hs].
          apply IH. split; [exact Hd'|]. apply bstep_length in Hs. lia.
  Qed.

  (* ---- soundness: forms and terminal replacement describe parse trees ---- *)
  Lemma R1rel_yields x u : Forall2 R1rel x u -> yields_list G (map Var x) u.
  Proof.
    intros Hf; induction Hf as [|A a x u Ha Hf IH]; cbn [map]; [constructor|].
    change (a :: u) with ([a] ++ u). constructor; [|exact IH].
    econstructor; [exact Ha|]. apply yields_list_single. constructor.
  Qed.

  Lemma bstep_yields y z u : bstep y z -> yields_list G (map Var z) u -> yields_list G (map Var y) u.
  Proof.
    intros [x1 [A [x2 [B [C [-> [Hr ->]]]]]]] Hy. rewrite map_app in *. cbn [map] in *.
    apply yields_list_split in Hy. destruct Hy as [w1 [w' [-> [H1 Hy]]]].
    apply yields_list_cons_inv in Hy. destruct Hy as [wb [w'' [-> [HB Hy]]]].
    apply yields_list_cons_inv in Hy. destruct Hy as [wc [w2 [-> [HC H2]]]].
    apply yields_list_app; [exact H1|]. rewrite app_assoc. constructor; [|exact H2].
    econstructor; [exact Hr|]. apply yields_list_pair. exists wb, wc. auto.
  Qed.

  Lemma bder_yields x y u : bder x y -> yields_list G (map Var y) u -> yields_list G (map Var x) u.
  Proof.
    intros Hd; induction Hd as [x|x y z Hd IH Hs]; intros Hy; [exact Hy|].
    apply IH. eapply bstep_yields; [exact Hs | exact Hy].
  Qed.

  (* ---- completeness: a parse tree is normalised into binary rules first, terminal rules last ---- *)
  Lemma yields_normal n : forall u A, length u <= n -> u <> [] -> yields G (Var A) u ->
    exists x, bder [A] x /\ Forall2 R1rel x u.
  Proof.
    induction n as [|n IH]; intros u A Hl Hn Hy.
    - destruct u; [congruence | cbn in Hl; lia].
    - apply (cnf_yields_inv G Hc) in Hy.
      destruct Hy as [[E _]|[[a [E Hr]]|[B [C [u1 [u2 [E [Hr [HB [HC [N1 [N2 _]]]]]]]]]]]].
      + congruence.
      + subst u. exists [A]. split; [constructor|]. constructor; [exact Hr | constructor].
      + subst u. rewrite app_length in Hl.
        assert (L1 : length u1 <> 0) by (destruct u1; [congruence | cbn; lia]).
        assert (L2 : length u2 <> 0) by (destruct u2; [congruence | cbn; lia]).
        destruct (IH u1 B) as [x1 [D1 F1]]; [lia | exact N1 | exact HB|].
        destruct (IH u2 C) as [x2 [D2 F2]]; [lia | exact N2 | exact HC|].
        exists (x1 ++ x2). split; [|apply Forall2_app; assumption].
        apply bder_trans with [B; C].
        * eapply bd_step; [constructor|]. exists [], A, [], B, C. repeat split; exact Hr.
        * apply bder_trans with (x1 ++ [C]).
          -- generalize (bder_ctx [] [C] [B] x1 D1). cbn [app]. auto.
          -- generalize (bder_ctx x1 [] [C] x2 D2). rewrite !app_nil_r. auto.
  Qed.

  Lemma Forall2_length_eq x u : Forall2 R1rel x u -> length x = length u.
  Proof. intros Hf; induction Hf; cbn; [reflexivity | lia]. Qed.

  Theorem cnf_words_yields n w : In w (cnf_words G n) <-> length w <= n /\ yields G (Var (gS G)) w.
  Proof.
    unfold cnf_words. rewrite in_app_iff, in_flat_map. split.
    - intros [Hw|[i [Hi Hw]]].
      + destruct (has_rule_b (gR G) (gS G) []) eqn:E; [|destruct Hw]. destruct Hw as [<-|[]].
        apply has_rule_b_spec in E. split; [cbn; lia|]. econstructor; [exact E | constructor].
      + apply in_seq in Hi. apply in_flat_map in Hw. destruct Hw as [x [Hx Hw]].
        apply forms_spec in Hx. destruct Hx as [Hd Hlx]. apply make_words_spec in Hw. destruct Hw as [_ Hf].
        split; [rewrite <- (Forall2_length_eq x w Hf); lia|].
        apply yields_list_single. apply (bder_yields [gS G] x w Hd). apply R1rel_yields; exact Hf.
    - intros [Hl Hy]. destruct w as [|a w].
      + left. apply (chomsky_nullable G _ Hc) in Hy. destruct Hy as [_ Hr].
        apply has_rule_b_spec in Hr. rewrite Hr. left; reflexivity.
      + right. destruct (yields_normal (length (a :: w)) (a :: w) (gS G)) as [x [Hd Hf]];
          [lia | discriminate | exact Hy|].
        assert (Hlx := Forall2_length_eq x (a :: w) Hf). cbn [length] in Hlx, Hl.
        exists (length w). split; [apply in_seq; lia|]. apply in_flat_map. exists x. split.
        * apply forms_spec. split; assumption.
        * apply make_words_spec. split; [|exact Hf]. intros ->. discriminate.
  Qed.
End Enum.

Theorem cnf_words_exact G n w : is_chomsky G -> (In w (cnf_words G n) <-> length w <= n /\ cfg_lang G w).
Proof. intros Hc. rewrite derives_yields. apply cnf_words_yields; exact Hc. Qed.

Corollary cnf_words_accepts G n w : is_chomsky G -> cfg_wf G ->
  (In w (cnf_words G n) <-> length w <= n /\ cnf_accepts G w = true).
Proof.
  intros Hc Hwf. rewrite cnf_words_exact by exact Hc. rewrite cnf_accepts_correct by assumption. reflexivity.
Qed.

(* The Python routine returns a set; the model list may contain a word several times, so only membership
   is characterised. *)

Print Assumptions cnf_words_exact.
Print Assumptions cnf_words_accepts.
