(* Fast decision procedure for Myhill-Nerode equivalence of the states of a DFA (oracle for the C04 judges):
   Moore's partition refinement with class ids (definitions; proofs in Proofs/MooreProofs.v).

   States are processed in the order Qs = dedup (dQ D); a classification is the list of the class ids of the states
   of Qs (same order).  Round 0: id 1 for accepting, id 0 for non-accepting states.
   One round: the signature of q is (cls q, [cls (dstep D q a) | a in dS D]); the distinct signatures are numbered
   0, 1, 2, ... in the order of their first occurrence.  The loop stops as soon as the number of distinct ids did not
   grow; the fuel length (dQ D) is never exhausted (MooreProofs.moore_loop_spec).

   Efficiency under vm_compute (state names are unary numbers, comparing two of them costs their minimum):
   - the transition table is consulted only once: the successors of every state are stored as positions in Qs
     (moore_succs), so that a round reads classes by `nth` and never compares state names;
   - the table signature -> id is bucketed by the first component of the signature (the old class): a lookup walks
     to the bucket and searches only the signatures that refine that class. *)
From GT Require Import Base.Prelude Model.DFA.

(* position of the first occurrence of x in l *)
Fixpoint index_of (x : nat) (l : list nat) : nat :=
  match l with
  | [] => 0
  | y :: l' => if eqb x y then 0 else S (index_of x l')
  end.

(* class of the state x in the classification cls of the states Qs *)
Definition cl_of (Qs cls : list nat) (x : nat) : nat := nth (index_of x Qs) cls 0.

(* ---- table signature -> id; bucket number c holds the signatures (c, t) ---- *)
Definition sigtable := list (list (list nat * nat)).

Fixpoint tlookup (c : nat) (t : list nat) (tbl : sigtable) {struct tbl} : option nat :=
  match tbl with
  | [] => None
  | b :: tbl' => match c with 0 => lookup t b | S c' => tlookup c' t tbl' end
  end.

Fixpoint tinsert (c : nat) (t : list nat) (i : nat) (tbl : sigtable) : sigtable :=
  match c, tbl with
  | 0, [] => [[(t, i)]]
  | 0, b :: tbl' => ((t, i) :: b) :: tbl'
  | S c', [] => [] :: tinsert c' t i []
  | S c', b :: tbl' => b :: tinsert c' t i tbl'
  end.

(* number the signatures in the order of first occurrence: tbl = signatures seen so far, n = next free id;
   result = the ids of the signatures (same order) and the next free id *)
Fixpoint assign (sigs : list (nat * list nat)) (tbl : sigtable) (n : nat) : list nat * nat :=
  match sigs with
  | [] => ([], n)
  | (c, t) :: rest =>
    match tlookup c t tbl with
    | Some i => let (r, n') := assign rest tbl n in (i :: r, n')
    | None => let (r, n') := assign rest (tinsert c t n tbl) (S n) in (n :: r, n')
    end
  end.

(* successors of the states of Qs, as positions in Qs *)
Definition moore_succs (D : dfa nat) (Qs : list nat) : list (list nat) :=
  map (fun q => map (fun a => index_of (dstep D q a) Qs) (dS D)) Qs.

Definition moore_sigs (succs : list (list nat)) (cls : list nat) : list (nat * list nat) :=
  map (fun cs => (fst cs, map (fun i => nth i cls 0) (snd cs))) (combine cls succs).

(* one round of refinement: the new classification and its number of classes *)
Definition moore_round (succs : list (list nat)) (cls : list nat) : list nat * nat :=
  assign (moore_sigs succs cls) [] 0.

Fixpoint moore_loop (succs : list (list nat)) (fuel : nat) (cls : list nat) (n : nat) : list nat * nat :=
  match fuel with
  | 0 => (cls, n)
  | S f => let (cls', n') := moore_round succs cls in
           if n' <=? n then (cls, n) else moore_loop succs f cls' n'
  end.

Definition moore_init (D : dfa nat) (Qs : list nat) : list nat :=
  map (fun q => if mem q (dF D) then 1 else 0) Qs.

(* the final classification of dedup (dQ D) and its number of classes *)
Definition moore_run (D : dfa nat) : list nat * nat :=
  let Qs := dedup (dQ D) in
  let c0 := moore_init D Qs in
  moore_loop (moore_succs D Qs) (length (dQ D)) c0 (length (dedup c0)).

(* association list  state -> class id  for the states dedup (dQ D) *)
Definition moore_classes (D : dfa nat) : list (nat * nat) := combine (dedup (dQ D)) (fst (moore_run D)).

(* class of q in a classification given as an association list (0 for unclassified states) *)
Definition clm (m : list (nat * nat)) (q : nat) : nat :=
  match lookup q m with Some c => c | None => 0 end.

Definition moore_class_of (D : dfa nat) (q : nat) : nat := clm (moore_classes D) q.
Definition moore_count (D : dfa nat) : nat := snd (moore_run D).

(* Myhill-Nerode equivalence of two states of D.  (To classify many pairs of the same automaton inside one
   vm_compute, compute  m := moore_classes D  once and compare  clm m p  with  clm m q.) *)
Definition mn_b (D : dfa nat) (p q : nat) : bool := Nat.eqb (moore_class_of D p) (moore_class_of D q).
