(* C08 — cfg_to_chomsky returns a valid grammar in Chomsky normal form that generates exactly the same language.
   One statement per phase (postcondition + language preservation, stated with parse trees `yields`, which agree with
   derivations: Proofs/CFGBasics.derives_yields), the auxiliary computations of nullable and unit-derivable
   variables, the composition C08_to_chomsky (stated with `cfg_lang`, derivations on sentential forms), and totality.
   Fresh variable names are taken from `stream` (Model/Chomsky.v); a phase returns None only if the stream is
   exhausted or its next name is already a variable.
   Definitions local to Proofs files, referred to qualified:
     Proofs/ChomskyEpsUnitProofs.v:
       `dropsub W x y`      y is obtained from x by deleting some occurrences of variables whose name is in W
                            (inductive: ds_nil, ds_keep, ds_drop);
       `unit_reach G A B`   transitive closure (at least one step, inductive `tc`) of
                            `ustep G X Y := has_rule G X [Var Y] /\ In Y (gV G)`;
       `names_disjoint G`   := forall x, In x (gV G) -> ~ In x (gSg G)   (no variable name is a terminal name; needed
                            because the implementation's test `B in V` of phase 3 compares names);
       `perm_order ordV`    := forall l, Permutation (ordV l) l            (iteration order of the set V).
     Proofs/ChomskyFreshProofs.v:
       `is_new G G' A`      := In A (gV G') /\ ~ In A (gV G).
     Proofs/ChomskyFinal.v:
       `chomsky_names_bound G` := let M := max 1 (maxlen (gR G)) in
                                  1 + (S (length (gR G)) * 2 ^ M * S (S (length (gV G)))) * M + length (gSg G)
                            where `maxlen R` is the maximal length of a right-hand side;
       `need4 R`            := sum over the rules r of R of (length (rrhs r) - 2).
   The hypothesis of C08_to_chomsky that no name of the stream is a terminal name cannot be dropped: take_fresh only
   checks V, and with a start variable named like a terminal phase 3 changes the language
   (C08_to_chomsky_needs_nonterminal_names).  `ids_consistent (gR G)` is not needed for the composition since phase 2
   renumbers all alternatives. *)
From GT Require Import Base.Prelude Model.CFG Model.Chomsky Model.CYK.
From Coq Require Import Permutation.
From GT Require Proofs.CFGBasics Proofs.ChomskyFreshProofs Proofs.ChomskyEpsUnitProofs Proofs.ChomskyFinal.

(* ---- phase 1: new start variable ---- *)
Theorem C08_phase1_new_start : forall (stream : list nat) (G G' : cfg) (rest : list nat),
  cfg_wf G -> In (gS G) (gV G) -> add_start stream G = Some (G', rest) ->
  cfg_wf G' /\ ~ In (gS G') (gV G) /\ gV G' = gV G ++ [gS G'] /\ gSg G' = gSg G /\
  has_rule G' (gS G') [Var (gS G)] /\ (forall r x, In r (gR G') -> In x (rrhs r) -> x <> Var (gS G')) /\
  (forall w, yields G' (Var (gS G')) w <-> yields G (Var (gS G)) w) /\
  (forall A w, In A (gV G) -> (yields G' (Var A) w <-> yields G (Var A) w)).
Proof. exact ChomskyFreshProofs.add_start_correct. Qed.

(* ---- phase 2: epsilon rules ---- *)
Theorem C08_nullable_exact : forall G : cfg,
  exists W, cfg_nullable G = Some W /\ forall A, In A W <-> yields G (Var A) [].
Proof. exact ChomskyEpsUnitProofs.cfg_nullable_correct. Qed.

Theorem C08_expand_nullable : forall (x : list sym) (W : list nat) (y : list sym),
  In y (expand_nullable x W) <-> ChomskyEpsUnitProofs.dropsub W x y.
Proof. exact ChomskyEpsUnitProofs.expand_nullable_spec. Qed.

Theorem C08_phase2_epsilon_rules : forall G G' : cfg, cfg_wf G -> remove_eps G = Some G' ->
  cfg_wf G' /\ gV G' = gV G /\ gSg G' = gSg G /\ gS G' = gS G /\
  (forall r, In r (gR G') -> rrhs r = [] -> rvar r = gS G') /\
  (forall A w, w <> [] -> (yields G' (Var A) w <-> yields G (Var A) w)) /\
  (yields G' (Var (gS G)) [] <-> yields G (Var (gS G)) []) /\
  NoDup (map rid (gR G')).
Proof. exact ChomskyEpsUnitProofs.remove_eps_correct. Qed.

(* the rules of the new grammar *)
Theorem C08_phase2_rules : forall (G : cfg) (W : list nat) (G' : cfg), cfg_nullable G = Some W -> remove_eps G = Some G' ->
  forall A y, has_rule G' A y <->
    exists x, has_rule G A x /\ ChomskyEpsUnitProofs.dropsub W x y /\ ~ (y = [] /\ In A W /\ A <> gS G).
Proof. exact ChomskyEpsUnitProofs.remove_eps_rules. Qed.

Theorem C08_phase2_sound_all : forall G G' : cfg, remove_eps G = Some G' -> forall s w, yields G' s w -> yields G s w.
Proof. exact ChomskyEpsUnitProofs.remove_eps_sound_all. Qed.

Theorem C08_phase2_total : forall G : cfg, remove_eps G <> None.
Proof. exact ChomskyEpsUnitProofs.remove_eps_total. Qed.

(* ---- phase 3: unit rules ---- *)
Theorem C08_derivable_exact : forall (G : cfg) (A : nat), cfg_wf G -> ChomskyEpsUnitProofs.names_disjoint G ->
  exists W, cfg_derivable G A = Some W /\ forall B, In B W <-> B <> A /\ ChomskyEpsUnitProofs.unit_reach G A B.
Proof. exact ChomskyEpsUnitProofs.cfg_derivable_correct. Qed.

Theorem C08_derivable_total : forall (G : cfg) (A : nat), cfg_derivable G A <> None.
Proof. exact ChomskyEpsUnitProofs.cfg_derivable_total. Qed.

Theorem C08_phase3_unit_rules : forall (ordV : list nat -> list nat) (G G' : cfg),
  cfg_wf G -> ChomskyEpsUnitProofs.names_disjoint G -> ChomskyEpsUnitProofs.perm_order ordV -> elim_unit ordV G = Some G' ->
  cfg_wf G' /\ gV G' = gV G /\ gSg G' = gSg G /\ gS G' = gS G /\
  (forall r, In r (gR G') -> is_unit r = false) /\
  (forall A w, yields G' (Var A) w <-> yields G (Var A) w) /\
  (forall r, In r (gR G') -> rrhs r = [] ->
     exists r0, In r0 (gR G) /\ rrhs r0 = [] /\ (rvar r0 = rvar r \/ ChomskyEpsUnitProofs.unit_reach G (rvar r) (rvar r0))) /\
  (ids_consistent (gR G) -> ids_consistent (gR G')) /\
  (* the set of rules does not depend on the iteration order *)
  (forall ordV2 G2, ChomskyEpsUnitProofs.perm_order ordV2 -> elim_unit ordV2 G = Some G2 ->
     forall A rhs, has_rule G' A rhs <-> has_rule G2 A rhs).
Proof. exact ChomskyEpsUnitProofs.elim_unit_correct. Qed.

Theorem C08_phase3_total : forall (ordV : list nat -> list nat) (G : cfg), elim_unit ordV G <> None.
Proof. exact ChomskyEpsUnitProofs.elim_unit_total. Qed.

(* ---- phase 4: rules of length two ---- *)
Theorem C08_phase4_length_two : forall (stream : list nat) (G G' : cfg) (rest : list nat),
  cfg_wf G -> ids_consistent (gR G) -> len_two stream G = Some (G', rest) ->
  cfg_wf G' /\ gS G' = gS G /\ gSg G' = gSg G /\
  (exists new, gV G' = gV G ++ new /\ NoDup new /\ forall x, In x new -> ~ In x (gV G)) /\
  (forall r, In r (gR G') -> length (rrhs r) <= 2) /\
  (forall A w, In A (gV G) -> (yields G' (Var A) w <-> yields G (Var A) w)) /\
  (* nothing else changes: rules of length <= 2 are kept, no epsilon or unit rule is introduced *)
  (forall r, In r (gR G') -> rrhs r = [] \/ (exists x, rrhs r = [x]) ->
     exists r0, In r0 (gR G) /\ rvar r0 = rvar r /\ rrhs r0 = rrhs r) /\
  (forall r0, In r0 (gR G) -> length (rrhs r0) <= 2 -> has_rule G' (rvar r0) (rrhs r0)).
Proof. exact ChomskyFreshProofs.len_two_correct. Qed.

Theorem C08_phase4_total : forall (stream : list nat) (G : cfg),
  NoDup stream -> (forall x, In x stream -> ~ In x (gV G)) -> ChomskyFinal.need4 (gR G) <= length stream ->
  exists G' rest used, len_two stream G = Some (G', rest) /\ stream = used ++ rest /\ gV G' = gV G ++ used /\
                       length used <= ChomskyFinal.need4 (gR G).
Proof. exact ChomskyFinal.len_two_total. Qed.

(* ---- phase 5: terminals ---- *)
Theorem C08_phase5_terminals : forall (stream : list nat) (G G' : cfg) (rest : list nat),
  cfg_wf G -> elim_terminals stream G = Some (G', rest) ->
  cfg_wf G' /\ gS G' = gS G /\ gSg G' = gSg G /\
  (exists new, gV G' = gV G ++ new /\ NoDup new /\ forall x, In x new -> ~ In x (gV G)) /\
  (forall r, In r (gR G') -> length (rrhs r) <= 1 \/ forallb is_var (rrhs r) = true) /\
  (forall A w, In A (gV G) -> (yields G' (Var A) w <-> yields G (Var A) w)) /\
  (* every rule of G' is T_a -> a for a new variable T_a, or an old rule in which, if its length is >= 2, each
     terminal is replaced by a new variable; rules of length <= 1 are unchanged *)
  (forall r', In r' (gR G') ->
     (exists a, ChomskyFreshProofs.is_new G G' (rvar r') /\ rrhs r' = [Tm a]) \/
     (exists r, In r (gR G) /\ rvar r' = rvar r /\
        ((length (rrhs r) <= 1 /\ rrhs r' = rrhs r) \/
         (2 <= length (rrhs r) /\
          Forall2 (fun x x' => (is_var x = true /\ x' = x) \/
                               (exists a A, x = Tm a /\ x' = Var A /\ ChomskyFreshProofs.is_new G G' A))
                  (rrhs r) (rrhs r'))))).
Proof. exact ChomskyFreshProofs.elim_terminals_correct. Qed.

Theorem C08_phase5_total : forall (stream : list nat) (G : cfg),
  cfg_wf G -> NoDup stream -> (forall x, In x stream -> ~ In x (gV G)) ->
  length (gSg G) <= length stream -> elim_terminals stream G <> None.
Proof. exact ChomskyFinal.elim_terminals_total. Qed.

(* ---- cfg_to_chomsky ---- *)
Theorem C08_to_chomsky : forall (ordV : list nat -> list nat) (stream : list nat) (G G' : cfg) (rest : list nat),
  cfg_wf G -> ChomskyEpsUnitProofs.names_disjoint G -> In (gS G) (gV G) -> ChomskyEpsUnitProofs.perm_order ordV ->
  (forall x, In x stream -> ~ In x (gSg G)) ->
  to_chomsky ordV stream G = Some (G', rest) ->
  cfg_wf G' /\ is_chomsky G' /\ gSg G' = gSg G /\
  (exists new, gV G' = gV G ++ new /\ NoDup new /\ forall x, In x new -> ~ In x (gV G)) /\
  forall w, cfg_lang G' w <-> cfg_lang G w.
Proof. exact ChomskyFinal.to_chomsky_correct. Qed.

(* the conversion can only fail by running out of fresh names or being handed a name that is not fresh *)
Theorem C08_to_chomsky_total : forall (ordV : list nat -> list nat) (stream : list nat) (G : cfg),
  cfg_wf G -> ChomskyEpsUnitProofs.names_disjoint G -> In (gS G) (gV G) -> ChomskyEpsUnitProofs.perm_order ordV ->
  (forall x, In x stream -> ~ In x (gSg G)) ->
  NoDup stream -> (forall x, In x stream -> ~ In x (gV G)) ->
  ChomskyFinal.chomsky_names_bound G <= length stream ->
  to_chomsky ordV stream G <> None.
Proof. exact ChomskyFinal.to_chomsky_total. Qed.

(* a fresh start variable that has the name of a terminal changes the language *)
Theorem C08_to_chomsky_needs_nonterminal_names :
  exists ordV stream G G' rest,
    cfg_wf G /\ ChomskyEpsUnitProofs.names_disjoint G /\ In (gS G) (gV G) /\ ChomskyEpsUnitProofs.perm_order ordV /\
    ids_consistent (gR G) /\ NoDup stream /\ (forall x, In x stream -> ~ In x (gV G)) /\
    to_chomsky ordV stream G = Some (G', rest) /\ exists w, cfg_lang G' w /\ ~ cfg_lang G w.
Proof. exact ChomskyFinal.to_chomsky_needs_nonterminal_names. Qed.

Print Assumptions C08_phase1_new_start.
Print Assumptions C08_nullable_exact.
Print Assumptions C08_expand_nullable.
Print Assumptions C08_phase2_epsilon_rules.
Print Assumptions C08_phase2_rules.
Print Assumptions C08_phase2_sound_all.
Print Assumptions C08_phase2_total.
Print Assumptions C08_derivable_exact.
Print Assumptions C08_derivable_total.
Print Assumptions C08_phase3_unit_rules.
Print Assumptions C08_phase3_total.
Print Assumptions C08_phase4_length_two.
Print Assumptions C08_phase4_total.
Print Assumptions C08_phase5_terminals.
Print Assumptions C08_phase5_total.
Print Assumptions C08_to_chomsky.
Print Assumptions C08_to_chomsky_total.
Print Assumptions C08_to_chomsky_needs_nonterminal_names.

(* ================= C08, the fresh names =================
   "every variable it introduces is distinct from all existing ones": the phases above take their fresh names from
   `stream`; the names the implementation actually draws come from cfg_fresh_variable (Model/FreshName.v:
   fresh_variable V hint, names are tokens = lists of character codes, len(V) of the Python set = length (dedup V),
   'A'..'Z' = 165..190, '{}{}'.format(hint, index) = hint ++ digits index).  It always returns a name, and the name
   is not in V; the same for dfa_algorithms.fresh_state (FreshName.fresh_state). *)
From GT Require Import Model.Tokens Model.FreshName.
From GT Require Proofs.FreshNameProofs.

Theorem C08_fresh_variable_fresh : forall (V : list token) (hint A : token),
  fresh_variable V hint = Some A -> ~ In A V.
Proof. exact FreshNameProofs.fresh_variable_fresh. Qed.

Theorem C08_fresh_variable_total : forall (V : list token) (hint : token), fresh_variable V hint <> None.
Proof. exact FreshNameProofs.fresh_variable_total. Qed.

Theorem C08_fresh_variable_result_shape : forall (V : list token) (hint A : token), fresh_variable V hint = Some A ->
  A = hint \/ (exists c, 165 <= c <= 190 /\ A = [c]) \/ (exists i, A = hint ++ digits i).
Proof. exact FreshNameProofs.fresh_variable_result_shape. Qed.

(* which name: fewer than 26 variables - the hint if it is free, else the first free upper-case letter *)
Theorem C08_fresh_variable_small_hint : forall (V : list token) (hint : token),
  length (dedup V) < 26 -> ~ In hint V -> fresh_variable V hint = Some hint.
Proof. exact FreshNameProofs.fresh_variable_small_hint. Qed.

Theorem C08_fresh_variable_small_letter : forall (V : list token) (hint A : token),
  length (dedup V) < 26 -> In hint V -> fresh_variable V hint = Some A ->
  exists c, A = [c] /\ 165 <= c <= 190 /\ ~ In [c] V /\ forall d, 165 <= d < c -> In [d] V.
Proof. exact FreshNameProofs.fresh_variable_small_letter. Qed.

(* at least 26 variables - the first free name among hint, hint0, hint1, ... *)
Theorem C08_fresh_variable_large_first : forall (V : list token) (hint A : token),
  26 <= length (dedup V) -> fresh_variable V hint = Some A ->
  (A = hint /\ ~ In hint V) \/
  (exists i, A = hint ++ digits i /\ In hint V /\ ~ In A V /\ forall j, j < i -> In (hint ++ digits j) V).
Proof. exact FreshNameProofs.fresh_variable_large_first. Qed.

Theorem C08_digits_injective : forall m n : nat, digits m = digits n -> m = n.
Proof. exact FreshNameProofs.digits_inj. Qed.

Theorem C08_fresh_state_fresh : forall (Q : list token) (hint q : token), fresh_state Q hint = Some q -> ~ In q Q.
Proof. exact FreshNameProofs.fresh_state_tok_fresh. Qed.

Theorem C08_fresh_state_total : forall (Q : list token) (hint : token), fresh_state Q hint <> None.
Proof. exact FreshNameProofs.fresh_state_tok_total. Qed.

Theorem C08_fresh_state_shape : forall (Q : list token) (hint q : token), fresh_state Q hint = Some q ->
  exists k, 1 <= k /\ q = hint ++ digits k /\ ~ In q Q /\ forall j, 1 <= j < k -> In (hint ++ digits j) Q.
Proof. exact FreshNameProofs.fresh_state_tok_shape. Qed.

Print Assumptions C08_fresh_variable_fresh.
Print Assumptions C08_fresh_variable_total.
Print Assumptions C08_fresh_variable_result_shape.
Print Assumptions C08_fresh_variable_small_hint.
Print Assumptions C08_fresh_variable_small_letter.
Print Assumptions C08_fresh_variable_large_first.
Print Assumptions C08_digits_injective.
Print Assumptions C08_fresh_state_fresh.
Print Assumptions C08_fresh_state_total.
Print Assumptions C08_fresh_state_shape.
