(* C18 — NFA operations and the regular-expression-to-NFA generator (gambatools.nfa_algorithms: nfa_union,
   nfa_concatenation, nfa_repetition, as repaired by fix F9; gambatools.regexp_algorithms: RegexpToNFAGenerator.generate /
   regexp_to_nfa).
   "For all NFAs with disjoint state sets, whatever their epsilon symbol and state names, union / concatenation /
   repetition return a valid NFA whose language is exactly the union / concatenation / Kleene star of the operand
   languages; the state they introduce is distinct from every operand state."
   Model: Model/NFA.v (automaton, `ndelta`, `nfa_path`, `nfa_lang`, `nfa_wf` = NFA._check_validity) and Model/NFAOps.v
   (the routines).  Conventions:
   * `names` is the stream of names produced by the identifier generator ('q{index}', 'q{index+1}', ...): any list,
     i.e. any call history of the generator; a routine returns the automaton and the unused rest of the stream;
     `None` models an AssertionError (overlapping state sets, invalid result) or an exhausted stream;
   * `star_lang L` (Proofs/NFAOpsProofs.v) is the Kleene star of a language: [] | u ++ v with L u and star_lang L v;
   * `NoDup (map fst (nD N))` = the keys of a Python dict are unique.  It is needed for the operands: `ndelta` reads an
     association list through its first entry while the routines merge all entries (C18_*_unique_keys_needed give a
     valid automaton with a repeated key for which each language statement fails).  The results satisfy it again;
   * the word condition.  The specification `nfa_path` lets a letter that equals the epsilon symbol take an epsilon
     move (np_sym has no guard), and the routines re-key the epsilon moves of the second operand to the epsilon symbol
     of the first.  The language statements are therefore about words that contain neither epsilon symbol
     (C18_word_condition_needed: the star automaton of {[]} "accepts" the one-letter word [epsilon]).  For words over
     the alphabet of the result the condition is automatic as soon as the epsilon symbol of the second operand is not
     a letter of the first (in particular when both operands use the same epsilon symbol): C18_*_alphabet;
   * failure is characterised exactly (C18_*_failure) for valid operands: overlapping state sets, a stream without a
     usable name, or the epsilon symbol of the first operand being a letter of the second (the result would violate
     epsilon ∉ Sigma, so the NFA constructor raises);
   * regexp -> NFA: `eps0` is Symbol(''), `names` any stream of pairwise distinct names; the hypothesis
     ~ In eps0 (re_symbols r) is needed for validity (Sym eps0 alone yields an automaton with epsilon ∈ Sigma, which
     the model, like the Python, returns unchecked); 2 * nodes r names always suffice.
   Proofs: Proofs/NFAOpsProofs.v. *)
From GT Require Import Base.Prelude Model.NFA Model.Regexp Model.NFAOps Proofs.NFAOpsProofs.

(* ---- union ---- *)
Theorem C18_union : forall (names : list nat) (N1 N2 R : nfa nat) (rest : list nat),
  nfa_wf N1 -> nfa_wf N2 -> NoDup (map fst (nD N1)) -> NoDup (map fst (nD N2)) ->
  nfa_union names N1 N2 = Some (R, rest) ->
  nfa_wf R /\ NoDup (map fst (nD R)) /\ ~ In (nq0 R) (nQ N1) /\ ~ In (nq0 R) (nQ N2) /\ neps R = neps N1 /\
  (forall a, In a (nS R) <-> In a (nS N1) \/ In a (nS N2)) /\
  (forall q, In q (nQ R) <-> In q (nQ N1) \/ In q (nQ N2) \/ q = nq0 R) /\
  (exists pre, names = pre ++ nq0 R :: rest /\ forall y, In y pre -> In y (nQ N1) \/ In y (nQ N2)) /\
  (forall w, Forall (fun a => a <> neps N1 /\ a <> neps N2) w -> (nfa_lang R w <-> nfa_lang N1 w \/ nfa_lang N2 w)).
Proof. exact (@nfa_union_correct nat _). Qed.
Print Assumptions C18_union.

Theorem C18_union_alphabet : forall (names : list nat) (N1 N2 R : nfa nat) (rest : list nat),
  nfa_wf N1 -> nfa_wf N2 -> NoDup (map fst (nD N1)) -> NoDup (map fst (nD N2)) -> ~ In (neps N2) (nS N1) ->
  nfa_union names N1 N2 = Some (R, rest) ->
  forall w, Forall (fun a => In a (nS R)) w -> (nfa_lang R w <-> nfa_lang N1 w \/ nfa_lang N2 w).
Proof. exact (@nfa_union_correct_alphabet nat _). Qed.
Print Assumptions C18_union_alphabet.

Theorem C18_union_failure : forall (names : list nat) (N1 N2 : nfa nat), nfa_wf N1 -> nfa_wf N2 ->
  (nfa_union names N1 N2 = None <->
   (exists x, In x (nQ N1) /\ In x (nQ N2)) \/ (forall y, In y names -> In y (nQ N1) \/ In y (nQ N2)) \/ In (neps N1) (nS N2)).
Proof. exact (@nfa_union_none nat _). Qed.
Print Assumptions C18_union_failure.

Theorem C18_union_succeeds : forall (names : list nat) (N1 N2 : nfa nat), nfa_wf N1 -> nfa_wf N2 ->
  (forall x, In x (nQ N1) -> ~ In x (nQ N2)) -> (exists y, In y names /\ ~ In y (nQ N1) /\ ~ In y (nQ N2)) ->
  neps N1 = neps N2 -> nfa_union names N1 N2 <> None.
Proof. exact (@nfa_union_succeeds nat _). Qed.
Print Assumptions C18_union_succeeds.

(* ---- concatenation ---- *)
Theorem C18_concatenation : forall (N1 N2 R : nfa nat),
  nfa_wf N1 -> nfa_wf N2 -> NoDup (map fst (nD N1)) -> NoDup (map fst (nD N2)) ->
  nfa_concatenation N1 N2 = Some R ->
  nfa_wf R /\ NoDup (map fst (nD R)) /\ neps R = neps N1 /\ nq0 R = nq0 N1 /\
  (forall a, In a (nS R) <-> In a (nS N1) \/ In a (nS N2)) /\
  (forall q, In q (nQ R) <-> In q (nQ N1) \/ In q (nQ N2)) /\
  (forall w, Forall (fun a => a <> neps N1 /\ a <> neps N2) w ->
     (nfa_lang R w <-> exists u v, w = u ++ v /\ nfa_lang N1 u /\ nfa_lang N2 v)).
Proof. exact (@nfa_concatenation_correct nat _). Qed.
Print Assumptions C18_concatenation.

Theorem C18_concatenation_alphabet : forall (N1 N2 R : nfa nat),
  nfa_wf N1 -> nfa_wf N2 -> NoDup (map fst (nD N1)) -> NoDup (map fst (nD N2)) -> ~ In (neps N2) (nS N1) ->
  nfa_concatenation N1 N2 = Some R ->
  forall w, Forall (fun a => In a (nS R)) w -> (nfa_lang R w <-> exists u v, w = u ++ v /\ nfa_lang N1 u /\ nfa_lang N2 v).
Proof. exact (@nfa_concatenation_correct_alphabet nat _). Qed.
Print Assumptions C18_concatenation_alphabet.

Theorem C18_concatenation_failure : forall (N1 N2 : nfa nat), nfa_wf N1 -> nfa_wf N2 ->
  (nfa_concatenation N1 N2 = None <-> (exists x, In x (nQ N1) /\ In x (nQ N2)) \/ In (neps N1) (nS N2)).
Proof. exact (@nfa_concatenation_none nat _). Qed.
Print Assumptions C18_concatenation_failure.

Theorem C18_concatenation_succeeds : forall (N1 N2 : nfa nat), nfa_wf N1 -> nfa_wf N2 ->
  (forall x, In x (nQ N1) -> ~ In x (nQ N2)) -> neps N1 = neps N2 -> nfa_concatenation N1 N2 <> None.
Proof. exact (@nfa_concatenation_succeeds nat _). Qed.
Print Assumptions C18_concatenation_succeeds.

(* ---- repetition ---- *)
Theorem C18_repetition : forall (names : list nat) (N R : nfa nat) (rest : list nat),
  nfa_wf N -> NoDup (map fst (nD N)) -> nfa_repetition names N = Some (R, rest) ->
  nfa_wf R /\ NoDup (map fst (nD R)) /\ ~ In (nq0 R) (nQ N) /\ neps R = neps N /\ nS R = nS N /\
  (forall q, In q (nQ R) <-> In q (nQ N) \/ q = nq0 R) /\
  (exists pre, names = pre ++ nq0 R :: rest /\ forall y, In y pre -> In y (nQ N)) /\
  (forall w, Forall (fun a => a <> neps N) w -> (nfa_lang R w <-> star_lang (nfa_lang N) w)).
Proof. exact (@nfa_repetition_correct nat _). Qed.
Print Assumptions C18_repetition.

Theorem C18_repetition_alphabet : forall (names : list nat) (N R : nfa nat) (rest : list nat),
  nfa_wf N -> NoDup (map fst (nD N)) -> nfa_repetition names N = Some (R, rest) ->
  forall w, Forall (fun a => In a (nS N)) w -> (nfa_lang R w <-> star_lang (nfa_lang N) w).
Proof. exact (@nfa_repetition_correct_alphabet nat _). Qed.
Print Assumptions C18_repetition_alphabet.

Theorem C18_repetition_failure : forall (names : list nat) (N : nfa nat), nfa_wf N ->
  (nfa_repetition names N = None <-> forall y, In y names -> In y (nQ N)).
Proof. exact (@nfa_repetition_none nat _). Qed.
Print Assumptions C18_repetition_failure.

(* ---- the hypotheses are needed ---- *)
Theorem C18_union_unique_keys_needed :
  nfa_wf dupN1 /\ nfa_wf dupN2 /\ (forall x, In x (nQ dupN1) -> ~ In x (nQ dupN2)) /\
  exists R rest, nfa_union [3] dupN1 dupN2 = Some (R, rest) /\
    Forall (fun a => a <> neps dupN1 /\ a <> neps dupN2) [5] /\
    nfa_lang R [5] /\ ~ (nfa_lang dupN1 [5] \/ nfa_lang dupN2 [5]).
Proof. exact nfa_union_needs_unique_keys. Qed.
Print Assumptions C18_union_unique_keys_needed.

Theorem C18_concatenation_unique_keys_needed :
  nfa_wf dupN2 /\ nfa_wf dupN1 /\ (forall x, In x (nQ dupN2) -> ~ In x (nQ dupN1)) /\
  exists R, nfa_concatenation (mkNFA [2] [] [] 2 [2] 9) dupN1 = Some R /\
    nfa_lang R [5] /\ ~ (exists u v, [5] = u ++ v /\ nfa_lang (mkNFA [2] [] [] 2 [2] 9) u /\ nfa_lang dupN1 v).
Proof. exact nfa_concatenation_needs_unique_keys. Qed.
Print Assumptions C18_concatenation_unique_keys_needed.

Theorem C18_repetition_unique_keys_needed :
  nfa_wf dupN1 /\ exists R rest, nfa_repetition [3] dupN1 = Some (R, rest) /\
    Forall (fun a => a <> neps dupN1) [5] /\ nfa_lang R [5] /\ ~ star_lang (nfa_lang dupN1) [5].
Proof. exact nfa_repetition_needs_unique_keys. Qed.
Print Assumptions C18_repetition_unique_keys_needed.

Theorem C18_word_condition_needed :
  let N := mkNFA [0] [] [] 0 [0] 9 in
  nfa_wf N /\ NoDup (map fst (nD N)) /\ exists R rest, nfa_repetition [3] N = Some (R, rest) /\
    nfa_lang R [9] /\ ~ star_lang (nfa_lang N) [9].
Proof. exact nfa_repetition_word_condition_needed. Qed.
Print Assumptions C18_word_condition_needed.

(* ---- regular expression -> NFA ---- *)
Theorem C18_regexp_to_nfa : forall (eps0 : nat) (r : re) (names : list nat) (N : nfa nat) (rest : list nat),
  NoDup names -> ~ In eps0 (re_symbols r) -> re_to_nfa eps0 r names = Some (N, rest) ->
  nfa_wf N /\ neps N = eps0 /\ (exists used, names = used ++ rest /\ forall q, In q (nQ N) -> In q used) /\
  (forall w, ~ In eps0 w -> (nfa_lang N w <-> re_lang r w)).
Proof. exact (@re_to_nfa_correct nat _). Qed.
Print Assumptions C18_regexp_to_nfa.

Theorem C18_regexp_to_nfa_total : forall (eps0 : nat) (r : re) (names : list nat),
  NoDup names -> ~ In eps0 (re_symbols r) -> 2 * nodes r <= length names -> re_to_nfa eps0 r names <> None.
Proof. exact (@re_to_nfa_total nat _). Qed.
Print Assumptions C18_regexp_to_nfa_total.
