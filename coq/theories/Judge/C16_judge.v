From GT Require Import Base.Prelude Model.Tokens Model.Parser Model.Printer Model.Regexp Model.NFA Model.NFAOps Decide.DFAEquiv Judge.Common Judge.C17_judge Judge.C06_judge.

(* print -> parse round trip of one automaton: text = tokens of the implementation's printed form, o = the implementation's
   re-parse, X = the original object; additionally the model printer/parser round trip is evaluated on X *)
Definition judge_rt_dfa (text : list line) (o : option tdfa) (X : tdfa) : nat := worst_code [judge_dfa text o (Some X) false; check (rt_dfa X) 13].
Definition judge_rt_nfa (text : list line) (o : option tnfa) (X : tnfa) : nat := worst_code [judge_nfa text o (Some X); check (rt_nfa X) 23].
Definition judge_rt_pda (text : list line) (o : option tpda) (X : tpda) : nat := worst_code [judge_pda text o (Some X); check (rt_pda X) 33].
Definition judge_rt_tm (text : list line) (o : option ttm) (X : ttm) : nat := worst_code [judge_tm text o (Some X); check (rt_tm X) 43].

(* regular expressions: r printed and re-parsed (by the ANTLR parser) to r'; same_print = the two print identically *)
Definition re_lang_eqb (r s : re) : option bool :=
  let Sg := dedup (re_symbols r ++ re_symbols s) in
  if negb (forallb (fun w => Bool.eqb (acc r w) (acc s w)) (words_upto Sg 4)) then Some false
  else match re_nfa_over r Sg, re_nfa_over s Sg with
       | Some N1, Some N2 => nfa_equivb_f 300 N1 N2
       | _, _ => None
       end.
Definition judge_rt_re (r : re) (reparsed : list (option re * bool)) : nat :=
  worst_code (map (fun x => let '(o, same_print) := x in
    match o with
    | None => 50
    | Some r' => if negb same_print then 51
                 else match re_lang_eqb r r' with Some false => 52 | _ => if re_eqb r r' then 0 else 0 end
    end) reparsed).
