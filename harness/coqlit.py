"""Python value -> Coq literal (text).  All numerals are small nats."""


def nat(n):
    assert isinstance(n, int) and 0 <= n < 5000, n
    return str(n)


def boolean(b):
    return 'true' if b else 'false'


def lst(items):
    items = list(items)
    if not items:
        return '[]'
    return '[' + '; '.join(items) + ']'


def pair(*xs):
    return '(' + ', '.join(xs) + ')'


def option(x, f=lambda y: y):
    return 'None' if x is None else '(Some ' + f(x) + ')'


def word(w):
    return lst(nat(a) for a in w)


def words(ws):
    return lst(word(w) for w in ws)


def nats(xs):
    return lst(nat(x) for x in xs)


def re(t):
    """regexp tree as nested tuples: ('0',) ('1',) ('s', a) ('+', l, r) ('.', l, r) ('*', x)"""
    k = t[0]
    if k == '0':
        return 'Zero'
    if k == '1':
        return 'One'
    if k == 's':
        return '(Sym %d)' % t[1]
    if k == '+':
        return '(Sum %s %s)' % (re(t[1]), re(t[2]))
    if k == '.':
        return '(Cat %s %s)' % (re(t[1]), re(t[2]))
    if k == '*':
        return '(Star %s)' % re(t[1])
    raise ValueError(t)


class Names:
    """Injective assignment of small nat codes to Python names (strings) within one case."""

    def __init__(self, start=0):
        self.m = {}
        self.start = start

    def __call__(self, name):
        if name not in self.m:
            self.m[name] = self.start + len(self.m)
        return self.m[name]

    def known(self, name):
        return name in self.m

    def inverse(self):
        return {v: k for k, v in self.m.items()}


def state_names(*automata):
    st = Names()
    for c in automata:
        for q in c['Q']:
            st(q)
    return st


def symbol_names(*automata):
    sy = Names()
    for c in automata:
        for a in c['Sigma']:
            sy(a)
    return sy


def dfa(c, st, sy):
    delta = lst(pair(pair(nat(st(q)), nat(sy(a))), nat(st(q1))) for (q, a, q1) in c['delta'])
    return '(mkDFA %s %s %s %s %s)' % (nats(st(q) for q in c['Q']), nats(sy(a) for a in c['Sigma']), delta, nat(st(c['q0'])), nats(st(q) for q in c['F']))


def nfa(c, st, sy):
    """sy must map c['eps'] to a code too (call sy(c['eps']) after the alphabet)."""
    delta = lst(pair(pair(nat(st(q)), nat(sy(a))), nats(st(q1) for q1 in qs)) for (q, a, qs) in c['delta'])
    return '(mkNFA %s %s %s %s %s %s)' % (nats(st(q) for q in c['Q']), nats(sy(a) for a in c['Sigma']), delta, nat(st(c['q0'])),
                                          nats(st(q) for q in c['F']), nat(sy(('eps', c['eps']))))


def wordc(w, sy):
    return nats(sy(a) for a in w)
