"""Conversions between JSON-able case data and gambatools objects (used inside workers)."""
SYMS = 'abcdefgh'


def sym(a):
    return SYMS[a]


def word_str(w):
    return ''.join(SYMS[a] for a in w)


def word_codes(s):
    return [SYMS.index(ch) for ch in s]


def re_to_obj(t):
    from gambatools import regexp as R
    k = t[0]
    if k == '0':
        return R.Zero()
    if k == '1':
        return R.One()
    if k == 's':
        return R.Symbol(SYMS[t[1]])
    if k == '+':
        return R.Sum(re_to_obj(t[1]), re_to_obj(t[2]))
    if k == '.':
        return R.Concat(re_to_obj(t[1]), re_to_obj(t[2]))
    if k == '*':
        return R.Iteration(re_to_obj(t[1]))
    raise ValueError(t)


def re_from_obj(x):
    from gambatools import regexp as R
    if isinstance(x, R.Zero):
        return ['0']
    if isinstance(x, R.One):
        return ['1']
    if isinstance(x, R.Symbol):
        return ['s', SYMS.index(x.symbol)]
    if isinstance(x, R.Sum):
        return ['+', re_from_obj(x.left), re_from_obj(x.right)]
    if isinstance(x, R.Concat):
        return ['.', re_from_obj(x.left), re_from_obj(x.right)]
    if isinstance(x, R.Iteration):
        return ['*', re_from_obj(x.operand)]
    raise ValueError(x)


def re_str(t):
    k = t[0]
    if k in '01':
        return k
    if k == 's':
        return SYMS[t[1]]
    if k == '*':
        return '(%s)*' % re_str(t[1])
    return '(%s%s%s)' % (re_str(t[1]), k, re_str(t[2]))


# ---------------------------------------------------------------- Turing machines
def tm_obj(c):
    from gambatools.tm import TM
    delta = {(p, a): (q, b, d) for (p, a, q, b, d) in c['delta']}
    return TM(set(c['Q']), set(c['Sigma']), set(c['Gamma']), delta, c['q0'], c['qa'], c['qr'], c['blank'])


def tm_text(c):
    lines = ['states ' + ' '.join(c['Q']), 'initial ' + c['q0'], 'accept ' + c['qa'], 'reject ' + c['qr'],
             'input_symbols ' + ' '.join(c['Sigma']), 'tape_symbols ' + ' '.join(c['Gamma']), 'blank ' + c['blank']]
    for (p, a, q, b, d) in c['delta']:
        lines.append('%s %s %s%s,%s' % (p, q, a, b, d))
    return '\n'.join(lines)
