#!/venv/bin/python
"""Apply a seeded change to /repo, confirm it (tests pass, demo fails), run the property's check, undo the change.
usage: seedtest.py <dir with patch.diff, demo.py> <property> [more properties...] [--tier quick|thorough]"""
import json
import os
import subprocess
import sys
import time


def sh(cmd, **kw):
    p = subprocess.run(cmd, stdout=subprocess.PIPE, stderr=subprocess.STDOUT, text=True, **kw)
    return p.returncode, p.stdout


def main():
    args = [a for a in sys.argv[1:] if not a.startswith('--')]
    tier = 'quick'
    if '--tier' in sys.argv:
        tier = sys.argv[sys.argv.index('--tier') + 1]
        args = [a for a in args if a != tier]
    d, props = os.path.abspath(args[0]), args[1:]
    patch, demo = os.path.join(d, 'patch.diff'), os.path.join(d, 'demo.py')
    rc, out = sh(['git', '-C', '/repo', 'status', '--porcelain'])
    assert out.strip() == '', '/repo is not clean: ' + out
    res = {'dir': d, 'props': props, 'tier': tier}
    env = dict(os.environ, PYTHONPATH='/repo/src', PYTHONDONTWRITEBYTECODE='1')
    rc, out = sh(['git', '-C', '/repo', 'apply', '--3way', patch])
    if rc != 0:
        rc, out = sh(['git', '-C', '/repo', 'apply', patch])
    res['applied'] = rc == 0
    if rc != 0:
        res['apply_error'] = out[-500:]
        print(json.dumps(res, indent=1))
        sh(['git', '-C', '/repo', 'reset', '--hard', '-q', 'HEAD'])
        return
    try:
        rc, out = sh(['/venv/bin/python', '-m', 'pytest', '-q', '-p', 'no:cacheprovider', '-x'], cwd='/repo', env=env)
        res['tests'] = out.strip().split('\n')[-1]
        rc, out = sh(['timeout', '120', '/venv/bin/python', demo], env=env, cwd=d)
        res['demo_with_change'] = rc
        res['checks'] = {}
        for p in props:
            t = time.time()
            rc, out = sh(['timeout', '3000', os.path.join('/verif', 'check'), p, '--tier', tier], env=dict(os.environ, VERIF_EVIDENCE_DIR='/verif/.work/seeded_evidence'))
            lines = [l for l in out.split('\n') if l.startswith('VIOLATION') or l.startswith(p + ' tier')]
            res['checks'][p] = {'exit': rc, 'lines': lines[:5], 'wall_s': round(time.time() - t, 1)}
            reps = [l.split('replay=')[1].split()[0] for l in lines if 'replay=' in l]
            if reps and os.path.exists(reps[0]):
                r = json.load(open(reps[0]))
                res['checks'][p]['first_replay'] = {'code': r.get('code'), 'meaning': r.get('meaning'), 'kind': r.get('kind')}
    finally:
        sh(['git', '-C', '/repo', 'reset', '--hard', '-q', 'HEAD'])
    rc, out = sh(['timeout', '120', '/venv/bin/python', demo], env=env, cwd=d)
    res['demo_without_change'] = rc
    rc, out = sh(['git', '-C', '/repo', 'status', '--porcelain'])
    res['repo_clean_after'] = out.strip() == ''
    print(json.dumps(res, indent=1))


if __name__ == '__main__':
    main()
