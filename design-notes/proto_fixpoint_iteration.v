(* Design note (calibration sketch, no axioms): the generic lemma behind every `while changed:` loop of
   the library that saturates a set inside a finite universe (nullable / productive / unit-derivable
   variables, reachable states, the marking phase of table filling): an inflationary step bounded by a
   universe U reaches a closed set within |U|+1 rounds, and the loop's own exit test detects it. *)
From Coq Require Import List Arith Lia.
Import ListNotations.

Section Saturate.
  Variable A : Type.
  Hypothesis eq_dec : forall x y : A, {x = y} + {x <> y}.
  Variable step : list A -> list A.
  Variable U : list A.
  Hypothesis step_infl : forall l, incl l (step l).
  Hypothesis step_bound : forall l, incl l U -> incl (step l) U.

  Definition subsetb (l1 l2 : list A) : bool := forallb (fun x => if in_dec eq_dec x l2 then true else false) l1.
  Lemma subsetb_spec l1 l2 : subsetb l1 l2 = true <-> incl l1 l2.
  Proof.
    unfold subsetb. rewrite forallb_forall. split.
    - intros H x Hx. specialize (H x Hx). destruct (in_dec eq_dec x l2) as [Hi|]; [exact Hi|discriminate].
    - intros H x Hx. destruct (in_dec eq_dec x l2) as [|n]; [reflexivity | exfalso; apply n, H, Hx].
  Qed.

  (* the loop: recompute; stop when nothing new was added *)
  Fixpoint saturate (fuel : nat) (l : list A) : option (list A) :=
    match fuel with
    | 0 => None
    | S f => let l' := step l in if subsetb l' l then Some l else saturate f l'
    end.

  Definition card (l : list A) : nat := length (nodup eq_dec l).

  Lemma card_le l1 l2 : incl l1 l2 -> card l1 <= card l2.
  Proof.
    intros H. unfold card. apply NoDup_incl_length; [apply NoDup_nodup|].
    intros x Hx. apply nodup_In. apply H. eapply nodup_In; eauto.
  Qed.

  Lemma card_lt l1 l2 : incl l1 l2 -> ~ incl l2 l1 -> card l1 < card l2.
  Proof.
    intros H Hn. destruct (le_lt_dec (card l2) (card l1)) as [Hle|]; auto. exfalso. apply Hn.
    unfold card in Hle.
    assert (Hi : incl (nodup eq_dec l2) (nodup eq_dec l1)).
    { apply NoDup_length_incl; [apply NoDup_nodup | exact Hle |].
      intros x Hx. apply nodup_In. apply H. eapply nodup_In; eauto. }
    intros x Hx. eapply nodup_In. apply Hi. apply nodup_In. exact Hx.
  Qed.

  (* result: closed, above the start, inside U, and obtained by iterating step *)
  Inductive iterated (l0 : list A) : list A -> Prop :=
  | it_0 : iterated l0 l0
  | it_S l : iterated l0 l -> iterated l0 (step l).

  Lemma saturate_sound fuel : forall l r, saturate fuel l = Some r -> incl (step r) r /\ iterated l r.
  Proof.
    induction fuel as [|f IH]; intros l r H; cbn in H; [discriminate|].
    destruct (subsetb (step l) l) eqn:E.
    - inversion H; subst. split; [apply subsetb_spec; exact E | constructor].
    - destruct (IH _ _ H) as [Hc Hi]. split; auto.
      clear - Hi. induction Hi; [apply it_S, it_0 | apply it_S; auto].
  Qed.

  Lemma saturate_terminates fuel : forall l, incl l U -> card U - card l < fuel -> saturate fuel l <> None.
  Proof.
    induction fuel as [|f IH]; intros l Hl Hf; [lia|]. cbn.
    destruct (subsetb (step l) l) eqn:E; [discriminate|].
    apply IH; [apply step_bound; exact Hl|].
    assert (card l < card (step l)).
    { apply card_lt; [apply step_infl|]. intro Hc. apply subsetb_spec in Hc. congruence. }
    assert (card (step l) <= card U) by (apply card_le, step_bound, Hl).
    lia.
  Qed.

  Theorem saturate_total l : incl l U -> exists r, saturate (S (card U)) l = Some r /\ incl (step r) r /\ incl l r /\ incl r U.
  Proof.
    intros Hl. destruct (saturate (S (card U)) l) as [r|] eqn:E.
    - exists r. destruct (saturate_sound _ _ _ E) as [Hc Hi]. repeat split; auto.
      + clear - Hi step_infl. induction Hi; [apply incl_refl | eapply incl_tran; [exact IHHi | apply step_infl]].
      + clear - Hi Hl step_bound. induction Hi; auto.
    - exfalso. eapply saturate_terminates; [exact Hl | | exact E]. lia.
  Qed.
End Saturate.
