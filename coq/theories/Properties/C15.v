(* C15 — simulation routines and their witnesses.
   "The simulation returns a run that starts in the initial configuration with the whole word unread, changes
   configuration only by transitions of the automaton while the unread input shrinks from the front, and ends in an
   accepting state with nothing unread; for rejected words the NFA simulation returns nothing; derivations start with
   the start variable, rewrite the leftmost (rightmost) variable by a rule at each step and end with the word."

   Part 1: the witness checkers (dfa_run_ok, nfa_run_ok, pda_run_ok, derivation_ok), which the correspondence harness
           runs on the values returned by dfa/nfa/pda_simulate_word and cfg_derive_word, are sound against the
           textbook specifications (dfa_path, nfa_lang/nfa_path, pda_lang/pda_reach, cfg_lang/derives); the step
           relations they check are stated exactly.
   Part 2: the model of dfa_simulate_word returns a run accepted by the checker (valid DFA, word over the alphabet).
   Part 3: the model of nfa_simulate_word with nfa_find_epsilon_path (BFS with back-pointers) and nfa_find_transition,
           for every admissible pick (set.pop() / set iteration order): the epsilon-path search is sound and complete
           (and terminates within the fuel of the model), accepted words yield a run accepted by the checker,
           rejected words yield None.
   Part 4: the model of cfg_derive_word (parse tree from the CYK table with find_rule and the first split point that
           works, extract_derivation with first_index / last_index): for a CNF grammar and a non-empty accepted word a
           leftmost (mode 0) / rightmost (mode 1) derivation accepted by the checker is returned, PROVIDED no letter of
           the word is the name of a variable (Python compares Variable / Terminal objects by name only; the
           counterexample C15_cfg_derive_clash shows that the proviso is needed); for rejected words the routine raises.
   Part 5: the model of pda_simulate_word with pda_find_epsilon_path and pda_find_transition on configurations
           (state, stack): every returned run is accepted by the checker (every admissible pick, every iteration
           limit, closures truncated or not); when no closure of the forward pass is truncated the searches terminate
           within the fuel of the model for every admissible pick, a run is returned for accepted words and nothing
           for rejected words.  The unbounded `while todo` of pda_find_epsilon_path is modelled with a fuel
           (1 + size of the closure computed by the forward pass); see Model/Simulate2.v (D1).
   States are instantiated to nat (the harness codes state names injectively); the proofs are generic. *)
From GT Require Import Base.Prelude Model.DFA Model.NFA Model.PDA Model.CFG Model.Simulate Proofs.SimulateProofs.

(* ---------------- Part 1: witness checkers ---------------- *)
Theorem C15_dfa_run_ok_sound : forall (D : dfa nat) (w : word) (run : list (nat * word)),
  dfa_run_ok D w run = true ->
  (exists qf, dfa_path D (dq0 D) w qf /\ last (map fst run) (dq0 D) = qf) /\
  length run = S (length w) /\
  (forall i, i <= length w -> snd (nth i run (dq0 D, [])) = skipn i w).
Proof. exact (fun D w run => dfa_run_ok_sound D w run). Qed.

Theorem C15_nfa_run_ok_sound : forall (N : nfa nat) (w : word) (run : list (nat * word)),
  nfa_run_ok N w run = true ->
  nfa_lang N w /\ hd_error run = Some (nq0 N, w) /\ (exists qf, last run (nq0 N, w) = (qf, []) /\ In qf (nF N)).
Proof. exact (fun N w run => nfa_run_ok_sound N w run). Qed.

Theorem C15_nfa_run_ok_steps : forall (N : nfa nat) (w : word) (run : list (nat * word)),
  nfa_run_ok N w run = true ->
  forall i d, S i < length run ->
    (snd (nth i run d) = snd (nth (S i) run d) /\ In (fst (nth (S i) run d)) (ndelta N (fst (nth i run d)) (neps N))) \/
    (exists a, snd (nth i run d) = a :: snd (nth (S i) run d) /\ a <> neps N /\
               In (fst (nth (S i) run d)) (ndelta N (fst (nth i run d)) a)).
Proof. exact (fun N w run => nfa_run_ok_steps N w run). Qed.

Theorem C15_pda_run_ok_sound : forall (P : pda) (w : word) (run : list (nat * word * list nat)),
  pda_run_ok P w run = true -> pda_lang P w.
Proof. exact pda_run_ok_sound. Qed.

Theorem C15_pda_run_ok_shape : forall (P : pda) (w : word) (run : list (nat * word * list nat)),
  pda_run_ok P w run = true ->
  hd_error run = Some (pq0 P, w, []) /\
  exists qf sf, last run (pq0 P, w, []) = (qf, [], sf) /\ In qf (pF P) /\ pda_reach P (pq0 P, []) w (qf, sf).
Proof. exact pda_run_ok_shape. Qed.

Theorem C15_pda_run_ok_steps : forall (P : pda) (w : word) (run : list (nat * word * list nat)),
  pda_run_ok P w run = true ->
  forall i d, S i < length run ->
    let '(q1, w1, s1) := nth i run d in let '(q2, w2, s2) := nth (S i) run d in
    (w1 = w2 /\ In (q2, s2) (moves P (peps P) (q1, s1))) \/
    (exists a, w1 = a :: w2 /\ a <> peps P /\ In (q2, s2) (moves P a (q1, s1))).
Proof. exact pda_run_ok_steps. Qed.

Theorem C15_derivation_ok_sound : forall (G : cfg) (mode : nat) (w : word) (steps : list (list sym)),
  derivation_ok G mode w steps = true -> cfg_lang G w.
Proof. exact derivation_ok_sound. Qed.

Theorem C15_derivation_ok_shape : forall (G : cfg) (mode : nat) (w : word) (steps : list (list sym)),
  derivation_ok G mode w steps = true ->
  hd_error steps = Some [Var (gS G)] /\ last steps [] = tword w /\
  forall i, S i < length steps -> deriv_step_ok G mode (nth i steps []) (nth (S i) steps []) = true.
Proof. exact derivation_ok_shape. Qed.

(* mode 0: the leftmost variable is rewritten *)
Theorem C15_deriv_step_leftmost : forall (G : cfg) (x y : list sym),
  deriv_step_ok G 0 x y = true <->
  exists pre A post rhs, x = pre ++ Var A :: post /\ y = pre ++ rhs ++ post /\ has_rule G A rhs /\
                         forallb (fun s => negb (is_var s)) pre = true.
Proof. exact deriv_step_ok_leftmost. Qed.

(* any other mode (the harness uses 1): the rightmost variable is rewritten *)
Theorem C15_deriv_step_rightmost : forall (G : cfg) (mode : nat) (x y : list sym), mode <> 0 ->
  (deriv_step_ok G mode x y = true <->
   exists pre A post rhs, x = pre ++ Var A :: post /\ y = pre ++ rhs ++ post /\ has_rule G A rhs /\
                          forallb (fun s => negb (is_var s)) post = true).
Proof. exact deriv_step_ok_rightmost. Qed.

(* ---------------- Part 2: dfa_simulate_word ---------------- *)
Theorem C15_dfa_simulate_correct : forall (D : dfa nat) (w : word), dfa_wf D -> Forall (fun a => In a (dS D)) w ->
  exists run, dfa_simulate D w = Some run /\ dfa_run_ok D w run = true.
Proof. exact (fun D w => dfa_simulate_correct D w). Qed.

(* ---------------- Part 3: nfa_simulate_word ---------------- *)
Theorem C15_nfa_find_epsilon_path_correct : forall (pick : picker nat) (N : nfa nat) (R : list nat) (f : nat) (path : list nat),
  picker_ok pick -> nfa_wf N -> incl R (nQ N) ->
  nfa_find_epsilon_path pick N R f = Some path ->
  exists p0, hd_error path = Some p0 /\ In p0 R /\ last path p0 = f /\
    forall i, S i < length path -> In (nth (S i) path f) (ndelta N (nth i path f) (neps N)).
Proof. exact (fun pick N R f path Hp => nfa_find_epsilon_path_correct pick Hp N R f path). Qed.

Theorem C15_nfa_find_epsilon_path_complete : forall (pick : picker nat) (N : nfa nat) (R : list nat) (f : nat),
  picker_ok pick -> nfa_wf N -> incl R (nQ N) ->
  (exists r, In r R /\ eps_star N r f) -> nfa_find_epsilon_path pick N R f <> None.
Proof. exact (fun pick N R f Hp => nfa_find_epsilon_path_complete pick Hp N R f). Qed.

Theorem C15_nfa_simulate_sound : forall (pick : picker nat) (N : nfa nat) (w : word),
  picker_ok pick -> nfa_wf N -> Forall (fun a => In a (nS N)) w -> nfa_accepts N w = Some true ->
  exists run, nfa_simulate pick N w = Some run /\ nfa_run_ok N w run = true.
Proof. exact (fun pick N w Hp Hwf => nfa_simulate_sound pick Hp N Hwf w). Qed.

Theorem C15_nfa_simulate_none : forall (pick : picker nat) (N : nfa nat) (w : word),
  picker_ok pick -> nfa_wf N -> Forall (fun a => In a (nS N)) w -> nfa_accepts N w = Some false ->
  nfa_simulate pick N w = None.
Proof. exact (fun pick N w Hp Hwf => nfa_simulate_none pick Hp N Hwf w). Qed.

Print Assumptions C15_dfa_run_ok_sound.
Print Assumptions C15_nfa_run_ok_sound.
Print Assumptions C15_nfa_run_ok_steps.
Print Assumptions C15_pda_run_ok_sound.
Print Assumptions C15_pda_run_ok_shape.
Print Assumptions C15_pda_run_ok_steps.
Print Assumptions C15_derivation_ok_sound.
Print Assumptions C15_derivation_ok_shape.
Print Assumptions C15_deriv_step_leftmost.
Print Assumptions C15_deriv_step_rightmost.
Print Assumptions C15_dfa_simulate_correct.
Print Assumptions C15_nfa_find_epsilon_path_correct.
Print Assumptions C15_nfa_find_epsilon_path_complete.
Print Assumptions C15_nfa_simulate_sound.
Print Assumptions C15_nfa_simulate_none.

(* ---------------- Part 4: cfg_derive_word ---------------- *)
From GT Require Import Model.CYK Model.Simulate2 Proofs.Simulate2Proofs.

Theorem C15_cfg_derive_sound : forall (G : cfg) (w : word) (mode : nat),
  is_chomsky G -> cfg_wf G -> w <> [] ->
  (forall a, In a w -> ~ In a (gV G)) ->            (* no letter of the word is the name of a variable *)
  cnf_accepts G w = true -> mode <= 1 ->
  exists steps, cfg_derive G w mode = Some steps /\ derivation_ok G mode w steps = true.
Proof. exact cfg_derive_sound. Qed.

Theorem C15_cfg_derive_none : forall (G : cfg) (w : word) (mode : nat),
  cnf_accepts G w = false -> cfg_derive G w mode = None.
Proof. exact cfg_derive_none. Qed.

(* the proviso of C15_cfg_derive_sound cannot be dropped: V = {0, 1, 2}, terminals {2, 11}, 0 -> 1 2, 1 -> '2', 2 -> '11' *)
Theorem C15_cfg_derive_clash :
  is_chomsky_b clash_G = true /\ cfg_wf_b clash_G = true /\ cnf_accepts clash_G [2; 11] = true /\
  cfg_derive clash_G [2; 11] 0 = Some [[Var 0]; [Var 1; Var 2]; [Tm 2; Var 2]; [Tm 11; Var 2]] /\
  derivation_ok clash_G 0 [2; 11] [[Var 0]; [Var 1; Var 2]; [Tm 2; Var 2]; [Tm 11; Var 2]] = false.
Proof. exact cfg_derive_clash. Qed.

(* ---------------- Part 5: pda_simulate_word ---------------- *)
(* partial correctness of the search: any returned path is a genuine epsilon path from R to f (every fuel) *)
Theorem C15_pda_find_epsilon_path_correct : forall (pick : picker config) (P : pda) (fuel : nat) (R : list config) (f : config)
    (path : list config),
  picker_ok pick -> pda_find_epsilon_path pick P fuel R f = Some path ->
  exists p0, hd_error path = Some p0 /\ In p0 R /\ last path p0 = f /\
    forall i, S i < length path -> In (nth (S i) path f) (moves P (peps P) (nth i path f)).
Proof. exact pda_find_epsilon_path_correct. Qed.

(* termination with success for every admissible pick, when the configurations reachable from R by epsilon moves
   lie in a finite set V closed under epsilon moves and the fuel exceeds |V| *)
Theorem C15_pda_find_epsilon_path_complete : forall (pick : picker config) (P : pda) (V : list config) (fuel : nat)
    (R : list config) (f : config),
  picker_ok pick ->
  (forall x y, In x V -> In y (moves P (peps P) x) -> In y V) -> incl R V -> length V < fuel ->
  (exists r, In r R /\ pda_eps_star P r f) -> pda_find_epsilon_path pick P fuel R f <> None.
Proof. exact (fun pick P V fuel R f Hp => pda_find_epsilon_path_complete pick Hp P V fuel R f). Qed.

(* in particular with the fuel that pda_simulate passes *)
Theorem C15_pda_find_epsilon_path_terminates : forall (pickc pick : picker config) (P : pda) (limit : nat) (R E : list config)
    (f : config),
  picker_ok pickc -> picker_ok pick -> pda_eclose pickc P limit R = (E, []) -> In f E ->
  pda_find_epsilon_path pick P (S (length E)) R f <> None.
Proof. exact pda_find_epsilon_path_terminates. Qed.

Theorem C15_pda_simulate_checked : forall (pick : picker config) (P : pda) (limit : nat) (w : word)
    (run : list (nat * word * list nat)),
  picker_ok pick -> Forall (fun a => a <> peps P) w ->
  pda_simulate pick limit P w = Some run -> pda_run_ok P w run = true.
Proof. exact pda_simulate_checked. Qed.

Theorem C15_pda_simulate_sound : forall (pick : picker config) (P : pda) (limit : nat) (w : word),
  picker_ok pick -> pda_wf P -> Forall (fun a => In a (pSg P)) w -> pda_accepts pick P limit w = (true, false) ->
  exists run, pda_simulate pick limit P w = Some run /\ pda_run_ok P w run = true.
Proof. exact pda_simulate_sound. Qed.

Theorem C15_pda_simulate_none : forall (pick : picker config) (P : pda) (limit : nat) (w : word),
  picker_ok pick -> pda_wf P -> Forall (fun a => In a (pSg P)) w -> pda_accepts pick P limit w = (false, false) ->
  pda_simulate pick limit P w = None.
Proof. exact pda_simulate_none. Qed.

(* the same with independent orders for the closure (pickc: the sorted FIFO list of pda_epsilon_closure) and for the
   sets of pda_simulate_word (pick: set.pop(), set iteration) *)
Theorem C15_pda_simulate_gen_checked : forall (pickc pick : picker config) (limit : nat) (P : pda) (w : word)
    (run : list (nat * word * list nat)),
  picker_ok pick -> Forall (fun a => a <> peps P) w ->
  pda_simulate_gen pickc pick limit P w = Some run -> pda_run_ok P w run = true.
Proof. exact (fun pickc pick limit P w run Hp => pda_simulate_gen_checked pickc pick Hp limit P w run). Qed.

Theorem C15_pda_simulate_gen_sound : forall (pickc pick : picker config) (limit : nat) (P : pda) (w : word),
  picker_ok pickc -> picker_ok pick -> Forall (fun a => a <> peps P) w -> pda_accepts pickc P limit w = (true, false) ->
  exists run, pda_simulate_gen pickc pick limit P w = Some run /\ pda_run_ok P w run = true.
Proof. exact (fun pickc pick limit P w Hpc Hp => pda_simulate_gen_sound pickc pick Hp limit P Hpc w). Qed.

Theorem C15_pda_simulate_gen_none : forall (pickc pick : picker config) (limit : nat) (P : pda) (w : word),
  fst (pda_accepts pickc P limit w) = false -> pda_simulate_gen pickc pick limit P w = None.
Proof. exact (fun pickc pick limit P w => pda_simulate_gen_none pickc pick limit P w). Qed.

Print Assumptions C15_cfg_derive_sound.
Print Assumptions C15_cfg_derive_none.
Print Assumptions C15_cfg_derive_clash.
Print Assumptions C15_pda_find_epsilon_path_correct.
Print Assumptions C15_pda_find_epsilon_path_complete.
Print Assumptions C15_pda_find_epsilon_path_terminates.
Print Assumptions C15_pda_simulate_checked.
Print Assumptions C15_pda_simulate_sound.
Print Assumptions C15_pda_simulate_none.
Print Assumptions C15_pda_simulate_gen_checked.
Print Assumptions C15_pda_simulate_gen_sound.
Print Assumptions C15_pda_simulate_gen_none.
