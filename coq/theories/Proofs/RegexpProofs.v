From GT Require Import Base.Prelude Model.Regexp.

Lemma firstn_exact {A} (u v : list A) : firstn (length u) (u ++ v) = u.
Proof. rewrite firstn_app, Nat.sub_diag, firstn_all. cbn [firstn]. apply app_nil_r. Qed.
Lemma skipn_exact {A} (u v : list A) : skipn (length u) (u ++ v) = v.
Proof. rewrite skipn_app, Nat.sub_diag, skipn_all. reflexivity. Qed.

(* ---------- star language with non-empty factors ---------- *)
Inductive star_ne (P : word -> Prop) : word -> Prop :=
| sn_nil : star_ne P []
| sn_cons u v : u <> [] -> P u -> star_ne P v -> star_ne P (u ++ v).

Lemma star_ne_of_lang r w : re_lang (Star r) w -> star_ne (re_lang r) w.
Proof.
  remember (Star r) as s eqn:Es. intros Hl. induction Hl; try discriminate.
  - constructor.
  - inversion Es; subst. destruct u as [|a u].
    + cbn. apply IHHl2. reflexivity.
    + constructor; [discriminate | exact Hl1 | apply IHHl2; reflexivity].
Qed.

Lemma lang_of_star_ne r w : star_ne (re_lang r) w -> re_lang (Star r) w.
Proof. induction 1; [constructor | constructor; assumption]. Qed.

Lemma star_acc_spec (f : word -> bool) n : forall w, length w <= n ->
  (star_acc f n w = true <-> star_ne (fun u => f u = true) w).
Proof.
  induction n as [|n IH]; intros w Hl.
  - destruct w; [|cbn in Hl; lia]. cbn. split; [constructor | reflexivity].
  - destruct w as [|a w]; [cbn; split; [constructor | reflexivity]|].
    cbn [star_acc]. rewrite existsb_exists. split.
    + intros [k [Hk Hb]]. apply in_seq in Hk. apply andb_true_iff in Hb. destruct Hb as [Hf Hs].
      rewrite <- (firstn_skipn k (a :: w)).
      apply IH in Hs.
      * constructor; [|exact Hf|exact Hs].
        destruct k; [lia|]. cbn. discriminate.
      * rewrite skipn_length. cbn [length] in *. lia.
    + intros Hs. remember (a :: w) as aw eqn:Eaw. destruct Hs as [|u v Hne Hfu Hv]; [discriminate|].
      exists (length u). split.
      * apply in_seq. rewrite app_length. destruct u; [congruence|]. cbn [length]. lia.
      * rewrite firstn_exact, skipn_exact, Hfu. cbn [andb]. apply IH; [|exact Hv].
        assert (Hlen : length (u ++ v) <= S n) by (first [exact Hl | rewrite Eaw; exact Hl | rewrite <- Eaw in Hl; exact Hl]).
        rewrite app_length in Hlen. destruct u; [congruence|]. cbn [length] in *. lia.
Qed.

Lemma star_ne_ext (P Q : word -> Prop) w : (forall u, P u <-> Q u) -> star_ne P w -> star_ne Q w.
Proof. intros Hpq Hs. induction Hs; constructor; auto. apply Hpq; assumption. Qed.

Theorem acc_correct r : forall w, acc r w = true <-> re_lang r w.
Proof.
  induction r as [| |a|r1 IH1 r2 IH2|r1 IH1 r2 IH2|r1 IH1]; intros w; cbn [acc].
  - split; [discriminate | intros Hl; inversion Hl].
  - destruct w; split; try discriminate; try constructor; intros Hl; inversion Hl.
  - destruct w as [|b [|c w]]; try (split; [discriminate | intros Hl; inversion Hl]).
    rewrite Nat.eqb_eq. split; [intros ->; constructor | intros Hl; inversion Hl; reflexivity].
  - rewrite orb_true_iff, IH1, IH2. split; [intros [Hl|Hl]; [apply LSumL|apply LSumR]; exact Hl | intros Hl; inversion Hl; auto].
  - rewrite existsb_exists. split.
    + intros [k [_ Hb]]. apply andb_true_iff in Hb. destruct Hb as [Ha Hb].
      rewrite <- (firstn_skipn k w). constructor; [apply IH1; exact Ha | apply IH2; exact Hb].
    + intros Hl. inversion Hl as [| | | |r s u v Hu Hv| |]; subst. exists (length u). split.
      * apply in_seq. rewrite app_length. lia.
      * rewrite firstn_exact, skipn_exact.
        apply andb_true_iff. split; [apply IH1; exact Hu | apply IH2; exact Hv].
  - rewrite star_acc_spec by lia. split.
    + intros Hs. apply lang_of_star_ne. eapply star_ne_ext; [|exact Hs]. intros u. apply IH1.
    + intros Hl. apply star_ne_of_lang in Hl. eapply star_ne_ext; [|exact Hl]. intros u. symmetry. apply IH1.
Qed.

(* ---------- simplify ---------- *)
Definition re_equiv (r s : re) : Prop := forall w, re_lang r w <-> re_lang s w.

Lemma star_zero_one w : re_lang (Star Zero) w <-> re_lang One w.
Proof.
  split.
  - intros Hl. apply star_ne_of_lang in Hl. destruct Hl as [|u v Hne Hu Hv]; [constructor | inversion Hu].
  - intros Hl. inversion Hl. constructor.
Qed.

Lemma star_one_one w : re_lang (Star One) w <-> re_lang One w.
Proof.
  split.
  - intros Hl. apply star_ne_of_lang in Hl. destruct Hl as [|u v Hne Hu Hv]; [constructor | inversion Hu; congruence].
  - intros Hl. inversion Hl. constructor.
Qed.

Lemma star_app r u v : re_lang (Star r) u -> re_lang (Star r) v -> re_lang (Star r) (u ++ v).
Proof.
  remember (Star r) as s eqn:Es. intros Hu. revert v. induction Hu; try discriminate; intros v' Hv.
  - exact Hv.
  - inversion Es; subst. rewrite <- app_assoc. constructor; [exact Hu1 | apply IHHu2; [reflexivity | exact Hv]].
Qed.

Lemma star_star r w : re_lang (Star (Star r)) w <-> re_lang (Star r) w.
Proof.
  split.
  - remember (Star (Star r)) as s eqn:Es. intros Hl. induction Hl; try discriminate.
    + constructor.
    + inversion Es; subst. apply star_app; [exact Hl1 | apply IHHl2; reflexivity].
  - intros Hl. rewrite <- (app_nil_r w). constructor; [exact Hl | constructor].
Qed.

Lemma star_congr r s : re_equiv r s -> re_equiv (Star r) (Star s).
Proof.
  intros He w. split; intros Hl; apply lang_of_star_ne; apply star_ne_of_lang in Hl;
    (eapply star_ne_ext; [|exact Hl]); intros u; [apply He | symmetry; apply He].
Qed.

Lemma sum_congr r1 r2 s1 s2 : re_equiv r1 s1 -> re_equiv r2 s2 -> re_equiv (Sum r1 r2) (Sum s1 s2).
Proof.
  intros H1 H2 w. split; intros Hl; inversion Hl; subst;
    solve [apply LSumL; apply H1; assumption | apply LSumR; apply H2; assumption].
Qed.

Lemma cat_congr r1 r2 s1 s2 : re_equiv r1 s1 -> re_equiv r2 s2 -> re_equiv (Cat r1 r2) (Cat s1 s2).
Proof.
  intros H1 H2 w. split; intros Hl; inversion Hl; subst; constructor; solve [apply H1; assumption | apply H2; assumption].
Qed.

Lemma sum_zero_l r : re_equiv (Sum Zero r) r.
Proof. intros w. split; [intros Hl; inversion Hl as [| |? ? ? Hz|? ? ? Hr| | |]; subst; [inversion Hz | exact Hr] | apply LSumR]. Qed.
Lemma sum_zero_r r : re_equiv (Sum r Zero) r.
Proof. intros w. split; [intros Hl; inversion Hl as [| |? ? ? Hr|? ? ? Hz| | |]; subst; [exact Hr | inversion Hz] | apply LSumL]. Qed.
Lemma cat_zero_l r : re_equiv (Cat Zero r) Zero.
Proof. intros w. split; intros Hl; inversion Hl as [| | | |? ? ? ? Hz ?| |]; subst; inversion Hz. Qed.
Lemma cat_zero_r r : re_equiv (Cat r Zero) Zero.
Proof. intros w. split; intros Hl; inversion Hl as [| | | |? ? ? ? ? Hz| |]; subst; inversion Hz. Qed.
Lemma cat_one_l r : re_equiv (Cat One r) r.
Proof.
  intros w. split.
  - intros Hl; inversion Hl as [| | | |? ? ? ? Ho Hr| |]; subst. inversion Ho; subst. exact Hr.
  - intros Hl. change w with ([] ++ w). constructor; [constructor | exact Hl].
Qed.
Lemma cat_one_r r : re_equiv (Cat r One) r.
Proof.
  intros w. split.
  - intros Hl; inversion Hl as [| | | |? ? ? ? Hr Ho| |]; subst. inversion Ho; subst. rewrite app_nil_r. exact Hr.
  - intros Hl. rewrite <- (app_nil_r w). constructor; [exact Hl | constructor].
Qed.

Lemma re_equiv_trans r s t : re_equiv r s -> re_equiv s t -> re_equiv r t.
Proof. intros H1 H2 w. rewrite (H1 w). apply H2. Qed.
Lemma re_equiv_sym r s : re_equiv r s -> re_equiv s r.
Proof. intros H1 w. symmetry. apply H1. Qed.
Lemma re_equiv_refl r : re_equiv r r.
Proof. intros w. reflexivity. Qed.

Theorem simplify_lang r : re_equiv (simplify r) r.
Proof.
  induction r as [| |a|r1 IH1 r2 IH2|r1 IH1 r2 IH2|r1 IH1]; cbn [simplify]; try apply re_equiv_refl.
  - (* Sum *)
    apply re_equiv_trans with (Sum (simplify r1) (simplify r2)); [|apply sum_congr; assumption].
    destruct (simplify r1) eqn:E1; try (apply re_equiv_sym, sum_zero_l);
      destruct (simplify r2) eqn:E2; try apply re_equiv_refl; apply re_equiv_sym, sum_zero_r.
  - (* Cat *)
    apply re_equiv_trans with (Cat (simplify r1) (simplify r2)); [|apply cat_congr; assumption].
    destruct (simplify r1) eqn:E1; try (apply re_equiv_sym, cat_zero_l); try (apply re_equiv_sym, cat_one_l);
      destruct (simplify r2) eqn:E2; try apply re_equiv_refl;
      solve [apply re_equiv_sym, cat_zero_r | apply re_equiv_sym, cat_one_r].
  - (* Star *)
    apply re_equiv_trans with (Star (simplify r1)); [|apply star_congr; assumption].
    destruct (simplify r1) eqn:E1; try apply re_equiv_refl.
    + intros w. symmetry. apply star_zero_one.
    + intros w. symmetry. apply star_one_one.
    + intros w. symmetry. apply star_star.
Qed.

Theorem simplify_nodes r : nodes (simplify r) <= nodes r.
Proof.
  induction r as [| |a|r1 IH1 r2 IH2|r1 IH1 r2 IH2|r1 IH1]; cbn [simplify nodes]; try lia.
  - destruct (simplify r1); destruct (simplify r2); cbn [nodes] in *; lia.
  - destruct (simplify r1); destruct (simplify r2); cbn [nodes] in *; lia.
  - destruct (simplify r1); cbn [nodes] in *; lia.
Qed.

Theorem simplify_regexp_size r : regexp_size (simplify r) <= regexp_size r.
Proof.
  induction r as [| |a|r1 IH1 r2 IH2|r1 IH1 r2 IH2|r1 IH1]; cbn [simplify regexp_size]; try lia.
  - destruct (simplify r1); destruct (simplify r2); cbn [regexp_size] in *; lia.
  - destruct (simplify r1); destruct (simplify r2); cbn [regexp_size] in *; lia.
  - destruct (simplify r1); cbn [regexp_size] in *; lia.
Qed.

(* ---------- bounded enumeration ---------- *)
Lemma lang_concat_In L1 L2 w : In w (lang_concat L1 L2) <-> exists u v, In u L1 /\ In v L2 /\ w = u ++ v.
Proof.
  unfold lang_concat. rewrite in_flat_map. split.
  - intros [u [Hu Hw]]. apply in_map_iff in Hw. destruct Hw as [v [<- Hv]]. eauto.
  - intros [u [v [Hu [Hv ->]]]]. exists u. split; [exact Hu|]. apply in_map_iff. eauto.
Qed.

Lemma star_words_spec (f : nat -> list word) (P : word -> Prop) :
  (forall k u, In u (f k) <-> length u <= k /\ P u) ->
  forall fuel n, n <= fuel -> forall w, In w (star_words f fuel n) <-> length w <= n /\ star_ne P w.
Proof.
  intros Hf. induction fuel as [|fuel IH]; intros n Hn w.
  - assert (n = 0) by lia. subst n. cbn. split.
    + intros [<-|[]]. split; [cbn; lia | constructor].
    + intros [Hl _]. destruct w; [auto | cbn in Hl; lia].
  - destruct n as [|n]; cbn [star_words].
    + cbn. split.
      * intros [<-|[]]. split; [cbn; lia | constructor].
      * intros [Hl _]. destruct w; [auto | cbn in Hl; lia].
    + cbn [In]. rewrite in_flat_map. split.
      * intros [<-|[k [Hk Hw]]]; [split; [cbn; lia | constructor]|].
        apply in_seq in Hk. apply lang_concat_In in Hw. destruct Hw as [u [v [Hu [Hv ->]]]].
        apply Hf in Hu. destruct Hu as [Hlu Hpu].
        apply IH in Hv; [|lia]. destruct Hv as [Hlv Hsv].
        split; [rewrite app_length; lia|].
        destruct u as [|a u]; [exact Hsv|]. constructor; [discriminate | exact Hpu | exact Hsv].
      * intros [Hl Hs]. inversion Hs as [|u v Hne Hpu Hsv Huv]; [left; reflexivity|].
        right. subst w. rewrite app_length in Hl. exists (length u). split.
        -- apply in_seq. destruct u; [congruence|]. cbn in *. lia.
        -- apply lang_concat_In. exists u, v. split; [apply Hf; split; [lia | exact Hpu]|]. split; [|reflexivity].
           apply IH; [destruct u; [congruence|]; cbn in *; lia|]. split; [lia | exact Hsv].
Qed.

Theorem re_words_exact r : forall n w, In w (re_words r n) <-> length w <= n /\ re_lang r w.
Proof.
  induction r as [| |a|r1 IH1 r2 IH2|r1 IH1 r2 IH2|r1 IH1]; intros n w; cbn [re_words].
  - split; [intros [] | intros [_ Hl]; inversion Hl].
  - cbn. split; [intros [<-|[]]; split; [cbn; lia | constructor] | intros [_ Hl]; inversion Hl; auto].
  - destruct n; cbn.
    + split; [intros [] | intros [Hlen Hl]; inversion Hl; subst; cbn in Hlen; lia].
    + split; [intros [<-|[]]; split; [cbn; lia | constructor] | intros [_ Hl]; inversion Hl; auto].
  - rewrite in_app_iff, IH1, IH2. split.
    + intros [[Hn Hl]|[Hn Hl]]; (split; [exact Hn|]); [apply LSumL | apply LSumR]; exact Hl.
    + intros [Hn Hl]. inversion Hl; subst; [left | right]; auto.
  - rewrite in_flat_map. split.
    + intros [k [Hk Hw]]. apply in_seq in Hk. apply lang_concat_In in Hw. destruct Hw as [u [v [Hu [Hv ->]]]].
      apply IH1 in Hu. apply IH2 in Hv. destruct Hu as [Hlu Hu], Hv as [Hlv Hv].
      split; [rewrite app_length; lia | constructor; assumption].
    + intros [Hn Hl]. inversion Hl as [| | | |r s u v Hu Hv| |]; subst. rewrite app_length in Hn.
      exists (length u). split; [apply in_seq; lia|]. apply lang_concat_In. exists u, v.
      split; [apply IH1; split; [lia|exact Hu]|]. split; [apply IH2; split; [lia|exact Hv] | reflexivity].
  - rewrite (star_words_spec (re_words r1) (re_lang r1)); [| intros k u; apply IH1 | lia].
    split; intros [Hn Hs]; (split; [exact Hn|]); [apply lang_of_star_ne | apply star_ne_of_lang]; exact Hs.
Qed.

(* words are over the symbols of the expression *)
Lemma re_lang_symbols r w : re_lang r w -> Forall (fun a => In a (re_symbols r)) w.
Proof.
  induction 1; cbn [re_symbols]; try constructor; auto.
  - cbn; auto.
  - eapply Forall_impl; [|exact IHre_lang]. intros a Ha. apply in_app_iff; auto.
  - eapply Forall_impl; [|exact IHre_lang]. intros a Ha. apply in_app_iff; auto.
  - apply Forall_app. split; (eapply Forall_impl; [|eassumption]); intros a Ha; apply in_app_iff; auto.
  - apply Forall_app. split; assumption.
Qed.
