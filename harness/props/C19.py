"""C19 - pure operations keep operands intact, independent of call history, hash seed and logging."""
import json
import coqlit as L
import gen as G
import conv
from props.C01 import nfa_lit

COQ_IMPORTS = ['Model.DFA', 'Model.NFA', 'Model.Regexp', 'Model.CFG', 'Model.CFGMisc', 'Judge.Common', 'Judge.C19_judge', 'Judge.Extra_judge']
EXTRA_JUDGES = ['Extra']
RULE = ('random DFAs, NFAs, regexps, grammars, PDAs (incl. a closure limit small enough to truncate), TMs; for each object a list of pure operations (acceptance tests, enumerators, minimisers, products, complement, reverse, '
        'prefix-free / non-extendable restrictions, subset construction, NFA star / union / concatenation with the shared default generator, DFA-to-regexp, Chomsky phases, PDA normal forms and PDA-to-CFG, printers, simulations, '
        'two checkers). Every operation is called with an argument snapshot before and after, a second time, again after a prefix of unrelated library calls, and with logging on; the whole case runs in fresh processes with '
        '4 (quick) / 8 (thorough) PYTHONHASHSEED values. Relation: snapshots equal; verdicts, enumerations, printed texts and checker verdicts identical across calls and across hash seeds; constructed objects have the same language '
        '(exact oracle for DFA / NFA / regexp results, enumeration up to length 4 for grammar and PDA results). Non-trivial = the object has >= 2 states / rules / nodes; distinct by object.')
RULE += ' Added after the seeded rounds: sibling objects (same rules / transitions, another start variable / initial state / accepting set) operated on first in every second process; chain DFAs of 5-9 states; PDAs already in push/pop form with one accepting state; grammar utilities (productive variables, removal of unproductive variables / rules A -> A, cfg_to_nfa) with their models (informational).'
CODES = {9: 'generated object invalid (harness)', 10: 'dfa_accepts_word differs from the model value', 11: 'dfa_words_up_to_n differs from the model value', 12: 'a minimiser result is not language-equivalent',
         13: 'dfa_to_regexp result not language-equivalent', 30: 'nfa_accepts_word differs from the model value', 31: 'nfa_words_up_to_n differs from the model value', 32: 'nfa_to_dfa result not language-equivalent',
         33: 'nfa_repetition result not language-equivalent to the model', 54: 'check_dfa_language_from_words rejected the automaton\'s own language after other checker calls in the same process', 99: 'a value that must not depend on PYTHONHASHSEED or on earlier calls differs between two fresh processes (different hash seed; in every second process the same operation is first applied to a sibling object)'}
for c in (20, 40, 50):
    CODES[c] = 'an operation modified its argument'
    CODES[c + 1] = 'calling the operation a second time gave a different result'
    CODES[c + 2] = 'the result changed after unrelated library calls (history dependence)'
    CODES[c + 3] = 'the result changed when logging was enabled'
ASSUMPTIONS = ['results of constructions are compared by language, values of tests / enumerators / printers / checkers by identity']
RESIDUE = 'that no other statement of the Python writes to an argument is established by the snapshots only (object identity and in-place operators live in the runtime)'
SHARD = 40


def hashseeds(tier):
    return [0, 1, 2, 3] if tier == 'quick' else list(range(8))


def gen(rng, tier):
    quick = tier == 'quick'
    k = 60 if quick else 1200
    cases = []
    for _ in range(k):
        cases.append({'kind': 'dfa', 'X': G.random_dfa(rng, rng.randint(1, 5), rng.choice(['a', 'ab'])), 'ws': G.random_words(rng, 'ab', 6, 5)})
    for _ in range(k // 2):
        # chains / counters: table filling and partition refinement need several rounds, whose outcome must not depend on the state order
        m = rng.randint(5, 9)
        Q = ['q%d' % i for i in range(m)]
        rng.shuffle(Q)
        sigma = rng.choice(['a', 'ab'])
        delta = []
        for i, q in enumerate(Q):
            delta.append([q, 'a', Q[i + 1] if i + 1 < m else Q[rng.choice([m - 1, 0, m // 2])]])
            if 'b' in sigma:
                delta.append([q, 'b', rng.choice([q, Q[0], Q[(i + 2) % m]])])
        F = [Q[i] for i in range(m) if i in (m - 1,) or (rng.random() < 0.15)]
        cases.append({'kind': 'dfa', 'X': {'Q': sorted(Q), 'Sigma': list(sigma), 'delta': delta, 'q0': Q[0], 'F': F}, 'ws': G.random_words(rng, sigma, 6, 9), 'nore': True})
    for _ in range(k):
        n = G.random_nfa(rng, rng.randint(1, 4), rng.choice(['a', 'ab']), rng.choice(['_', 'ε']), peps=0.3)
        cases.append({'kind': 'nfa', 'X': n, 'ws': G.random_words(rng, 'ab', 6, 5), 'N2': G.random_nfa(rng, rng.randint(1, 2), 'ab', n['eps'], names=['s', 't'])})
    for _ in range(k // 2):
        cases.append({'kind': 're', 'X': G.random_re(rng, rng.randint(1, 4), 2)})
    for _ in range(k // 2):
        cases.append({'kind': 'cfg', 'X': G.random_cfg(rng, rng.randint(1, 3), 2, rng.randint(1, 5), maxlen=3)})
    for _ in range(max(6, k // 6)):
        cases.append({'kind': 'cfg', 'X': G.unit_cycle_cfg(rng)})
    for _ in range(k // 3):
        # right-linear grammars (A -> aB | B | epsilon) for cfg_to_nfa, with an occasional rule of another shape
        V = ['S', 'A', 'B'][:rng.randint(1, 3)]
        rules = []
        for _ in range(rng.randint(1, 6)):
            v = rng.choice(V)
            shape = rng.random()
            rhs = [] if shape < 0.25 else ([['V', rng.choice(V)]] if shape < 0.4 else ([['T', rng.choice('ab')], ['V', rng.choice(V)]] if shape < 0.95 else [['T', 'a']]))
            rules.append([v, rhs])
        cases.append({'kind': 'cfg', 'X': G.mk_cfg(rules, 'S', extra_vars=V), 'rl': True})
    for _ in range(k // 2):
        p = G.random_pda(rng, rng.randint(1, 3), rng.choice(['a', 'ab']), 'xy', rng.choice(['_', 'ε']), ntrans=rng.randint(1, 6))
        p['delta'] = [t for t in p['delta'] if not (t[1] == p['eps'] and t[4] != p['eps'])]
        cases.append({'kind': 'pda', 'X': p, 'limit': 1000})
    for _ in range(k // 3):
        # already in push/pop format with exactly one accepting state (no normalisation step copies the argument)
        p = G.random_pda(rng, rng.randint(2, 3), rng.choice(['a', 'ab']), 'xy', rng.choice(['_', 'ε']), ntrans=rng.randint(2, 6), kinds=['push', 'pop'])
        p['delta'] = [t for t in p['delta'] if not (t[1] == p['eps'] and t[4] != p['eps'])]
        p['F'] = rng.choice([[rng.choice(p['Q'])], [rng.choice(p['Q'])], [], list(p['Q'])])
        cases.append({'kind': 'pda', 'X': p, 'limit': 1000})
    # truncated closures (known finding F17 before its repair): a pushing epsilon loop next to an accepting epsilon chain
    eps = '_'
    cases.append({'kind': 'pda', 'limit': 6, 'X': {'Q': ['q0', 'a1', 'a2', 'a3', 'a4'], 'Sigma': ['a'], 'Gamma': ['x'], 'eps': eps, 'q0': 'q0', 'F': ['a4'],
                  'delta': [['q0', eps, eps, 'q0', 'x'], ['q0', eps, eps, 'a1', eps], ['a1', eps, eps, 'a2', eps], ['a2', eps, eps, 'a3', eps], ['a3', eps, eps, 'a4', eps]]}})
    # pushes happen only before the first letter: which stacks exist when the closure is cut off decides the verdict
    for (x, y, q0, q1, q2) in [('x', 'y', 'q0', 'q1', 'q2'), ('u', 'v', 's', 't', 'w'), ('m', 'n', 'p', 'r', 'o'), ('1', '2', 'A', 'B', 'C'), ('k', 'j', 'c', 'd', 'b'), ('g', 'h', 'e0', 'e1', 'e2')]:
        for lim in (5, 6, 8):
            cases.append({'kind': 'pda', 'limit': lim, 'X': {'Q': [q0, q1, q2], 'Sigma': ['a'], 'Gamma': [x, y], 'eps': eps, 'q0': q0, 'F': [q2],
                          'delta': [[q0, eps, eps, q0, x], [q0, eps, eps, q0, y], [q0, 'a', x, q1, eps], [q1, 'a', x, q1, eps], [q1, 'a', y, q2, eps], [q0, 'a', y, q2, eps]]}})
    import props.C11 as C11
    for t in C11.gen(rng, tier)[-(k // 3):]:
        t = dict(t)
        t['runs'] = t['runs'][:6]
        cases.append({'kind': 'tm', 'X': t})
    return cases


def _history():
    """unrelated library calls that touch shared state (default identifier generators, settings untouched)"""
    from gambatools.nfa_algorithms import parse_nfa, nfa_repetition, nfa_union, nfa_accepts_word, nfa_to_dfa
    from gambatools.dfa_algorithms import dfa_minimize, dfa_hopfcroft
    from gambatools.regexp_algorithms import regexp_to_nfa
    from gambatools.regexp_simple_parser import parse_simple_regexp
    N = parse_nfa('initial u\nfinal v\nu v a\nv u _')
    M = parse_nfa('initial y\nfinal y\ny y b')
    nfa_accepts_word(N, 'aa')
    nfa_repetition(N)
    nfa_union(N, M)
    D = nfa_to_dfa(N)
    dfa_minimize(D)
    dfa_hopfcroft(D)
    regexp_to_nfa(parse_simple_regexp('a(b+a)*'))
    # checker calls that end in an error message (a later call must not inherit anything from them)
    from gambatools.notebook import check_dfa_language_from_words, check_regexp_language_from_words
    from implutil import captured_stdout
    with captured_stdout():
        check_dfa_language_from_words('initial u\nfinal u\nu u a', 'b ab', 2, 1)
        check_regexp_language_from_words('a*', 'b', 2)


def _cfgwords(g, n=2):
    from gambatools.cfg_algorithms import cfg_words_up_to_n
    return cfg_words_up_to_n(g, n)


def _lang(x, n=4):
    from gambatools.language_generator import generate_language
    return sorted(generate_language(x, n))


def observe(c):
    from implutil import safe, ok, captured_stdout
    from gambatools.global_settings import GambaTools
    k = c['kind']
    x = c['X']
    values, flags, extra = [], [], {}

    sibling = {'obj': None}      # an object that looks like the argument (same printed rules / transitions) but differs in one field

    import os
    pre = int(os.environ.get('PYTHONHASHSEED', '0') or 0) % 2 == 1      # in every second process the sibling is operated on FIRST

    def probe(name, call, canon, snapshot, stable=True, on=None):
        if pre and on is not None and sibling['obj'] is not None:
            safe(lambda: on(sibling['obj']), timeout=10)
        before = snapshot()
        r1 = safe(call, timeout=10)
        v1 = canon(r1[1]) if ok(r1) else ['err', r1[1]]
        unchanged = snapshot() == before
        r2 = safe(call, timeout=10)
        twice = (canon(r2[1]) if ok(r2) else ['err', r2[1]]) == v1
        safe(_history, timeout=10)
        if on is not None and sibling['obj'] is not None:
            safe(lambda: on(sibling['obj']), timeout=10)       # the same operation on the sibling object: part of the call history
        r3 = safe(call, timeout=10)
        hist = (canon(r3[1]) if ok(r3) else ['err', r3[1]]) == v1
        GambaTools.enable_logging = True
        try:
            with captured_stdout():
                r4 = safe(call, timeout=10)
        finally:
            GambaTools.enable_logging = False
        log = (canon(r4[1]) if ok(r4) else ['err', r4[1]]) == v1
        flags.append([name, unchanged, twice, hist, log])
        if stable:
            values.append([name, v1])
        return r1[1] if ok(r1) else None
    ident = lambda v: v
    if k == 'dfa':
        import gambatools.dfa_algorithms as A
        from gambatools.regexp_algorithms import dfa_to_regexp
        D = conv.dfa_obj(x)
        snap = lambda: conv.dfa_case(D)
        sibling['obj'] = conv.dfa_obj(dict(x, F=[q for q in x['Q'] if q not in x['F']]))    # same transitions, complemented accepting set
        extra['acc'] = [probe('accepts:' + w, lambda w=w: A.dfa_accepts_word(D, w), bool, snap, on=lambda d, w=w: A.dfa_accepts_word(d, w)) for w in c['ws']]
        extra['words'] = probe('words', lambda: A.dfa_words_up_to_n(D, 3), sorted, snap, on=lambda d: A.dfa_words_up_to_n(d, 3))
        extra['words'] = sorted(extra['words']) if extra['words'] is not None else None
        mins = []
        for f in (A.dfa_minimize, A.dfa_quotient, A.dfa_hopfcroft):
            r = probe(f.__name__, lambda f=f: f(D), _lang, snap, on=lambda d, f=f: f(d))
            mins.append(conv.dfa_case(r) if r is not None else None)
        extra['mins'] = mins
        if not c.get('nore'):
            r = probe('dfa_to_regexp', lambda: dfa_to_regexp(D), _lang, snap)
            extra['re'] = conv.re_from_obj(r) if r is not None else None
        for name, f in (('complement', A.dfa_complement), ('reverse', A.dfa_reverse), ('no_prefix', A.dfa_no_prefix), ('no_extend', A.dfa_no_extend),
                        ('remove_unreachable', A.dfa_remove_unreachable_states), ('union', lambda d: A.dfa_union(d, d))):
            probe(name, lambda f=f: f(D), _lang, snap)
        probe('print_dfa', lambda: A.print_dfa(D), ident, snap, stable=False)
        probe('isomorphic', lambda: [A.dfa_isomorphic(D, D), A.dfa_isomorphic1(D, D)], ident, snap)
        probe('simulate', lambda: A.dfa_simulate_word(D, c['ws'][0]), lambda r: [list(e) for e in r], snap)
        from gambatools.notebook_dfa import check_dfa_minimal
        text = A.print_dfa(D)

        def chk():
            with captured_stdout() as b:
                check_dfa_minimal(text, A.print_dfa(A.dfa_quotient(D)), 3)
            return b.getvalue().strip().split('\n')[0]
        probe('check_dfa_minimal', chk, ident, snap)
        from gambatools.notebook import check_dfa_language_from_words
        wl = ' '.join(w or 'ε' for w in sorted(A.dfa_words_up_to_n(D, 3)))

        def chk2():
            with captured_stdout() as b:
                check_dfa_language_from_words(text, wl, 3, 0)
            return b.getvalue().strip().split('\n')[0]
        probe('check_dfa_language_from_words', chk2, ident, snap)
    elif k == 'nfa':
        import gambatools.nfa_algorithms as A
        N = conv.nfa_obj(x)
        N2 = conv.nfa_obj(c['N2'])
        # the snapshot includes the KEYS of the transition table (an entry with an empty target set is visible in str(N) and in a dict the
        # caller passed in): a lookup that inserts entries changes the argument
        keys = lambda n: sorted([list(k) for k in n.delta.keys()])
        snap = lambda: [conv.nfa_case(N), conv.nfa_case(N2), keys(N), keys(N2)]
        sibling['obj'] = conv.nfa_obj(dict(x, F=[q for q in x['Q'] if q not in x['F']]))
        extra['acc'] = [probe('accepts:' + w, lambda w=w: A.nfa_accepts_word(N, w), bool, snap, on=lambda n, w=w: A.nfa_accepts_word(n, w)) for w in c['ws']]
        w = probe('words', lambda: A.nfa_words_up_to_n(N, 3), sorted, snap, on=lambda n: A.nfa_words_up_to_n(n, 3))
        extra['words'] = sorted(w) if w is not None else None
        r = probe('nfa_to_dfa', lambda: A.nfa_to_dfa(N), _lang, snap)
        extra['det'] = conv.dfa_case(r) if r is not None else None
        from gambatools.identifier_generator import IdentifierGenerator
        r = probe('nfa_repetition', lambda: A.nfa_repetition(N, IdentifierGenerator(0)), _lang, snap)
        extra['star'] = conv.nfa_case(r) if r is not None else None
        probe('nfa_repetition_default', lambda: A.nfa_repetition(N), _lang, snap)
        probe('nfa_union_default', lambda: A.nfa_union(N, N2), _lang, snap)
        probe('nfa_concatenation', lambda: A.nfa_concatenation(N, N2), _lang, snap)
        probe('print_nfa', lambda: A.print_nfa(N), ident, snap, stable=False)
        probe('epsilon_closure', lambda: sorted(A.epsilon_closure(N, N.q0)), ident, snap)
    elif k == 're':
        import gambatools.regexp_algorithms as A
        from gambatools.regexp import print_regexp_simple
        r0 = conv.re_to_obj(x)
        snap = lambda: conv.re_from_obj(r0)
        for w in ('', 'a', 'ab', 'ba', 'abb'):
            probe('accepts:' + w, lambda w=w: A.regexp_accepts_word(r0, w), bool, snap)
        probe('words', lambda: A.regexp_words_up_to_n(r0, 3), sorted, snap)
        probe('simplify', lambda: A.regexp_simplify(r0), conv.re_from_obj, snap)
        probe('to_nfa', lambda: A.regexp_to_nfa(r0), _lang, snap)
        probe('print', lambda: print_regexp_simple(r0), ident, snap)
    elif k == 'cfg':
        import gambatools.cfg_algorithms as A
        Gm = conv.cfg_obj(x)
        snap = lambda: conv.cfg_case(Gm)
        others = [v for v in x['V'] if v != x['S'] and any(r[0] == v for r in x['R'])]
        if others:
            sibling['obj'] = conv.cfg_obj(dict(x, S=others[0]))     # same rules, another start variable
        for w in ('', 'a', 'ab', 'ba', 'aab'):
            probe('accepts:' + w, lambda w=w: A.cfg_accepts_word(Gm, w), bool, snap, on=lambda g, w=w: A.cfg_accepts_word(g, w))
        probe('words', lambda: A.cfg_words_up_to_n(Gm, 3), sorted, snap, on=lambda g: A.cfg_words_up_to_n(g, 3))
        for f in (A.cfg_to_chomsky, A.cfg_add_new_start_variable, A.cfg_remove_epsilon_rules, A.cfg_eliminate_unit_rules, A.cfg_make_rules_of_length_two, A.cfg_eliminate_terminals):
            probe(f.__name__, lambda f=f: f(Gm), lambda g: sorted(A.cfg_words_up_to_n(g, 3)), snap, on=lambda g, f=f: f(g))
        probe('nullable', lambda: sorted(A.cfg_nullable_variables(Gm)), ident, snap)
        # grammar utilities outside the Chomsky pipeline (Model/CFGMisc.v)
        gcanon = lambda g: [sorted(map(str, g.V)), [str(r) for r in g.R], str(g.S)]
        misc = {}
        r = probe('productive', lambda: sorted(str(v) for v in A.cfg_productive_variables(Gm)), ident, snap)
        misc['prod'] = r
        r = probe('remove_inproductive', lambda: A.cfg_remove_inproductive_variables(Gm), gcanon, snap)
        misc['inprod'] = conv.cfg_case(r) if r is not None else None
        r = probe('remove_useless_rules', lambda: A.cfg_remove_useless_rules(Gm), gcanon, snap)
        misc['useless'] = conv.cfg_case(r) if r is not None else None
        if c.get('rl'):
            r = probe('cfg_to_nfa', lambda: A.cfg_to_nfa(Gm), _lang, snap)
            misc['nfa'] = conv.nfa_case(r) if r is not None else None
            misc['geps'] = str(Gm.epsilon)
        extra['misc'] = misc
    elif k == 'pda':
        import gambatools.pda_algorithms as A
        P = conv.pda_obj(x)
        snap = lambda: conv.pda_case(P)
        old = GambaTools.pda_epsilon_closure_max_iterations
        GambaTools.pda_epsilon_closure_max_iterations = c['limit']
        try:
            if len(x['Q']) > 1:
                sibling['obj'] = conv.pda_obj(dict(x, q0=[q for q in x['Q'] if q != x['q0']][0]))      # same transitions, another initial state
            for w in ('', 'a', 'aa', 'ab', 'aaa', 'aaaa'):
                if all(ch in x['Sigma'] for ch in w):
                    probe('accepts:' + w, lambda w=w: A.pda_accepts_word(P, w), bool, snap, on=lambda p, w=w: A.pda_accepts_word(p, w))
            probe('words', lambda: A.pda_words_up_to_n(P, 2), sorted, snap, on=lambda p: A.pda_words_up_to_n(p, 2))
            if c['limit'] >= 100:
                for f in (A.pda_to_push_pop, A.pda_to_accept_on_empty_stack):
                    probe(f.__name__, lambda f=f: f(P), lambda q: sorted(A.pda_words_up_to_n(q, 2)), snap)
                probe('pda_to_cfg', lambda: A.pda_to_cfg(P), lambda g: sorted(_cfgwords(g)), snap, on=lambda p: A.pda_to_cfg(p))
                if len(x['Q']) <= 3:
                    probe('pda_to_cfg_empty_stack', lambda: A.pda_to_cfg(P, True), lambda g: len(g.R), snap)
                probe('print_pda', lambda: A.print_pda(P), ident, snap, stable=False)
        finally:
            GambaTools.pda_epsilon_closure_max_iterations = old
    else:
        import gambatools.tm_algorithms as A
        T = conv.tm_obj(x)
        from textmodel import tm_case
        snap = lambda: tm_case(T)
        for w, steps in x['runs']:
            probe('accepts:%s:%d' % (w, steps), lambda w=w, steps=steps: A.tm_accepts_word(T, w, steps), ident, snap)
        probe('words', lambda: A.tm_words_up_to_n(T, 2, 20), sorted, snap)
        probe('simulate', lambda: A.tm_simulate_word(T, '', 10), lambda r: [[q, list(t), h] for q, t, h in r], snap)
        probe('print_tm', lambda: A.print_tm(T), ident, snap, stable=False)
    return {'values': values, 'flags': flags, 'extra': extra}


def stable_values(c, o):
    return json.dumps(o['values'], sort_keys=True, ensure_ascii=False)


def _flags(o):
    return L.lst(L.pair(*[L.boolean(b) for b in f[1:]]) for f in o['flags'])


def encode(c, o):
    t = _encode1(c, o)
    # a checker that is given the automaton's own language must say OK, whatever was checked before in the same process
    own = [v for name, v in o['values'] if name == 'check_dfa_language_from_words']
    if own and own[0] != 'OK':
        t = 'worst_code [%s; 54]' % t
    return t


def _encode1(c, o):
    k = c['kind']
    x = c['X']
    e = o['extra']
    if k == 'dfa':
        st, sy = L.state_names(x), L.Names()
        for a in 'ab':
            sy(a)
        W = lambda w: L.nats(sy(a) for a in w)
        mins = L.lst(L.option(m, lambda m: L.dfa(m, L.Names(), sy)) for m in e['mins'])
        if c.get('nore'):
            return 'judge_C19_dfa_min %s %s %s 3 %s %s %s' % (L.dfa(x, st, sy), L.lst(W(w) for w in c['ws']), L.lst(L.option(a, L.boolean) for a in e['acc']),
                                                              L.option(e['words'], lambda ws: L.lst(W(w) for w in ws)), mins, _flags(o))
        return 'judge_C19_dfa %s %s %s 3 %s %s %s %s' % (L.dfa(x, st, sy), L.lst(W(w) for w in c['ws']), L.lst(L.option(a, L.boolean) for a in e['acc']),
                                                        L.option(e['words'], lambda ws: L.lst(W(w) for w in ws)), mins, L.option(e['re'], L.re), _flags(o))
    if k == 'nfa':
        lit, st, f = nfa_lit(x)
        W = lambda w: L.nats(f(a) for a in w)
        det = 'None'
        if e['det'] is not None:
            d = e['det']
            nm = L.Names()
            delta = L.lst(L.pair(L.pair(L.nat(nm(q)), L.nat(f(a))), L.nat(nm(t))) for q, a, t in d['delta'])
            det = '(Some (mkDFA %s %s %s %s %s))' % (L.nats(nm(q) for q in d['Q']), L.nats(f(a) for a in d['Sigma']), delta, L.nat(nm(d['q0'])), L.nats(nm(q) for q in d['F']))
        star = 'None'
        if e['star'] is not None:
            s = e['star']
            for q in s['Q']:
                st(q)
            delta = L.lst(L.pair(L.pair(L.nat(st(q)), L.nat(f(a))), L.nats(st(t) for t in ts)) for q, a, ts in s['delta'])
            star = '(Some (mkNFA %s %s %s %s %s %s))' % (L.nats(st(q) for q in s['Q']), L.nats(f(a) for a in s['Sigma']), delta, L.nat(st(s['q0'])), L.nats(st(q) for q in s['F']), L.nat(f(s['eps'])))
        names = L.nats(st('q%d' % i) for i in range(0, 10))
        return 'judge_C19_nfa %s %s %s 3 %s %s %s %s %s' % (lit, L.lst(W(w) for w in c['ws']), L.lst(L.option(a, L.boolean) for a in e['acc']),
                                                           L.option(e['words'], lambda ws: L.lst(W(w) for w in ws)), det, star, names, _flags(o))
    if k == 'cfg' and e.get('misc'):
        m = e['misc']
        nm = L.Names()
        for v in x['V'] + x['Sigma'] + ['', m.get('geps', 'ε')]:
            nm(v)
        Gl = L.cfg(x, nm)
        ocfg = lambda g: L.option(g, lambda g: L.cfg(g, nm))
        terms = ['judge_C19_flags %s' % _flags(o),
                 'judge_cfg_misc %s %s %s %s' % (Gl, L.option(m['prod'], lambda p: L.nats(nm(v) for v in p)), ocfg(m['inprod']), ocfg(m['useless']))]
        if c.get('rl'):
            nf = 'None'
            if m.get('nfa') is not None:
                n = m['nfa']
                f = lambda a: nm('') if a == n['eps'] else nm(a)
                delta = L.lst(L.pair(L.pair(L.nat(nm(q)), L.nat(f(a))), L.nats(nm(t) for t in ts)) for q, a, ts in n['delta'])
                nf = '(Some (mkNFA %s %s %s %s %s %s))' % (L.nats(nm(q) for q in n['Q']), L.nats(nm(a) for a in n['Sigma']), delta, L.nat(nm(n['q0'])), L.nats(nm(q) for q in n['F']), L.nat(nm('')))
            terms.append('judge_cfg_to_nfa %d %d %s %s' % (nm(''), nm(m.get('geps', 'ε')), Gl, nf))
        return 'worst_code [%s]' % '; '.join(terms)
    return 'judge_C19_flags %s' % _flags(o)


def key(c):
    return c['kind'] + '|' + json.dumps(c['X'], sort_keys=True, ensure_ascii=False) + '|%s' % c.get('limit', '')


def nontrivial(c, o):
    x = c['X']
    if c['kind'] == 're':
        return G.re_nodes(x) >= 2
    if c['kind'] == 'cfg':
        return len(x['R']) >= 2
    return len(x['Q']) >= 2


def describe(c):
    return {'kind': c['kind'], 'object': c['X'], 'limit': c.get('limit')}


def reproduce(c):
    return 'run the listed operations on the object in fresh interpreters with different PYTHONHASHSEED values and compare (see "observed")'


def signature(c, o, code):
    if c['kind'] == 'pda' and c.get('limit', 1000) < 100 and code == 99:
        return 'C19:pda-truncated-closure-hash-order'
    return 'C19:code%d:%s' % (code, key(c))


def distribution(cases, obs):
    d = {'operations_probed': 0, 'kinds': {}}
    for c, o in zip(cases, obs):
        d['kinds'][c['kind']] = d['kinds'].get(c['kind'], 0) + 1
        d['operations_probed'] += len(o['flags'])
    return d


LEVEL_TEXT = ('Coq corollaries of the exactness theorems of C01-C11, C14, C18, C20: results are independent of the pick / iteration order (every theorem is stated for an arbitrary admissible pick and arbitrary list order), '
              'and the repaired NFA constructions copy instead of sharing. Tied to the Python by argument snapshots, repeated calls, call histories, logging on/off and fresh processes with different hash seeds; values compared '
              'with the single model value inside Coq and across seeds by the driver.')
LEVEL_NOTE = 'Trusted: Coq kernel + vm_compute, the models of the other properties, harness snapshots (canonical deep forms). No axioms. That no other Python statement writes to an argument is established by the snapshots only.'
TECHNIQUE = 'Coq order-independence corollaries (pick-quantified theorems) + snapshot / repeated-call / history / hash-seed differential runs judged against the single model value'
