(* Model of gambatools.nfa / nfa_algorithms: epsilon_closure, _nfa_cache, nfa_accepts_word,
   nfa_words_up_to_n, nfa_to_dfa; and the textbook specification.  delta is a defaultdict: a missing key
   reads as the empty set.  `pick` stands for set.pop() / set iteration order (arbitrary). *)
From GT Require Import Base.Prelude Model.DFA.

Definition picker (A : Type) := list A -> option (A * list A).
Definition pick_head {A} : picker A := fun l => match l with [] => None | x :: r => Some (x, r) end.
Definition pick_last {A} : picker A := fun l => match rev l with [] => None | x :: r => Some (x, rev r) end.
(* what every pick must satisfy: it returns a member and the remaining members *)
Definition picker_ok {A} (pick : picker A) : Prop :=
  pick [] = None /\
  forall l, l <> [] -> exists x r, pick l = Some (x, r) /\ (forall y, In y l <-> y = x \/ In y r) /\ length r < length l.

Section NFA.
  Context {A : Type} `{Eqb A}.

  Record nfa := mkNFA { nQ : list A; nS : list nat; nD : list ((A * nat) * list A); nq0 : A; nF : list A; neps : nat }.

  Definition ndelta (N : nfa) (q : A) (a : nat) : list A :=
    match lookup (q, a) (nD N) with Some s => s | None => [] end.

  (* ---- specification ---- *)
  Inductive eps_star (N : nfa) : A -> A -> Prop :=
  | es_refl q : eps_star N q q
  | es_step q q1 q2 : In q1 (ndelta N q (neps N)) -> eps_star N q1 q2 -> eps_star N q q2.
  Inductive nfa_path (N : nfa) : A -> word -> A -> Prop :=
  | np_nil q : nfa_path N q [] q
  | np_eps q q1 w q2 : In q1 (ndelta N q (neps N)) -> nfa_path N q1 w q2 -> nfa_path N q w q2
  | np_sym q a q1 w q2 : In q1 (ndelta N q a) -> nfa_path N q1 w q2 -> nfa_path N q (a :: w) q2.
  Definition nfa_lang (N : nfa) (w : word) : Prop := exists qf, nfa_path N (nq0 N) w qf /\ In qf (nF N).

  (* class invariant, NFA._check_validity *)
  Definition nfa_wf (N : nfa) : Prop :=
    In (nq0 N) (nQ N) /\ incl (nF N) (nQ N) /\ ~ In (neps N) (nS N) /\
    (forall q a s, In ((q, a), s) (nD N) -> In q (nQ N) /\ (In a (nS N) \/ a = neps N) /\ incl s (nQ N)).
  Definition nfa_wf_b (N : nfa) : bool :=
    mem (nq0 N) (nQ N) && subsetb (nF N) (nQ N) && negb (mem (neps N) (nS N)) &&
    forallb (fun e => let '((q, a), s) := e in mem q (nQ N) && (mem a (nS N) || Nat.eqb a (neps N)) && subsetb s (nQ N)) (nD N).

  (* ---- epsilon_closure: result/todo worklist ---- *)
  Fixpoint eclose_loop (pick : picker A) (N : nfa) (fuel : nat) (result todo : list A) : option (list A) :=
    match fuel with
    | 0 => None
    | S f => match pick todo with
             | None => Some result
             | Some (q, rest) =>
               let Q1 := dedup (diff (ndelta N q (neps N)) result) in
               eclose_loop pick N f (result ++ Q1) (union rest Q1)
             end
    end.
  Definition eclose_with (pick : picker A) (N : nfa) (S0 : list A) : option (list A) :=
    let S1 := dedup S0 in eclose_loop pick N (S (S (length (nQ N)))) S1 S1.
  (* evaluation instance; the fuel bound is proved sufficient for valid automata *)
  Definition eclose (N : nfa) (S0 : list A) : list A :=
    match eclose_with pick_head N S0 with Some r => r | None => S0 end.

  (* ---- _nfa_cache ---- *)
  Definition nfa_Eq (N : nfa) : list (A * list A) := map (fun q => (q, eclose N [q])) (nQ N).
  Definition Eq_get (Eq : list (A * list A)) (q : A) : option (list A) := lookup q Eq.
  (* Eqa[(q,a)] = union of Eq[q'] for q' in delta[q,a]; None models KeyError on Eq[q'] *)
  Fixpoint union_Eq (Eq : list (A * list A)) (qs : list A) : option (list A) :=
    match qs with
    | [] => Some []
    | q :: qs' => match Eq_get Eq q, union_Eq Eq qs' with
                  | Some s, Some r => Some (union s r)
                  | _, _ => None
                  end
    end.
  Fixpoint nfa_Eqa_of (Eq : list (A * list A)) (d : list ((A * nat) * list A)) : option (list ((A * nat) * list A)) :=
    match d with
    | [] => Some []
    | (k, s) :: d' => match union_Eq Eq s, nfa_Eqa_of Eq d' with
                      | Some u, Some r => Some ((k, u) :: r)
                      | _, _ => None
                      end
    end.
  Definition nfa_Eqa (N : nfa) : option (list ((A * nat) * list A)) := nfa_Eqa_of (nfa_Eq N) (nD N).
  Definition Eqa_get (Eqa : list ((A * nat) * list A)) (q : A) (a : nat) : list A :=
    match lookup (q, a) Eqa with Some s => s | None => [] end.

  (* ---- nfa_accepts_word ---- *)
  Definition nfa_step_set (Eqa : list ((A * nat) * list A)) (S0 : list A) (a : nat) : list A :=
    big_union (map (fun q => Eqa_get Eqa q a) S0).
  Definition nfa_accepts (N : nfa) (w : word) : option bool :=
    match nfa_Eqa N, Eq_get (nfa_Eq N) (nq0 N) with
    | Some Eqa, Some S0 => Some (meetsb (fold_left (nfa_step_set Eqa) w S0) (nF N))
    | _, _ => None
    end.

  (* ---- nfa_words_up_to_n: frontier map state -> set of words ---- *)
  Definition wmap := list (A * list word).
  Definition wmap_add (q : A) (ws : list word) (W : wmap) : wmap :=
    match lookup q W with
    | Some old => update q (union old ws) W
    | None => W ++ [(q, dedup ws)]
    end.
  Definition nfa_F1 (N : nfa) : list A :=
    filter (fun q => match Eq_get (nfa_Eq N) q with Some s => meetsb s (nF N) | None => false end) (nQ N).
  Definition nfa_words_round (N : nfa) (Eqa : list ((A * nat) * list A)) (F1 : list A) (W : wmap) (result : list word)
    : wmap * list word :=
    fold_left (fun acc qws =>
      fold_left (fun acc2 a =>
        match lookup (fst qws, a) Eqa with
        | None => acc2
        | Some targets =>
          fold_left (fun acc3 q1 =>
            let words_q1 := map (fun wd => wd ++ [a]) (snd qws) in
            (wmap_add q1 words_q1 (fst acc3), if mem q1 F1 then union (snd acc3) words_q1 else snd acc3))
            targets acc2
        end) (nS N) acc) W ([], result).
  Fixpoint nfa_words_loop (N : nfa) (Eqa : list ((A * nat) * list A)) (F1 : list A) (n : nat) (W : wmap) (result : list word) : list word :=
    match n with
    | 0 => result
    | S n' => let '(W1, r1) := nfa_words_round N Eqa F1 W result in nfa_words_loop N Eqa F1 n' W1 r1
    end.
  Definition nfa_words (N : nfa) (n : nat) : option (list word) :=
    match nfa_Eqa N, Eq_get (nfa_Eq N) (nq0 N) with
    | Some Eqa, Some S0 =>
      let F1 := nfa_F1 N in
      Some (nfa_words_loop N Eqa F1 n (map (fun q => (q, [[]])) S0) (if mem (nq0 N) F1 then [[]] else []))
    | _, _ => None
    end.
End NFA.
Arguments nfa A : clear implicits.

(* ---- nfa_to_dfa: states of the result are subsets, kept as lists compared as sets; the name
   print_state_set(Q) is injective on sets (for comma-free state names), modelled by canonical
   representative `canon` supplied by the caller (sorting for nat states). ---- *)
Section Subset.
  Context {A : Type} `{Eqb A}.
  Variable canon : list A -> list A.   (* canonical form of a set: print_state_set *)

  Fixpoint n2d_row (N : nfa A) (Q1 : list A) (sigma : list nat)
           (st : list (list A) * list ((list A * nat) * list A) * list (list A) * list (list A))
    : list (list A) * list ((list A * nat) * list A) * list (list A) * list (list A) :=
    match sigma with
    | [] => st
    | a :: sigma' =>
      let '(Q, delta, F, todo) := st in
      let Q2 := canon (eclose N (big_union (map (fun q1 => ndelta N q1 a) Q1))) in
      let delta' := update (Q1, a) Q2 delta in
      let F' := if meetsb Q2 (nF N) then add Q2 F else F in
      if mem Q2 Q then n2d_row N Q1 sigma' (Q, delta', F', todo)
      else n2d_row N Q1 sigma' (Q ++ [Q2], delta', F', todo ++ [Q2])
    end.

  (* todo is a Python list used as a stack: pop() takes the last element *)
  Fixpoint n2d_loop (N : nfa A) (fuel : nat)
           (st : list (list A) * list ((list A * nat) * list A) * list (list A) * list (list A))
    : option (list (list A) * list ((list A * nat) * list A) * list (list A)) :=
    match fuel with
    | 0 => None
    | S f =>
      let '(Q, delta, F, todo) := st in
      match rev todo with
      | [] => Some (Q, delta, F)
      | Q1 :: rest => n2d_loop N f (n2d_row N Q1 (nS N) (Q, delta, F, rev rest))
      end
    end.

  Definition nfa_to_dfa_fuel (N : nfa A) (fuel : nat) : option (dfa (list A)) :=
    let Q0 := canon (eclose N [nq0 N]) in
    let F0 := if meetsb Q0 (nF N) then [Q0] else [] in
    match n2d_loop N fuel ([Q0], [], F0, [Q0]) with
    | Some (Q, delta, F) => Some (mkDFA Q (nS N) delta Q0 F)
    | None => None
    end.
End Subset.
