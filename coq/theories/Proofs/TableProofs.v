(* C04: the table-filling minimiser (dfa_minimize + dfa_from_table of Model/Minimize.v) computes the
   Myhill-Nerode partition and its quotient automaton. *)
From GT Require Import Base.Prelude Model.DFA Model.NFA Model.Minimize
  Proofs.NFAProofs Proofs.DFAOpsProofs Proofs.PartitionDefs Proofs.PartitionTheory.
From Coq Require Import Permutation.

(* ---------- association lists: keys ---------- *)
Section Keys.
  Context {K V : Type} `{Eqb K}.

  Lemma lookup_key_In (k : K) (m : list (K * V)) : lookup k m <> None <-> In k (map fst m).
  Proof.
    induction m as [|[k' v'] m IH]; cbn [lookup map fst In].
    - split; [intros Hc; contradiction | intros []].
    - destruct (eqb k k') eqn:E.
      + apply eqb_true in E. subst k'. split; [intros _; left; reflexivity | intros _; discriminate].
      + apply eqb_neq in E. rewrite IH. split; [intros Hi; right; exact Hi | intros [Hc|Hi]; [congruence | exact Hi]].
  Qed.

  Lemma update_keys (k : K) (v : V) (m : list (K * V)) : In k (map fst m) -> map fst (update k v m) = map fst m.
  Proof.
    induction m as [|[k' v'] m IH]; cbn [update map fst In]; [intros []|].
    destruct (eqb k k') eqn:E.
    - apply eqb_true in E. subst k'. intros _. reflexivity.
    - apply eqb_neq in E. intros [Hc|Hi]; [congruence|]. cbn [map fst]. rewrite (IH Hi). reflexivity.
  Qed.
End Keys.

(* ---------- the pair enumerations ---------- *)
Section Pairs.
  Context {A : Type} `{Eqb A}.

  Lemma pairs_le_In (q : list A) x y : In (x, y) (pairs_le q) -> In x q /\ In y q.
  Proof.
    induction q as [|z q IH]; cbn [pairs_le]; [intros []|].
    rewrite in_app_iff, in_map_iff. intros [[y' [E Hy]]|Hi].
    - inversion E; subst. split; [left; reflexivity | exact Hy].
    - destruct (IH Hi) as [Hx Hy]. split; right; assumption.
  Qed.

  Lemma pairs_le_total (q : list A) x y : In x q -> In y q -> In (x, y) (pairs_le q) \/ In (y, x) (pairs_le q).
  Proof.
    induction q as [|z q IH]; [intros []|]. intros Hx Hy. cbn [pairs_le]. rewrite !in_app_iff, !in_map_iff.
    destruct Hx as [->|Hx].
    - left. left. exists y. split; [reflexivity | exact Hy].
    - destruct Hy as [->|Hy].
      + right. left. exists x. split; [reflexivity | right; exact Hx].
      + destruct (IH Hx Hy) as [Hi|Hi]; [left; right; exact Hi | right; right; exact Hi].
  Qed.

  Lemma pairs_le_antisym (q : list A) x y : NoDup q -> In (x, y) (pairs_le q) -> In (y, x) (pairs_le q) -> x = y.
  Proof.
    induction q as [|z q IH]; [intros _ []|]. intros Hnd. inversion Hnd as [|z' q' Hz Hnd']; subst.
    cbn [pairs_le]. rewrite !in_app_iff, !in_map_iff. intros [[y' [E1 Hy]]|H1] [[x' [E2 Hx]]|H2].
    - inversion E1; inversion E2; subst. reflexivity.
    - inversion E1; subst. apply pairs_le_In in H2. tauto.
    - inversion E2; subst. apply pairs_le_In in H1. tauto.
    - apply IH; assumption.
  Qed.

  Lemma pairs_lt_In (q : list A) x y : In (x, y) (pairs_lt q) -> In x q /\ In y q.
  Proof.
    induction q as [|z q IH]; cbn [pairs_lt]; [intros []|].
    rewrite in_app_iff, in_map_iff. intros [[y' [E Hy]]|Hi].
    - inversion E; subst. split; [left; reflexivity | right; exact Hy].
    - destruct (IH Hi) as [Hx Hy]. split; right; assumption.
  Qed.

  Lemma pairs_lt_neq (q : list A) x y : NoDup q -> In (x, y) (pairs_lt q) -> x <> y.
  Proof.
    induction q as [|z q IH]; [intros _ []|]. intros Hnd. inversion Hnd as [|z' q' Hz Hnd']; subst.
    cbn [pairs_lt]. rewrite in_app_iff, in_map_iff. intros [[y' [E Hy]]|Hi].
    - inversion E; subst. intros ->. contradiction.
    - apply IH; assumption.
  Qed.

  Lemma pairs_lt_total (q : list A) x y : In x q -> In y q -> x <> y -> In (x, y) (pairs_lt q) \/ In (y, x) (pairs_lt q).
  Proof.
    induction q as [|z q IH]; [intros []|]. intros Hx Hy Hne. cbn [pairs_lt]. rewrite !in_app_iff, !in_map_iff.
    destruct Hx as [->|Hx]; destruct Hy as [->|Hy].
    - contradiction.
    - left. left. exists y. auto.
    - right. left. exists x. auto.
    - destruct (IH Hx Hy Hne) as [Hi|Hi]; [left; right; exact Hi | right; right; exact Hi].
  Qed.
End Pairs.

(* ---------- tget / tset ---------- *)
Section Table.
  Context {A : Type} `{Eqb A}.

  (* the keys of the table are exactly the pairs (x, y) with x before-or-equal y in q *)
  Definition twf (q : list A) (t : @table A) : Prop := map fst t = pairs_le q.

  Lemma tget_sym (q : list A) (t : @table A) x y : NoDup q -> twf q t -> tget t x y = tget t y x.
  Proof.
    intros Hnd Ht. unfold tget.
    destruct (lookup (x, y) t) as [b1|] eqn:E1; destruct (lookup (y, x) t) as [b2|] eqn:E2; try reflexivity.
    assert (Exy : x = y).
    { apply (pairs_le_antisym q); [exact Hnd | |]; rewrite <- Ht; apply lookup_key_In; congruence. }
    subst y. congruence.
  Qed.

  Lemma tset_twf (q : list A) (t : @table A) p r b : twf q t -> In p q -> In r q -> twf q (tset t p r b).
  Proof.
    intros Ht Hp Hr. unfold twf, tset. destruct (lookup (p, r) t) as [b0|] eqn:E.
    - rewrite update_keys; [exact Ht|]. apply lookup_key_In. congruence.
    - rewrite update_keys; [exact Ht|]. rewrite Ht.
      destruct (pairs_le_total q p r Hp Hr) as [Hi|Hi]; [|exact Hi].
      exfalso. rewrite <- Ht in Hi. apply lookup_key_In in Hi. contradiction.
  Qed.

  Lemma tget_tset_same (t : @table A) p r b : tget (tset t p r b) p r = b.
  Proof.
    unfold tset, tget. destruct (lookup (p, r) t) as [b0|] eqn:E.
    - rewrite lookup_update, eqb_refl. reflexivity.
    - rewrite !lookup_update, eqb_refl, E. destruct (eqb (p, r) (r, p)); reflexivity.
  Qed.

  Lemma tget_tset_other (t : @table A) p r b x y : (x, y) <> (p, r) -> (x, y) <> (r, p) ->
    tget (tset t p r b) x y = tget t x y.
  Proof.
    intros N1 N2.
    assert (N3 : (y, x) <> (p, r)) by (intros E; inversion E; subst; apply N2; reflexivity).
    assert (N4 : (y, x) <> (r, p)) by (intros E; inversion E; subst; apply N1; reflexivity).
    apply eqb_neq in N1, N2, N3, N4.
    unfold tset, tget. destruct (lookup (p, r) t) as [b0|] eqn:E; rewrite !lookup_update.
    - rewrite N1, N3. reflexivity.
    - rewrite N2, N4. reflexivity.
  Qed.

  Lemma tset_false_mono (q : list A) (t : @table A) p r x y : NoDup q -> twf q t -> In p q -> In r q ->
    tget (tset t p r false) x y = true -> tget t x y = true.
  Proof.
    intros Hnd Ht Hp Hr E.
    destruct (eqb_dec (x, y) (p, r)) as [E1|N1].
    - inversion E1; subst. rewrite tget_tset_same in E. discriminate.
    - destruct (eqb_dec (x, y) (r, p)) as [E2|N2].
      + inversion E2; subst. rewrite (tget_sym q _ r p Hnd (tset_twf q t p r false Ht Hp Hr)), tget_tset_same in E. discriminate.
      + rewrite (tget_tset_other t p r false x y N1 N2) in E. exact E.
  Qed.

  Lemma table_init_twf (D : dfa A) (q : list A) : twf q (table_init D q).
  Proof. unfold twf, table_init. rewrite map_map. cbn [fst]. apply map_id. Qed.

  Lemma tget_init (D : dfa A) (q : list A) p r : In p q -> In r q ->
    tget (table_init D q) p r = Bool.eqb (mem p (dF D)) (mem r (dF D)).
  Proof.
    intros Hp Hr. unfold tget, table_init.
    pose proof (lookup_map_graph (fun pr : A * A => Bool.eqb (mem (fst pr) (dF D)) (mem (snd pr) (dF D))) (pairs_le q)) as L.
    cbn beta in L. rewrite !L. cbn [fst snd].
    destruct (mem (p, r) (pairs_le q)) eqn:E1; [reflexivity|].
    destruct (mem (r, p) (pairs_le q)) eqn:E2.
    - destruct (mem p (dF D)), (mem r (dF D)); reflexivity.
    - exfalso. apply mem_nIn in E1. apply mem_nIn in E2. destruct (pairs_le_total q p r Hp Hr); contradiction.
  Qed.
End Table.

(* ---------- the fill loop ---------- *)
Section Fill.
  Context {A : Type} `{Eqb A}.
  Variables (D : dfa A) (q : list A).
  Hypothesis Hwf : dfa_wf D.
  Hypothesis Hnd : NoDup q.
  Hypothesis Hq : forall x, In x q <-> In x (dQ D).

  Lemma q_step x a : In x q -> In a (dS D) -> In (dstep D x a) q.
  Proof. intros Hx Ha. apply Hq. apply (dfa_wf_step x a Hwf); [apply Hq; exact Hx | exact Ha]. Qed.

  (* marked pairs are separated by a word *)
  Definition sound (t : @table A) : Prop := forall p r, In p q -> In r q -> tget t p r = false -> separated D p r.
  (* unmarked pairs are closed under every symbol *)
  Definition closed (t : @table A) : Prop :=
    forall p r, In (p, r) (pairs_lt q) -> tget t p r = true ->
    forall a, In a (dS D) -> tget t (dstep D p a) (dstep D r a) = true.

  Definition pass_step (st : @table A * bool) (pr : A * A) : @table A * bool :=
    let '(t, ch) := st in
    let '(p, r) := pr in
    if tget t p r then
      if existsb (fun a => negb (tget t (dstep D p a) (dstep D r a))) (dS D) then (tset t p r false, true) else (t, ch)
    else (t, ch).

  Lemma table_pass_fold t : table_pass D q t = fold_left pass_step (pairs_lt q) (t, false).
  Proof. reflexivity. Qed.

  Lemma pass_step_cases t ch p r :
    (pass_step (t, ch) (p, r) = (tset t p r false, true) /\ tget t p r = true /\
       exists a, In a (dS D) /\ tget t (dstep D p a) (dstep D r a) = false) \/
    (pass_step (t, ch) (p, r) = (t, ch) /\
       (tget t p r = true -> forall a, In a (dS D) -> tget t (dstep D p a) (dstep D r a) = true)).
  Proof.
    cbn [pass_step]. destruct (tget t p r) eqn:E1; [|right; split; [reflexivity | discriminate]].
    destruct (existsb (fun a => negb (tget t (dstep D p a) (dstep D r a))) (dS D)) eqn:E2.
    - left. split; [reflexivity|]. split; [reflexivity|]. apply existsb_exists in E2.
      destruct E2 as [a [Ha Hn]]. exists a. split; [exact Ha|]. apply negb_true_iff. exact Hn.
    - right. split; [reflexivity|]. intros _ a Ha.
      pose proof (existsb_false_In (fun a0 => negb (tget t (dstep D p a0) (dstep D r a0))) (dS D) a E2 Ha) as Hn.
      apply negb_false_iff. exact Hn.
  Qed.

  Lemma mark_sound t p r : twf q t -> In p q -> In r q -> sound t ->
    (exists a, In a (dS D) /\ tget t (dstep D p a) (dstep D r a) = false) -> sound (tset t p r false).
  Proof.
    intros Ht Hp Hr Hs [a [Ha Ea]] x y Hx Hy E.
    assert (Hpr : separated D p r).
    { apply (separated_step D p r a Ha). apply Hs; [apply q_step | apply q_step | exact Ea]; assumption. }
    destruct (eqb_dec (x, y) (p, r)) as [E1|N1]; [inversion E1; subst; exact Hpr|].
    destruct (eqb_dec (x, y) (r, p)) as [E2|N2]; [inversion E2; subst; apply separated_sym; exact Hpr|].
    rewrite (tget_tset_other t p r false x y N1 N2) in E. apply Hs; assumption.
  Qed.

  Lemma pass_fold (l : list (A * A)) : (forall p r, In (p, r) l -> In p q /\ In r q) ->
    forall t ch t' ch', fold_left pass_step l (t, ch) = (t', ch') -> twf q t ->
    twf q t' /\
    (forall x y, tget t' x y = true -> tget t x y = true) /\
    (sound t -> sound t') /\
    (ch' = false -> ch = false /\ t' = t /\
       forall p r, In (p, r) l -> tget t p r = true -> forall a, In a (dS D) -> tget t (dstep D p a) (dstep D r a) = true) /\
    (ch' = true -> ch = true \/ exists x y, In x q /\ In y q /\ tget t x y = true /\ tget t' x y = false).
  Proof.
    induction l as [|[p r] l IH]; intros Hl t ch t' ch' Ef Ht.
    - cbn [fold_left] in Ef. inversion Ef; subst t' ch'.
      split; [exact Ht|]. split; [auto|]. split; [auto|]. split; [|auto].
      intros ->. split; [reflexivity|]. split; [reflexivity|]. intros p r [].
    - destruct (Hl p r (or_introl eq_refl)) as [Hp Hr].
      assert (Hl' : forall p0 r0, In (p0, r0) l -> In p0 q /\ In r0 q) by (intros p0 r0 Hi; apply Hl; right; exact Hi).
      cbn [fold_left] in Ef.
      destruct (pass_step_cases t ch p r) as [[Es [Epr Hex]]|[Es Hcl]]; rewrite Es in Ef.
      + assert (Ht1 : twf q (tset t p r false)) by (apply tset_twf; assumption).
        destruct (IH Hl' _ _ _ _ Ef Ht1) as [Ht' [Hmono [Hsound [Hcf Hct]]]].
        split; [exact Ht'|]. split; [|split; [|split]].
        * intros x y E. apply (tset_false_mono q t p r x y Hnd Ht Hp Hr). apply Hmono. exact E.
        * intros Hs. apply Hsound. apply mark_sound; assumption.
        * intros E. destruct (Hcf E) as [Hc _]. discriminate.
        * intros _. right. exists p, r. split; [exact Hp|]. split; [exact Hr|]. split; [exact Epr|].
          destruct (tget t' p r) eqn:E; [|reflexivity]. apply Hmono in E. rewrite tget_tset_same in E. discriminate.
      + destruct (IH Hl' _ _ _ _ Ef Ht) as [Ht' [Hmono [Hsound [Hcf Hct]]]].
        split; [exact Ht'|]. split; [exact Hmono|]. split; [exact Hsound|]. split; [|exact Hct].
        intros E. destruct (Hcf E) as [Hc [Et Hall]]. split; [exact Hc|]. split; [exact Et|].
        intros p0 r0 [Ei|Hi]; [inversion Ei; subst; exact Hcl | apply Hall; exact Hi].
  Qed.

  (* number of unmarked pairs: the termination measure *)
  Definition cnt (t : @table A) : nat := length (filter (fun pr => tget t (fst pr) (snd pr)) (list_prod q q)).

  Lemma pass_spec t t' ch' : table_pass D q t = (t', ch') -> twf q t ->
    twf q t' /\ (forall x y, tget t' x y = true -> tget t x y = true) /\ (sound t -> sound t') /\
    (ch' = false -> t' = t /\ closed t) /\ (ch' = true -> cnt t' < cnt t).
  Proof.
    intros Ep Ht. rewrite table_pass_fold in Ep.
    destruct (pass_fold (pairs_lt q) (fun p r Hi => pairs_lt_In q p r Hi) _ _ _ _ Ep Ht) as [Ht' [Hmono [Hsound [Hcf Hct]]]].
    split; [exact Ht'|]. split; [exact Hmono|]. split; [exact Hsound|]. split.
    - intros E. destruct (Hcf E) as [_ [Et Hall]]. split; [exact Et|]. exact Hall.
    - intros E. destruct (Hct E) as [Hc|[x [y [Hx [Hy [E1 E2]]]]]]; [discriminate|].
      unfold cnt. apply (filter_len_lt (fun pr => tget t' (fst pr) (snd pr)) (fun pr => tget t (fst pr) (snd pr)) _ (x, y)).
      + intros [x0 y0] _. cbn [fst snd]. apply Hmono.
      + apply in_prod_iff. split; assumption.
      + exact E2.
      + exact E1.
  Qed.

  Lemma fill_spec : forall fuel t, twf q t -> sound t -> cnt t < fuel ->
    exists t', table_fill D q fuel t = Some t' /\ twf q t' /\ sound t' /\ closed t' /\
               (forall x y, tget t' x y = true -> tget t x y = true).
  Proof.
    induction fuel as [|f IH]; intros t Ht Hs Hc; [lia|].
    cbn [table_fill]. destruct (table_pass D q t) as [t1 ch1] eqn:Ep.
    destruct (pass_spec t t1 ch1 Ep Ht) as [Ht1 [Hmono [Hsound [Hcf Hct]]]].
    destruct ch1.
    - destruct (IH t1 Ht1 (Hsound Hs)) as [t' [Ef [Ht' [Hs' [Hcl Hm']]]]]; [specialize (Hct eq_refl); lia|].
      exists t'. split; [exact Ef|]. split; [exact Ht'|]. split; [exact Hs'|]. split; [exact Hcl|].
      intros x y E. apply Hmono. apply Hm'. exact E.
    - destruct (Hcf eq_refl) as [-> Hcl]. exists t. auto.
  Qed.

  Lemma cnt_fuel t : cnt t < table_fuel q.
  Proof.
    unfold cnt, table_fuel.
    pose proof (filter_len_bound (fun pr : A * A => tget t (fst pr) (snd pr)) (list_prod q q)) as Hb.
    rewrite prod_length in Hb. lia.
  Qed.

  Lemma init_sound : sound (table_init D q).
  Proof.
    intros p r Hp Hr E. rewrite (tget_init D q p r Hp Hr) in E. exists []. split; [unfold over; constructor|].
    cbn [drun]. rewrite <- !mem_In. destruct (mem p (dF D)), (mem r (dF D)); cbn in E; try discriminate E; intros [H1 H2];
      [discriminate (H1 eq_refl) | discriminate (H2 eq_refl)].
  Qed.

  Theorem table_fill_terminates : table_fill D q (table_fuel q) (table_init D q) <> None.
  Proof.
    destruct (fill_spec (table_fuel q) (table_init D q) (table_init_twf D q) init_sound (cnt_fuel _)) as [t' [E _]].
    congruence.
  Qed.

  (* what the filled table satisfies *)
  Lemma table_fill_props t : table_fill D q (table_fuel q) (table_init D q) = Some t ->
    twf q t /\ sound t /\ closed t /\ (forall p r, In p q -> In r q -> tget t p r = true -> (In p (dF D) <-> In r (dF D))).
  Proof.
    intros Ef.
    destruct (fill_spec (table_fuel q) (table_init D q) (table_init_twf D q) init_sound (cnt_fuel _))
      as [t' [E [Ht [Hs [Hcl Hmono]]]]].
    rewrite Ef in E. inversion E; subst t'. split; [exact Ht|]. split; [exact Hs|]. split; [exact Hcl|].
    intros p r Hp Hr Et. apply Hmono in Et. rewrite (tget_init D q p r Hp Hr) in Et.
    apply eqb_prop in Et. rewrite <- !mem_In, Et. tauto.
  Qed.

  Theorem table_fill_correct t : table_fill D q (table_fuel q) (table_init D q) = Some t ->
    forall p r, In p q -> In r q -> (tget t p r = true <-> mn_equiv D p r).
  Proof.
    intros Ef. destruct (table_fill_props t Ef) as [Ht [Hs [Hcl HF]]].
    assert (G : forall w, over D w -> forall p r, In p q -> In r q -> p = r \/ tget t p r = true ->
                (In (drun D p w) (dF D) <-> In (drun D r w) (dF D))).
    { intros w Hw. induction Hw as [|a w Ha Hw IH]; intros p r Hp Hr Hpr; cbn [drun].
      - destruct Hpr as [->|E]; [tauto | apply HF; assumption].
      - apply IH; [apply q_step; assumption | apply q_step; assumption|].
        destruct (eqb_dec p r) as [->|Hne]; [left; reflexivity|]. right.
        destruct Hpr as [Hc|E]; [contradiction|].
        destruct (pairs_lt_total q p r Hp Hr Hne) as [Hi|Hi].
        + apply (Hcl p r Hi E a Ha).
        + rewrite (tget_sym q t _ _ Hnd Ht). apply (Hcl r p Hi); [|exact Ha]. rewrite (tget_sym q t _ _ Hnd Ht). exact E. }
    intros p r Hp Hr. split.
    - intros E w Hw. apply G; auto.
    - intros E. destruct (tget t p r) eqn:Et; [reflexivity|]. exfalso.
      apply (separated_not_mn D p r); [apply Hs; assumption | exact E].
  Qed.
End Fill.

(* ---------- dfa_from_table: the classes read off the table ---------- *)
Section Classes.
  Context {A : Type} `{Eqb A}.
  Variables (D : dfa A) (q : list A) (t : @table A).
  Hypothesis HE : forall p r, In p q -> In r q -> (tget t p r = true <-> mn_equiv D p r).

  Lemma t_refl x : In x q -> tget t x x = true.
  Proof. intros Hx. apply HE; [exact Hx | exact Hx | apply mn_refl]. Qed.
  Lemma t_sym x y : In x q -> In y q -> tget t x y = true -> tget t y x = true.
  Proof. intros Hx Hy E. apply HE; [exact Hy | exact Hx|]. apply mn_sym. apply HE; assumption. Qed.
  Lemma t_trans x y z : In x q -> In y q -> In z q -> tget t x y = true -> tget t y z = true -> tget t x z = true.
  Proof.
    intros Hx Hy Hz E1 E2. apply HE; [exact Hx | exact Hz|].
    apply mn_trans with y; apply HE; assumption.
  Qed.

  Lemma classes_spec : forall l R, NoDup l -> incl l q ->
    (forall x y, In x l -> In y l -> tget t x y = true -> (In x R <-> In y R)) ->
    (forall B, In B (classes_of t l R) ->
       B <> [] /\ incl B l /\ (forall y, In y B -> ~ In y R) /\ (forall p r, In p B -> In r B -> tget t p r = true)) /\
    (forall x, In x l -> ~ In x R -> exists B, In B (classes_of t l R) /\ In x B) /\
    (forall B1 B2 p r, In B1 (classes_of t l R) -> In B2 (classes_of t l R) -> In p B1 -> In r B2 ->
       tget t p r = true -> B1 = B2) /\
    NoDup (classes_of t l R).
  Proof.
    induction l as [|x l IH]; intros R Hndl Hinc Hcl.
    - cbn [classes_of]. split; [intros B []|]. split; [intros x []|]. split; [intros B1 B2 p r []|constructor].
    - inversion Hndl as [|x' l' Hxl Hndl']; subst.
      assert (Hxq : In x q) by (apply Hinc; left; reflexivity).
      assert (Hlq : incl l q) by (intros y Hy; apply Hinc; right; exact Hy).
      cbn [classes_of]. destruct (mem x R) eqn:Em.
      + apply mem_In in Em.
        destruct (IH R Hndl' Hlq) as [Ha [Hb [Hc Hd]]].
        { intros y z Hy Hz. apply Hcl; right; assumption. }
        split; [|split; [|split; [exact Hc | exact Hd]]].
        * intros B HB. destruct (Ha B HB) as [H1 [H2 H3]]. split; [exact H1|]. split; [|exact H3].
          intros y Hy. right. apply H2; exact Hy.
        * intros y [<-|Hy] HyR; [contradiction|]. apply Hb; assumption.
      + apply mem_nIn in Em.
        set (cls := x :: filter (fun y => tget t x y) l).
        assert (Hcls : forall y, In y cls <-> y = x \/ (In y l /\ tget t x y = true)).
        { intros y. unfold cls. cbn [In]. rewrite filter_In. split; (intros [E|E]; [left; auto | right; exact E]). }
        assert (Hclsx : forall y, In y cls -> In y q /\ tget t x y = true).
        { intros y Hy. apply Hcls in Hy. destruct Hy as [->|[Hy E]]; [split; [exact Hxq | apply t_refl; exact Hxq]|].
          split; [apply Hlq; exact Hy | exact E]. }
        assert (Hstep : forall y z, In y l -> In z l -> tget t y z = true -> In y (R ++ cls) -> In z (R ++ cls)).
        { intros y z Hy Hz E Hi. apply in_app_iff in Hi. apply in_app_iff. destruct Hi as [Hi|Hi].
          - left. apply (Hcl y z); [right; exact Hy | right; exact Hz | exact E | exact Hi].
          - right. apply Hcls. right. split; [exact Hz|]. destruct (Hclsx y Hi) as [_ Exy].
            apply (t_trans x y z); auto. }
        destruct (IH (R ++ cls) Hndl' Hlq) as [Ha [Hb [Hc Hd]]].
        { intros y z Hy Hz E. split; [apply Hstep; assumption|]. apply Hstep; try assumption. apply t_sym; auto. }
        assert (HclsR : forall y, In y cls -> ~ In y R).
        { intros y Hy. destruct (Hclsx y Hy) as [_ Exy]. apply Hcls in Hy. destruct Hy as [->|[Hy _]]; [exact Em|].
          intros HyR. apply Em. apply (Hcl x y); [left; reflexivity | right; exact Hy | exact Exy | exact HyR]. }
        assert (Hrest : forall B y, In B (classes_of t l (R ++ cls)) -> In y B -> In y l /\ ~ In y cls /\ ~ In y R).
        { intros B y HB Hy. destruct (Ha B HB) as [_ [H2 [H3 _]]]. split; [apply H2; exact Hy|].
          specialize (H3 y Hy). rewrite in_app_iff in H3. tauto. }
        split; [|split; [|split]].
        * intros B [<-|HB].
          -- split; [discriminate|]. split; [|split; [exact HclsR|]].
             ++ intros y Hy. apply Hcls in Hy. destruct Hy as [->|[Hy _]]; [left; reflexivity | right; exact Hy].
             ++ intros p r Hp Hr. destruct (Hclsx p Hp) as [Hpq Ep]. destruct (Hclsx r Hr) as [Hrq Er].
                apply (t_trans p x r); auto. apply t_sym; auto.
          -- destruct (Ha B HB) as [H1 [H2 [H3 H4]]]. split; [exact H1|]. split; [|split; [|exact H4]].
             ++ intros y Hy. right. apply H2; exact Hy.
             ++ intros y Hy. apply (Hrest B y HB Hy).
        * intros y [<-|Hy] HyR.
          -- exists cls. split; [left; reflexivity | apply Hcls; left; reflexivity].
          -- destruct (tget t x y) eqn:Exy.
             ++ exists cls. split; [left; reflexivity | apply Hcls; right; auto].
             ++ destruct (Hb y Hy) as [B [HB HyB]].
                { rewrite in_app_iff. intros [Hc'|Hc']; [contradiction|]. destruct (Hclsx y Hc') as [_ E']. congruence. }
                exists B. split; [right; exact HB | exact HyB].
        * intros B1 B2 p r [<-|H1] [<-|H2] Hp Hr E.
          -- reflexivity.
          -- exfalso. destruct (Hrest B2 r H2 Hr) as [Hrl [Hnc _]]. apply Hnc. apply Hcls. right. split; [exact Hrl|].
             destruct (Hclsx p Hp) as [Hpq Ep]. apply (t_trans x p r); auto.
          -- exfalso. destruct (Hrest B1 p H1 Hp) as [Hpl [Hnc _]]. apply Hnc. apply Hcls. right. split; [exact Hpl|].
             destruct (Hclsx r Hr) as [Hrq Er]. apply (t_trans x r p); auto. apply t_sym; auto.
          -- apply (Hc B1 B2 p r); assumption.
        * constructor; [|exact Hd]. intros Hc'.
          destruct (Hrest cls x Hc') as [_ [Hnc _]]; [apply Hcls; left; reflexivity|]. apply Hnc. apply Hcls. left; reflexivity.
  Qed.

  Hypothesis Hnd : NoDup q.
  Hypothesis Hq : forall x, In x q <-> In x (dQ D).

  Theorem classes_of_mn_gen : is_mn_partition D (classes_of t q []) /\ NoDup (classes_of t q []).
  Proof.
    destruct (classes_spec q [] Hnd (incl_refl q)) as [Ha [Hb [Hc Hd]]]; [intros x y _ _ _; cbn [In]; tauto|].
    split; [|exact Hd]. unfold is_mn_partition. split; [|split; [|split]].
    - intros B HB. destruct (Ha B HB) as [H1 [H2 _]]. split; [exact H1|]. intros y Hy. apply Hq. apply H2. exact Hy.
    - intros x Hx. apply Hb; [apply Hq; exact Hx | intros []].
    - intros B p r HB Hp Hr. destruct (Ha B HB) as [_ [H2 [_ H4]]]. apply HE; [apply H2; exact Hp | apply H2; exact Hr|].
      apply H4; assumption.
    - intros B1 B2 p r H1 H2 Hp Hr E. apply (Hc B1 B2 p r); try assumption.
      destruct (Ha B1 H1) as [_ [I1 _]]. destruct (Ha B2 H2) as [_ [I2 _]]. apply HE; [apply I1; exact Hp | apply I2; exact Hr | exact E].
  Qed.
End Classes.

Theorem classes_of_mn {A : Type} `{Eqb A} (D : dfa A) (q : list A) (t : @table A) :
  dfa_wf D -> NoDup q -> (forall x, In x q <-> In x (dQ D)) ->
  table_fill D q (table_fuel q) (table_init D q) = Some t ->
  is_mn_partition D (classes_of t q []).
Proof.
  intros Hwf Hnd Hq Ef. apply (classes_of_mn_gen D q t (table_fill_correct D q Hwf Hnd Hq t Ef) Hnd Hq).
Qed.

(* ---------- block_of and mk_delta (shared by dfa_from_table and dfa_quotient) ---------- *)
Section MkDelta.
  Context {A : Type} `{Eqb A}.
  Variable canon : list A -> list A.
  Hypothesis canon_In : forall l y, In y (canon l) <-> In y l.

  Lemma block_of_Some (P : list (list A)) x B : block_of P x = Some B -> In B P /\ In x B.
  Proof.
    induction P as [|B1 P IH]; cbn [block_of]; [discriminate|]. destruct (mem x B1) eqn:Em.
    - intros E. inversion E; subst. split; [left; reflexivity | apply mem_In; exact Em].
    - intros E. destruct (IH E) as [H1 H2]. split; [right; exact H1 | exact H2].
  Qed.

  Lemma block_of_cover (P : list (list A)) x : (exists B, In B P /\ In x B) -> block_of P x <> None.
  Proof.
    induction P as [|B1 P IH]; intros [B [HB Hx]]; [destruct HB|]. cbn [block_of].
    destruct (mem x B1) eqn:Em; [discriminate|]. apply IH. exists B. split; [|exact Hx].
    destruct HB as [->|HB]; [|exact HB]. apply mem_nIn in Em. contradiction.
  Qed.

  Section Spec.
  Variables (D : dfa A) (P : list (list A)) (leader : list A -> option A).

  Definition md_inner (B : list A) (acc : option (list ((list A * nat) * list A))) (al : list nat) :=
    fold_right (fun a acc2 =>
      match acc2, leader B with
      | Some l, Some v => match block_of P (dstep D v a) with
                          | Some B' => Some (((canon B, a), canon B') :: l)
                          | None => None
                          end
      | _, _ => None
      end) acc al.
  Definition md_outer (Pl : list (list A)) := fold_right (fun B acc => md_inner B acc (dS D)) (Some []) Pl.

  Lemma mk_delta_outer : mk_delta canon D P leader = md_outer P.
  Proof. reflexivity. Qed.

  Lemma md_inner_spec B al : forall acc r, md_inner B acc al = Some r ->
    exists l0, acc = Some l0 /\
      (forall e, In e r <-> In e l0 \/ exists a v B', In a al /\ leader B = Some v /\
                                   block_of P (dstep D v a) = Some B' /\ e = ((canon B, a), canon B')) /\
      (forall a, In a al -> exists v B', leader B = Some v /\ block_of P (dstep D v a) = Some B').
  Proof.
    induction al as [|a al IH]; intros acc r E; cbn [md_inner fold_right] in E.
    - exists r. split; [exact E|]. split; [|intros a []]. intros e. split; [auto|]. intros [He|[a [v [B' [[] _]]]]]. exact He.
    - fold (md_inner B acc al) in E. destruct (md_inner B acc al) as [r1|] eqn:E1; [|discriminate].
      destruct (leader B) as [v|] eqn:Ev; [|discriminate].
      destruct (block_of P (dstep D v a)) as [B'|] eqn:Eb; [|discriminate]. inversion E; subst r.
      destruct (IH acc r1 E1) as [l0 [Ea [Hin Hall]]]. exists l0. split; [exact Ea|]. split.
      + intros e. cbn [In]. rewrite Hin. split.
        * intros [<-|[He|[a1 [v1 [B1 [Ha1 Hr]]]]]].
          -- right. exists a, v, B'. auto.
          -- left; exact He.
          -- right. exists a1, v1, B1. split; [right; exact Ha1 | exact Hr].
        * intros [He|[a1 [v1 [B1 [[<-|Ha1] [Hv1 [Hb1 ->]]]]]]].
          -- right; left; exact He.
          -- left. rewrite ?Ev in Hv1. inversion Hv1; subst v1. rewrite Eb in Hb1. inversion Hb1; subst B1. reflexivity.
          -- right; right. exists a1, v1, B1. auto.
      + intros a1 [<-|Ha1]; [exists v, B'; auto | apply Hall; exact Ha1].
  Qed.

  Lemma md_outer_spec Pl : forall r, md_outer Pl = Some r ->
    (forall e, In e r <-> exists B a v B', In B Pl /\ In a (dS D) /\ leader B = Some v /\
                           block_of P (dstep D v a) = Some B' /\ e = ((canon B, a), canon B')) /\
    (forall B a, In B Pl -> In a (dS D) -> exists v B', leader B = Some v /\ block_of P (dstep D v a) = Some B').
  Proof.
    induction Pl as [|B Pl IH]; intros r E; cbn [md_outer fold_right] in E.
    - inversion E; subst r. split; [|intros B a []]. intros e. split; [intros []|]. intros [B [a [v [B' [[] _]]]]].
    - fold (md_outer Pl) in E. destruct (md_inner_spec B (dS D) _ _ E) as [l0 [E0 [Hin Hall]]].
      destruct (IH l0 E0) as [Hin0 Hall0]. split.
      + intros e. rewrite Hin, Hin0. split.
        * intros [[B1 [a [v [B' [HB1 Hr]]]]]|[a [v [B' [Ha Hr]]]]].
          -- exists B1, a, v, B'. split; [right; exact HB1 | exact Hr].
          -- exists B, a, v, B'. split; [left; reflexivity|]. split; [exact Ha | exact Hr].
        * intros [B1 [a [v [B' [[<-|HB1] [Ha Hr]]]]]].
          -- right. exists a, v, B'. split; [exact Ha | exact Hr].
          -- left. exists B1, a, v, B'. split; [exact HB1|]. split; [exact Ha | exact Hr].
      + intros B1 a [<-|HB1] Ha; [apply Hall; exact Ha | apply Hall0; assumption].
  Qed.

  Lemma md_inner_some B al l0 : (forall a, In a al -> exists v, leader B = Some v /\ block_of P (dstep D v a) <> None) ->
    md_inner B (Some l0) al <> None.
  Proof.
    induction al as [|a al IH]; intros Hall; cbn [md_inner fold_right]; [discriminate|].
    fold (md_inner B (Some l0) al). destruct (md_inner B (Some l0) al) as [r1|] eqn:E1.
    - destruct (Hall a (or_introl eq_refl)) as [v [Ev Hb]]. rewrite Ev.
      destruct (block_of P (dstep D v a)); [discriminate | contradiction].
    - exfalso. apply IH; [|reflexivity]. intros a1 Ha1. apply Hall. right; exact Ha1.
  Qed.

  Lemma md_outer_some Pl :
    (forall B a, In B Pl -> In a (dS D) -> exists v, leader B = Some v /\ block_of P (dstep D v a) <> None) ->
    md_outer Pl <> None.
  Proof.
    induction Pl as [|B Pl IH]; intros Hall; cbn [md_outer fold_right]; [discriminate|].
    fold (md_outer Pl). destruct (md_outer Pl) as [l0|] eqn:E0.
    - apply md_inner_some. intros a Ha. apply Hall; [left; reflexivity | exact Ha].
    - exfalso. apply IH; [|reflexivity]. intros B1 a HB1 Ha. apply Hall; [right; exact HB1 | exact Ha].
  Qed.

  (* the entries of a successful mk_delta *)
  Theorem mk_delta_spec delta : mk_delta canon D P leader = Some delta ->
    (forall e, In e delta <-> exists B a v B', In B P /\ In a (dS D) /\ leader B = Some v /\
                               block_of P (dstep D v a) = Some B' /\ e = ((canon B, a), canon B')) /\
    (forall B a, In B P -> In a (dS D) -> exists v B', leader B = Some v /\ block_of P (dstep D v a) = Some B').
  Proof. rewrite mk_delta_outer. apply md_outer_spec. Qed.

  (* mk_delta succeeds when every block has a leader inside a partition of dQ D *)
  Theorem mk_delta_some : dfa_wf D ->
    (forall B, In B P -> incl B (dQ D)) -> (forall x, In x (dQ D) -> exists B, In B P /\ In x B) ->
    (forall B, In B P -> exists v, leader B = Some v /\ In v B) ->
    exists delta, mk_delta canon D P leader = Some delta.
  Proof.
    intros Hwf Hinc Hcov Hlead. destruct (mk_delta canon D P leader) as [delta|] eqn:E; [exists delta; reflexivity|].
    exfalso. rewrite mk_delta_outer in E. revert E. apply md_outer_some. intros B a HB Ha.
    destruct (Hlead B HB) as [v [Ev Hv]]. exists v. split; [exact Ev|]. apply block_of_cover. apply Hcov.
    apply (dfa_wf_step v a Hwf); [apply (Hinc B HB); exact Hv | exact Ha].
  Qed.

  (* the automaton assembled from mk_delta over the MN partition is a quotient automaton (with the range condition
     needed by quotient_correct) *)
  Theorem mk_delta_is_quotient delta B0 (f : list A -> bool) :
    dfa_wf D -> is_mn_partition D P ->
    (forall B v, In B P -> leader B = Some v -> In v B) ->
    mk_delta canon D P leader = Some delta -> block_of P (dq0 D) = Some B0 ->
    (forall B, In B P -> (f B = true <-> exists x, In x B /\ In x (dF D))) ->
    let D' := mkDFA (map canon P) (dS D) delta (canon B0) (map canon (filter f P)) in
    is_quotient_of canon D P D' /\ (forall k S1, In (k, S1) (dD D') -> In S1 (dQ D')).
  Proof.
    intros Hwf HP Hlead Ed Eb Hf D'.
    destruct (mk_delta_spec delta Ed) as [Hent Hall].
    assert (Hstates : forall S0, In S0 (map canon P) <-> exists B, In B P /\ S0 = canon B).
    { intros S0. rewrite in_map_iff. split; intros [B [H1 H2]]; exists B; auto. }
    split.
    - unfold is_quotient_of. cbn [D' dQ dS dD dq0 dF]. split; [exact Hstates|]. split; [reflexivity|].
      split; [|split; [|split]].
      + apply block_of_Some in Eb. exists B0. tauto.
      + intros S0. rewrite in_map_iff. split.
        * intros [B [E HB]]. apply filter_In in HB. destruct HB as [HB HfB]. exists B. split; [exact HB|].
          split; [auto|]. apply (Hf B HB). exact HfB.
        * intros [B [HB [-> Hx]]]. exists B. split; [reflexivity|]. apply filter_In. split; [exact HB|]. apply (Hf B HB). exact Hx.
      + intros B a HB Ha. destruct (Hall B a HB Ha) as [v [B' [Ev Eb']]].
        assert (Hin : In ((canon B, a), canon B') delta) by (apply Hent; exists B, a, v, B'; auto).
        destruct (lookup (canon B, a) delta) as [S1|] eqn:El;
          [|exfalso; exact (lookup_not_None _ _ _ Hin El)].
        pose proof El as El2. apply lookup_In in El. apply Hent in El. destruct El as [B1 [a1 [v1 [B1' [HB1 [Ha1 [Ev1 [Eb1 E]]]]]]]].
        injection E as Ec Ea E1. subst a1 S1.
        assert (EB : B = B1) by (apply (part_canon_inj canon canon_In D P HP); assumption). subst B1.
        apply block_of_Some in Eb1. destruct Eb1 as [HB1' Hv1].
        exists v1, B1'. split; [apply (Hlead B); assumption|]. split; [exact HB1'|]. split; [exact Hv1 | exact El2].
      + intros k S1 Hi. apply Hent in Hi. destruct Hi as [B [a [v [B' [HB [Ha [_ [_ E]]]]]]]]. inversion E; subst.
        exists B. cbn [fst snd]. auto.
    - cbn [D' dQ dD]. intros k S1 Hi. apply Hent in Hi. destruct Hi as [B [a [v [B' [HB [Ha [_ [Eb' E]]]]]]]]. inversion E; subst.
      apply block_of_Some in Eb'. apply in_map. tauto.
  Qed.
  End Spec.
End MkDelta.

(* ---------- dfa_from_table and dfa_minimize ---------- *)
Lemma NoDup_map_inj_on {X Y : Type} (f : X -> Y) (l : list X) :
  (forall x y, In x l -> In y l -> f x = f y -> x = y) -> NoDup l -> NoDup (map f l).
Proof.
  intros Hinj Hnd. induction Hnd as [|x l Hx Hnd IH]; cbn [map]; [constructor|]. constructor.
  - intros Hc. apply in_map_iff in Hc. destruct Hc as [y [E Hy]].
    assert (y = x) by (apply Hinj; [right; exact Hy | left; reflexivity | exact E]). subst y. contradiction.
  - apply IH. intros y z Hy Hz. apply Hinj; right; assumption.
Qed.

Section MinimizeCorrect.
  Context {A : Type} `{Eqb A}.
  Variable canon : list A -> list A.
  Hypothesis canon_In : forall l y, In y (canon l) <-> In y l.
  Variable ord : list A -> list A.
  Hypothesis ord_perm : forall l, Permutation (ord l) l.

  Lemma hd_final_spec (D : dfa A) (P : list (list A)) : is_mn_partition D P -> forall B, In B P ->
    ((match B with x :: _ => mem x (dF D) | [] => false end) = true <-> exists x, In x B /\ In x (dF D)).
  Proof.
    intros [Hne [_ [Hsame _]]] B HB. destruct (Hne B HB) as [Hn _]. destruct B as [|x B']; [contradiction|].
    rewrite mem_In. split.
    - intros Hx. exists x. split; [left; reflexivity | exact Hx].
    - intros [y [Hy Hf]]. apply (mn_final D x y); [|exact Hf]. apply (Hsame (x :: B')); [exact HB | left; reflexivity | exact Hy].
  Qed.

  Theorem dfa_from_table_correct (D : dfa A) (q : list A) (t : @table A) :
    dfa_wf D -> NoDup q -> (forall x, In x q <-> In x (dQ D)) ->
    table_fill D q (table_fuel q) (table_init D q) = Some t ->
    exists D', dfa_from_table canon D q t = Some D' /\
      is_mn_partition D (classes_of t q []) /\
      is_quotient_of canon D (classes_of t q []) D' /\
      (forall k S1, In (k, S1) (dD D') -> In S1 (dQ D')) /\ NoDup (dQ D').
  Proof.
    intros Hwf Hnd Hq Ef.
    destruct (classes_of_mn_gen D q t (table_fill_correct D q Hwf Hnd Hq t Ef) Hnd Hq) as [HP HndP].
    set (P := classes_of t q []) in *.
    pose proof HP as [Hne [Hcov _]].
    destruct (mk_delta_some canon D P (fun B : list A => hd_error B) Hwf) as [delta Ed].
    { intros B HB. apply (Hne B HB). }
    { exact Hcov. }
    { intros B HB. destruct (Hne B HB) as [Hn _]. destruct B as [|x B']; [contradiction|]. exists x. split; [reflexivity | left; reflexivity]. }
    destruct (block_of P (dq0 D)) as [B0|] eqn:Eb;
      [|exfalso; revert Eb; apply block_of_cover; apply Hcov; exact (proj1 Hwf)].
    unfold dfa_from_table. fold P. rewrite Ed, Eb.
    eexists. split; [reflexivity|]. split; [exact HP|].
    destruct (mk_delta_is_quotient canon canon_In D P (fun B : list A => hd_error B) delta B0
                (fun B => match B with x :: _ => mem x (dF D) | [] => false end) Hwf HP) as [HQ Hrng].
    { intros B v HB Ev. destruct B as [|x B']; [discriminate|]. cbn [hd_error] in Ev. inversion Ev; subst. left; reflexivity. }
    { exact Ed. }
    { exact Eb. }
    { apply hd_final_spec. exact HP. }
    split; [exact HQ|]. split; [exact Hrng|]. cbn [dQ].
    apply NoDup_map_inj_on; [|exact HndP]. intros B1 B2 H1 H2. apply (part_canon_inj canon canon_In D P HP); assumption.
  Qed.

  Lemma ord_NoDup l : NoDup l -> NoDup (ord l).
  Proof. intros Hnd. apply (Permutation_NoDup (Permutation_sym (ord_perm l))). exact Hnd. Qed.
  Lemma ord_In l x : In x (ord l) <-> In x l.
  Proof. split; apply Permutation_in; [apply ord_perm | apply Permutation_sym; apply ord_perm]. Qed.

  (* dfa_minimize succeeds and returns a quotient automaton of D by its MN partition *)
  Theorem dfa_minimize_quotient (D : dfa A) : dfa_wf D -> NoDup (dQ D) ->
    exists t D', table_fill D (ord (dQ D)) (table_fuel (ord (dQ D))) (table_init D (ord (dQ D))) = Some t /\
      dfa_minimize canon ord D = Some D' /\
      is_mn_partition D (classes_of t (ord (dQ D)) []) /\
      is_quotient_of canon D (classes_of t (ord (dQ D)) []) D' /\
      (forall k S1, In (k, S1) (dD D') -> In S1 (dQ D')) /\ NoDup (dQ D').
  Proof.
    intros Hwf Hnd. set (q := ord (dQ D)).
    assert (Hndq : NoDup q) by (apply ord_NoDup; exact Hnd).
    assert (Hq : forall x, In x q <-> In x (dQ D)) by (intros x; apply ord_In).
    destruct (table_fill D q (table_fuel q) (table_init D q)) as [t|] eqn:Ef;
      [|exfalso; exact (table_fill_terminates D q Hwf Hndq Hq Ef)].
    destruct (dfa_from_table_correct D q t Hwf Hndq Hq Ef) as [D' [E' Hrest]].
    exists t, D'. split; [reflexivity|]. split; [|exact Hrest].
    unfold dfa_minimize. fold q. rewrite Ef. exact E'.
  Qed.

  Theorem dfa_minimize_correct (D : dfa A) : dfa_wf D -> NoDup (dQ D) ->
    exists D', dfa_minimize canon ord D = Some D' /\
      dfa_wf D' /\ dS D' = dS D /\ NoDup (dQ D') /\
      (forall w, over D w -> (dfa_lang D' w <-> dfa_lang D w)) /\
      (forall S1 S2, In S1 (dQ D') -> In S2 (dQ D') -> S1 <> S2 ->
         exists w, over D w /\ ~ (In (drun D' S1 w) (dF D') <-> In (drun D' S2 w) (dF D'))) /\
      (forall q, In q (dQ D) -> exists S1, In S1 (dQ D') /\ In q S1) /\
      (forall S1 p q, In S1 (dQ D') -> In p S1 -> In q S1 -> mn_equiv D p q) /\
      (forall S1 S2 p q, In S1 (dQ D') -> In S2 (dQ D') -> In p S1 -> In q S2 -> mn_equiv D p q -> S1 = S2).
  Proof.
    intros Hwf Hnd. destruct (dfa_minimize_quotient D Hwf Hnd) as [t [D' [_ [E' [HP [HQ [Hrng HndQ]]]]]]].
    exists D'. split; [exact E'|].
    destruct (quotient_correct canon canon_In D _ D' Hwf HP HQ Hrng) as [H1 [H2 H3]].
    split; [exact H1|]. split; [exact H2|]. split; [exact HndQ | exact H3].
  Qed.

  (* if every state of D is reachable, the result has the fewest states among all DFAs for the language of D *)
  Theorem dfa_minimize_minimal {B : Type} `{Eqb B} (D : dfa A) (D' : dfa (list A)) (D2 : dfa B) :
    dfa_wf D -> NoDup (dQ D) -> dfa_minimize canon ord D = Some D' ->
    (forall q, In q (dQ D) -> exists w, over D w /\ drun D (dq0 D) w = q) ->
    dfa_wf D2 -> dS D2 = dS D -> (forall w, over D w -> (dfa_lang D w <-> dfa_lang D2 w)) ->
    length (dQ D') <= length (dQ D2).
  Proof.
    intros Hwf Hnd E' Hreach Hwf2 HS2 Hlang.
    destruct (dfa_minimize_quotient D Hwf Hnd) as [t [D1 [_ [E1 [HP [HQ [Hrng HndQ]]]]]]].
    rewrite E' in E1. inversion E1; subst D1.
    apply (quotient_minimal canon canon_In D _ D' D2 Hwf HP HQ Hrng HndQ Hreach Hwf2 HS2 Hlang).
  Qed.
End MinimizeCorrect.
