"""C04 - the three minimisers vs the proved models (Model/Minimize.v) and the property-level relation."""
import coqlit as L
import gen as G
import conv

COQ_IMPORTS = ['Decide.Moore', 'Judge.Extra_judge', 'Model.DFA', 'Model.NFA', 'Model.Minimize', 'Judge.C04_judge']
PDA_FREE = True      # no PDA is involved: the recycling pass runs with GambaTools.pda_epsilon_closure_max_iterations = 3
LOG_SAFE = True      # no printed output is read back: the recycling pass runs with GambaTools.enable_logging = True
EXTRA_JUDGES = ['Extra']
EXTRA_PROPERTIES = ['C04_oracle']      # Properties/C04_oracle.v: the Moore oracle used for the large DFAs is proved to decide Myhill-Nerode equivalence
RULE = ('all total DFAs with <=2 states x <=2 symbols and 3 states x 1 symbol (thorough: 4x1 and a 3x2 sample), random DFAs <=7 states x <=3 symbols incl. one-state, F empty, F = Q, unreachable states, '
        'duplicated (equivalent) states; dfa_minimize, dfa_quotient, dfa_hopfcroft (logging on for odd cases) under 4 (quick) / 16 (thorough) PYTHONHASHSEED values; input snapshot before/after. '
        'Relation: result valid, same alphabet, language-equivalent to the input (exact, verified dfa_equivb), pairwise distinguishable, state count between the MN class counts of reachable and of all states; '
        'structural layer: equal to the model result. Non-trivial = at least two states are merged and at least two classes remain; distinct by DFA text.')
RULE += ' Added after the seeded rounds: the same object minimised, modified in place and minimised again; unusual state names.'
RULE += (' Large DFAs (100-300 states; judged by the proved Moore oracle Decide/Moore.v instead of the models of the routines: result valid, same alphabet, same language, '
         'no two equivalent states, exactly moore_count D states): random DFAs, a hub whose class breaks into more than a hundred pieces in one refinement round, and a DFA with a class of 12-14 states '
         'that breaks into singletons at once and one state for every ordered pair of them (every pair of class numbers occurs as a successor signature).')
CODES = {10: 'dfa_minimize raised/timed out', 11: 'dfa_minimize result invalid or alphabet changed', 12: 'dfa_minimize result not language-equivalent', 13: 'dfa_minimize result has equivalent states', 14: 'dfa_minimize state count out of bounds',
         20: 'dfa_quotient raised/timed out', 21: 'dfa_quotient result invalid or alphabet changed', 22: 'dfa_quotient result not language-equivalent', 23: 'dfa_quotient result has equivalent states', 24: 'dfa_quotient state count out of bounds',
         30: 'dfa_hopfcroft raised/timed out', 31: 'dfa_hopfcroft result invalid or alphabet changed', 32: 'dfa_hopfcroft result not language-equivalent', 33: 'dfa_hopfcroft result has equivalent states', 34: 'dfa_hopfcroft state count out of bounds',
         40: 'the input DFA was modified', 8: 'internal: the three models disagree (machinery)', 9: 'generated DFA invalid (harness)', 1: 'structure differs from the model, property-level relation holds'}
ASSUMPTIONS = ['input DFA valid (total); state names contain no comma or brace so that print_state_set is injective']
RESIDUE = 'frozenset/set object identity and hashing; print_state_set naming (modelled by sorted lists)'


def hashseeds(tier):
    return [0, 1, 2, 3] if tier == 'quick' else list(range(16))


def hub_dfa(rng, k):
    """k 'target' chains t_i of different lengths (pairwise inequivalent: t_i accepts a^i-ish words) and a hub of k*k states h_ij with
    a -> t_i, b -> t_j: after the targets are separated the hub class breaks into k*k pieces in one round"""
    Q, delta, F = [], [], []
    # targets: t_i_0 -a-> t_i_1 -a-> ... -a-> t_i_i (accepting sink); b loops
    for i in range(k):
        for j in range(i + 1):
            q = 't%d_%d' % (i, j)
            Q.append(q)
            nxt = 't%d_%d' % (i, j + 1) if j < i else q
            delta.append([q, 'a', nxt])
            delta.append([q, 'b', q])
        F.append('t%d_%d' % (i, i))
    for i in range(k):
        for j in range(k):
            q = 'h%d_%d' % (i, j)
            Q.append(q)
            delta.append([q, 'a', 't%d_0' % i])
            delta.append([q, 'b', 't%d_0' % j])
    order = list(Q)
    rng.shuffle(order)
    return {'Q': order, 'Sigma': ['a', 'b'], 'delta': delta, 'q0': 'h0_0', 'F': F}


def shatter_dfa(rng, m=12, chain=False):
    """a class P of m accepting states that stays together for one round and then breaks into m classes at once (each p_i moves to a
    different pair of four anchor states), plus one state for every ordered pair (p_x, p_y): every pair of class indices occurs as a
    successor signature"""
    a, b = 'a', 'b'
    P = ['p%d' % i for i in range(m)]
    anchors = ['s0', 's1', 's2', 's3']
    delta = [['s0', a, 'p0'], ['s0', b, 'p0'], ['s1', a, 'p0'], ['s1', b, 's3'], ['s2', a, 's3'], ['s2', b, 'p0'], ['s3', a, 's3'], ['s3', b, 's3']]
    pairs = [(x, y) for x in anchors for y in anchors]
    rng.shuffle(pairs)
    for p, (x, y) in zip(P, pairs[:m]):
        delta += [[p, a, x], [p, b, y]]
    cand = []
    for x in range(m):
        for y in range(m):
            u = 'u_%d_%d' % (x, y)
            cand.append(u)
            delta += [[u, a, P[x]], [u, b, P[y]]]
    Q = P + anchors + cand
    q0 = 's0'
    if chain:
        ch = ['c%d' % k for k in range(len(cand))]
        for k, c in enumerate(ch):
            delta += [[c, a, ch[k + 1] if k + 1 < len(ch) else 's3'], [c, b, cand[k]]]
        Q += ch
        q0 = 'c0'
    order = list(Q)
    rng.shuffle(order)
    return {'Q': order, 'Sigma': [a, b], 'delta': delta, 'q0': q0, 'F': list(P)}


def gen(rng, tier):
    quick = tier == 'quick'
    ds = []
    for (n, s) in [(1, 'a'), (1, 'ab'), (2, 'a'), (2, 'ab'), (3, 'a')]:
        ds += G.all_dfas(n, s)
    if not quick:
        ds += G.all_dfas(4, 'a') + rng.sample(G.all_dfas(3, 'ab'), 2000)
    for _ in range(250 if quick else 4000):
        sigma = rng.choice(['a', 'ab', 'abc', 'ab', 'abcd', ''])
        d = G.random_dfa(rng, rng.randint(1, 7) if sigma else rng.randint(1, 3), sigma, pfinal=rng.choice([0.2, 0.5]))
        ds.append(d)
    # DFAs with many equivalent states: blow up a small DFA
    for _ in range(80 if quick else 1000):
        sigma = rng.choice(['a', 'ab'])
        base = G.random_dfa(rng, rng.randint(1, 3), sigma)
        copies = {q: [q + c for c in 'xyz'[:rng.randint(1, 3)]] for q in base['Q']}
        Q = [c for q in base['Q'] for c in copies[q]]
        delta = [[c, a, rng.choice(copies[t])] for (q, a, t) in base['delta'] for c in copies[q]]
        ds.append({'Q': Q, 'Sigma': list(sigma), 'delta': delta, 'q0': copies[base['q0']][0], 'F': [c for q in base['F'] for c in copies[q]]})
    ds = [G.retag(d, rng) if i % 6 == 2 and len(d['Q']) <= 6 else d for i, d in enumerate(ds)]
    for _ in range(60 if quick else 1000):
        d = G.random_dfa(rng, rng.randint(3, 5), rng.choice(['a', 'ab']), pfinal=0.5)
        a, b, c = rng.sample(d['Q'], 3)
        m = {q: q for q in d['Q']}
        m[c] = '{%s}' % ','.join(sorted([a, b]))            # e.g. the states q0, q1, q2 and a state named {q0,q1}
        if rng.random() < 0.4:                                # make a and b equivalent: same successors, same acceptance
            d['delta'] = [[q, s_, t] for q, s_, t in d['delta'] if q != b] + [[b, s_, t] for q, s_, t in d['delta'] if q == a]
            d['F'] = [q for q in d['F'] if q != b] + ([b] if a in d['F'] else [])
        ds.append({'Q': [m[q] for q in d['Q']], 'Sigma': d['Sigma'], 'delta': [[m[q], s_, m[t]] for q, s_, t in d['delta']], 'q0': m[d['q0']], 'F': [m[q] for q in d['F']]})
    # large DFAs judged through the fast proved Moore oracle (Decide/Moore.v) instead of the models of the three routines:
    # a hub of many states whose successors lie in more than a dozen already separated classes (a class that breaks into many
    # pieces in one refinement round), and plain random DFAs
    big = []
    # (thorough: every case is run under 16 hash seeds; the numbers are chosen so that one pass over these families stays near one minute)
    for _ in range(1):
        big.append(hub_dfa(rng, rng.randint(12, 14)))
    for i in range(1 if quick else 2):
        big.append(shatter_dfa(rng, rng.randint(12, 14), chain=not quick and i == 0))
    for _ in range(1):
        big.append(G.random_dfa(rng, rng.randint(100, 160), rng.choice(['ab', 'abc']), pfinal=0.5))
    # larger DFAs (36-44 states, three symbols): more than ten classes, classes that break into many pieces in one refinement round
    for _ in range(3 if quick else 4):
        ds.append(G.random_dfa(rng, rng.randint(36, 44), 'abc', pfinal=0.5))
    cases = [{'D': d, 'log': i % 2 == 1} for i, d in enumerate(ds)] + [{'D': d, 'log': False, 'big': True} for d in big]
    # the same object is minimised, modified in place (accepting set, transitions) and minimised again
    for i in range(100 if quick else 1500):
        sigma = rng.choice(['a', 'ab'])
        k = rng.randint(2, 5)
        d1, d2 = G.random_dfa(rng, k, sigma, pfinal=0.5), G.random_dfa(rng, k, sigma, pfinal=0.5)
        if rng.random() < 0.5:
            d2 = dict(d1, F=d2['F'])
        cases.append({'D': d1, 'log': False, 'then': {'D': d2, 'log': False}})
    return cases


def _out(r, ok):
    return conv.dfa_case(r[1]) if ok(r) else None


def _observe1(c, D):
    from gambatools.dfa_algorithms import dfa_minimize, dfa_quotient, dfa_hopfcroft
    from gambatools.global_settings import GambaTools
    from implutil import safe, ok, captured_stdout
    before = conv.dfa_case(D)
    o = {}
    tl = 120 if c.get('big') else 3.0
    o['min'] = _out(safe(dfa_minimize, D, timeout=tl), ok)
    o['quo'] = _out(safe(dfa_quotient, D, timeout=tl), ok)
    GambaTools.enable_logging = bool(c.get('log'))
    with captured_stdout():
        r = safe(dfa_hopfcroft, D, timeout=tl)
    GambaTools.enable_logging = False
    o['hop'] = _out(r, ok)
    o['unchanged'] = conv.dfa_case(D) == before
    return o


def observe(c):
    D = conv.dfa_obj(c['D'])
    o = _observe1(c, D)
    if c.get('then'):
        d2 = c['then']['D']
        D.delta.clear()
        D.delta.update({(q, a): t for q, a, t in d2['delta']})
        D.F.clear()
        D.F.update(d2['F'])
        o['then'] = _observe1(c['then'], D)
    return o


def _parse_set(name, st, idx):
    if name.startswith('{') and name.endswith('}'):
        inner = name[1:-1]
        parts = [p for p in inner.split(',') if p != ''] if inner else []
        if all(st.known(p) for p in parts):
            return sorted(st(p) for p in parts)
    return [100 + idx]


def _dfa_sets(d, st, sy):
    if d is None:
        return 'None'
    names = {q: _parse_set(q, st, i) for i, q in enumerate(d['Q'])}
    S = lambda q: L.nats(names[q])
    if not all(a in sy.m for a in d['Sigma']):
        for a in d['Sigma']:
            sy(a)
    delta = L.lst(L.pair(L.pair(S(q), L.nat(sy(a))), S(t)) for (q, a, t) in d['delta'])
    return '(Some (mkDFA %s %s %s %s %s))' % (L.lst(S(q) for q in d['Q']), L.nats(sy(a) for a in d['Sigma']), delta, S(d['q0']), L.lst(S(q) for q in d['F']))


def encode(c, o):
    if c.get('then'):
        return 'worst_code [%s; %s]' % (_encode1(c, o), _encode1(c['then'], o['then']))
    return _encode1(c, o)


def _encode1(c, o):
    if c.get('big'):
        d = c['D']
        st, sy = L.state_names(d), L.symbol_names(d)

        def plain(r):
            return 'None' if r is None else '(Some %s)' % L.dfa(r, L.state_names(r), sy)
        return 'judge_C04_big %s %s %s %s %s' % (L.dfa(d, st, sy), plain(o['min']), plain(o['quo']), plain(o['hop']), L.boolean(o['unchanged']))
    d = c['D']
    st, sy = L.state_names(d), L.symbol_names(d)
    return 'judge_C04 %s %s %s %s %s' % (L.dfa(d, st, sy), _dfa_sets(o['min'], st, sy), _dfa_sets(o['quo'], st, sy), _dfa_sets(o['hop'], st, sy), L.boolean(o['unchanged']))


def explain(c):
    d = c['D']
    if c.get('big'):
        return 'moore_count %s' % L.dfa(d, L.state_names(d), L.symbol_names(d))      # the number of Myhill-Nerode classes (Decide/Moore.v)
    return 'explain_C04 %s' % L.dfa(d, L.state_names(d), L.symbol_names(d))


def key(c):
    return conv.dfa_text(c['D']) + ('\n=then=>\n' + key(c['then']) if c.get('then') else '')


def nontrivial(c, o):
    r = o['quo']
    return r is not None and 2 <= len(r['Q']) < len(c['D']['Q'])


def describe(c):
    return {'dfa': conv.dfa_text(c['D']), 'logging': c.get('log', False)}


def reproduce(c):
    return 'from gambatools.dfa_algorithms import *; D = parse_dfa(%r); print(dfa_minimize(D)); print(dfa_quotient(D)); print(dfa_hopfcroft(D))' % conv.dfa_text(c['D'])


def signature(c, o, code):
    return 'C04:code%d:%s' % (code, key(c))


def distribution(cases, obs):
    d = {'states': {}, 'result_states': {}, 'merging': 0, 'F_empty': 0, 'F_full': 0}
    for c, o in zip(cases, obs):
        k = str(len(c['D']['Q']))
        d['states'][k] = d['states'].get(k, 0) + 1
        if o['quo']:
            r = str(len(o['quo']['Q']))
            d['result_states'][r] = d['result_states'].get(r, 0) + 1
            d['merging'] += 1 if len(o['quo']['Q']) < len(c['D']['Q']) else 0
        d['F_empty'] += 0 if c['D']['F'] else 1
        d['F_full'] += 1 if len(c['D']['F']) == len(c['D']['Q']) else 0
    return d


def shrink(c):
    out = []
    d = c['D']
    if c.get('big'):
        # large DFA (Moore oracle): drop blocks of states, transitions into a dropped state go to the initial state
        n = len(d['Q'])
        for size in (n // 2, n // 4, n // 8, 4, 1):
            if size < 1:
                continue
            for start in range(0, n, size):
                drop = set(d['Q'][start:start + size]) - {d['q0']}
                if not drop:
                    continue
                e = {'Q': [x for x in d['Q'] if x not in drop], 'Sigma': d['Sigma'], 'q0': d['q0'], 'F': [x for x in d['F'] if x not in drop],
                     'delta': [[p, a, (d['q0'] if t in drop else t)] for (p, a, t) in d['delta'] if p not in drop]}
                out.append({'D': e, 'log': False, 'big': len(e['Q']) > 30})
                if len(out) >= 40:
                    return out
        return out
    for q in d['Q']:
        if q == d['q0']:
            continue
        e = {'Q': [x for x in d['Q'] if x != q], 'Sigma': d['Sigma'], 'q0': d['q0'], 'F': [x for x in d['F'] if x != q],
             'delta': [[p, a, (d['q0'] if t == q else t)] for (p, a, t) in d['delta'] if p != q]}
        out.append({'D': e, 'log': False})
    if len(d['Sigma']) > 1:
        for a in d['Sigma']:
            out.append({'D': {'Q': d['Q'], 'Sigma': [x for x in d['Sigma'] if x != a], 'q0': d['q0'], 'F': d['F'], 'delta': [e for e in d['delta'] if e[1] != a]}, 'log': False})
    return out


LEVEL_TEXT = ('Coq theorems about the models of the three minimisers (for every iteration/pick order): the result is the quotient by Myhill-Nerode equivalence - valid, same alphabet, same language, '
              'pairwise distinguishable, state count = number of classes - plus a per-instance exact oracle (verified dfa_equivb, Moore refinement) applied to the implementation\'s output on every case.')
LEVEL_NOTE = 'Trusted: Coq kernel + vm_compute, models Model/Minimize.v (dfa_from_table as repaired by fix F2), harness (state-name parsing). No axioms. See evidence for statements still _partial.'
TECHNIQUE = 'Coq proof (partition-refinement invariants, Myhill-Nerode quotient) + verified equivalence oracle evaluated in Coq on implementation outputs'
