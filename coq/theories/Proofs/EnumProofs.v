(* Property C02 for DFAs and NFAs: the bounded enumerations dfa_words / nfa_words return exactly the accepted
   words over the alphabet of length at most n. *)
From GT Require Import Base.Prelude Base.Worklist Model.DFA Model.NFA Decide.DFAEquiv
  Proofs.WorklistProofs Proofs.NFAProofs Proofs.DFAEquivProofs.

Lemma snoc_case {X} (l : list X) n : length l = S n -> exists l' a, l = l' ++ [a] /\ length l' = n.
Proof.
  intros Hl. destruct l as [|x l] using rev_ind; [discriminate|].
  exists l, x. split; [reflexivity|]. rewrite app_length in Hl. cbn [length] in Hl. lia.
Qed.

(* ================================================================= DFA *)
Section DFAE.
  Context {A : Type} `{Eqb A}.
  Variable D : dfa A.
  Hypothesis Hwf : dfa_wf D.

  Let Hq0 : In (dq0 D) (dQ D).
  Proof. destruct Hwf as (Hq & _). exact Hq. Qed.

  Lemma dfa_run_drun : forall (w : word) q, In q (dQ D) -> Forall (fun a => In a (dS D)) w ->
    dfa_run D q w = Some (drun D q w).
  Proof.
    induction w as [|a w IH]; intros q Hq Hw; cbn [dfa_run drun]; [reflexivity|].
    inversion Hw as [|a' w' Ha Hw']; subst. rewrite (dstep_delta D q a Hwf Hq Ha).
    apply IH; [apply dstep_In; assumption | exact Hw'].
  Qed.

  Lemma dfa_accepts_drun (w : word) : Forall (fun a => In a (dS D)) w ->
    (dfa_accepts D w = Some true <-> In (drun D (dq0 D) w) (dF D)).
  Proof.
    intros Hw. unfold dfa_accepts. rewrite (dfa_run_drun w _ Hq0 Hw), <- mem_In. split.
    - intros E. inversion E as [E']. rewrite E'. reflexivity.
    - intros E. rewrite E. reflexivity.
  Qed.

  Lemma words_step_inner (qw : A * word) : In (fst qw) (dQ D) -> forall sig l, incl sig (dS D) ->
    exists l2,
      fold_right (fun a acc2 =>
          match acc2 with None => None | Some l2 =>
            match ddelta D (fst qw) a with None => None | Some q1 => Some ((q1, snd qw ++ [a]) :: l2) end end)
        (Some l) sig = Some l2 /\
      forall x, In x l2 <-> In x l \/ exists a, In a sig /\ x = (dstep D (fst qw) a, snd qw ++ [a]).
  Proof.
    intros Hq. induction sig as [|a sig IH]; intros l Hs; cbn [fold_right].
    - exists l. split; [reflexivity|]. intros x. split; [auto | intros [Hx|(a & [] & _)]; exact Hx].
    - destruct (IH l) as (l2 & E & Hl2); [intros b Hb; apply Hs; right; exact Hb|]. rewrite E.
      assert (Ha : In a (dS D)) by (apply Hs; left; reflexivity).
      rewrite (dstep_delta D _ a Hwf Hq Ha). eexists. split; [reflexivity|].
      intros x. cbn [In]. rewrite Hl2. split.
      + intros [<-|[Hx|(b & Hb & ->)]].
        * right. exists a. split; [left; reflexivity | reflexivity].
        * left. exact Hx.
        * right. exists b. split; [right; exact Hb | reflexivity].
      + intros [Hx|(b & [<-|Hb] & ->)].
        * right. left. exact Hx.
        * left. reflexivity.
        * right. right. exists b. split; [exact Hb | reflexivity].
  Qed.

  Lemma words_step_spec : forall W, (forall qw, In qw W -> In (fst qw) (dQ D)) ->
    exists W1, dfa_words_step D W = Some W1 /\
      forall x, In x W1 <-> exists qw a, In qw W /\ In a (dS D) /\ x = (dstep D (fst qw) a, snd qw ++ [a]).
  Proof.
    induction W as [|qw W IH]; intros HW.
    - exists []. split; [reflexivity|]. intros x. split; [intros [] | intros (qw & a & [] & _)].
    - destruct IH as (W1 & E1 & H1); [intros qw' Hqw'; apply HW; right; exact Hqw'|].
      unfold dfa_words_step in *. cbn [fold_right]. rewrite E1.
      destruct (words_step_inner qw (HW qw (or_introl eq_refl)) (dS D) W1 (incl_refl _)) as (l2 & E2 & H2).
      exists l2. split; [exact E2|]. intros x. rewrite H2, H1. split.
      + intros [(qw' & a & Hin & Ha & ->)|(a & Ha & ->)].
        * exists qw', a. split; [right; exact Hin | split; [exact Ha | reflexivity]].
        * exists qw, a. split; [left; reflexivity | split; [exact Ha | reflexivity]].
      + intros (qw' & a & [<-|Hin] & Ha & ->).
        * right. exists a. split; [exact Ha | reflexivity].
        * left. exists qw', a. split; [exact Hin | split; [exact Ha | reflexivity]].
  Qed.

  Definition front_ok (i : nat) (W : list (A * word)) : Prop :=
    forall q w, In (q, w) W <-> length w = i /\ Forall (fun a => In a (dS D)) w /\ q = drun D (dq0 D) w.

  Lemma front_step i W W1 : front_ok i W ->
    (forall x, In x W1 <-> exists qw a, In qw W /\ In a (dS D) /\ x = (dstep D (fst qw) a, snd qw ++ [a])) ->
    front_ok (S i) W1.
  Proof.
    intros HW H1 q1 w1. rewrite H1. split.
    - intros ([q w] & a & Hin & Ha & E). cbn [fst snd] in E. inversion E; subst q1 w1.
      apply HW in Hin. destruct Hin as (Hl & Hf & ->).
      split; [rewrite app_length; cbn [length]; lia|].
      split; [apply Forall_app; split; [exact Hf | constructor; [exact Ha | constructor]]|].
      rewrite drun_app. reflexivity.
    - intros (Hl & Hf & ->). destruct (snoc_case w1 _ Hl) as (w & a & -> & Hl').
      apply Forall_app in Hf. destruct Hf as [Hf Ha]. inversion Ha as [|a' l' Ha' _]; subst.
      exists (drun D (dq0 D) w, w), a. split; [apply HW; auto|]. split; [exact Ha'|].
      cbn [fst snd]. rewrite drun_app. reflexivity.
  Qed.

  Lemma dfa_words_loop_spec : forall n i W words, front_ok i W ->
    (forall w, In w words <-> length w <= i /\ Forall (fun a => In a (dS D)) w /\ In (drun D (dq0 D) w) (dF D)) ->
    exists L, dfa_words_loop D n W words = Some L /\
      forall w, In w L <-> length w <= i + n /\ Forall (fun a => In a (dS D)) w /\ In (drun D (dq0 D) w) (dF D).
  Proof.
    induction n as [|n IH]; intros i W words HW Hwords; cbn [dfa_words_loop].
    - exists words. split; [reflexivity|]. intros w. rewrite Hwords, Nat.add_0_r. tauto.
    - destruct (words_step_spec W) as (W1 & E1 & H1).
      { intros [q w] Hin. apply HW in Hin. destruct Hin as (_ & _ & ->). cbn [fst]. apply drun_In; assumption. }
      rewrite E1. pose proof (front_step _ _ _ HW H1) as HW1.
      destruct (IH (S i) W1 (words ++ map snd (filter (fun qw => mem (fst qw) (dF D)) W1)) HW1) as (L & EL & HL).
      + intros w. rewrite in_app_iff, Hwords, in_map_iff. split.
        * intros [(Hl & Hf & HF)|([q w'] & Ew & Hin)].
          -- split; [lia | split; assumption].
          -- cbn [snd] in Ew. subst w'. apply filter_In in Hin. destruct Hin as [Hin HF]. cbn [fst] in HF.
             apply mem_In in HF. apply HW1 in Hin. destruct Hin as (Hl & Hf & ->).
             split; [lia | split; assumption].
        * intros (Hl & Hf & HF). destruct (Nat.eq_dec (length w) (S i)) as [Hls|Hls].
          -- right. exists (drun D (dq0 D) w, w). split; [reflexivity|]. apply filter_In. split.
             ++ apply HW1. auto.
             ++ cbn [fst]. apply mem_In. exact HF.
          -- left. split; [lia | split; assumption].
      + exists L. split; [exact EL|]. intros w. rewrite HL. replace (S i + n) with (i + S n) by lia. tauto.
  Qed.

  Theorem dfa_words_drun n : exists L, dfa_words D n = Some L /\
    forall w, In w L <-> length w <= n /\ Forall (fun a => In a (dS D)) w /\ In (drun D (dq0 D) w) (dF D).
  Proof.
    unfold dfa_words. apply (dfa_words_loop_spec n 0).
    - intros q w. cbn [In]. split.
      + intros [E|[]]. inversion E; subst. split; [reflexivity | split; [constructor | reflexivity]].
      + intros (Hl & _ & ->). destruct w; [left; reflexivity | discriminate].
    - intros w. destruct (mem (dq0 D) (dF D)) eqn:Em; cbn [In].
      + apply mem_In in Em. split.
        * intros [<-|[]]. split; [cbn; lia | split; [constructor | exact Em]].
        * intros (Hl & _). destruct w; [left; reflexivity | cbn [length] in Hl; lia].
      + apply mem_nIn in Em. split; [intros []|]. intros (Hl & _ & HF).
        destruct w; [cbn [drun] in HF; contradiction | cbn [length] in Hl; lia].
  Qed.
End DFAE.

Theorem dfa_words_exact {A} `{Eqb A} (D : dfa A) n : dfa_wf D -> exists L, dfa_words D n = Some L /\
  forall w, In w L <-> length w <= n /\ Forall (fun a => In a (dS D)) w /\ dfa_accepts D w = Some true.
Proof.
  intros Hwf. destruct (dfa_words_drun D Hwf n) as (L & E & HL). exists L. split; [exact E|].
  intros w. rewrite HL. split.
  - intros (Hl & Hf & HF). split; [exact Hl|]. split; [exact Hf|]. apply (dfa_accepts_drun D Hwf w Hf). exact HF.
  - intros (Hl & Hf & HF). split; [exact Hl|]. split; [exact Hf|]. apply (dfa_accepts_drun D Hwf w Hf). exact HF.
Qed.

Theorem dfa_words_lang {A} `{Eqb A} (D : dfa A) n : dfa_wf D -> exists L, dfa_words D n = Some L /\
  forall w, In w L <-> length w <= n /\ Forall (fun a => In a (dS D)) w /\ dfa_lang D w.
Proof.
  intros Hwf. destruct (dfa_words_drun D Hwf n) as (L & E & HL). exists L. split; [exact E|].
  intros w. rewrite HL. split.
  - intros (Hl & Hf & HF). split; [exact Hl|]. split; [exact Hf|]. apply (dfa_lang_drun D w Hwf Hf). exact HF.
  - intros (Hl & Hf & HF). split; [exact Hl|]. split; [exact Hf|]. apply (dfa_lang_drun D w Hwf Hf). exact HF.
Qed.

(* ================================================================= NFA *)
(* a fold that only ever adds to the meaning of its accumulator *)
Lemma fold_sem {Acc I X} (sem : Acc -> X -> Prop) (f : Acc -> I -> Acc) (G : I -> X -> Prop) :
  (forall acc i x, sem (f acc i) x <-> sem acc x \/ G i x) ->
  forall l acc x, sem (fold_left f l acc) x <-> sem acc x \/ exists i, In i l /\ G i x.
Proof.
  intros Hstep. induction l as [|i l IH]; intros acc x; cbn [fold_left].
  - split; [auto | intros [Hx|(i & [] & _)]; exact Hx].
  - rewrite IH, Hstep. split.
    + intros [[Hx|Hx]|(j & Hj & Hx)]; [left; exact Hx | right; exists i; split; [left; reflexivity | exact Hx] |
                                       right; exists j; split; [right; exact Hj | exact Hx]].
    + intros [Hx|(j & [<-|Hj] & Hx)]; [left; left; exact Hx | left; right; exact Hx | right; exists j; split; assumption].
Qed.

Section NFAE.
  Context {A : Type} `{Eqb A}.

  (* meaning of the frontier map: the pairs (state, word) it holds *)
  Definition WIn (W : wmap) (q : A) (w : word) : Prop := exists ws, In (q, ws) W /\ In w ws.

  Lemma update_union_WIn (q1 : A) (ws : list word) : forall (W : wmap) old, lookup q1 W = Some old ->
    forall q w, WIn (update q1 (union old ws) W) q w <-> WIn W q w \/ (q = q1 /\ In w ws).
  Proof.
    induction W as [|[k v] W IH]; intros old El q w; cbn [lookup update] in *; [discriminate|].
    destruct (eqb q1 k) eqn:Ek.
    - apply eqb_true in Ek. subst k. inversion El; subst old. unfold WIn. split.
      + intros (ws0 & [E|Hin] & Hw).
        * inversion E; subst q ws0. apply union_In in Hw. destruct Hw as [Hw|Hw]; [|right; split; [reflexivity | exact Hw]].
          left. exists v. split; [left; reflexivity | exact Hw].
        * left. exists ws0. split; [right; exact Hin | exact Hw].
      + intros [(ws0 & [E|Hin] & Hw)|[-> Hw]].
        * inversion E; subst q ws0. exists (union v ws). split; [left; reflexivity | apply union_In; left; exact Hw].
        * exists ws0. split; [right; exact Hin | exact Hw].
        * exists (union v ws). split; [left; reflexivity | apply union_In; right; exact Hw].
    - specialize (IH old El q w). unfold WIn in *. split.
      + intros (ws0 & [E|Hin] & Hw).
        * left. exists ws0. split; [left; exact E | exact Hw].
        * destruct (proj1 IH (ex_intro _ ws0 (conj Hin Hw))) as [(ws1 & Hin1 & Hw1)|Hr]; [|right; exact Hr].
          left. exists ws1. split; [right; exact Hin1 | exact Hw1].
      + intros [(ws0 & [E|Hin] & Hw)|Hr].
        * exists ws0. split; [left; exact E | exact Hw].
        * destruct (proj2 IH (or_introl (ex_intro _ ws0 (conj Hin Hw)))) as (ws1 & Hin1 & Hw1).
          exists ws1. split; [right; exact Hin1 | exact Hw1].
        * destruct (proj2 IH (or_intror Hr)) as (ws1 & Hin1 & Hw1).
          exists ws1. split; [right; exact Hin1 | exact Hw1].
  Qed.

  Lemma wmap_add_WIn (q1 : A) (ws : list word) (W : wmap) q w :
    WIn (wmap_add q1 ws W) q w <-> WIn W q w \/ (q = q1 /\ In w ws).
  Proof.
    unfold wmap_add. destruct (lookup q1 W) as [old|] eqn:El; [apply update_union_WIn; exact El|].
    unfold WIn. split.
    - intros (ws0 & Hin & Hw). apply in_app_or in Hin. destruct Hin as [Hin|[E|[]]].
      + left. exists ws0. split; assumption.
      + inversion E; subst q ws0. right. split; [reflexivity | apply dedup_In; exact Hw].
    - intros [(ws0 & Hin & Hw)|[-> Hw]].
      + exists ws0. split; [apply in_or_app; left; exact Hin | exact Hw].
      + exists (dedup ws). split; [apply in_or_app; right; left; reflexivity | apply dedup_In; exact Hw].
  Qed.

  (* meaning of the accumulator (frontier map, result): tagged elements *)
  Definition sem (acc : wmap * list word) (x : option A * word) : Prop :=
    match fst x with Some q => WIn (fst acc) q (snd x) | None => In (snd x) (snd acc) end.

  Definition Ginner (F1 : list A) (a : nat) (ws : list word) (q1 : A) (x : option A * word) : Prop :=
    match fst x with Some q => q = q1 | None => In q1 F1 end /\ In (snd x) (map (fun wd => wd ++ [a]) ws).

  Lemma inner_step (F1 : list A) (a : nat) (ws : list word) (acc3 : wmap * list word) (q1 : A) x :
    sem (let words_q1 := map (fun wd => wd ++ [a]) ws in
         (wmap_add q1 words_q1 (fst acc3), if mem q1 F1 then union (snd acc3) words_q1 else snd acc3)) x <->
    sem acc3 x \/ Ginner F1 a ws q1 x.
  Proof.
    destruct x as [[q|] w]; unfold sem, Ginner; cbn [fst snd].
    - apply wmap_add_WIn.
    - destruct (mem q1 F1) eqn:Em.
      + apply mem_In in Em. rewrite union_In. tauto.
      + apply mem_nIn in Em. tauto.
  Qed.

  Lemma round_sem (N : nfa A) Eqa F1 (W : wmap) result x :
    sem (nfa_words_round N Eqa F1 W result) x <->
    sem ([], result) x \/
    exists qws, In qws W /\ exists a, In a (nS N) /\ exists q1, In q1 (Eqa_get Eqa (fst qws) a) /\ Ginner F1 a (snd qws) q1 x.
  Proof.
    unfold nfa_words_round, wmap, word in *.
    apply (fold_sem sem) with
      (G := fun qws x => exists a, In a (nS N) /\ exists q1, In q1 (Eqa_get Eqa (fst qws) a) /\ Ginner F1 a (snd qws) q1 x).
    intros acc qws x1.
    apply (fold_sem sem) with
      (G := fun a x => exists q1, In q1 (Eqa_get Eqa (fst qws) a) /\ Ginner F1 a (snd qws) q1 x).
    intros acc2 a x2. unfold Eqa_get. unfold wmap, word in *. destruct (lookup (fst qws, a) Eqa) as [targets|].
    - apply (fold_sem sem) with (G := Ginner F1 a (snd qws)). intros acc3 q1 x3. apply inner_step.
    - split; [auto | intros [Hx|(q1 & [] & _)]; exact Hx].
  Qed.

  Lemma round_W (N : nfa A) Eqa F1 (W : wmap) result q1 w1 :
    WIn (fst (nfa_words_round N Eqa F1 W result)) q1 w1 <->
    exists q w a, WIn W q w /\ In a (nS N) /\ In q1 (Eqa_get Eqa q a) /\ w1 = w ++ [a].
  Proof.
    pose proof (round_sem N Eqa F1 W result (Some q1, w1)) as Hs. unfold sem, Ginner in Hs. cbn [fst snd] in Hs.
    rewrite Hs. split.
    - intros [(ws & [] & _)|([q ws] & Hin & a & Ha & q1' & Hq1 & -> & Hw)]. cbn [fst snd] in *.
      apply in_map_iff in Hw. destruct Hw as (w & <- & Hw). exists q, w, a.
      split; [exists ws; split; assumption|]. auto.
    - intros (q & w & a & (ws & Hin & Hw) & Ha & Hq1 & ->). right. exists (q, ws). split; [exact Hin|].
      exists a. split; [exact Ha|]. exists q1. cbn [fst snd]. split; [exact Hq1|]. split; [reflexivity|].
      apply in_map_iff. exists w. split; [reflexivity | exact Hw].
  Qed.

  Lemma round_R (N : nfa A) Eqa F1 (W : wmap) result w1 :
    In w1 (snd (nfa_words_round N Eqa F1 W result)) <->
    In w1 result \/ exists q w a q1, WIn W q w /\ In a (nS N) /\ In q1 (Eqa_get Eqa q a) /\ In q1 F1 /\ w1 = w ++ [a].
  Proof.
    pose proof (round_sem N Eqa F1 W result (None, w1)) as Hs. unfold sem, Ginner in Hs. cbn [fst snd] in Hs.
    rewrite Hs. split.
    - intros [Hr|([q ws] & Hin & a & Ha & q1 & Hq1 & HF & Hw)]; [left; exact Hr|]. cbn [fst snd] in *.
      apply in_map_iff in Hw. destruct Hw as (w & <- & Hw). right. exists q, w, a, q1.
      split; [exists ws; split; assumption|]. auto.
    - intros [Hr|(q & w & a & q1 & (ws & Hin & Hw) & Ha & Hq1 & HF & ->)]; [left; exact Hr|].
      right. exists (q, ws). split; [exact Hin|].
      exists a. split; [exact Ha|]. exists q1. cbn [fst snd]. split; [exact Hq1|]. split; [exact HF|].
      apply in_map_iff. exists w. split; [reflexivity | exact Hw].
  Qed.

  (* ---- paths ---- *)
  Lemma eps_star_nfa_path (N : nfa A) q p : eps_star N q p -> nfa_path N q [] p.
  Proof.
    intros Hs. induction Hs as [q|q q1 q2 Hin Hs IH]; [apply np_nil | eapply np_eps; eassumption].
  Qed.

  Lemma nfa_path_eps_end (N : nfa A) q (w : word) q1 p : nfa_path N q w q1 -> eps_star N q1 p -> nfa_path N q w p.
  Proof.
    intros Hp. induction Hp as [q|q q1 w q2 Hin Hp IH|q a q1 w q2 Hin Hp IH]; intros Hs.
    - apply eps_star_nfa_path. exact Hs.
    - eapply np_eps; [exact Hin | apply IH; exact Hs].
    - eapply np_sym; [exact Hin | apply IH; exact Hs].
  Qed.

  Lemma nfa_path_nil (N : nfa A) q p : nfa_path N q [] p <-> eps_star N q p.
  Proof.
    split; [|apply eps_star_nfa_path]. intros Hp. apply nfa_path_spath in Hp.
    destruct Hp as (p' & Hs & Hsp). cbn [spath] in Hsp. subst p'. exact Hs.
  Qed.

  Section Fixed.
    Variable N : nfa A.
    Hypothesis Hwf : nfa_wf N.
    Variable Eqa : list ((A * nat) * list A).
    Hypothesis HEqa : nfa_Eqa N = Some Eqa.

    Let Hq0 : In (nq0 N) (nQ N).
    Proof. destruct Hwf as (Hq & _). exact Hq. Qed.

    Lemma Eqa_get_spec q a p : In p (Eqa_get Eqa q a) <-> exists q1, In q1 (ndelta N q a) /\ eps_star N q1 p.
    Proof.
      destruct (nfa_cache_correct N Hwf) as [_ (Eqa' & E' & HE)]. rewrite HEqa in E'. inversion E'; subst Eqa'. apply HE.
    Qed.

    Lemma nfa_path_snoc (w : word) a q1 :
      nfa_path N (nq0 N) (w ++ [a]) q1 <-> exists q, nfa_path N (nq0 N) w q /\ In q1 (Eqa_get Eqa q a).
    Proof.
      destruct (nfa_Eq_spec N (nq0 N) Hwf Hq0) as [ES0 _].
      rewrite <- (nfa_run_spec N Eqa _ Hwf HEqa ES0), fold_left_app. cbn [fold_left]. rewrite nfa_step_set_In.
      split; intros (q & Hq & Hq1); exists q; (split; [|exact Hq1]); apply (nfa_run_spec N Eqa _ Hwf HEqa ES0); exact Hq.
    Qed.

    Lemma F1_spec q : In q (nfa_F1 N) <-> In q (nQ N) /\ exists p, eps_star N q p /\ In p (nF N).
    Proof.
      unfold nfa_F1. rewrite filter_In. split.
      - intros [Hq Hm]. split; [exact Hq|]. destruct (nfa_Eq_spec N q Hwf Hq) as [E Hs]. rewrite E in Hm.
        apply meetsb_spec in Hm. destruct Hm as (p & Hp & HF). exists p. split; [apply Hs; exact Hp | exact HF].
      - intros [Hq (p & Hp & HF)]. split; [exact Hq|]. destruct (nfa_Eq_spec N q Hwf Hq) as [E Hs]. rewrite E.
        apply meetsb_spec. exists p. split; [apply Hs; exact Hp | exact HF].
    Qed.

    Definition wfront_ok (i : nat) (W : wmap) : Prop :=
      forall q w, WIn W q w <-> length w = i /\ Forall (fun a => In a (nS N)) w /\ nfa_path N (nq0 N) w q.
    Definition result_ok (i : nat) (result : list word) : Prop :=
      forall w, In w result <-> length w <= i /\ Forall (fun a => In a (nS N)) w /\ nfa_lang N w.

    Lemma wfront_step i W result : wfront_ok i W -> wfront_ok (S i) (fst (nfa_words_round N Eqa (nfa_F1 N) W result)).
    Proof.
      intros HW q1 w1. rewrite round_W. split.
      - intros (q & w & a & Hin & Ha & Hq1 & ->). apply HW in Hin. destruct Hin as (Hl & Hf & Hp).
        split; [rewrite app_length; cbn [length]; lia|].
        split; [apply Forall_app; split; [exact Hf | constructor; [exact Ha | constructor]]|].
        apply nfa_path_snoc. exists q. split; assumption.
      - intros (Hl & Hf & Hp). destruct (snoc_case w1 _ Hl) as (w & a & -> & Hl').
        apply Forall_app in Hf. destruct Hf as [Hf Ha]. inversion Ha as [|a' l' Ha' _]; subst.
        apply nfa_path_snoc in Hp. destruct Hp as (q & Hp & Hq1).
        exists q, w, a. split; [apply HW; auto|]. auto.
    Qed.

    Lemma result_step i W result : wfront_ok i W -> result_ok i result ->
      result_ok (S i) (snd (nfa_words_round N Eqa (nfa_F1 N) W result)).
    Proof.
      intros HW HR w1. rewrite round_R. split.
      - intros [Hr|(q & w & a & q1 & Hin & Ha & Hq1 & HF & ->)].
        + apply HR in Hr. destruct Hr as (Hl & Hf & HL). split; [lia | split; assumption].
        + apply HW in Hin. destruct Hin as (Hl & Hf & Hp).
          split; [rewrite app_length; cbn [length]; lia|].
          split; [apply Forall_app; split; [exact Hf | constructor; [exact Ha | constructor]]|].
          apply F1_spec in HF. destruct HF as [_ (p & Hs & HF)]. exists p. split; [|exact HF].
          apply nfa_path_eps_end with q1; [|exact Hs]. apply nfa_path_snoc. exists q. split; assumption.
      - intros (Hl & Hf & HL). destruct (Nat.eq_dec (length w1) (S i)) as [Hls|Hls].
        + right. destruct (snoc_case w1 _ Hls) as (w & a & -> & Hl').
          apply Forall_app in Hf. destruct Hf as [Hf Ha]. inversion Ha as [|a' l' Ha' _]; subst.
          destruct HL as (qf & Hp & HF). apply nfa_path_snoc in Hp. destruct Hp as (q & Hp & Hq1).
          exists q, w, a, qf. split; [apply HW; auto|]. split; [exact Ha'|]. split; [exact Hq1|]. split; [|reflexivity].
          apply F1_spec. split; [destruct Hwf as (_ & HFQ & _); apply HFQ; exact HF|].
          exists qf. split; [apply es_refl | exact HF].
        + left. apply HR. split; [lia | split; assumption].
    Qed.

    Lemma nfa_words_loop_spec : forall n i W result, wfront_ok i W -> result_ok i result ->
      result_ok (i + n) (nfa_words_loop N Eqa (nfa_F1 N) n W result).
    Proof.
      induction n as [|n IH]; intros i W result HW HR; cbn [nfa_words_loop].
      - rewrite Nat.add_0_r. exact HR.
      - pose proof (wfront_step _ _ result HW) as HW1. pose proof (result_step _ _ _ HW HR) as HR1.
        destruct (nfa_words_round N Eqa (nfa_F1 N) W result) as [W1 r1]. cbn [fst snd] in HW1, HR1.
        replace (i + S n) with (S i + n) by lia. apply IH; assumption.
    Qed.

    Lemma wfront_init : wfront_ok 0 (map (fun q => (q, [[]])) (eclose N [nq0 N])).
    Proof.
      destruct (nfa_Eq_spec N (nq0 N) Hwf Hq0) as [_ HS0].
      intros q w. unfold WIn. split.
      - intros (ws & Hin & Hw). apply in_map_iff in Hin. destruct Hin as (q' & E & Hq'). inversion E; subst q' ws.
        destruct Hw as [<-|[]]. split; [reflexivity|]. split; [constructor|]. apply nfa_path_nil, HS0. exact Hq'.
      - intros (Hl & _ & Hp). destruct w; [|discriminate]. exists [[]]. split; [|left; reflexivity].
        apply in_map_iff. exists q. split; [reflexivity|]. apply HS0, nfa_path_nil. exact Hp.
    Qed.

    Lemma result_init : result_ok 0 (if mem (nq0 N) (nfa_F1 N) then [[]] else []).
    Proof.
      assert (HL : In (nq0 N) (nfa_F1 N) <-> nfa_lang N []).
      { rewrite F1_spec. unfold nfa_lang. split.
        - intros [_ (p & Hs & HF)]. exists p. split; [apply nfa_path_nil; exact Hs | exact HF].
        - intros (p & Hp & HF). split; [exact Hq0|]. exists p. split; [apply nfa_path_nil; exact Hp | exact HF]. }
      intros w. destruct (mem (nq0 N) (nfa_F1 N)) eqn:Em; cbn [In].
      - apply mem_In in Em. split.
        + intros [<-|[]]. split; [cbn; lia | split; [constructor | apply HL; exact Em]].
        + intros (Hl & _). destruct w; [left; reflexivity | cbn [length] in Hl; lia].
      - apply mem_nIn in Em. split; [intros []|]. intros (Hl & _ & HLw).
        destruct w; [apply Em, HL; exact HLw | cbn [length] in Hl; lia].
    Qed.
  End Fixed.

  Theorem nfa_words_lang (N : nfa A) n : nfa_wf N -> exists L, nfa_words N n = Some L /\
    forall w, In w L <-> length w <= n /\ Forall (fun a => In a (nS N)) w /\ nfa_lang N w.
  Proof.
    intros Hwf. destruct (nfa_cache_correct N Hwf) as [_ (Eqa & E & _)].
    assert (Hq0 : In (nq0 N) (nQ N)) by (destruct Hwf as (Hq & _); exact Hq).
    destruct (nfa_Eq_spec N (nq0 N) Hwf Hq0) as [ES0 _].
    unfold nfa_words. rewrite E, ES0. eexists. split; [reflexivity|].
    apply (nfa_words_loop_spec N Hwf Eqa E n 0).
    - apply wfront_init; assumption.
    - apply result_init; assumption.
  Qed.

  Theorem nfa_words_exact (N : nfa A) n : nfa_wf N -> exists L, nfa_words N n = Some L /\
    forall w, In w L <-> length w <= n /\ Forall (fun a => In a (nS N)) w /\ nfa_accepts N w = Some true.
  Proof.
    intros Hwf. destruct (nfa_words_lang N n Hwf) as (L & E & HL). exists L. split; [exact E|].
    intros w. rewrite HL. split.
    - intros (Hl & Hf & HLw). split; [exact Hl|]. split; [exact Hf|].
      destruct (nfa_accepts_correct N w Hwf Hf) as (b & Eb & Hb). rewrite Eb. f_equal. apply Hb. exact HLw.
    - intros (Hl & Hf & Ea). split; [exact Hl|]. split; [exact Hf|].
      destruct (nfa_accepts_correct N w Hwf Hf) as (b & Eb & Hb). rewrite Eb in Ea. inversion Ea; subst b.
      apply Hb. reflexivity.
  Qed.
End NFAE.

Print Assumptions dfa_words_exact.
Print Assumptions dfa_words_lang.
Print Assumptions nfa_words_exact.
Print Assumptions nfa_words_lang.
