(* placeholder *)
From GT Require Import Base.Prelude Model.Checkers.
